// unit int_ops_sign: the sign arms of IBig + - * : macro arms impl_ibig_add, impl_ibig_sub (integer/src/add_ops.rs) and
// impl_ibig_mul (integer/src/mul_ops.rs), rule E3, each instantiated for the four (owned | borrowed) magnitude
// combinations the forwarding macros of helper_macros.rs supply (C01).  The magnitude operations `.add`, `.sub_signed`,
// `.mul` are the hoisted dispatch methods PROVED in units int_add_ops, int_add_ops_signed, int_mul_ops (//@@ SIG from the
// same annotated copies); the trait impls below only forward to them (rule D2 link, verified: add_req/add_spec restate
// the contract and the body must satisfy them).  Sign * Sign is the real function of base/src/sign.rs.
#![allow(unused_imports, unused_variables, dead_code, non_snake_case, unused_mut, unused_parens, unused_braces)]
use vstd::prelude::*;
verus! {
//@@ INCLUDE lib/prelude.rs
//@@ INCLUDE lib/sign.rs
//@@ INCLUDE lib/repr_stubs.rs
//@@ INCLUDE lib/dispatch_lemmas.rs
use core::ops::{Add, Mul};
use vstd::std_specs::ops::*;
pub open spec fn sign_mul(a: Sign, b: Sign) -> Sign { if a == b { Sign::Positive } else { Sign::Negative } }
/// signed value of a sign-magnitude pair
pub open spec fn sv(s: Sign, m: int) -> int { match s { Sign::Positive => m, Sign::Negative => -m } }
impl MulSpecImpl<Sign> for Sign {
    open spec fn obeys_mul_spec() -> bool { true }
    open spec fn mul_req(self, rhs: Sign) -> bool { true }
    open spec fn mul_spec(self, rhs: Sign) -> Sign { sign_mul(self, rhs) }
}
impl Mul<Sign> for Sign { type Output = Sign;
    fn mul(self, rhs: Sign) -> Sign { Sign::mul(self, rhs) }
}
impl Sign {
//@@ FN rational/sign/base_sign_mul.rs
}
pub proof fn lemma_sv_mul(s0: Sign, s1: Sign, a: int, b: int)
    requires a >= 0, b >= 0,
    ensures a * b >= 0, sv(sign_mul(s0, s1), a * b) == sv(s0, a) * sv(s1, b),
{
    assert(a * b >= 0) by (nonlinear_arith) requires a >= 0, b >= 0;
    assert((-a) * b == -(a * b)) by (nonlinear_arith);
    assert(a * (-b) == -(a * b)) by (nonlinear_arith);
    assert((-a) * (-b) == a * b) by (nonlinear_arith);
}
impl TypedRepr {
    pub proof fn lemma_nonneg(self) requires self.wf() ensures self.v() >= 0 { lemma_typed_range(self); }
}
impl<'a> TypedReprRef<'a> {
    pub proof fn lemma_nonneg(self) requires self.wf() ensures self.v() >= 0 { lemma_typedref_range(self); }
}
// integer/src/ibig.rs: `pub struct IBig(pub(crate) Repr)` (mirrored)
pub struct IBig(pub Repr);
// integer/src/add_ops.rs:323-326 `trait SubSigned<Rhs> { type Output; fn sub_signed(self, rhs: Rhs) -> Self::Output; }`
// (mirrored; the spec functions carry the contract of each impl)
pub trait SubSigned<Rhs> {
    type Output;
    spec fn sub_signed_req(self, rhs: Rhs) -> bool;
    spec fn sub_signed_post(self, rhs: Rhs, r: Self::Output) -> bool;
    fn sub_signed(self, rhs: Rhs) -> (r: Self::Output)
        requires self.sub_signed_req(rhs) ensures self.sub_signed_post(rhs, r);
}
// contracts proved in units int_add_ops / int_add_ops_signed / int_mul_ops
//@@ SIG integer/add_ops/typed_add_vv.rs
//@@ SIG integer/add_ops/typed_add_vr.rs
//@@ SIG integer/add_ops/typed_add_rv.rs
//@@ SIG integer/add_ops/typed_add_rr.rs
//@@ SIG integer/add_ops/typed_sub_signed_vv.rs
//@@ SIG integer/add_ops/typed_sub_signed_vr.rs
//@@ SIG integer/add_ops/typed_sub_signed_rv.rs
//@@ SIG integer/add_ops/typed_sub_signed_rr.rs
//@@ SIG integer/mul_ops/typed_mul_vv.rs
//@@ SIG integer/mul_ops/typed_mul_vr.rs
//@@ SIG integer/mul_ops/typed_mul_rv.rs
//@@ SIG integer/mul_ops/typed_mul_rr.rs
impl AddSpecImpl<TypedRepr> for TypedRepr {
    open spec fn obeys_add_spec() -> bool { true }
    open spec fn add_req(self, rhs: TypedRepr) -> bool { self.wf() && rhs.wf() && self.nwords() < max_capacity() && rhs.nwords() < max_capacity() }
    open spec fn add_spec(self, rhs: TypedRepr) -> Repr { repr_of(self.v() + rhs.v()) }
}
impl Add<TypedRepr> for TypedRepr { type Output = Repr;
    fn add(self, rhs: TypedRepr) -> Repr {
        let ghost a = self.v(); let ghost b = rhs.v();
        let r = typed_add_vv(self, rhs);
        proof { ax_repr_ext(r, repr_of(a + b)); }
        r
    }
}
impl MulSpecImpl<TypedRepr> for TypedRepr {
    open spec fn obeys_mul_spec() -> bool { true }
    open spec fn mul_req(self, rhs: TypedRepr) -> bool { self.wf() && rhs.wf() && self.nwords() + rhs.nwords() <= max_capacity() }
    open spec fn mul_spec(self, rhs: TypedRepr) -> Repr { repr_of(self.v() * rhs.v()) }
}
impl Mul<TypedRepr> for TypedRepr { type Output = Repr;
    fn mul(self, rhs: TypedRepr) -> Repr {
        let ghost a = self.v(); let ghost b = rhs.v();
        let r = typed_mul_vv(self, rhs);
        proof { ax_repr_ext(r, repr_of(a * b)); }
        r
    }
}
impl SubSigned<TypedRepr> for TypedRepr { type Output = Repr;
    open spec fn sub_signed_req(self, rhs: TypedRepr) -> bool { self.wf() && rhs.wf() }
    open spec fn sub_signed_post(self, rhs: TypedRepr, r: Repr) -> bool { r.v() == self.v() - rhs.v() }
    fn sub_signed(self, rhs: TypedRepr) -> Repr { typed_sub_signed_vv(self, rhs) }
}
impl<'b> AddSpecImpl<TypedReprRef<'b>> for TypedRepr {
    open spec fn obeys_add_spec() -> bool { true }
    open spec fn add_req(self, rhs: TypedReprRef<'b>) -> bool { self.wf() && rhs.wf() && self.nwords() < max_capacity() && rhs.nwords() < max_capacity() }
    open spec fn add_spec(self, rhs: TypedReprRef<'b>) -> Repr { repr_of(self.v() + rhs.v()) }
}
impl<'b> Add<TypedReprRef<'b>> for TypedRepr { type Output = Repr;
    fn add(self, rhs: TypedReprRef<'b>) -> Repr {
        let ghost a = self.v(); let ghost b = rhs.v();
        let r = typed_add_vr(self, rhs);
        proof { ax_repr_ext(r, repr_of(a + b)); }
        r
    }
}
impl<'b> MulSpecImpl<TypedReprRef<'b>> for TypedRepr {
    open spec fn obeys_mul_spec() -> bool { true }
    open spec fn mul_req(self, rhs: TypedReprRef<'b>) -> bool { self.wf() && rhs.wf() && self.nwords() + rhs.nwords() <= max_capacity() }
    open spec fn mul_spec(self, rhs: TypedReprRef<'b>) -> Repr { repr_of(self.v() * rhs.v()) }
}
impl<'b> Mul<TypedReprRef<'b>> for TypedRepr { type Output = Repr;
    fn mul(self, rhs: TypedReprRef<'b>) -> Repr {
        let ghost a = self.v(); let ghost b = rhs.v();
        let r = typed_mul_vr(self, rhs);
        proof { ax_repr_ext(r, repr_of(a * b)); }
        r
    }
}
impl<'b> SubSigned<TypedReprRef<'b>> for TypedRepr { type Output = Repr;
    open spec fn sub_signed_req(self, rhs: TypedReprRef<'b>) -> bool { self.wf() && rhs.wf() }
    open spec fn sub_signed_post(self, rhs: TypedReprRef<'b>, r: Repr) -> bool { r.v() == self.v() - rhs.v() }
    fn sub_signed(self, rhs: TypedReprRef<'b>) -> Repr { typed_sub_signed_vr(self, rhs) }
}
impl<'a> AddSpecImpl<TypedRepr> for TypedReprRef<'a> {
    open spec fn obeys_add_spec() -> bool { true }
    open spec fn add_req(self, rhs: TypedRepr) -> bool { self.wf() && rhs.wf() && self.nwords() < max_capacity() && rhs.nwords() < max_capacity() }
    open spec fn add_spec(self, rhs: TypedRepr) -> Repr { repr_of(self.v() + rhs.v()) }
}
impl<'a> Add<TypedRepr> for TypedReprRef<'a> { type Output = Repr;
    fn add(self, rhs: TypedRepr) -> Repr {
        let ghost a = self.v(); let ghost b = rhs.v();
        let r = typed_add_rv(self, rhs);
        proof { ax_repr_ext(r, repr_of(a + b)); }
        r
    }
}
impl<'a> MulSpecImpl<TypedRepr> for TypedReprRef<'a> {
    open spec fn obeys_mul_spec() -> bool { true }
    open spec fn mul_req(self, rhs: TypedRepr) -> bool { self.wf() && rhs.wf() && self.nwords() + rhs.nwords() <= max_capacity() }
    open spec fn mul_spec(self, rhs: TypedRepr) -> Repr { repr_of(self.v() * rhs.v()) }
}
impl<'a> Mul<TypedRepr> for TypedReprRef<'a> { type Output = Repr;
    fn mul(self, rhs: TypedRepr) -> Repr {
        let ghost a = self.v(); let ghost b = rhs.v();
        let r = typed_mul_rv(self, rhs);
        proof { ax_repr_ext(r, repr_of(a * b)); }
        r
    }
}
impl<'a> SubSigned<TypedRepr> for TypedReprRef<'a> { type Output = Repr;
    open spec fn sub_signed_req(self, rhs: TypedRepr) -> bool { self.wf() && rhs.wf() }
    open spec fn sub_signed_post(self, rhs: TypedRepr, r: Repr) -> bool { r.v() == self.v() - rhs.v() }
    fn sub_signed(self, rhs: TypedRepr) -> Repr { typed_sub_signed_rv(self, rhs) }
}
impl<'a, 'b> AddSpecImpl<TypedReprRef<'b>> for TypedReprRef<'a> {
    open spec fn obeys_add_spec() -> bool { true }
    open spec fn add_req(self, rhs: TypedReprRef<'b>) -> bool { self.wf() && rhs.wf() && self.nwords() < max_capacity() && rhs.nwords() < max_capacity() }
    open spec fn add_spec(self, rhs: TypedReprRef<'b>) -> Repr { repr_of(self.v() + rhs.v()) }
}
impl<'a, 'b> Add<TypedReprRef<'b>> for TypedReprRef<'a> { type Output = Repr;
    fn add(self, rhs: TypedReprRef<'b>) -> Repr {
        let ghost a = self.v(); let ghost b = rhs.v();
        let r = typed_add_rr(self, rhs);
        proof { ax_repr_ext(r, repr_of(a + b)); }
        r
    }
}
impl<'a, 'b> MulSpecImpl<TypedReprRef<'b>> for TypedReprRef<'a> {
    open spec fn obeys_mul_spec() -> bool { true }
    open spec fn mul_req(self, rhs: TypedReprRef<'b>) -> bool { self.wf() && rhs.wf() && self.nwords() + rhs.nwords() <= max_capacity() }
    open spec fn mul_spec(self, rhs: TypedReprRef<'b>) -> Repr { repr_of(self.v() * rhs.v()) }
}
impl<'a, 'b> Mul<TypedReprRef<'b>> for TypedReprRef<'a> { type Output = Repr;
    fn mul(self, rhs: TypedReprRef<'b>) -> Repr {
        let ghost a = self.v(); let ghost b = rhs.v();
        let r = typed_mul_rr(self, rhs);
        proof { ax_repr_ext(r, repr_of(a * b)); }
        r
    }
}
impl<'a, 'b> SubSigned<TypedReprRef<'b>> for TypedReprRef<'a> { type Output = Repr;
    open spec fn sub_signed_req(self, rhs: TypedReprRef<'b>) -> bool { self.wf() && rhs.wf() }
    open spec fn sub_signed_post(self, rhs: TypedReprRef<'b>, r: Repr) -> bool { r.v() == self.v() - rhs.v() }
    fn sub_signed(self, rhs: TypedReprRef<'b>) -> Repr { typed_sub_signed_rr(self, rhs) }
}
//@@ WRAP ibig_add_vv fn ibig_add_vv(sign0: Sign, mag0: TypedRepr, sign1: Sign, mag1: TypedRepr) -> IBig
//@@ FN integer/ops_sign/ibig_add.rs wrap=ibig_add_vv
//@@ WRAP ibig_add_vr fn ibig_add_vr(sign0: Sign, mag0: TypedRepr, sign1: Sign, mag1: TypedReprRef) -> IBig
//@@ FN integer/ops_sign/ibig_add.rs wrap=ibig_add_vr
//@@ WRAP ibig_add_rv fn ibig_add_rv(sign0: Sign, mag0: TypedReprRef, sign1: Sign, mag1: TypedRepr) -> IBig
//@@ FN integer/ops_sign/ibig_add.rs wrap=ibig_add_rv
//@@ WRAP ibig_add_rr fn ibig_add_rr(sign0: Sign, mag0: TypedReprRef, sign1: Sign, mag1: TypedReprRef) -> IBig
//@@ FN integer/ops_sign/ibig_add.rs wrap=ibig_add_rr
//@@ WRAP ibig_sub_vv fn ibig_sub_vv(sign0: Sign, mag0: TypedRepr, sign1: Sign, mag1: TypedRepr) -> IBig
//@@ FN integer/ops_sign/ibig_sub.rs wrap=ibig_sub_vv
//@@ WRAP ibig_sub_vr fn ibig_sub_vr(sign0: Sign, mag0: TypedRepr, sign1: Sign, mag1: TypedReprRef) -> IBig
//@@ FN integer/ops_sign/ibig_sub.rs wrap=ibig_sub_vr
//@@ WRAP ibig_sub_rv fn ibig_sub_rv(sign0: Sign, mag0: TypedReprRef, sign1: Sign, mag1: TypedRepr) -> IBig
//@@ FN integer/ops_sign/ibig_sub.rs wrap=ibig_sub_rv
//@@ WRAP ibig_sub_rr fn ibig_sub_rr(sign0: Sign, mag0: TypedReprRef, sign1: Sign, mag1: TypedReprRef) -> IBig
//@@ FN integer/ops_sign/ibig_sub.rs wrap=ibig_sub_rr
//@@ WRAP ibig_mul_vv fn ibig_mul_vv(sign0: Sign, mag0: TypedRepr, sign1: Sign, mag1: TypedRepr) -> IBig
//@@ FN integer/ops_sign/ibig_mul.rs wrap=ibig_mul_vv
//@@ WRAP ibig_mul_vr fn ibig_mul_vr(sign0: Sign, mag0: TypedRepr, sign1: Sign, mag1: TypedReprRef) -> IBig
//@@ FN integer/ops_sign/ibig_mul.rs wrap=ibig_mul_vr
//@@ WRAP ibig_mul_rv fn ibig_mul_rv(sign0: Sign, mag0: TypedReprRef, sign1: Sign, mag1: TypedRepr) -> IBig
//@@ FN integer/ops_sign/ibig_mul.rs wrap=ibig_mul_rv
//@@ WRAP ibig_mul_rr fn ibig_mul_rr(sign0: Sign, mag0: TypedReprRef, sign1: Sign, mag1: TypedReprRef) -> IBig
//@@ FN integer/ops_sign/ibig_mul.rs wrap=ibig_mul_rr
} // verus!
fn main() {}
