// unit ratio_simplest_from_float (C18): rational/src/third_party/dashu_float.rs `RBig::simplest_from_float`.
#![allow(unused_imports, unused_variables, dead_code, non_snake_case, unused_mut, unused_parens, unused_braces)]
use vstd::prelude::*;
use vstd::arithmetic::power2::pow2;
verus! {
//@@ INCLUDE lib/round_prelude.rs
//@@ INCLUDE lib/round_int_stubs.rs
//@@ INCLUDE lib/round_modes.rs
pub trait Round: Copy {
    /// ghost: which of the six mode definitions the implementing type stands for
    spec fn md() -> Mode;
}
impl Round for mode::Zero { open spec fn md() -> Mode { Mode::Zero } }
impl Round for mode::Away { open spec fn md() -> Mode { Mode::Away } }
impl Round for mode::Up { open spec fn md() -> Mode { Mode::Up } }
impl Round for mode::Down { open spec fn md() -> Mode { Mode::Down } }
impl Round for mode::HalfAway { open spec fn md() -> Mode { Mode::HalfAway } }
impl Round for mode::HalfEven { open spec fn md() -> Mode { Mode::HalfEven } }
//@@ INCLUDE lib/round_float_repr.rs
//@@ INCLUDE lib/conv_fbig_stubs.rs
//@@ INCLUDE lib/ebounds_stubs.rs
//@@ INCLUDE lib/ebounds_lemmas.rs
//@@ INCLUDE lib/sf_shape.rs
pub mod ratio_lemmas_m { use super::*;
//@@ INCLUDE lib/ratio_lemmas.rs
}
pub use ratio_lemmas_m::*;
pub mod ratio2_unique_lemmas_m { use super::*;
//@@ INCLUDE lib/ratio2_unique_lemmas.rs
}
pub use ratio2_unique_lemmas_m::*;
pub mod sf_q_m { use super::*;
//@@ INCLUDE lib/sf_q.rs
}
pub use sf_q_m::*;
pub mod farey_lemmas_m { use super::*;
//@@ INCLUDE lib/farey_lemmas.rs
}
pub use farey_lemmas_m::*;
pub mod simplest_lemmas_m { use super::*;
//@@ INCLUDE lib/simplest_lemmas.rs
}
pub use simplest_lemmas_m::*;
//@@ INCLUDE lib/sf_spec.rs
//@@ INCLUDE lib/sf_stubs.rs
use core::marker::PhantomData;
impl<T, E> Approximation<T, E> {
//@@ FN rational/simplestf/approx_unwrap.rs
}
impl<const B: Word> Repr<B> {
//@@ SIG float/repr/is_infinite.rs
//@@ SIG float/ebounds/repr_is_zero.rs
}
impl<R: Round, const B: Word> FBig<R, B> {
//@@ SIG float/ebounds/fbig_precision.rs
//@@ SIG float/ebounds/fbig_repr.rs
//@@ SIG float/convert/with_precision.rs
}
// the six implementations, seen through the contracts they are PROVED against in unit ratio_sf_ebounds
//@@ SIG rational/simplestf/eb_zero.rs
//@@ SIG rational/simplestf/eb_away.rs
//@@ SIG rational/simplestf/eb_up.rs
//@@ SIG rational/simplestf/eb_down.rs
//@@ SIG rational/simplestf/eb_halfaway.rs
//@@ SIG rational/simplestf/eb_halfeven.rs
/// float/src/round.rs `pub trait ErrorBounds: Round { fn error_bounds<const B: Word>(f: &FBig<Self, B>) -> (FBig<Self, B>,
/// FBig<Self, B>, bool, bool); }` with ONE contract for every implementor, stated through the ghost mode `Self::md()`.
/// NOT trusted: the six impls below forward to the six hoisted real functions (SIG above), so Verus checks that the trait
/// contract follows from each of the six proved contracts.
pub trait ErrorBounds: Round {
    fn error_bounds<const B: Word>(f: &FBig<Self, B>) -> (ret: (FBig<Self, B>, FBig<Self, B>, bool, bool))
        requires
            B >= 2,
            eb_domain(B as int, f.repr.significand.v(), f.repr.exponent as int, f.context.precision as int),
        ensures
            eb_post(Self::md(), B as int, f.repr.significand.v(), f.repr.exponent as int, f.context.precision as int,
                ret.0.repr.significand.v(), ret.0.repr.exponent as int, ret.1.repr.significand.v(), ret.1.repr.exponent as int, ret.2, ret.3),
            eb_shape(f.context.precision, ret.0), eb_shape(f.context.precision, ret.1);
}
impl ErrorBounds for mode::Zero { fn error_bounds<const B: Word>(f: &FBig<Self, B>) -> (FBig<Self, B>, FBig<Self, B>, bool, bool) { sf_error_bounds_zero(f) } }
impl ErrorBounds for mode::Away { fn error_bounds<const B: Word>(f: &FBig<Self, B>) -> (FBig<Self, B>, FBig<Self, B>, bool, bool) { sf_error_bounds_away(f) } }
impl ErrorBounds for mode::Up { fn error_bounds<const B: Word>(f: &FBig<Self, B>) -> (FBig<Self, B>, FBig<Self, B>, bool, bool) { sf_error_bounds_up(f) } }
impl ErrorBounds for mode::Down { fn error_bounds<const B: Word>(f: &FBig<Self, B>) -> (FBig<Self, B>, FBig<Self, B>, bool, bool) { sf_error_bounds_down(f) } }
impl ErrorBounds for mode::HalfAway { fn error_bounds<const B: Word>(f: &FBig<Self, B>) -> (FBig<Self, B>, FBig<Self, B>, bool, bool) { sf_error_bounds_halfaway(f) } }
impl ErrorBounds for mode::HalfEven { fn error_bounds<const B: Word>(f: &FBig<Self, B>) -> (FBig<Self, B>, FBig<Self, B>, bool, bool) { sf_error_bounds_halfeven(f) } }
pub mod sf_lemmas_m { use super::*;
//@@ INCLUDE lib/sf_lemmas.rs
}
pub use sf_lemmas_m::*;
pub mod ratio {
use super::*;
//@@ INCLUDE lib/sf_ratio_stubs.rs
impl RBig {
// proved in units ratio_simplest / ratio_simpler
//@@ SIG rational/simplest/rbig_simplest_in.rs
//@@ SIG rational/simplify/is_simpler_than.rs
//@@ FN rational/simplestf/simplest_from_float.rs
}
}
} // verus!
fn main() {}
