// unit int_root_ops: integer/src/root_ops.rs `mod repr` sqrt_rem_large: normalisation bookkeeping around the Karatsuba square
// root (C12, C16): shift parity, exact buffer lengths, un-normalisation of root and remainder.
// Trusted: lib/gcdo_root_lemmas.rs (ASSUMED contract of root::sqrt_rem -- bounded Kani group gcdo_root -- Repr::into_buffer,
// scratch memory), lib/repr_stubs.rs; kernel contracts via //@@ SIG (proved in units int_shift, int_mul, int_add,
// int_shift_ops).
#![allow(unused_imports, unused_variables, dead_code, non_snake_case, unused_mut, unused_parens, unused_braces)]
use vstd::prelude::*;
verus! {
global size_of usize == 8;
//@@ INCLUDE lib/prelude.rs
//@@ INCLUDE lib/shift_bv.rs
//@@ INCLUDE lib/div_word_lemmas.rs
//@@ INCLUDE lib/sign.rs
//@@ INCLUDE lib/repr_stubs.rs
//@@ INCLUDE lib/dispatch_lemmas.rs
//@@ INCLUDE lib/gcdo_root_lemmas.rs
pub use repr_stub::large_wf;
pub proof fn lemma_gcdo_top_ge(s: Seq<Word>)
    requires s.len() >= 1, s[s.len() - 1] != 0,
    ensures val(s) >= pw(s.len() - 1), val(s) >= 1,
{
    lemma_normalized_lower(s);
    lemma_pw_pos(s.len() - 1);
}
//@@ SIG integer/primitive/extend_word.rs
pub mod shift {
use super::*;
//@@ SIG integer/shift/shr_in_place.rs
//@@ SIG integer/shift/shr_in_place_one_word.rs
}
pub mod mul {
use super::*;
//@@ SIG integer/mul/add_mul_word_in_place.rs
}
pub mod add {
use super::*;
//@@ SIG integer/add/sub_dword_in_place.rs
}
pub mod shift_ops {
pub mod repr {
use super::super::*;
//@@ SIG integer/shift_ops/shl_large_ref.rs
}
}
pub mod root_ops {
pub mod repr {
use super::super::*;
broadcast use {crate::buffer_stub::ax_buffer_inv, crate::repr_stub::ax_repr_of};
//@@ FN integer/root_ops/sqrt_rem_large.rs
}
}
} // verus!
fn main() {}
