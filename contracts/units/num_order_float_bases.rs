// unit num_order_float_bases: float/src/third_party/num_order.rs `impl NumOrd<Repr<B2>> for Repr<B1>` and the FBig forwarding impl
// (C14 "floats in different bases"): infinities, signs and the EXACT comparison s1 * B1^e1 vs s2 * B2^e2 (cross-multiplied);
// the f32 log2 filter in between is ASSUMED sound (lib/no_float_stubs.rs ax_est_gt / ax_est_lt, rule D10).
#![allow(unused_imports, unused_variables, dead_code, non_snake_case, unused_mut, unused_parens, unused_braces)]
use vstd::prelude::*;
use vstd::arithmetic::power2::pow2;
use core::cmp::Ordering;
use core::ops::{Add, Sub, Mul, Div, Rem};
verus! {
global size_of usize == 8;
//@@ INCLUDE lib/ratio_lemmas.rs
//@@ INCLUDE lib/bigstub.rs
impl Sign {
//@@ SIG rational/sign/base_sign_mul.rs
//@@ SIG rational/sign/base_sign_neg.rs
//@@ SIG rational/sign/base_sign_cmp.rs
}
//@@ INCLUDE lib/ratio2_cmp_stubs.rs
//@@ INCLUDE lib/no_ipw.rs
//@@ INCLUDE lib/no_ord_stubs.rs
//@@ INCLUDE lib/no_float_stubs.rs
//@@ INCLUDE lib/no_frac_lemmas.rs
//@@ INCLUDE lib/no_float_bases.rs
//@@ INCLUDE lib/no_numord_trait.rs
impl<const B: Word> Repr<B> {
//@@ FN float/repr/is_infinite.rs
}
pub mod num_order {
use super::*;
broadcast use {crate::bigstub::ax_ubig_of, crate::bigstub::ax_ibig_of, crate::bigstub::ax_ubig_nonneg};
//@@ FN float/numorder2/repr_num_cmp_repr.rs
// glue (verified one-liners): the trait impl that `self.num_cmp(other)` / `self.repr.num_cmp(&other.repr)` resolve to
impl<const B1: Word, const B2: Word> NumOrd<Repr<B2>> for Repr<B1> {
    open spec fn npc_req(&self, other: &Repr<B2>) -> bool {
        B1 >= 2 && B2 >= 2 && canon_inf(self.significand.v(), self.exponent as int) && canon_inf(other.significand.v(), other.exponent as int)
            && -0x0100_0000_0000_0000 <= self.exponent <= 0x0100_0000_0000_0000
            && -0x0100_0000_0000_0000 <= other.exponent <= 0x0100_0000_0000_0000
    }
    open spec fn npc_spec(&self, other: &Repr<B2>) -> Option<Ordering> {
        Some(cmp_repr_repr(self.significand.v(), B1 as int, self.exponent as int, other.significand.v(), B2 as int, other.exponent as int))
    }
    fn num_partial_cmp(&self, other: &Repr<B2>) -> (r: Option<Ordering>) { repr_num_partial_cmp_repr(self, other) }
    fn num_cmp(&self, other: &Repr<B2>) -> (r: Ordering) { repr_num_cmp_repr(self, other) }
}
//@@ FN float/numorder2/repr_num_pcmp_repr.rs
//@@ FN float/numorder2/fbig_num_cmp_fbig.rs
//@@ FN float/numorder2/fbig_num_pcmp_fbig.rs
}
} // verus!
fn main() {}
