// unit float_add_ops: float/src/add.rs, the four dispatch functions `add_val_val / add_val_ref / add_ref_val /
// add_ref_ref` behind the FBig `+` / `-` operators (C03 as far as carried by unit float_add, C15: one statement for the
// four operand forms and for Context::add/sub).  The helpers `repr_add_large_small` / `repr_add_small_large` and
// `Context::repr_round` are seen through the contracts they are verified against (units float_add, float_repr_round).
#![allow(unused_imports, unused_variables, dead_code, non_snake_case, unused_mut, unused_parens, unused_braces)]
use vstd::prelude::*;
verus! {
//@@ INCLUDE lib/round_prelude.rs
//@@ INCLUDE lib/round_int_stubs.rs
//@@ INCLUDE lib/round_int_addsub_stubs.rs
pub trait Round: Copy {
    /// ghost: which of the six mode definitions the implementing type stands for
    spec fn md() -> Mode;
}
//@@ INCLUDE lib/round_float_repr.rs
//@@ INCLUDE lib/conv_fbig_stubs.rs
//@@ INCLUDE lib/farith_repr_stubs.rs
//@@ INCLUDE lib/farith_lemmas.rs
//@@ INCLUDE lib/farith_add_stubs.rs
//@@ INCLUDE lib/farith_add_lemmas.rs
use core::marker::PhantomData;
use Sign::*;
global size_of usize == 8;   // DESIGN.md section 6: usize is 64-bit in all proofs
impl<T, E> Approximation<T, E> {
//@@ FN float/mul/approx_value.rs
}
//@@ SIG float/mul/panic_operate_with_inf.rs
//@@ FN float/mul/assert_finite_operands.rs
impl<const B: Word> Repr<B> {
//@@ FN float/repr/is_infinite.rs
}
impl<R: Round> Context<R> {
//@@ FN float/mul/context_max.rs
//@@ SIG float/repr/repr_round.rs
//@@ SIG float/add/repr_add_large_small.rs
//@@ SIG float/add/repr_add_small_large.rs
}
impl<R: Round, const B: Word> FBig<R, B> {
//@@ FN float/fbig/new.rs
}
//@@ FN float/add/add_val_val.rs
//@@ FN float/add/add_val_ref.rs
//@@ FN float/add/add_ref_val.rs
//@@ FN float/add/add_ref_ref.rs
} // verus!
fn main() {}
