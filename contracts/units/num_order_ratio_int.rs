// unit num_order_ratio_int: rational/src/cmp.rs `repr_cmp_ubig` / `repr_cmp_ibig` -- behind NumOrd / AbsOrd between RBig / Relaxed and
// UBig / IBig / primitive integers (C14) -- and the impls of rational/src/cmp.rs and rational/src/third_party/num_order.rs that
// dispatch to them.  Sign cases and the EXACT comparison n vs x * d are proved; the f32 log2 filter in between is ASSUMED sound
// (lib/gcdo_cmpf_stubs.rs ax_est_gt / ax_est_lt, rule D10).
#![allow(unused_imports, unused_variables, dead_code, non_snake_case, unused_mut, unused_parens, unused_braces)]
use vstd::prelude::*;
use vstd::arithmetic::power2::pow2;
use core::cmp::Ordering;
use core::ops::{Add, Sub, Mul, Div, Rem};
verus! {
global size_of usize == 8;
//@@ INCLUDE lib/ratio_lemmas.rs
//@@ INCLUDE lib/bigstub.rs
impl Sign {
//@@ SIG rational/sign/base_sign_mul.rs
//@@ SIG rational/sign/base_sign_neg.rs
//@@ SIG rational/sign/base_sign_cmp.rs
}
//@@ INCLUDE lib/ratio_types.rs
//@@ INCLUDE lib/ratio2_cmp_stubs.rs
//@@ INCLUDE lib/gcdo_cmpf_stubs.rs
//@@ INCLUDE lib/no_ratio_int_stubs.rs
//@@ INCLUDE lib/no_prim_from.rs
//@@ INCLUDE lib/no_numord_trait.rs
//@@ FN rational/numorder2/repr_cmp_ubig.rs
//@@ FN rational/numorder2/repr_cmp_ibig.rs
// ---- AbsOrd / NumOrd between Repr / RBig / Relaxed and UBig
pub mod via_ubig {
use super::*;
broadcast use {crate::bigstub::ax_ubig_of, crate::bigstub::ax_ibig_of, crate::bigstub::ax_ubig_nonneg};
//@@ FN rational/numorder2/abs_repr_ubig.rs
//@@ FN rational/numorder2/ord_repr_ubig_cmp.rs
//@@ FN rational/numorder2/ord_repr_ubig_pcmp.rs
// glue (verified one-liners): the trait impls that the forwarding impls call by method syntax
impl NumOrd<UBig> for Repr {
    open spec fn npc_req(&self, other: &UBig) -> bool { self.denominator.v() >= 1 }
    open spec fn npc_spec(&self, other: &UBig) -> Option<Ordering> {
        Some(cmp_ratio_int(self.numerator.v(), self.denominator.v(), other.v(), false))
    }
    fn num_partial_cmp(&self, other: &UBig) -> (r: Option<Ordering>) { repr_num_partial_cmp_ubig(self, other) }
    fn num_cmp(&self, other: &UBig) -> (r: Ordering) { repr_num_cmp_ubig(self, other) }
}
impl AbsOrdQ<UBig> for Repr {
    open spec fn ac_req(&self, other: &UBig) -> bool { self.denominator.v() >= 1 }
    open spec fn ac_spec(&self, other: &UBig) -> Ordering { cmp_ratio_int(self.numerator.v(), self.denominator.v(), other.v(), true) }
    fn abs_cmp(&self, other: &UBig) -> (r: Ordering) { repr_abs_cmp_ubig(self, other) }
}
pub mod rbig {
use super::*;
//@@ FN rational/numorder2/fwd_r_t_cmp.rs variant=RBig msubst=R:RBig,T:UBig
//@@ FN rational/numorder2/fwd_r_t_pcmp.rs variant=RBig msubst=R:RBig,T:UBig
//@@ FN rational/numorder2/fwd_t_r_cmp.rs variant=UBig msubst=R:RBig,T:UBig
//@@ FN rational/numorder2/fwd_t_r_pcmp.rs variant=UBig msubst=R:RBig,T:UBig
//@@ FN rational/numorder2/fwd_abs_r_t.rs variant=RBig msubst=R:RBig,T:UBig
//@@ FN rational/numorder2/fwd_abs_t_r.rs variant=UBig msubst=R:RBig,T:UBig
}
pub mod relaxed {
use super::*;
//@@ FN rational/numorder2/fwd_r_t_cmp.rs variant=Relaxed msubst=R:Relaxed,T:UBig
//@@ FN rational/numorder2/fwd_r_t_pcmp.rs variant=Relaxed msubst=R:Relaxed,T:UBig
//@@ FN rational/numorder2/fwd_t_r_cmp.rs variant=UBig msubst=R:Relaxed,T:UBig
//@@ FN rational/numorder2/fwd_t_r_pcmp.rs variant=UBig msubst=R:Relaxed,T:UBig
//@@ FN rational/numorder2/fwd_abs_r_t.rs variant=Relaxed msubst=R:Relaxed,T:UBig
//@@ FN rational/numorder2/fwd_abs_t_r.rs variant=UBig msubst=R:Relaxed,T:UBig
}
}
// ---- AbsOrd / NumOrd between Repr / RBig / Relaxed and IBig
pub mod via_ibig {
use super::*;
broadcast use {crate::bigstub::ax_ubig_of, crate::bigstub::ax_ibig_of, crate::bigstub::ax_ubig_nonneg};
//@@ FN rational/numorder2/abs_repr_ibig.rs
//@@ FN rational/numorder2/ord_repr_ibig_cmp.rs
//@@ FN rational/numorder2/ord_repr_ibig_pcmp.rs
// glue (verified one-liners): the trait impls that the forwarding impls call by method syntax
impl NumOrd<IBig> for Repr {
    open spec fn npc_req(&self, other: &IBig) -> bool { self.denominator.v() >= 1 }
    open spec fn npc_spec(&self, other: &IBig) -> Option<Ordering> {
        Some(cmp_ratio_int(self.numerator.v(), self.denominator.v(), other.v(), false))
    }
    fn num_partial_cmp(&self, other: &IBig) -> (r: Option<Ordering>) { repr_num_partial_cmp_ibig(self, other) }
    fn num_cmp(&self, other: &IBig) -> (r: Ordering) { repr_num_cmp_ibig(self, other) }
}
impl AbsOrdQ<IBig> for Repr {
    open spec fn ac_req(&self, other: &IBig) -> bool { self.denominator.v() >= 1 }
    open spec fn ac_spec(&self, other: &IBig) -> Ordering { cmp_ratio_int(self.numerator.v(), self.denominator.v(), other.v(), true) }
    fn abs_cmp(&self, other: &IBig) -> (r: Ordering) { repr_abs_cmp_ibig(self, other) }
}
pub mod rbig {
use super::*;
//@@ FN rational/numorder2/fwd_r_t_cmp.rs variant=RBig msubst=R:RBig,T:IBig
//@@ FN rational/numorder2/fwd_r_t_pcmp.rs variant=RBig msubst=R:RBig,T:IBig
//@@ FN rational/numorder2/fwd_t_r_cmp.rs variant=IBig msubst=R:RBig,T:IBig
//@@ FN rational/numorder2/fwd_t_r_pcmp.rs variant=IBig msubst=R:RBig,T:IBig
//@@ FN rational/numorder2/fwd_abs_r_t.rs variant=RBig msubst=R:RBig,T:IBig
//@@ FN rational/numorder2/fwd_abs_t_r.rs variant=IBig msubst=R:RBig,T:IBig
}
pub mod relaxed {
use super::*;
//@@ FN rational/numorder2/fwd_r_t_cmp.rs variant=Relaxed msubst=R:Relaxed,T:IBig
//@@ FN rational/numorder2/fwd_r_t_pcmp.rs variant=Relaxed msubst=R:Relaxed,T:IBig
//@@ FN rational/numorder2/fwd_t_r_cmp.rs variant=IBig msubst=R:Relaxed,T:IBig
//@@ FN rational/numorder2/fwd_t_r_pcmp.rs variant=IBig msubst=R:Relaxed,T:IBig
//@@ FN rational/numorder2/fwd_abs_r_t.rs variant=Relaxed msubst=R:Relaxed,T:IBig
//@@ FN rational/numorder2/fwd_abs_t_r.rs variant=IBig msubst=R:Relaxed,T:IBig
}
}
// ---- NumOrd between Repr and the primitive integers (impl_num_ord_with_unsigned!, impl_num_ord_with_signed!)
pub mod prim_u8 {
use super::*;
broadcast use {crate::bigstub::ax_ubig_of, crate::bigstub::ax_ibig_of, crate::bigstub::ax_ubig_nonneg};
//@@ FN rational/numorder2/primu_repr_cmp.rs msubst=t:u8
//@@ FN rational/numorder2/primu_repr_pcmp.rs msubst=t:u8
}
pub mod prim_u16 {
use super::*;
broadcast use {crate::bigstub::ax_ubig_of, crate::bigstub::ax_ibig_of, crate::bigstub::ax_ubig_nonneg};
//@@ FN rational/numorder2/primu_repr_cmp.rs msubst=t:u16
//@@ FN rational/numorder2/primu_repr_pcmp.rs msubst=t:u16
}
pub mod prim_u32 {
use super::*;
broadcast use {crate::bigstub::ax_ubig_of, crate::bigstub::ax_ibig_of, crate::bigstub::ax_ubig_nonneg};
//@@ FN rational/numorder2/primu_repr_cmp.rs msubst=t:u32
//@@ FN rational/numorder2/primu_repr_pcmp.rs msubst=t:u32
}
pub mod prim_u64 {
use super::*;
broadcast use {crate::bigstub::ax_ubig_of, crate::bigstub::ax_ibig_of, crate::bigstub::ax_ubig_nonneg};
//@@ FN rational/numorder2/primu_repr_cmp.rs msubst=t:u64
//@@ FN rational/numorder2/primu_repr_pcmp.rs msubst=t:u64
// the RBig / Relaxed forwarding impls (forward_num_ord_to_repr! inside the same macro arm), instantiated for this operand type
impl NumOrd<u64> for Repr {
    open spec fn npc_req(&self, other: &u64) -> bool { self.denominator.v() >= 1 }
    open spec fn npc_spec(&self, other: &u64) -> Option<Ordering> {
        Some(cmp_ratio_int(self.numerator.v(), self.denominator.v(), *other as int, false))
    }
    fn num_partial_cmp(&self, other: &u64) -> (r: Option<Ordering>) { repr_num_partial_cmp_prim(self, other) }
    fn num_cmp(&self, other: &u64) -> (r: Ordering) { repr_num_cmp_prim(self, other) }
}
pub mod rbig {
use super::*;
//@@ FN rational/numorder2/fwd_r_t_cmp.rs variant=RBig msubst=R:RBig,T:u64
//@@ FN rational/numorder2/fwd_r_t_pcmp.rs variant=RBig msubst=R:RBig,T:u64
//@@ FN rational/numorder2/fwd_t_r_cmp.rs variant=u64 msubst=R:RBig,T:u64
//@@ FN rational/numorder2/fwd_t_r_pcmp.rs variant=u64 msubst=R:RBig,T:u64
}
pub mod relaxed {
use super::*;
//@@ FN rational/numorder2/fwd_r_t_cmp.rs variant=Relaxed msubst=R:Relaxed,T:u64
//@@ FN rational/numorder2/fwd_r_t_pcmp.rs variant=Relaxed msubst=R:Relaxed,T:u64
//@@ FN rational/numorder2/fwd_t_r_cmp.rs variant=u64 msubst=R:Relaxed,T:u64
//@@ FN rational/numorder2/fwd_t_r_pcmp.rs variant=u64 msubst=R:Relaxed,T:u64
}
}
pub mod prim_u128 {
use super::*;
broadcast use {crate::bigstub::ax_ubig_of, crate::bigstub::ax_ibig_of, crate::bigstub::ax_ubig_nonneg};
//@@ FN rational/numorder2/primu_repr_cmp.rs msubst=t:u128
//@@ FN rational/numorder2/primu_repr_pcmp.rs msubst=t:u128
}
pub mod prim_usize {
use super::*;
broadcast use {crate::bigstub::ax_ubig_of, crate::bigstub::ax_ibig_of, crate::bigstub::ax_ubig_nonneg};
//@@ FN rational/numorder2/primu_repr_cmp.rs msubst=t:usize
//@@ FN rational/numorder2/primu_repr_pcmp.rs msubst=t:usize
}
pub mod prim_i8 {
use super::*;
broadcast use {crate::bigstub::ax_ubig_of, crate::bigstub::ax_ibig_of, crate::bigstub::ax_ubig_nonneg};
//@@ FN rational/numorder2/primi_repr_cmp.rs msubst=t:i8
//@@ FN rational/numorder2/primi_repr_pcmp.rs msubst=t:i8
}
pub mod prim_i16 {
use super::*;
broadcast use {crate::bigstub::ax_ubig_of, crate::bigstub::ax_ibig_of, crate::bigstub::ax_ubig_nonneg};
//@@ FN rational/numorder2/primi_repr_cmp.rs msubst=t:i16
//@@ FN rational/numorder2/primi_repr_pcmp.rs msubst=t:i16
}
pub mod prim_i32 {
use super::*;
broadcast use {crate::bigstub::ax_ubig_of, crate::bigstub::ax_ibig_of, crate::bigstub::ax_ubig_nonneg};
//@@ FN rational/numorder2/primi_repr_cmp.rs msubst=t:i32
//@@ FN rational/numorder2/primi_repr_pcmp.rs msubst=t:i32
}
pub mod prim_i64 {
use super::*;
broadcast use {crate::bigstub::ax_ubig_of, crate::bigstub::ax_ibig_of, crate::bigstub::ax_ubig_nonneg};
//@@ FN rational/numorder2/primi_repr_cmp.rs msubst=t:i64
//@@ FN rational/numorder2/primi_repr_pcmp.rs msubst=t:i64
// the RBig / Relaxed forwarding impls (forward_num_ord_to_repr! inside the same macro arm), instantiated for this operand type
impl NumOrd<i64> for Repr {
    open spec fn npc_req(&self, other: &i64) -> bool { self.denominator.v() >= 1 }
    open spec fn npc_spec(&self, other: &i64) -> Option<Ordering> {
        Some(cmp_ratio_int(self.numerator.v(), self.denominator.v(), *other as int, false))
    }
    fn num_partial_cmp(&self, other: &i64) -> (r: Option<Ordering>) { repr_num_partial_cmp_prim(self, other) }
    fn num_cmp(&self, other: &i64) -> (r: Ordering) { repr_num_cmp_prim(self, other) }
}
pub mod rbig {
use super::*;
//@@ FN rational/numorder2/fwd_r_t_cmp.rs variant=RBig msubst=R:RBig,T:i64
//@@ FN rational/numorder2/fwd_r_t_pcmp.rs variant=RBig msubst=R:RBig,T:i64
//@@ FN rational/numorder2/fwd_t_r_cmp.rs variant=i64 msubst=R:RBig,T:i64
//@@ FN rational/numorder2/fwd_t_r_pcmp.rs variant=i64 msubst=R:RBig,T:i64
}
pub mod relaxed {
use super::*;
//@@ FN rational/numorder2/fwd_r_t_cmp.rs variant=Relaxed msubst=R:Relaxed,T:i64
//@@ FN rational/numorder2/fwd_r_t_pcmp.rs variant=Relaxed msubst=R:Relaxed,T:i64
//@@ FN rational/numorder2/fwd_t_r_cmp.rs variant=i64 msubst=R:Relaxed,T:i64
//@@ FN rational/numorder2/fwd_t_r_pcmp.rs variant=i64 msubst=R:Relaxed,T:i64
}
}
pub mod prim_i128 {
use super::*;
broadcast use {crate::bigstub::ax_ubig_of, crate::bigstub::ax_ibig_of, crate::bigstub::ax_ubig_nonneg};
//@@ FN rational/numorder2/primi_repr_cmp.rs msubst=t:i128
//@@ FN rational/numorder2/primi_repr_pcmp.rs msubst=t:i128
}
pub mod prim_isize {
use super::*;
broadcast use {crate::bigstub::ax_ubig_of, crate::bigstub::ax_ibig_of, crate::bigstub::ax_ubig_nonneg};
//@@ FN rational/numorder2/primi_repr_cmp.rs msubst=t:isize
//@@ FN rational/numorder2/primi_repr_pcmp.rs msubst=t:isize
}
} // verus!
fn main() {}
