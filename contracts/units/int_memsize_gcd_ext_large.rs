// unit int_memsize_gcd_ext_large: integer/src/gcd_ops.rs `mod repr` gcd_ext_large under its FUNCTIONAL + RESOURCE contract
// (C12 / C16): the proof of int_gcd_ops (same annotations) over the capacity-tracking Memory, plus: the single scratch allocation
// add_layout(clone_mem, max_layout(gcd_mem, post_mem)) is enough for the two operand clones, the kernel gcd::gcd_ext_in_place,
// the residue buffer, the product rhs * b and the exact division by lhs.  The residue can be one Word LONGER than the
// lhs_len + rhs_len Words post_mem reserves for it; it fits because (a) gcd_mem >= 2 lhs_len + 2 Words and (b) the closed form of
// mul::memory_requirement_exact exceeds the real need by at least one Word above 24 words (lemma_mn_slack).
// Callees: gcd::gcd_ext_in_place / memory_requirement_ext_exact (contracts PROVED in int_memsize_gcd_ext_ops), mul::multiply and
// div::div_rem_unshifted_in_place through the CONJUNCTION of their functional and resource contracts, mul / div
// memory_requirement_exact (int_memsize_req / int_memsize_div).
// Trusted: as int_gcd_ops (lib/mem_gcd_stubs.rs = lib/gcdo_ops_stubs.rs without its opaque Memory) + lib/mem_model.rs.
#![allow(unused_imports, unused_variables, dead_code, non_snake_case, unused_mut, unused_parens, unused_braces)]
use vstd::prelude::*;
use core::cmp::Ordering;
verus! {
//@@ INCLUDE lib/prelude.rs
//@@ INCLUDE lib/sign.rs
//@@ INCLUDE lib/gcdo_stubs.rs
impl Sign {
//@@ SIG rational/sign/base_sign_neg.rs
}
//@@ INCLUDE lib/repr_stubs.rs
//@@ INCLUDE lib/dispatch_lemmas.rs
//@@ INCLUDE lib/div_dword_stubs.rs
//@@ INCLUDE lib/mem_layout_@BITS@.rs
//@@ INCLUDE lib/mem_model.rs
//@@ INCLUDE lib/mem_need.rs
//@@ INCLUDE lib/mem_need_slack.rs
//@@ INCLUDE lib/mem_req_stubs.rs
//@@ INCLUDE lib/mem_chunk_spec.rs
//@@ INCLUDE lib/mem_div_spec.rs
//@@ INCLUDE lib/mem_gcd_stubs.rs
pub mod add {
use super::*;
//@@ SIG integer/add/add_in_place.rs
//@@ SIG integer/add/sub_in_place.rs
}
pub mod mul {
use super::*;
// functional contract (int_mul_dispatch) AND resource contract (int_memsize_dispatch)
//@@ SIG integer/mul_algos/multiply.rs and=integer/memsize/multiply.rs
//@@ SIG integer/memsize/mul_req_exact.rs
}
pub mod div {
use super::*;
// contracts PROVED in unit int_div_ops
//@@ SIG integer/div_glue/normalize.rs
// functional contract (int_div_ops) AND resource contract (int_memsize_div)
//@@ SIG integer/div_glue/div_rem_unshifted_in_place.rs and=integer/memsize/div_rem_unshifted.rs
//@@ SIG integer/memsize/div_req.rs
}
pub mod gcd {
use super::*;
//@@ SIG integer/memsize/gcd_mod_ext_req.rs
//@@ SIG integer/memsize/gcd_mod_gcd_ext_in_place.rs
}
pub mod gcd_ops {
pub mod repr {
use super::super::*;
broadcast use {crate::buffer_stub::ax_buffer_inv, crate::repr_stub::ax_repr_of};
//@@ FN integer/memsize/gcd_ext_large.rs
}
}
} // verus!
fn main() {}
