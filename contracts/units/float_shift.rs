// unit float_shift: float/src/shift.rs, ALL four forms of the FBig digit shift: `Shl<isize>`, `ShlAssign<isize>`,
// `Shr<isize>`, `ShrAssign<isize>` (C15: owned form and compound-assignment form of one operator are proved against the
// SAME predicate fs_shift_post(x, n, r) -- n = rhs for `<<`, n = -rhs for `>>` -- so they return the same value: same
// significand, same context, exponent + n, the number zero stays (0, 0)).  lemma_fs_shift_value (lib/fs_spec.rs, proved
// here) shows that this representation-level statement is the value-level one r == x * B^n and that the result is finite.
// Precondition of every form: finite operand (documented panic "arithmetic on infinities") and the new exponent fits
// isize (resource limit: exponent overflow is a documented panic (C16), not modelled).
// Real callees verified in the same unit: `assert_finite`, `Repr::{is_infinite, is_zero}`; `panic_operate_with_inf` is
// seen through its `requires false` contract ("total" reading: the panic is proved unreachable).
#![allow(unused_imports, unused_variables, dead_code, non_snake_case, unused_mut, unused_parens, unused_braces)]
use vstd::prelude::*;
verus! {
//@@ INCLUDE lib/round_prelude.rs
//@@ INCLUDE lib/round_int_stubs.rs
//@@ INCLUDE lib/round_int_addsub_stubs.rs
pub trait Round: Copy {
    /// ghost: which of the six mode definitions the implementing type stands for
    spec fn md() -> Mode;
}
//@@ INCLUDE lib/round_float_repr.rs
//@@ INCLUDE lib/conv_fbig_stubs.rs
//@@ INCLUDE lib/farith_add_stubs.rs
//@@ INCLUDE lib/fs_spec.rs
use core::marker::PhantomData;
global size_of usize == 8;   // DESIGN.md section 6: usize is 64-bit in all proofs
//@@ SIG float/mul/panic_operate_with_inf.rs
//@@ FN float/shift/assert_finite.rs
impl<const B: Word> Repr<B> {
//@@ FN float/repr/is_infinite.rs
//@@ FN float/ebounds/repr_is_zero.rs
}
//@@ FN float/shift/shl.rs
//@@ FN float/shift/shl_assign.rs
//@@ FN float/shift/shr.rs
//@@ FN float/shift/shr_assign.rs
} // verus!
fn main() {}
