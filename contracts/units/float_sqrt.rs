// unit float_sqrt: float/src/root.rs `Context::sqrt` (C03 for sqrt: one correct rounding of the real square root to p
// digits): scaling of the radicand by the digit / exponent parities (2p-1 or 2p digits, even exponent), integer
// `sqrt_rem` (stub), first-stage rounding by the remainder test through the contract of `Round::round_low_part`, final
// `repr_round` (SIG, proved in unit float_repr_round) shown to be exact.
#![allow(unused_imports, unused_variables, dead_code, non_snake_case, unused_mut, unused_parens, unused_braces)]
use vstd::prelude::*;
verus! {
//@@ INCLUDE lib/round_prelude.rs
//@@ INCLUDE lib/round_int_stubs.rs
pub trait Round: Copy {
//@@ INCLUDE lib/round_trait_decl.rs
}
//@@ INCLUDE lib/round_float_repr.rs
//@@ INCLUDE lib/conv_fbig_stubs.rs
//@@ INCLUDE lib/farith_repr_stubs.rs
//@@ INCLUDE lib/farith_lemmas.rs
//@@ INCLUDE lib/farith_sqrt_lemmas.rs
use core::marker::PhantomData;
global size_of usize == 8;   // DESIGN.md section 6: usize is 64-bit in all proofs
impl<T, E> Approximation<T, E> {
//@@ FN base/approx/map.rs
//@@ FN base/approx/and_then.rs
}
//@@ SIG float/mul/panic_operate_with_inf.rs
//@@ FN float/mul/assert_finite.rs
//@@ SIG float/root/panic_unlimited_precision.rs
//@@ FN float/root/assert_limited_precision.rs
//@@ SIG float/root/panic_root_negative.rs
impl<const B: Word> Repr<B> {
//@@ FN float/repr/is_infinite.rs
//@@ FN float/repr/digits.rs
//@@ FN float/convert/repr_sign.rs
}
impl<R: Round> Context<R> {
//@@ SIG float/repr/repr_round.rs
//@@ FN float/root/context_sqrt.rs
}
impl<R: Round, const B: Word> FBig<R, B> {
//@@ FN float/fbig/new.rs
}
} // verus!
fn main() {}
