// unit float_error_bounds_halfeven: float/src/round.rs `impl ErrorBounds for mode::HalfEven` against the same contract as
// unit float_error_bounds (C18): the bounds are inclusive iff the last digit of f at its precision is even.
// (Before fix S3 `incl = significand.bit(0)` had the parity inverted and this contract failed: FBig<HalfEven, 10> 0.13 with
// precision 2 -> simplest_from_float = 1/8 = 0.125, which rounds to 0.12.)
#![allow(unused_imports, unused_variables, dead_code, non_snake_case, unused_mut, unused_parens, unused_braces)]
use vstd::prelude::*;
verus! {
//@@ INCLUDE lib/round_prelude.rs
//@@ INCLUDE lib/round_int_stubs.rs
//@@ INCLUDE lib/round_modes.rs
pub trait Round: Copy {
    /// ghost: which of the six mode definitions the implementing type stands for
    spec fn md() -> Mode;
}
impl Round for mode::Zero { open spec fn md() -> Mode { Mode::Zero } }
impl Round for mode::Away { open spec fn md() -> Mode { Mode::Away } }
impl Round for mode::Up { open spec fn md() -> Mode { Mode::Up } }
impl Round for mode::Down { open spec fn md() -> Mode { Mode::Down } }
impl Round for mode::HalfAway { open spec fn md() -> Mode { Mode::HalfAway } }
impl Round for mode::HalfEven { open spec fn md() -> Mode { Mode::HalfEven } }
//@@ INCLUDE lib/round_float_repr.rs
//@@ INCLUDE lib/conv_fbig_stubs.rs
//@@ INCLUDE lib/ebounds_stubs.rs
//@@ INCLUDE lib/ebounds_lemmas.rs
use core::marker::PhantomData;
//@@ SIG float/error/panic_operate_with_inf.rs
//@@ FN float/error/assert_finite.rs
impl<const B: Word> Repr<B> {
//@@ FN float/repr/is_infinite.rs
//@@ FN float/repr/digits.rs
//@@ FN float/ebounds/repr_is_zero.rs
//@@ FN float/ebounds/repr_sign.rs
}
impl<R: Round, const B: Word> FBig<R, B> {
//@@ FN float/fbig/new.rs
//@@ FN float/ebounds/fbig_precision.rs
//@@ FN float/ebounds/fbig_repr.rs
//@@ FN float/ebounds/fbig_ulp.rs
}
//@@ FN float/ebounds/is_power_of_base.rs
//@@ FN float/ebounds/ulp_towards_zero.rs
//@@ FN float/ebounds/halfeven.rs
} // verus!
fn main() {}
