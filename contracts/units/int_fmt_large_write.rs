// unit int_fmt_large_write: integer/src/fmt/non_power_two.rs PreparedLarge::{write_chunk, write_big_chunk} and
// PreparedForFormatting::write for PreparedLarge (C07): the divide-and-conquer printer emits exactly the positional
// digits of the number the structure stands for -- every inner chunk zero padded to its full width.
// Trusted: lib/fmtl_stubs.rs (value contracts of Repr::as_typed / into_typed, TypedRepr::div_rem, mem::take),
// lib/codecs_fmt_stubs.rs, lib/codecs_writer_stub.rs, lib/div_word_stubs.rs; rules D22 / D23 (engine/lower.py).
#![allow(unused_imports, unused_variables, dead_code, non_snake_case, unused_mut, unused_parens, unused_braces)]
use vstd::prelude::*;
verus! {
//@@ INCLUDE lib/prelude.rs
//@@ INCLUDE lib/shift_bv.rs
//@@ INCLUDE lib/div_word_stubs.rs
//@@ INCLUDE lib/codecs_fmt_stubs.rs
//@@ INCLUDE lib/codecs_digit_lemmas.rs
//@@ INCLUDE lib/codecs_writer_stub.rs
//@@ INCLUDE lib/fmtl_stubs.rs
//@@ INCLUDE lib/fmtl_lemmas.rs
// contracts PROVED in unit int_fmt_digits
impl PreparedWord {
//@@ SIG integer/fmt_npt/word_new.rs
}
//@@ SIG integer/fmt_npt/word_write.rs
//@@ SIG integer/fmt_npt/medium_write.rs
//@@ SIG integer/fmt_npt/repr_to_chunk_buffer.rs
// D2 link: `prepared.write(..)` / `self.top_chunk.write(..)` in the real code resolve to the trait methods whose bodies
// ARE the hoisted functions proved in unit int_fmt_digits.
impl PreparedWord {
    pub fn write(&mut self, digit_writer: &mut DigitWriter) -> (ret: fmt::Result)
        requires word_wf(*old(self)),
        ensures *final(self) == *old(self),
            ret is Ok ==> final(digit_writer)@ == old(digit_writer)@
                + old(self).digits@.subrange(old(self).start_index as int, radix::MAX_WORD_DIGITS_NON_POW_2 as int),
    { word_write(self, digit_writer) }
}
impl PreparedMedium {
    pub fn write(&mut self, digit_writer: &mut DigitWriter) -> (ret: fmt::Result)
        requires medium_inv(*old(self)),
        ensures *final(self) == *old(self),
            ret is Ok ==> ({
                let (pre, out, r) = (old(digit_writer)@, final(digit_writer)@, old(self).radix as int);
                &&& out.len() == pre.len() + medium_digits(*old(self))
                &&& out.subrange(0, pre.len() as int) == pre
                &&& digits_ok(out, pre.len() as int, out.len() as int, r)
                &&& dval(out, pre.len() as int, out.len() as int, r) == medium_value(*old(self))
                &&& forall|p: int| pre.len() <= p < pre.len() + word_digits(old(self).top_group) ==>
                        #[trigger] out[p] == old(self).top_group.digits@[p - pre.len() + old(self).top_group.start_index as int]
            }),
    { medium_write(self, digit_writer) }
}
pub mod div {
use super::*;
//@@ SIG integer/div/fast_div_by_word_in_place.rs
}
impl PreparedLarge {
//@@ FN integer/fmt_large/write_chunk.rs
//@@ FN integer/fmt_large/write_big_chunk.rs
}
//@@ FN integer/fmt_large/large_write.rs
} // verus!
fn main() {}
