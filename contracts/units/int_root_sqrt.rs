// unit int_root_sqrt: integer/src/root.rs `sqrt_rem` / `sqrt_rem_42` (Karatsuba square root, Zimmermann) (C12, C16):
// for a normalized 2n-word input (top two bits not both zero): val(a) == s^2 + (r + carry*B^n), r + carry*B^n <= 2 s,
// s = the n-word root written to b, r = a'[..n].  This is the contract ASSUMED by unit int_root_ops (lib/gcdo_root_lemmas.rs).
// Callees through their contracts (//@@ SIG): add / mul / shift kernels (int_add, int_mul, int_shift), div::div_rem_in_place
// (int_div_ops), sqr::sqr (int_sqr), primitive::* (int_prim).
// Trusted: lib/mulalg_root_stubs.rs (DoubleWord::sqrt_rem / div_rem of dashu-base), lib/div_dword_stubs.rs
// (FastDivideNormalized2::new), lib/div_simple_stubs.rs (primitive::highest_dword), lib/dword_core_specs.rs, Memory (opaque).
#![allow(unused_imports, unused_variables, dead_code, non_snake_case, unused_mut, unused_parens, unused_braces)]
use vstd::prelude::*;
verus! {
//@@ INCLUDE lib/prelude.rs
//@@ INCLUDE lib/dword_core_specs.rs
//@@ INCLUDE lib/mul_lemmas.rs
//@@ INCLUDE lib/mulalg_core_lemmas.rs
//@@ INCLUDE lib/div_dword_stubs.rs
//@@ INCLUDE lib/div_post_spec.rs
//@@ INCLUDE lib/div_simple_stubs.rs
//@@ INCLUDE lib/mulalg_root_stubs.rs
//@@ INCLUDE lib/mulalg_root_lemmas.rs
//@@ SIG integer/primitive/double_word.rs
//@@ SIG integer/primitive/extend_word.rs
//@@ SIG integer/primitive/split_dword.rs
pub mod add {
use super::*;
//@@ SIG integer/add/add_in_place.rs
//@@ SIG integer/add/add_word_in_place.rs
//@@ SIG integer/add/sub_in_place.rs
//@@ SIG integer/add/sub_one_in_place.rs
}
pub mod div {
use super::*;
//@@ SIG integer/div_glue/div_rem_in_place.rs
}
pub mod mul {
use super::*;
//@@ SIG integer/mul/add_mul_word_in_place.rs
}
pub mod shift {
use super::*;
//@@ SIG integer/shift/shr_in_place_with_carry.rs
}
pub mod sqr {
use super::*;
//@@ SIG integer/mul_algos/sqr.rs
}
pub mod root {
use super::*;
use super::add::{add_in_place, add_word_in_place, sub_in_place, sub_one_in_place};
use super::mul::add_mul_word_in_place;
use super::shift::shr_in_place_with_carry;
//@@ FN integer/mul_algos/sqrt_rem_42.rs
//@@ FN integer/mul_algos/sqrt_rem.rs
}
} // verus!
fn main() {}
