// unit int_mul_karatsuba: integer/src/mul/karatsuba.rs (C01, C16): c += sign * a * b by Karatsuba's three half-size
// products.  The half-size products go through the dispatcher mul::add_signed_mul_same_len, seen through its contract
// (//@@ SIG; PROVED in unit int_mul_dispatch from the same annotated copy); the unequal-length entry add_signed_mul
// forwards to helpers::add_signed_mul_split_into_chunks (contract PROVED in int_mul_dispatch).
// Trusted: lib/mulalg_stubs.rs (Memory scratch allocator: allocate_slice_fill / _copy return what their names say;
// Sign operators transcribed from dashu-base and verified here), MIN_LEN mirrored below.
#![allow(unused_imports, unused_variables, dead_code, non_snake_case, unused_mut, unused_parens, unused_braces)]
use vstd::prelude::*;
verus! {
//@@ INCLUDE lib/prelude.rs
//@@ INCLUDE lib/sign.rs
//@@ INCLUDE lib/mul_lemmas.rs
//@@ INCLUDE lib/mulalg_stubs.rs
//@@ INCLUDE lib/mulalg_core_lemmas.rs
//@@ INCLUDE lib/mulalg_lemmas.rs
pub mod add {
use super::*;
//@@ SIG integer/add/add_signed_same_len_in_place.rs
//@@ SIG integer/add/add_signed_in_place.rs
//@@ SIG integer/add/add_signed_word_in_place.rs
//@@ SIG integer/add/sub_in_place_with_sign.rs
}
pub mod mul {
use super::*;
//@@ SIG integer/mul_algos/add_signed_mul_same_len.rs
pub mod karatsuba {
use super::super::*;
use super::super::mul;
/// integer/src/mul/karatsuba.rs:19 (mirrored)
pub const MIN_LEN: usize = 3;
// debug assertion #4 `carry.abs() <= 1` is not spec-expressible (exec `abs`): it is the postcondition -1 <= ret <= 1
//@@ FN integer/mul_algos/kara_add_signed_mul_same_len.rs drop_asserts=4
}
}
} // verus!
fn main() {}
