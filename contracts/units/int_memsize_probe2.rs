#![allow(unused_imports, unused_variables, dead_code, non_snake_case, unused_mut, unused_parens, unused_braces)]
use vstd::prelude::*;
verus! {
//@@ INCLUDE lib/prelude.rs
//@@ INCLUDE lib/mem_need.rs
//@@ INCLUDE lib/mem_need_slack.rs
} // verus!
fn main() {}
