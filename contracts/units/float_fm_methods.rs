// unit float_fm_methods: the FBig-LEVEL inherent / trait methods of float/src/mul.rs, root.rs, div.rs that forward to a
// Context-level function with the number's own context: `FBig::sqr`, `FBig::cubic` (C03: the same statement as
// Context::sqr / Context::cubic -- ONE correct rounding of the exact SIGNED power by the mode of the type -- applied to
// self.repr under self.context).  The Context-level functions are seen through their contracts (SIG, proved in unit
// float_mul); `Approximation::value` is verified here.
#![allow(unused_imports, unused_variables, dead_code, non_snake_case, unused_mut, unused_parens, unused_braces)]
use vstd::prelude::*;
verus! {
//@@ INCLUDE lib/round_prelude.rs
//@@ INCLUDE lib/round_int_stubs.rs
//@@ INCLUDE lib/round_int_addsub_stubs.rs
pub trait Round: Copy {
    /// ghost: which of the six mode definitions the implementing type stands for
    spec fn md() -> Mode;
}
//@@ INCLUDE lib/round_float_repr.rs
//@@ INCLUDE lib/conv_fbig_stubs.rs
//@@ INCLUDE lib/farith_repr_stubs.rs
//@@ INCLUDE lib/farith_lemmas.rs
//@@ INCLUDE lib/farith_add_stubs.rs
//@@ INCLUDE lib/farith_div_lemmas.rs
//@@ INCLUDE lib/farith_sqrt_lemmas.rs
//@@ INCLUDE lib/fm_float_spec.rs
//@@ INCLUDE lib/fs_spec.rs
//@@ INCLUDE lib/fs_stubs.rs
//@@ INCLUDE lib/fm_fbig_clone.rs
//@@ INCLUDE lib/fm_float_stubs.rs
use core::marker::PhantomData;
global size_of usize == 8;   // DESIGN.md section 6: usize is 64-bit in all proofs
impl<T, E> Approximation<T, E> {
//@@ FN float/mul/approx_value.rs
}
impl<R: Round> Context<R> {
//@@ SIG float/mul/context_sqr.rs
//@@ SIG float/mul/context_cubic.rs
//@@ FN float/mul/context_max.rs
//@@ SIG float/div/repr_div.rs
//@@ SIG float/div/context_inv.rs
//@@ SIG float/root/context_sqrt.rs
}
impl<R: Round, const B: Word> FBig<R, B> {
//@@ FN float/fbig/new.rs
//@@ FN float/ebounds/fbig_repr.rs
//@@ FN float/fmisc/fbig_sqr.rs
//@@ FN float/fmisc/fbig_cubic.rs
}
//@@ FN float/fmisc/fbig_sqrt.rs
//@@ FN float/fmisc/fbig_inv_val.rs
//@@ FN float/fmisc/fbig_inv_ref.rs
// the four `FBig / FBig` operand forms: arms of impl_div_or_rem_for_fbig!, instantiated as the invocation div.rs:53 does
//@@ FN float/fmisc/fbig_div_vv.rs msubst=op:Div,method:div,repr_method:repr_div
//@@ FN float/fmisc/fbig_div_rv.rs msubst=op:Div,method:div,repr_method:repr_div
//@@ FN float/fmisc/fbig_div_vr.rs msubst=op:Div,method:div,repr_method:repr_div
//@@ FN float/fmisc/fbig_div_rr.rs msubst=op:Div,method:div,repr_method:repr_div
} // verus!
fn main() {}
