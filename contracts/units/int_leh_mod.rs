// unit int_leh_mod: integer/src/gcd/mod.rs gcd_in_place, gcd_ext_in_place (C12): the two entry points gcd_ops.rs calls; they forward to the
// Lehmer routines PROVED in units int_leh_gcd / int_leh_gcd_ext (//@@ SIG) with the same contracts -- the contracts that
// lib/gcdo_ops_stubs.rs (`mod gcd_lehmer_stub`) ASSUMES for unit int_gcd_ops, plus the resource preconditions on the slice length.
#![allow(unused_imports, unused_variables, dead_code, non_snake_case, unused_mut, unused_parens, unused_braces)]
use vstd::prelude::*;
use core::cmp::Ordering;
verus! {
//@@ INCLUDE lib/prelude.rs
//@@ INCLUDE lib/sign.rs
//@@ INCLUDE lib/div_dword_stubs.rs
//@@ INCLUDE lib/div_post_spec.rs
//@@ INCLUDE lib/leh_ext_stubs.rs
pub mod gcd {
use super::*;
pub mod lehmer {
use super::super::*;
//@@ SIG integer/lehmer/gcd_in_place.rs
//@@ SIG integer/lehmer/gcd_ext_in_place.rs
}
// debug assertion #0 (`lhs.last().unwrap() != &0 && ..`: not spec-expressible, type inference of `&0`) dropped: it is the precondition
// "top words non-zero"
//@@ FN integer/lehmer/mod_gcd_in_place.rs drop_asserts=0
//@@ FN integer/lehmer/mod_gcd_ext_in_place.rs
}
} // verus!
fn main() {}
