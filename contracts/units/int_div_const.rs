// unit int_div_const: integer/src/div_const.rs — division through a prepared ConstDivisor gives the same quotient
// and remainder as plain division (C02, C16, C19).
// Trusted: lib/div_const_stubs.rs (num_modular PreMulInv2by1 / PreMulInv3by2 wrappers, mirrored ConstDivisor types),
// lib/div_word_stubs.rs, lib/div_dword_stubs.rs (num_modular dividers), lib/repr_stubs.rs (Buffer / Repr),
// lib/div_ops_stubs.rs (memory stubs, Buffer::erase_front); kernel contracts via //@@ SIG (proved in units int_div_word,
// int_div_dword, int_shift, int_div_ops).
#![allow(unused_imports, unused_variables, dead_code, non_snake_case, unused_mut, unused_parens, unused_braces)]
use vstd::prelude::*;
verus! {
//@@ INCLUDE lib/prelude.rs
//@@ INCLUDE lib/sign.rs
//@@ INCLUDE lib/shift_bv.rs
//@@ INCLUDE lib/repr_stubs.rs
//@@ INCLUDE lib/div_word_stubs.rs
//@@ INCLUDE lib/div_dword_stubs.rs
//@@ INCLUDE lib/div_post_spec.rs
//@@ INCLUDE lib/div_ops_stubs.rs
//@@ INCLUDE lib/div_const_stubs.rs
//@@ INCLUDE lib/div_dword_bits_@BITS@.rs
//@@ INCLUDE lib/div_dword_lemmas.rs
//@@ INCLUDE lib/div_simple_lemmas.rs
//@@ INCLUDE lib/div_ops_lemmas.rs
//@@ INCLUDE lib/div_const_lemmas.rs
//@@ SIG integer/primitive/extend_word.rs
//@@ SIG integer/primitive/double_word.rs
//@@ SIG integer/math/shl_dword.rs
pub mod div {
use super::*;
pub use super::div_dc_stub::memory_requirement_exact;
//@@ SIG integer/div_glue/div_rem_unshifted_in_place.rs
//@@ SIG integer/div/fast_rem_by_normalized_word.rs
//@@ SIG integer/div/fast_rem_by_normalized_dword.rs
//@@ SIG integer/div/fast_div_by_word_in_place.rs
//@@ SIG integer/div/fast_div_by_dword_in_place.rs
}
impl ConstSingleDivisor {
//@@ FN integer/div_const/single_rem_word.rs
//@@ FN integer/div_const/single_rem_dword.rs
//@@ FN integer/div_const/single_rem_large.rs
}
impl ConstDoubleDivisor {
//@@ FN integer/div_const/double_rem_dword.rs
//@@ FN integer/div_const/double_rem_large.rs
}
pub mod shift {
use super::*;
//@@ SIG integer/shift/shr_in_place.rs
}
pub mod repr {
use super::*;
broadcast use super::buffer_stub::ax_buffer_inv;
//@@ FN integer/div_const/div_rem_small_single.rs
//@@ FN integer/div_const/div_rem_small_double.rs
//@@ FN integer/div_const/rem_large_large.rs
//@@ FN integer/div_const/typed_rem_const.rs
//@@ FN integer/div_const/typedref_rem_const.rs
//@@ FN integer/div_const/typed_div_const.rs
//@@ FN integer/div_const/typed_divrem_const.rs
}
} // verus!
fn main() {}
