// unit num_hash_ratio: rational/src/third_party/num_order.rs `impl NumHash for Repr` (behind RBig / Relaxed; C14): the i128 fed to
// the hasher is num-order's hash of the rational number n/d in Z/(2^127 - 1): sgn(n) * (|n| * d^-1), 0 when 2^127 - 1 divides d.
// Trusted: lib/gcdo_numhash_stubs.rs (num_modular FixedMersenneInt, primality of 2^127 - 1, `&IBig % i128`, NumHash for i128),
// lib/no_int_hash_stubs.rs (`&UBig % u128`), lib/no_ratio_hash_stubs.rs (Sign * i128, is_positive).
#![allow(unused_imports, unused_variables, dead_code, non_snake_case, unused_mut, unused_parens, unused_braces)]
use vstd::prelude::*;
use vstd::arithmetic::power2::pow2;
use core::cmp::Ordering;
use core::hash::Hash;
use core::ops::{Add, Sub, Mul, Div, Rem};
verus! {
global size_of usize == 8;
//@@ INCLUDE lib/ratio_lemmas.rs
//@@ INCLUDE lib/bigstub.rs
impl Sign {
//@@ SIG rational/sign/base_sign_mul.rs
//@@ SIG rational/sign/base_sign_neg.rs
//@@ SIG rational/sign/base_sign_cmp.rs
}
//@@ INCLUDE lib/ratio_types.rs
//@@ INCLUDE lib/gcdo_numhash_stubs.rs
//@@ INCLUDE lib/no_int_hash_stubs.rs
//@@ INCLUDE lib/no_ratio_hash_stubs.rs
pub mod num_order {
use super::*;
use vstd::arithmetic::div_mod::*;
broadcast use {crate::bigstub::ax_ubig_of, crate::bigstub::ax_ibig_of, crate::bigstub::ax_ubig_nonneg};
//@@ FN rational/numorder2/repr_num_hash.rs
}
} // verus!
fn main() {}
