// unit num_hash_int: integer/src/third_party/num_order.rs `impl NumHash for UBig` / `impl NumHash for IBig` (C14): the i128 fed
// to the hasher is num-order's hash of the integer, sgn(n) * (|n| mod (2^127 - 1)) -- in particular 2^127 - 1 itself hashes like 0
// -- which is what the primitive integers feed (lemma_i128_hash: num-order's i128 impl agrees with the definition on every i128).
// Trusted: lib/gcdo_numhash_stubs.rs (`&IBig % i128` truncated remainder), lib/no_int_hash_stubs.rs (`&UBig % u128`, Hash for i128).
#![allow(unused_imports, unused_variables, dead_code, non_snake_case, unused_mut, unused_parens, unused_braces)]
use vstd::prelude::*;
use vstd::arithmetic::power2::pow2;
use core::cmp::Ordering;
use core::hash::Hash;
use core::ops::{Add, Sub, Mul, Div, Rem};
verus! {
global size_of usize == 8;
//@@ INCLUDE lib/ratio_lemmas.rs
//@@ INCLUDE lib/bigstub.rs
impl Sign {
//@@ SIG rational/sign/base_sign_mul.rs
//@@ SIG rational/sign/base_sign_neg.rs
//@@ SIG rational/sign/base_sign_cmp.rs
}
//@@ INCLUDE lib/gcdo_numhash_stubs.rs
//@@ INCLUDE lib/no_int_hash_stubs.rs
pub mod num_order {
use super::*;
use vstd::arithmetic::div_mod::*;
broadcast use {crate::bigstub::ax_ubig_of, crate::bigstub::ax_ibig_of, crate::bigstub::ax_ubig_nonneg};
//@@ FN integer/numorder2/ubig_num_hash.rs
//@@ FN integer/numorder2/ibig_num_hash.rs
}
} // verus!
fn main() {}
