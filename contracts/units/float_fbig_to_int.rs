// unit float_fbig_to_int: float/src/convert.rs `FBig::to_int` (C10: Exact iff the value is an integer; otherwise the
// neighbour named by the rounding mode R of the type with a truthful adjustment flag).  `FBig::split_at_point_internal` is
// seen through the contract it is verified against in unit float_round_ops_split, `Round::round_fract` through the one of
// unit float_round (SIG).
#![allow(unused_imports, unused_variables, dead_code, non_snake_case, unused_mut, unused_parens, unused_braces)]
use vstd::prelude::*;
verus! {
//@@ INCLUDE lib/round_prelude.rs
//@@ INCLUDE lib/round_int_stubs.rs
//@@ INCLUDE lib/round_modes.rs
pub trait Round: Copy {
    /// ghost: which of the six mode definitions the implementing type stands for
    spec fn md() -> Mode;
//@@ SIG float/round/round_fract.rs
}
// the mode types used by name in round_ops.rs (their `round_low_part` is verified against these definitions in units
// float_round_up / float_round_down / float_round_halfaway)
impl Round for mode::Up { open spec fn md() -> Mode { Mode::Up } }
impl Round for mode::Down { open spec fn md() -> Mode { Mode::Down } }
impl Round for mode::HalfAway { open spec fn md() -> Mode { Mode::HalfAway } }
//@@ INCLUDE lib/round_float_repr.rs
//@@ INCLUDE lib/farith_lemmas.rs
//@@ INCLUDE lib/ro_stubs.rs
//@@ INCLUDE lib/ebounds_stubs.rs
//@@ INCLUDE lib/ro_lemmas.rs
use core::marker::PhantomData;
global size_of usize == 8;   // DESIGN.md section 6: usize is 64-bit in all proofs
//@@ SIG float/error/panic_operate_with_inf.rs
//@@ FN float/error/assert_finite.rs
impl<const B: Word> Repr<B> {
//@@ FN float/repr/is_infinite.rs
//@@ SIG float/round_ops/smaller_than_one.rs
}
impl<R: Round, const B: Word> FBig<R, B> {
//@@ SIG float/round_ops/split_at_point_internal.rs
//@@ FN float/round_ops/fbig_to_int.rs
}
} // verus!
fn main() {}
