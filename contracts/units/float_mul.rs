// unit float_mul: float/src/mul.rs `Context::{mul, sqr, cubic}` (C03: the exact product of the significands / sum of
// the exponents followed by ONE `repr_round`), seen through the contract of `Context::repr_round` proved in unit
// float_repr_round (SIG = generated from the same annotated copy), with the real helpers `assert_finite(_operands)`,
// `Repr::{is_infinite, digits}`, `Context::{new, is_limited}`, `FBig::new`, `Approximation::{map, value}`.
#![allow(unused_imports, unused_variables, dead_code, non_snake_case, unused_mut, unused_parens, unused_braces)]
use vstd::prelude::*;
verus! {
//@@ INCLUDE lib/round_prelude.rs
//@@ INCLUDE lib/round_int_stubs.rs
pub trait Round: Copy {
    /// ghost: which of the six mode definitions the implementing type stands for
    spec fn md() -> Mode;
}
//@@ INCLUDE lib/round_float_repr.rs
//@@ INCLUDE lib/conv_fbig_stubs.rs
//@@ INCLUDE lib/farith_repr_stubs.rs
//@@ INCLUDE lib/farith_lemmas.rs
//@@ INCLUDE lib/farith_mul_stubs.rs
use core::marker::PhantomData;
impl<T, E> Approximation<T, E> {
//@@ FN base/approx/map.rs
//@@ FN float/mul/approx_value.rs
}
//@@ SIG float/mul/panic_operate_with_inf.rs
//@@ FN float/mul/assert_finite.rs
//@@ FN float/mul/assert_finite_operands.rs
impl<const B: Word> Repr<B> {
//@@ FN float/repr/is_infinite.rs
//@@ FN float/repr/digits.rs
}
impl<R: Round> Context<R> {
//@@ FN float/convert/context_new.rs
//@@ FN float/mul/context_max.rs
//@@ FN float/repr/is_limited.rs
//@@ SIG float/repr/repr_round.rs
//@@ SIG float/repr/repr_round_ref.rs
//@@ FN float/mul/context_mul.rs
//@@ FN float/mul/context_sqr.rs
//@@ FN float/mul/context_cubic.rs
}
impl<R: Round, const B: Word> FBig<R, B> {
//@@ FN float/fbig/new.rs
}
//@@ FN float/mul/fbig_mul_ref_ref.rs
//@@ FN float/mul/fbig_mul_val_ref.rs
//@@ FN float/mul/fbig_mul_ref_val.rs
//@@ FN float/mul/fbig_mul_val_val.rs
} // verus!
fn main() {}
