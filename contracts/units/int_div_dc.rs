// unit int_div_dc: integer/src/div/divide_conquer.rs (Burnikel-Ziegler division above the schoolbook threshold) (C02, C16)
// Trusted: num_modular 3by2 divisor stub (only passed through), ASSUMED contract of mul::add_signed_mul
// (lib/div_dc_stubs.rs), Memory stub; `static_assertions::const_assert!` is a compile-time check (expands to nothing
// at run time): declared as an empty macro below.  simple::div_rem_in_place through //@@ SIG (proved in int_div_simple).
#![allow(unused_imports, unused_variables, dead_code, non_snake_case, unused_mut, unused_parens, unused_braces)]
use vstd::prelude::*;
macro_rules! const_assert { ($($t:tt)*) => {}; }
verus! {
//@@ INCLUDE lib/prelude.rs
//@@ INCLUDE lib/sign.rs
//@@ INCLUDE lib/div_dword_stubs.rs
//@@ INCLUDE lib/div_post_spec.rs
//@@ INCLUDE lib/div_dc_stubs.rs
//@@ INCLUDE lib/div_simple_lemmas.rs
//@@ INCLUDE lib/div_dc_lemmas.rs
pub mod add {
use super::*;
//@@ SIG integer/add/add_same_len_in_place.rs
//@@ SIG integer/add/sub_same_len_in_place.rs
//@@ SIG integer/add/sub_one_in_place.rs
}
pub mod div {
use super::*;
/// integer/src/div/mod.rs:20
pub const THRESHOLD_SIMPLE: usize = 32;
pub mod simple {
use super::super::*;
//@@ SIG integer/div_simple/div_rem_in_place.rs
}
pub mod divide_conquer {
use super::super::*;
use super::super::div;
//@@ FN integer/div_dc/small_quotient.rs drop_asserts=0
//@@ FN integer/div_dc/same_len.rs
//@@ FN integer/div_dc/div_rem_in_place.rs
}
}
} // verus!
fn main() {}
