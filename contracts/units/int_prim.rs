// unit int_prim: word-level primitives (arch/generic/add.rs, primitive.rs)
#![allow(unused_imports, unused_variables, dead_code, non_snake_case, unused_mut, unused_parens, unused_braces)]
use vstd::prelude::*;
verus! {
//@@ INCLUDE lib/prelude.rs
//@@ INCLUDE lib/word_bv_@BITS@.rs
//@@ FN integer/arch/add_with_carry.rs
//@@ FN integer/arch/sub_with_borrow.rs
//@@ FN integer/primitive/extend_word.rs
//@@ FN integer/primitive/double_word.rs
//@@ FN integer/primitive/split_dword.rs
} // verus!
fn main() {}
