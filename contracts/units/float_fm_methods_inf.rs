// unit float_fm_methods_inf: C16 "arithmetic on infinities panics" for the FBig-level methods `FBig::sqr` / `FBig::cubic`
// (float/src/mul.rs): `must_panic` variants (rule D4): with an infinite operand no normal return is possible, over the
// must_panic contracts of Context::sqr / Context::cubic proved in unit float_mul_inf (SIG, same annotated copies).
#![allow(unused_imports, unused_variables, dead_code, non_snake_case, unused_mut, unused_parens, unused_braces)]
use vstd::prelude::*;
verus! {
//@@ INCLUDE lib/round_prelude.rs
//@@ INCLUDE lib/round_int_stubs.rs
pub trait Round: Copy {
    /// ghost: which of the six mode definitions the implementing type stands for
    spec fn md() -> Mode;
}
//@@ INCLUDE lib/round_float_repr.rs
//@@ INCLUDE lib/conv_fbig_stubs.rs
//@@ INCLUDE lib/farith_repr_stubs.rs
//@@ INCLUDE lib/farith_lemmas.rs
use core::marker::PhantomData;
impl<T, E> Approximation<T, E> {
//@@ FN float/mul/approx_value.rs
}
impl<R: Round> Context<R> {
//@@ SIG float/mul/context_sqr.rs variant=must_panic
//@@ SIG float/mul/context_cubic.rs variant=must_panic
}
impl<R: Round, const B: Word> FBig<R, B> {
//@@ FN float/fmisc/fbig_sqr.rs variant=must_panic
//@@ FN float/fmisc/fbig_cubic.rs variant=must_panic
}
} // verus!
fn main() {}
