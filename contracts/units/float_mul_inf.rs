// unit float_mul_inf: C16 "arithmetic on infinities panics" for float/src/mul.rs: `must_panic` variants (rule D4) of
// `Context::{mul, sqr, cubic}` and of the four `FBig * FBig` operand forms: with an infinite operand no normal return
// is possible (`panic_operate_with_inf() -> !` never returns; `assert_finite(_operands)` verified in the same variant).
#![allow(unused_imports, unused_variables, dead_code, non_snake_case, unused_mut, unused_parens, unused_braces)]
use vstd::prelude::*;
verus! {
//@@ INCLUDE lib/round_prelude.rs
//@@ INCLUDE lib/round_int_stubs.rs
pub trait Round: Copy {
    /// ghost: which of the six mode definitions the implementing type stands for
    spec fn md() -> Mode;
}
//@@ INCLUDE lib/round_float_repr.rs
//@@ INCLUDE lib/conv_fbig_stubs.rs
//@@ INCLUDE lib/farith_repr_stubs.rs
//@@ INCLUDE lib/farith_lemmas.rs
//@@ INCLUDE lib/farith_mul_stubs.rs
use core::marker::PhantomData;
impl<T, E> Approximation<T, E> {
//@@ FN base/approx/map.rs
//@@ FN float/mul/approx_value.rs
}
//@@ SIG float/mul/panic_operate_with_inf.rs variant=must_panic
//@@ FN float/mul/assert_finite.rs variant=must_panic
//@@ FN float/mul/assert_finite_operands.rs variant=must_panic
impl<const B: Word> Repr<B> {
//@@ FN float/repr/is_infinite.rs
//@@ SIG float/repr/digits.rs
}
impl<R: Round> Context<R> {
//@@ FN float/convert/context_new.rs
//@@ FN float/mul/context_max.rs
//@@ FN float/repr/is_limited.rs
//@@ SIG float/repr/repr_round.rs
//@@ SIG float/repr/repr_round_ref.rs
//@@ FN float/mul/context_mul.rs variant=must_panic
//@@ FN float/mul/context_sqr.rs variant=must_panic
//@@ FN float/mul/context_cubic.rs variant=must_panic
}
impl<R: Round, const B: Word> FBig<R, B> {
//@@ FN float/fbig/new.rs
}
//@@ FN float/mul/fbig_mul_ref_ref.rs variant=must_panic
//@@ FN float/mul/fbig_mul_val_ref.rs variant=must_panic
//@@ FN float/mul/fbig_mul_ref_val.rs variant=must_panic
//@@ FN float/mul/fbig_mul_val_val.rs variant=must_panic
} // verus!
fn main() {}
