// unit ratio_from_float: rational/src/third_party/dashu_float.rs `TryFrom<FBigRepr<B>>` for Repr, RBig and Relaxed
// (macro forward_conversion_to_repr!; the two instances take their metavariable bindings from the real invocations
// `forward_conversion_to_repr!(RBig, reduce);` / `(Relaxed, reduce2)` -- rule E3c, minvoke=) (C04/C06):
// infinities are rejected, every other float m * B^e converts to exactly that fraction, the RBig in canonical form.
#![allow(unused_imports, unused_variables, dead_code, non_snake_case, unused_mut, unused_parens, unused_braces)]
use vstd::prelude::*;
use vstd::arithmetic::power2::pow2;
use core::cmp::Ordering;
use core::ops::{Add, Sub, Mul, Div, Rem};
verus! {
//@@ INCLUDE lib/ratio_lemmas.rs
//@@ INCLUDE lib/bigstub.rs
impl Sign {
// base/src/sign.rs: proved in unit ratio_ops / ratio_reduce, here seen through their contracts
//@@ SIG rational/sign/base_sign_mul.rs
//@@ SIG rational/sign/base_sign_neg.rs
//@@ SIG rational/sign/base_sign_cmp.rs
}
//@@ INCLUDE lib/ratio_types.rs
//@@ INCLUDE lib/ratio2_float_stubs.rs
impl Repr {
// proved in unit ratio_reduce
//@@ SIG rational/repr/reduce.rs
//@@ SIG rational/repr/reduce_with_hint.rs
//@@ SIG rational/repr/reduce2.rs
}
//@@ FN rational/float/repr_try_from_float.rs
//@@ FN rational/float/try_from_float_repr.rs variant=rbig minvoke=0 mexpect=t:RBig mbase=t:RBig,reduce:reduce
//@@ FN rational/float/try_from_float_repr.rs variant=relaxed minvoke=1 mexpect=t:Relaxed mbase=t:Relaxed,reduce:reduce2
} // verus!
fn main() {}
