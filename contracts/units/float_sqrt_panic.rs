// unit float_sqrt_panic: C16 for float/src/root.rs `Context::sqrt`: must_panic variant (rule D4): an infinite operand,
// an unlimited precision or a negative operand leave no normal return; `assert_finite` / `assert_limited_precision` are
// verified in their "guard" reading (they return only if the condition holds; the panic helpers never return).
#![allow(unused_imports, unused_variables, dead_code, non_snake_case, unused_mut, unused_parens, unused_braces)]
use vstd::prelude::*;
verus! {
//@@ INCLUDE lib/round_prelude.rs
//@@ INCLUDE lib/round_int_stubs.rs
pub trait Round: Copy {
//@@ INCLUDE lib/round_trait_decl.rs
}
//@@ INCLUDE lib/round_float_repr.rs
//@@ INCLUDE lib/conv_fbig_stubs.rs
//@@ INCLUDE lib/farith_repr_stubs.rs
//@@ INCLUDE lib/farith_lemmas.rs
//@@ INCLUDE lib/farith_sqrt_lemmas.rs
use core::marker::PhantomData;
global size_of usize == 8;   // DESIGN.md section 6: usize is 64-bit in all proofs
impl<T, E> Approximation<T, E> {
//@@ FN base/approx/map.rs
//@@ FN base/approx/and_then.rs
}
//@@ SIG float/mul/panic_operate_with_inf.rs variant=must_panic
//@@ FN float/root/assert_finite_guard.rs
//@@ SIG float/root/panic_unlimited_precision.rs variant=must_panic
//@@ FN float/root/assert_limited_precision_guard.rs
//@@ SIG float/root/panic_root_negative.rs variant=must_panic
impl<const B: Word> Repr<B> {
//@@ FN float/repr/is_infinite.rs
//@@ SIG float/repr/digits.rs
//@@ FN float/convert/repr_sign.rs
}
impl<R: Round> Context<R> {
//@@ SIG float/repr/repr_round.rs
//@@ FN float/root/context_sqrt.rs variant=must_panic
}
impl<R: Round, const B: Word> FBig<R, B> {
//@@ FN float/fbig/new.rs
}
} // verus!
fn main() {}
