// unit int_log: integer/src/log.rs `mod repr` log_dword (C12, C16): floor logarithm of a double word in a double-word base:
//   base^e <= target < base^(e+1)  for an ARBITRARY float estimate (rule D10b: the estimate function has no contract), the
// run-time `assert!(est_pow <= target)` being a possible panic (rule D4a `#[assert_guard]`), not a proof obligation.
#![allow(unused_imports, unused_variables, dead_code, non_snake_case, unused_mut, unused_parens, unused_braces)]
use vstd::prelude::*;
verus! {
//@@ INCLUDE lib/prelude.rs
//@@ INCLUDE lib/sign.rs
//@@ INCLUDE lib/repr_stubs.rs
//@@ INCLUDE lib/gcdo_log_stubs.rs
pub mod log {
pub mod repr {
use super::super::*;
//@@ FN integer/log/log_dword.rs
}
}
} // verus!
fn main() {}
