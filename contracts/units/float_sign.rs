// unit float_sign: float/src/sign.rs, every item of the file.  C15: the call forms of one operation are proved against
// ONE predicate (lib/fs_spec.rs):
//   fs_sign_post(x, s, r)  (significand s * x.significand, exponent and context kept)
//       `Neg for FBig` and `Neg for &FBig` (s = Negative), `Mul<FBig> for Sign`, `Mul<Sign> for FBig`, `MulAssign<Sign> for FBig`
//   fs_sign_of(x.repr)     inherent `FBig::sign` and trait method `Signed::sign`
//   fs_abs_post            `Abs for FBig`;   `Neg for Repr`: significand negated, exponent kept;
//   `FBig::signum`: significand fs_signum_of (1 / 0 / -1 by the sign of the value, infinities included), exponent 0, precision 1.
// No precondition: the statements hold for infinities too.  OBSERVATION (unchanged tree, not a C15 violation because all
// forms agree): an infinity has significand 0 and carries its sign in the exponent, so `-x`, `-&x`, `x * Negative`,
// `Negative * x`, `x *= Negative` all return an infinity UNCHANGED (`-FBig::INFINITY == FBig::INFINITY`), and
// `FBig::NEG_INFINITY.abs()` stays negative; fs_sign_post states exactly this representation-level behaviour.
// Real callees verified in the same unit: `Repr::sign`, `FBig::new`, `Context::new`.
#![allow(unused_imports, unused_variables, dead_code, non_snake_case, unused_mut, unused_parens, unused_braces)]
use vstd::prelude::*;
verus! {
//@@ INCLUDE lib/round_prelude.rs
//@@ INCLUDE lib/round_int_stubs.rs
//@@ INCLUDE lib/round_int_addsub_stubs.rs
pub trait Round: Copy {
    /// ghost: which of the six mode definitions the implementing type stands for
    spec fn md() -> Mode;
}
//@@ INCLUDE lib/round_float_repr.rs
//@@ INCLUDE lib/conv_fbig_stubs.rs
//@@ INCLUDE lib/ebounds_stubs.rs
//@@ INCLUDE lib/farith_add_stubs.rs
//@@ INCLUDE lib/fs_spec.rs
//@@ INCLUDE lib/fs_stubs.rs
use core::marker::PhantomData;
global size_of usize == 8;   // DESIGN.md section 6: usize is 64-bit in all proofs
impl<const B: Word> Repr<B> {
//@@ FN float/ebounds/repr_sign.rs
}
impl<R: Round> Context<R> {
//@@ FN float/convert/context_new.rs
}
impl<R: Round, const B: Word> FBig<R, B> {
//@@ FN float/fbig/new.rs
//@@ FN float/shift/signum.rs
}
//@@ FN float/shift/fbig_sign.rs
//@@ FN float/shift/signed_sign.rs
//@@ FN float/shift/repr_neg.rs
//@@ FN float/shift/fbig_neg.rs
//@@ FN float/shift/fbig_neg_ref.rs
//@@ FN float/shift/fbig_abs.rs
//@@ FN float/shift/sign_mul_fbig.rs
//@@ FN float/shift/fbig_mul_sign.rs
//@@ FN float/shift/fbig_mul_assign_sign.rs
} // verus!
fn main() {}
