// unit int_im_gcd_ops: integer/src/gcd_ops.rs -- EVERY owned / borrowed form of gcd / gcd_ext (C12, C15, C16):
//   * `mod repr`: the four `ExtendedGcd` dispatch impls on TypedRepr / TypedReprRef, re-verified from annotated copies WITHOUT
//     annotations inside the match arms (a rewritten arm, e.g. a dropped coefficient swap, is judged by the contract instead of
//     losing its anchors), the three forwarding `Gcd` impls (`self.as_ref().gcd(rhs.as_ref())` ..) + repr.rs TypedRepr::as_ref;
//   * the UBig / IBig level macro arms impl_ubig_gcd_ext, impl_ibig_gcd, impl_ibig_gcd_ext (rule E3), each instantiated for the four
//     (owned | borrowed) operand combinations the forwarding macros of helper_macros.rs supply, with sign.rs `Sign * IBig`,
//     `Signed::sign for IBig`, base/src/sign.rs `Sign * Sign` as verified real code;
//   * helper_macros.rs: the 32 forwarding impls `a.gcd(b)`, `(&a).gcd(b)`, `a.gcd(&b)`, `(&a).gcd(&b)` and the same for gcd_ext,
//     for (UBig, UBig), (IBig, IBig), (UBig, IBig), (IBig, UBig), with the macro arm inlined:  g = gcd of the signed operands,
//     s*a + t*b == g with (s, t) in the order (self, rhs).
// The helpers gcd_ext_dword / gcd_ext_large_dword / gcd_ext_large / gcd_large_dword / gcd_large and the (ref, ref) Gcd dispatch
// enter through the contracts PROVED in unit int_gcd_ops (//@@ SIG of the same annotated copies).
#![allow(unused_imports, unused_variables, dead_code, non_snake_case, unused_mut, unused_parens, unused_braces)]
use vstd::prelude::*;
use core::cmp::Ordering;
verus! {
//@@ INCLUDE lib/prelude.rs
//@@ INCLUDE lib/sign.rs
//@@ INCLUDE lib/gcdo_stubs.rs
impl Sign {
//@@ SIG rational/sign/base_sign_neg.rs
//@@ FN rational/sign/base_sign_mul.rs
}
//@@ INCLUDE lib/repr_stubs.rs
//@@ INCLUDE lib/dispatch_lemmas.rs
//@@ INCLUDE lib/div_dword_stubs.rs
//@@ INCLUDE lib/div_post_spec.rs
//@@ INCLUDE lib/gcdo_ops_stubs.rs
//@@ INCLUDE lib/im_gcd_stubs.rs
use core::ops::Mul;
use vstd::std_specs::ops::MulSpecImpl;
impl MulSpecImpl<Sign> for Sign {
    open spec fn obeys_mul_spec() -> bool { true }
    open spec fn mul_req(self, rhs: Sign) -> bool { true }
    open spec fn mul_spec(self, rhs: Sign) -> Sign { sign_mul(self, rhs) }
}
impl Mul<Sign> for Sign { type Output = Sign;
    fn mul(self, rhs: Sign) -> Sign { Sign::mul(self, rhs) }
}
impl TypedRepr {
//@@ FN integer/intmisc/typedrepr_as_ref.rs
}
pub mod gcd_ops {
pub mod repr {
use super::super::*;
broadcast use {crate::buffer_stub::ax_buffer_inv, crate::repr_stub::ax_repr_of};
// contracts PROVED in unit int_gcd_ops
//@@ SIG integer/gcd_ops/gcd_ext_dword.rs
//@@ SIG integer/gcd_ops/gcd_ext_large_dword.rs
//@@ SIG integer/gcd_ops/gcd_ext_large.rs
//@@ SIG integer/gcd_ops/typed_gcd_rr.rs
// D2 link for the (ref, ref) Gcd impl the forwarding impls call
impl<'l, 'r> Gcd<TypedReprRef<'r>> for TypedReprRef<'l> { type Output = Repr;
    open spec fn gcd_req(self, rhs: TypedReprRef<'r>) -> bool { self.wf() && rhs.wf() && (self.v() != 0 || rhs.v() != 0) }
    open spec fn gcd_post(self, rhs: TypedReprRef<'r>, r: Repr) -> bool { gcdo_is_gcd(r.v(), self.v(), rhs.v()) }
    fn gcd(self, rhs: TypedReprRef<'r>) -> Repr { typed_gcd_rr(self, rhs) }
}
//@@ FN integer/intmisc/typed_gcd_rv.rs
//@@ FN integer/intmisc/typed_gcd_vr.rs
//@@ FN integer/intmisc/typed_gcd_vv.rs
//@@ FN integer/intmisc/typed_gcd_ext_rr.rs
//@@ FN integer/intmisc/typed_gcd_ext_vr.rs
//@@ FN integer/intmisc/typed_gcd_ext_rv.rs
//@@ FN integer/intmisc/typed_gcd_ext_vv.rs
// ---- D2 links: the trait impls forward to the hoisted functions verified above -------------------------------------------
impl<'l> Gcd<TypedRepr> for TypedReprRef<'l> { type Output = Repr;
    open spec fn gcd_req(self, rhs: TypedRepr) -> bool { self.wf() && rhs.wf() && (self.v() != 0 || rhs.v() != 0) }
    open spec fn gcd_post(self, rhs: TypedRepr, r: Repr) -> bool { gcdo_is_gcd(r.v(), self.v(), rhs.v()) }
    fn gcd(self, rhs: TypedRepr) -> Repr { typed_gcd_rv(self, rhs) }
}
impl<'r> Gcd<TypedReprRef<'r>> for TypedRepr { type Output = Repr;
    open spec fn gcd_req(self, rhs: TypedReprRef<'r>) -> bool { self.wf() && rhs.wf() && (self.v() != 0 || rhs.v() != 0) }
    open spec fn gcd_post(self, rhs: TypedReprRef<'r>, r: Repr) -> bool { gcdo_is_gcd(r.v(), self.v(), rhs.v()) }
    fn gcd(self, rhs: TypedReprRef<'r>) -> Repr { typed_gcd_vr(self, rhs) }
}
impl Gcd<TypedRepr> for TypedRepr { type Output = Repr;
    open spec fn gcd_req(self, rhs: TypedRepr) -> bool { self.wf() && rhs.wf() && (self.v() != 0 || rhs.v() != 0) }
    open spec fn gcd_post(self, rhs: TypedRepr, r: Repr) -> bool { gcdo_is_gcd(r.v(), self.v(), rhs.v()) }
    fn gcd(self, rhs: TypedRepr) -> Repr { typed_gcd_vv(self, rhs) }
}
impl<'l, 'r> ExtendedGcd<TypedReprRef<'r>> for TypedReprRef<'l> { type OutputGcd = Repr; type OutputCoeff = Repr;
    open spec fn gcd_ext_req(self, rhs: TypedReprRef<'r>) -> bool {
        self.wf() && rhs.wf() && (self.v() != 0 || rhs.v() != 0) && im_gcd_ext_res(self.nwords(), rhs.nwords()) }
    open spec fn gcd_ext_post(self, rhs: TypedReprRef<'r>, r: (Repr, Repr, Repr)) -> bool {
        repr_gcd_ext_post(self.v(), rhs.v(), r.0.v(), r.1.v(), r.2.v()) }
    fn gcd_ext(self, rhs: TypedReprRef<'r>) -> (Repr, Repr, Repr) { typed_gcd_ext_rr(self, rhs) }
}
impl<'r> ExtendedGcd<TypedReprRef<'r>> for TypedRepr { type OutputGcd = Repr; type OutputCoeff = Repr;
    open spec fn gcd_ext_req(self, rhs: TypedReprRef<'r>) -> bool {
        self.wf() && rhs.wf() && (self.v() != 0 || rhs.v() != 0) && im_gcd_ext_res(self.nwords(), rhs.nwords()) }
    open spec fn gcd_ext_post(self, rhs: TypedReprRef<'r>, r: (Repr, Repr, Repr)) -> bool {
        repr_gcd_ext_post(self.v(), rhs.v(), r.0.v(), r.1.v(), r.2.v()) }
    fn gcd_ext(self, rhs: TypedReprRef<'r>) -> (Repr, Repr, Repr) { typed_gcd_ext_vr(self, rhs) }
}
impl<'l> ExtendedGcd<TypedRepr> for TypedReprRef<'l> { type OutputGcd = Repr; type OutputCoeff = Repr;
    open spec fn gcd_ext_req(self, rhs: TypedRepr) -> bool {
        self.wf() && rhs.wf() && (self.v() != 0 || rhs.v() != 0) && im_gcd_ext_res(self.nwords(), rhs.nwords()) }
    open spec fn gcd_ext_post(self, rhs: TypedRepr, r: (Repr, Repr, Repr)) -> bool {
        repr_gcd_ext_post(self.v(), rhs.v(), r.0.v(), r.1.v(), r.2.v()) }
    fn gcd_ext(self, rhs: TypedRepr) -> (Repr, Repr, Repr) { typed_gcd_ext_rv(self, rhs) }
}
impl ExtendedGcd<TypedRepr> for TypedRepr { type OutputGcd = Repr; type OutputCoeff = Repr;
    open spec fn gcd_ext_req(self, rhs: TypedRepr) -> bool {
        self.wf() && rhs.wf() && (self.v() != 0 || rhs.v() != 0) && im_gcd_ext_res(self.nwords(), rhs.nwords()) }
    open spec fn gcd_ext_post(self, rhs: TypedRepr, r: (Repr, Repr, Repr)) -> bool {
        repr_gcd_ext_post(self.v(), rhs.v(), r.0.v(), r.1.v(), r.2.v()) }
    fn gcd_ext(self, rhs: TypedRepr) -> (Repr, Repr, Repr) { typed_gcd_ext_vv(self, rhs) }
}
}
}
// ---- integer/src/sign.rs: `Signed::sign for IBig`, `Mul<IBig> for Sign` (real code, hoisted) + their links -----------------
//@@ FN integer/intmisc/ibig_sign.rs
impl IBig {
    pub fn sign(&self) -> (r: Sign) ensures r == (if self.0.v() < 0 { Sign::Negative } else { Sign::Positive }) { ibig_sign(self) }
}
//@@ FN integer/intmisc/sign_mul_ibig.rs
impl MulSpecImpl<IBig> for Sign {
    open spec fn obeys_mul_spec() -> bool { true }
    open spec fn mul_req(self, rhs: IBig) -> bool { true }
    open spec fn mul_spec(self, rhs: IBig) -> IBig { IBig(repr_of(sv(self, rhs.0.v()))) }
}
impl Mul<IBig> for Sign { type Output = IBig;
    fn mul(self, rhs: IBig) -> IBig {
        let ghost x = rhs.0.v();
        let r = sign_mul_ibig(self, rhs);
        proof { ax_repr_ext(r.0, repr_of(sv(self, x))); }
        r
    }
}
// ---- the macro arms (rule E3) for the four operand combinations ------------------------------------------------------------
//@@ WRAP ubig_gcd_ext_vv fn ubig_gcd_ext_vv(repr0: TypedRepr, repr1: TypedRepr) -> (UBig, IBig, IBig)
//@@ FN integer/intmisc/ubig_gcd_ext_arm.rs wrap=ubig_gcd_ext_vv
//@@ WRAP ubig_gcd_ext_vr fn ubig_gcd_ext_vr(repr0: TypedRepr, repr1: TypedReprRef) -> (UBig, IBig, IBig)
//@@ FN integer/intmisc/ubig_gcd_ext_arm.rs wrap=ubig_gcd_ext_vr
//@@ WRAP ubig_gcd_ext_rv fn ubig_gcd_ext_rv(repr0: TypedReprRef, repr1: TypedRepr) -> (UBig, IBig, IBig)
//@@ FN integer/intmisc/ubig_gcd_ext_arm.rs wrap=ubig_gcd_ext_rv
//@@ WRAP ubig_gcd_ext_rr fn ubig_gcd_ext_rr(repr0: TypedReprRef, repr1: TypedReprRef) -> (UBig, IBig, IBig)
//@@ FN integer/intmisc/ubig_gcd_ext_arm.rs wrap=ubig_gcd_ext_rr
//@@ WRAP ibig_gcd_vv fn ibig_gcd_vv(sign0: Sign, mag0: TypedRepr, sign1: Sign, mag1: TypedRepr) -> UBig
//@@ FN integer/intmisc/ibig_gcd_arm.rs wrap=ibig_gcd_vv
//@@ WRAP ibig_gcd_vr fn ibig_gcd_vr(sign0: Sign, mag0: TypedRepr, sign1: Sign, mag1: TypedReprRef) -> UBig
//@@ FN integer/intmisc/ibig_gcd_arm.rs wrap=ibig_gcd_vr
//@@ WRAP ibig_gcd_rv fn ibig_gcd_rv(sign0: Sign, mag0: TypedReprRef, sign1: Sign, mag1: TypedRepr) -> UBig
//@@ FN integer/intmisc/ibig_gcd_arm.rs wrap=ibig_gcd_rv
//@@ WRAP ibig_gcd_rr fn ibig_gcd_rr(sign0: Sign, mag0: TypedReprRef, sign1: Sign, mag1: TypedReprRef) -> UBig
//@@ FN integer/intmisc/ibig_gcd_arm.rs wrap=ibig_gcd_rr
//@@ WRAP ibig_gcd_ext_vv fn ibig_gcd_ext_vv(sign0: Sign, mag0: TypedRepr, sign1: Sign, mag1: TypedRepr) -> (UBig, IBig, IBig)
//@@ FN integer/intmisc/ibig_gcd_ext_arm.rs wrap=ibig_gcd_ext_vv
//@@ WRAP ibig_gcd_ext_vr fn ibig_gcd_ext_vr(sign0: Sign, mag0: TypedRepr, sign1: Sign, mag1: TypedReprRef) -> (UBig, IBig, IBig)
//@@ FN integer/intmisc/ibig_gcd_ext_arm.rs wrap=ibig_gcd_ext_vr
//@@ WRAP ibig_gcd_ext_rv fn ibig_gcd_ext_rv(sign0: Sign, mag0: TypedReprRef, sign1: Sign, mag1: TypedRepr) -> (UBig, IBig, IBig)
//@@ FN integer/intmisc/ibig_gcd_ext_arm.rs wrap=ibig_gcd_ext_rv
//@@ WRAP ibig_gcd_ext_rr fn ibig_gcd_ext_rr(sign0: Sign, mag0: TypedReprRef, sign1: Sign, mag1: TypedReprRef) -> (UBig, IBig, IBig)
//@@ FN integer/intmisc/ibig_gcd_ext_arm.rs wrap=ibig_gcd_ext_rr
// ---- helper_macros.rs: the forwarding impls (UBig | &UBig | IBig | &IBig on both sides) instantiated for Gcd / ExtendedGcd (rules E3b /
// E3e `$method`, the `$impl!` invocation inlined from the arm copies above: rule E3d) -- the public operator forms -------------
//@@ FN integer/intmisc/fwd_uu_gcd_vv.rs msubst=trait:Gcd,method:gcd,forward:gcd
//@@ FN integer/intmisc/fwd_uu_gcd_vr.rs msubst=trait:Gcd,method:gcd,forward:gcd
//@@ FN integer/intmisc/fwd_uu_gcd_rv.rs msubst=trait:Gcd,method:gcd,forward:gcd
//@@ FN integer/intmisc/fwd_uu_gcd_rr.rs msubst=trait:Gcd,method:gcd,forward:gcd
//@@ FN integer/intmisc/fwd_uu_gcd_ext_vv.rs msubst=trait:ExtendedGcd,method:gcd_ext,omethod:GcdExtOut,impl:impl_ubig_gcd_ext variant=inl minline=impl_ubig_gcd_ext:integer/intmisc/ubig_gcd_ext_arm.rs
//@@ FN integer/intmisc/fwd_uu_gcd_ext_vr.rs msubst=trait:ExtendedGcd,method:gcd_ext,omethod:GcdExtOut,impl:impl_ubig_gcd_ext variant=inl minline=impl_ubig_gcd_ext:integer/intmisc/ubig_gcd_ext_arm.rs
//@@ FN integer/intmisc/fwd_uu_gcd_ext_rv.rs msubst=trait:ExtendedGcd,method:gcd_ext,omethod:GcdExtOut,impl:impl_ubig_gcd_ext variant=inl minline=impl_ubig_gcd_ext:integer/intmisc/ubig_gcd_ext_arm.rs
//@@ FN integer/intmisc/fwd_uu_gcd_ext_rr.rs msubst=trait:ExtendedGcd,method:gcd_ext,omethod:GcdExtOut,impl:impl_ubig_gcd_ext variant=inl minline=impl_ubig_gcd_ext:integer/intmisc/ubig_gcd_ext_arm.rs
//@@ FN integer/intmisc/fwd_ii_gcd_vv.rs msubst=trait:Gcd,method:gcd,ty_output:UBig,impl:impl_ibig_gcd variant=inl minline=impl_ibig_gcd:integer/intmisc/ibig_gcd_arm.rs
//@@ FN integer/intmisc/fwd_ii_gcd_vr.rs msubst=trait:Gcd,method:gcd,ty_output:UBig,impl:impl_ibig_gcd variant=inl minline=impl_ibig_gcd:integer/intmisc/ibig_gcd_arm.rs
//@@ FN integer/intmisc/fwd_ii_gcd_rv.rs msubst=trait:Gcd,method:gcd,ty_output:UBig,impl:impl_ibig_gcd variant=inl minline=impl_ibig_gcd:integer/intmisc/ibig_gcd_arm.rs
//@@ FN integer/intmisc/fwd_ii_gcd_rr.rs msubst=trait:Gcd,method:gcd,ty_output:UBig,impl:impl_ibig_gcd variant=inl minline=impl_ibig_gcd:integer/intmisc/ibig_gcd_arm.rs
//@@ FN integer/intmisc/fwd_ii_gcd_ext_vv.rs msubst=trait:ExtendedGcd,method:gcd_ext,omethod:GcdExtOut,impl:impl_ibig_gcd_ext variant=inl minline=impl_ibig_gcd_ext:integer/intmisc/ibig_gcd_ext_arm.rs
//@@ FN integer/intmisc/fwd_ii_gcd_ext_vr.rs msubst=trait:ExtendedGcd,method:gcd_ext,omethod:GcdExtOut,impl:impl_ibig_gcd_ext variant=inl minline=impl_ibig_gcd_ext:integer/intmisc/ibig_gcd_ext_arm.rs
//@@ FN integer/intmisc/fwd_ii_gcd_ext_rv.rs msubst=trait:ExtendedGcd,method:gcd_ext,omethod:GcdExtOut,impl:impl_ibig_gcd_ext variant=inl minline=impl_ibig_gcd_ext:integer/intmisc/ibig_gcd_ext_arm.rs
//@@ FN integer/intmisc/fwd_ii_gcd_ext_rr.rs msubst=trait:ExtendedGcd,method:gcd_ext,omethod:GcdExtOut,impl:impl_ibig_gcd_ext variant=inl minline=impl_ibig_gcd_ext:integer/intmisc/ibig_gcd_ext_arm.rs
//@@ FN integer/intmisc/fwd_ui_gcd_vv.rs msubst=trait:Gcd,method:gcd,ty_output:UBig,impl:impl_ibig_gcd variant=inl minline=impl_ibig_gcd:integer/intmisc/ibig_gcd_arm.rs
//@@ FN integer/intmisc/fwd_ui_gcd_vr.rs msubst=trait:Gcd,method:gcd,ty_output:UBig,impl:impl_ibig_gcd variant=inl minline=impl_ibig_gcd:integer/intmisc/ibig_gcd_arm.rs
//@@ FN integer/intmisc/fwd_ui_gcd_rv.rs msubst=trait:Gcd,method:gcd,ty_output:UBig,impl:impl_ibig_gcd variant=inl minline=impl_ibig_gcd:integer/intmisc/ibig_gcd_arm.rs
//@@ FN integer/intmisc/fwd_ui_gcd_rr.rs msubst=trait:Gcd,method:gcd,ty_output:UBig,impl:impl_ibig_gcd variant=inl minline=impl_ibig_gcd:integer/intmisc/ibig_gcd_arm.rs
//@@ FN integer/intmisc/fwd_ui_gcd_ext_vv.rs msubst=trait:ExtendedGcd,method:gcd_ext,omethod:GcdExtOut,impl:impl_ibig_gcd_ext variant=inl minline=impl_ibig_gcd_ext:integer/intmisc/ibig_gcd_ext_arm.rs
//@@ FN integer/intmisc/fwd_ui_gcd_ext_vr.rs msubst=trait:ExtendedGcd,method:gcd_ext,omethod:GcdExtOut,impl:impl_ibig_gcd_ext variant=inl minline=impl_ibig_gcd_ext:integer/intmisc/ibig_gcd_ext_arm.rs
//@@ FN integer/intmisc/fwd_ui_gcd_ext_rv.rs msubst=trait:ExtendedGcd,method:gcd_ext,omethod:GcdExtOut,impl:impl_ibig_gcd_ext variant=inl minline=impl_ibig_gcd_ext:integer/intmisc/ibig_gcd_ext_arm.rs
//@@ FN integer/intmisc/fwd_ui_gcd_ext_rr.rs msubst=trait:ExtendedGcd,method:gcd_ext,omethod:GcdExtOut,impl:impl_ibig_gcd_ext variant=inl minline=impl_ibig_gcd_ext:integer/intmisc/ibig_gcd_ext_arm.rs
//@@ FN integer/intmisc/fwd_iu_gcd_vv.rs msubst=trait:Gcd,method:gcd,ty_output:UBig,impl:impl_ibig_gcd variant=inl minline=impl_ibig_gcd:integer/intmisc/ibig_gcd_arm.rs
//@@ FN integer/intmisc/fwd_iu_gcd_vr.rs msubst=trait:Gcd,method:gcd,ty_output:UBig,impl:impl_ibig_gcd variant=inl minline=impl_ibig_gcd:integer/intmisc/ibig_gcd_arm.rs
//@@ FN integer/intmisc/fwd_iu_gcd_rv.rs msubst=trait:Gcd,method:gcd,ty_output:UBig,impl:impl_ibig_gcd variant=inl minline=impl_ibig_gcd:integer/intmisc/ibig_gcd_arm.rs
//@@ FN integer/intmisc/fwd_iu_gcd_rr.rs msubst=trait:Gcd,method:gcd,ty_output:UBig,impl:impl_ibig_gcd variant=inl minline=impl_ibig_gcd:integer/intmisc/ibig_gcd_arm.rs
//@@ FN integer/intmisc/fwd_iu_gcd_ext_vv.rs msubst=trait:ExtendedGcd,method:gcd_ext,omethod:GcdExtOut,impl:impl_ibig_gcd_ext variant=inl minline=impl_ibig_gcd_ext:integer/intmisc/ibig_gcd_ext_arm.rs
//@@ FN integer/intmisc/fwd_iu_gcd_ext_vr.rs msubst=trait:ExtendedGcd,method:gcd_ext,omethod:GcdExtOut,impl:impl_ibig_gcd_ext variant=inl minline=impl_ibig_gcd_ext:integer/intmisc/ibig_gcd_ext_arm.rs
//@@ FN integer/intmisc/fwd_iu_gcd_ext_rv.rs msubst=trait:ExtendedGcd,method:gcd_ext,omethod:GcdExtOut,impl:impl_ibig_gcd_ext variant=inl minline=impl_ibig_gcd_ext:integer/intmisc/ibig_gcd_ext_arm.rs
//@@ FN integer/intmisc/fwd_iu_gcd_ext_rr.rs msubst=trait:ExtendedGcd,method:gcd_ext,omethod:GcdExtOut,impl:impl_ibig_gcd_ext variant=inl minline=impl_ibig_gcd_ext:integer/intmisc/ibig_gcd_ext_arm.rs
} // verus!
fn main() {}
