// unit int_modpow_large: integer/src/modular/pow.rs `mod large`: sliding-window exponentiation in a multi-word ring
// (C13 clause "pow(e)", unbounded in the exponent length and in the modulus length).
// Through //@@ SIG: the PROVED contracts of modular/mul.rs sqr_in_place / mul_normalized (unit int_modmul),
// primitive::{double_word, split_dword}; ASSUMED: math::ones_word (2^n - 1; contract of the bits units).
// Trusted stubs: lib/mp_stubs.rs (exponent UBig: is_zero/is_one/bit_len/as_words; ReducedLarge::clone; Box as_ref;
// memory sizing), lib/mod2_mem.rs (scratch allocator), lib/mod2_ring.rs (type mirrors).
#![feature(allocator_api)]
#![allow(unused_imports, unused_variables, dead_code, non_snake_case, unused_mut, unused_parens, unused_braces)]
use vstd::prelude::*;
use vstd::std_specs::cmp::*;
use core::cmp::Ordering;
use core::ops::Deref;
verus! {
global size_of usize == 8;
//@@ INCLUDE lib/prelude.rs
//@@ INCLUDE lib/shift_bv.rs
//@@ INCLUDE lib/div_dword_stubs.rs
//@@ INCLUDE lib/div_post_spec.rs
//@@ INCLUDE lib/mod2_ring.rs
//@@ INCLUDE lib/mod2_mem.rs
//@@ INCLUDE lib/mp_stubs.rs
//@@ INCLUDE lib/mp_arith.rs
//@@ INCLUDE lib/mp_lemmas.rs
//@@ SIG integer/primitive/double_word.rs
//@@ SIG integer/primitive/split_dword.rs
pub mod math {
use super::*;
//@@ SIG integer/bits_repr/ones_word.rs
}
//@@ SIG integer/modular2/sqr_in_place.rs
//@@ SIG integer/modular2/mul_normalized.rs
use error::panic_allocate_too_much;
impl ReducedLarge {
//@@ SIG integer/modpow/large_one.rs
}
pub mod large {
use super::*;
//@@ FN integer/modpow/choose_pow_window_len.rs
//@@ FN integer/modpow/large_pow_nontrivial.rs
//@@ FN integer/modpow/large_pow.rs
}
} // verus!
fn main() {}
