// unit ratio_int_ops_ref: the arms of rational/src/{add,mul,div}.rs that combine an RBig / Relaxed with a UBig / IBig operand
// (C04), rule E3, instantiated for the BORROWED-INTEGER forwardings of helper_macros::impl_binop_with_int! (`T op &Int`,
// `&T op &Int`, `&Int op T`, `&Int op &T`: the macro clones a, b for a borrowed T, so the arm sees owned a, b in every form and
// `rhs: &Int` with ri the same reference; `&T op Int` / `Int op &T` run the arm on exactly the operand types of unit
// ratio_int_ops).  The SAME annotated arm text and the SAME contract as in unit ratio_int_ops, once with i: &UBig and once with
// i: &IBig.  Trusted in addition to unit ratio_int_ops: lib/rp_refops.rs (by-reference operator forms).
#![allow(unused_imports, unused_variables, dead_code, non_snake_case, unused_mut, unused_parens, unused_braces)]
use vstd::prelude::*;
use vstd::arithmetic::power2::pow2;
use core::cmp::Ordering;
use core::ops::{Add, Sub, Mul, Div, Rem};
verus! {
//@@ INCLUDE lib/ratio_lemmas.rs
//@@ INCLUDE lib/bigstub.rs
//@@ INCLUDE lib/rp_refops.rs
impl Sign {
// base/src/sign.rs: proved in unit ratio_ops / ratio_reduce, here seen through their contracts
//@@ SIG rational/sign/base_sign_mul.rs
//@@ SIG rational/sign/base_sign_neg.rs
//@@ SIG rational/sign/base_sign_cmp.rs
}
//@@ INCLUDE lib/ratio_types.rs
//@@ INCLUDE lib/ratio2_stubs.rs
//@@ INCLUDE lib/ratio2_lemmas.rs
// rational/src/error.rs: `total` reading, the panic is unreachable under the precondition (divisor != 0)
#[verifier::external_body]
pub fn panic_divide_by_0() -> ! requires false { unimplemented!() }
impl Repr {
// proved in unit ratio_reduce (not called by the unchanged arms; declared so that an arm rewritten to use them is
// still checked against the contract instead of failing to resolve)
//@@ SIG rational/repr/reduce.rs
//@@ SIG rational/repr/reduce_with_hint.rs
//@@ SIG rational/repr/reduce2.rs
}
impl RBig {
// proved in unit ratio_reduce
//@@ SIG rational/rbig/rbig_from_parts.rs
}
impl Relaxed {
// proved in unit ratio_ops
//@@ SIG rational/rbig/relaxed_from_parts.rs
}
//@@ WRAP rbig_add_ubig_r fn rbig_add_ubig_r(a: IBig, b: UBig, i: &UBig, ra: &IBig, rb: &UBig, ri: &UBig) -> RBig
//@@ FN rational/intops/addsub_int_with_rbig.rs wrap=rbig_add_ubig_r subst=method:add variant=add
//@@ WRAP rbig_sub_ubig_r fn rbig_sub_ubig_r(a: IBig, b: UBig, i: &UBig, ra: &IBig, rb: &UBig, ri: &UBig) -> RBig
//@@ FN rational/intops/addsub_int_with_rbig.rs wrap=rbig_sub_ubig_r subst=method:sub variant=sub
//@@ WRAP ubig_sub_rbig_r fn ubig_sub_rbig_r(a: IBig, b: UBig, i: &UBig, ra: &IBig, rb: &UBig, ri: &UBig) -> RBig
//@@ FN rational/intops/int_sub_rbig.rs wrap=ubig_sub_rbig_r subst=method:sub
//@@ WRAP rbig_mul_ubig_r fn rbig_mul_ubig_r(a: IBig, b: UBig, i: &UBig, ra: &IBig, rb: &UBig, ri: &UBig) -> RBig
//@@ FN rational/intops/mul_int_with_rbig.rs wrap=rbig_mul_ubig_r subst=method:mul
//@@ WRAP rbig_div_ubig_r fn rbig_div_ubig_r(a: IBig, b: UBig, i: &UBig, ra: &IBig, rb: &UBig, ri: &UBig) -> RBig
//@@ FN rational/intops/rbig_div_ubig.rs wrap=rbig_div_ubig_r subst=method:div
//@@ WRAP ubig_div_rbig_r fn ubig_div_rbig_r(a: IBig, b: UBig, i: &UBig, ra: &IBig, rb: &UBig, ri: &UBig) -> RBig
//@@ FN rational/intops/int_div_rbig.rs wrap=ubig_div_rbig_r subst=method:div
//@@ WRAP rbig_add_ibig_r fn rbig_add_ibig_r(a: IBig, b: UBig, i: &IBig, ra: &IBig, rb: &UBig, ri: &IBig) -> RBig
//@@ FN rational/intops/addsub_int_with_rbig.rs wrap=rbig_add_ibig_r subst=method:add variant=add
//@@ WRAP rbig_sub_ibig_r fn rbig_sub_ibig_r(a: IBig, b: UBig, i: &IBig, ra: &IBig, rb: &UBig, ri: &IBig) -> RBig
//@@ FN rational/intops/addsub_int_with_rbig.rs wrap=rbig_sub_ibig_r subst=method:sub variant=sub
//@@ WRAP ibig_sub_rbig_r fn ibig_sub_rbig_r(a: IBig, b: UBig, i: &IBig, ra: &IBig, rb: &UBig, ri: &IBig) -> RBig
//@@ FN rational/intops/int_sub_rbig.rs wrap=ibig_sub_rbig_r subst=method:sub
//@@ WRAP rbig_mul_ibig_r fn rbig_mul_ibig_r(a: IBig, b: UBig, i: &IBig, ra: &IBig, rb: &UBig, ri: &IBig) -> RBig
//@@ FN rational/intops/mul_int_with_rbig.rs wrap=rbig_mul_ibig_r subst=method:mul
//@@ WRAP rbig_div_ibig_r fn rbig_div_ibig_r(a: IBig, b: UBig, i: &IBig, ra: &IBig, rb: &UBig, ri: &IBig) -> RBig
//@@ FN rational/intops/rbig_div_ibig.rs wrap=rbig_div_ibig_r subst=method:div
//@@ WRAP ibig_div_rbig_r fn ibig_div_rbig_r(a: IBig, b: UBig, i: &IBig, ra: &IBig, rb: &UBig, ri: &IBig) -> RBig
//@@ FN rational/intops/int_div_rbig.rs wrap=ibig_div_rbig_r subst=method:div
//@@ WRAP relaxed_add_ubig_r fn relaxed_add_ubig_r(a: IBig, b: UBig, i: &UBig, ra: &IBig, rb: &UBig, ri: &UBig) -> Relaxed
//@@ FN rational/intops/addsub_int_with_relaxed.rs wrap=relaxed_add_ubig_r subst=method:add variant=add
//@@ WRAP relaxed_sub_ubig_r fn relaxed_sub_ubig_r(a: IBig, b: UBig, i: &UBig, ra: &IBig, rb: &UBig, ri: &UBig) -> Relaxed
//@@ FN rational/intops/addsub_int_with_relaxed.rs wrap=relaxed_sub_ubig_r subst=method:sub variant=sub
//@@ WRAP ubig_sub_relaxed_r fn ubig_sub_relaxed_r(a: IBig, b: UBig, i: &UBig, ra: &IBig, rb: &UBig, ri: &UBig) -> Relaxed
//@@ FN rational/intops/int_sub_relaxed.rs wrap=ubig_sub_relaxed_r subst=method:sub
//@@ WRAP relaxed_mul_ubig_r fn relaxed_mul_ubig_r(a: IBig, b: UBig, i: &UBig, ra: &IBig, rb: &UBig, ri: &UBig) -> Relaxed
//@@ FN rational/intops/mul_int_with_relaxed.rs wrap=relaxed_mul_ubig_r subst=method:mul
//@@ WRAP relaxed_div_ubig_r fn relaxed_div_ubig_r(a: IBig, b: UBig, i: &UBig, ra: &IBig, rb: &UBig, ri: &UBig) -> Relaxed
//@@ FN rational/intops/relaxed_div_ubig.rs wrap=relaxed_div_ubig_r subst=method:div
//@@ WRAP ubig_div_relaxed_r fn ubig_div_relaxed_r(a: IBig, b: UBig, i: &UBig, ra: &IBig, rb: &UBig, ri: &UBig) -> Relaxed
//@@ FN rational/intops/int_div_relaxed.rs wrap=ubig_div_relaxed_r subst=method:div
//@@ WRAP relaxed_add_ibig_r fn relaxed_add_ibig_r(a: IBig, b: UBig, i: &IBig, ra: &IBig, rb: &UBig, ri: &IBig) -> Relaxed
//@@ FN rational/intops/addsub_int_with_relaxed.rs wrap=relaxed_add_ibig_r subst=method:add variant=add
//@@ WRAP relaxed_sub_ibig_r fn relaxed_sub_ibig_r(a: IBig, b: UBig, i: &IBig, ra: &IBig, rb: &UBig, ri: &IBig) -> Relaxed
//@@ FN rational/intops/addsub_int_with_relaxed.rs wrap=relaxed_sub_ibig_r subst=method:sub variant=sub
//@@ WRAP ibig_sub_relaxed_r fn ibig_sub_relaxed_r(a: IBig, b: UBig, i: &IBig, ra: &IBig, rb: &UBig, ri: &IBig) -> Relaxed
//@@ FN rational/intops/int_sub_relaxed.rs wrap=ibig_sub_relaxed_r subst=method:sub
//@@ WRAP relaxed_mul_ibig_r fn relaxed_mul_ibig_r(a: IBig, b: UBig, i: &IBig, ra: &IBig, rb: &UBig, ri: &IBig) -> Relaxed
//@@ FN rational/intops/mul_int_with_relaxed.rs wrap=relaxed_mul_ibig_r subst=method:mul
//@@ WRAP relaxed_div_ibig_r fn relaxed_div_ibig_r(a: IBig, b: UBig, i: &IBig, ra: &IBig, rb: &UBig, ri: &IBig) -> Relaxed
//@@ FN rational/intops/relaxed_div_ibig.rs wrap=relaxed_div_ibig_r subst=method:div
//@@ WRAP ibig_div_relaxed_r fn ibig_div_relaxed_r(a: IBig, b: UBig, i: &IBig, ra: &IBig, rb: &UBig, ri: &IBig) -> Relaxed
//@@ FN rational/intops/int_div_relaxed.rs wrap=ibig_div_relaxed_r subst=method:div
} // verus!
fn main() {}
