// unit int_mul: integer/src/math.rs mul_add_* scalars and integer/src/mul/mod.rs word-by-vector kernels (C01)
#![allow(unused_imports, unused_variables, dead_code, non_snake_case, unused_mut, unused_parens, unused_braces)]
use vstd::prelude::*;
verus! {
//@@ INCLUDE lib/prelude.rs
//@@ INCLUDE lib/mul_lemmas.rs
//@@ SIG integer/primitive/split_dword.rs
//@@ SIG integer/primitive/double_word.rs
//@@ SIG integer/primitive/extend_word.rs
pub mod add {
use super::*;
//@@ SIG integer/add/add_word_in_place.rs
}
pub mod math {
use super::*;
//@@ FN integer/math/mul_add_carry.rs
//@@ FN integer/math/mul_add_2carry.rs
//@@ FN integer/math/mul_add_carry_dword.rs
}
pub mod mul {
use super::*;
//@@ FN integer/mul/add_mul_word_same_len_in_place.rs
//@@ FN integer/mul/add_mul_word_in_place.rs
//@@ FN integer/mul/sub_mul_word_same_len_in_place.rs
}
} // verus!
fn main() {}
