// unit int_mul_toom3: integer/src/mul/toom_3.rs add_signed_mul_same_len (C01, C16): Toom-Cook-3, evaluation of
// A(x)B(x) at 0, 1, -1, 2, inf (five third-size products through the dispatcher) and interpolation with the exact
// divisions by 6 and 2; together with the dispatcher mul::add_signed_mul_same_len and karatsuba::add_signed_mul_same_len,
// so that the whole recursion cycle is in one file and its termination is machine-checked.
// Trusted: lib/mulalg_stubs.rs (Memory scratch allocator, Sign operators verified), MIN_LEN mirrored below.
#![allow(unused_imports, unused_variables, dead_code, non_snake_case, unused_mut, unused_parens, unused_braces)]
use vstd::prelude::*;
verus! {
//@@ INCLUDE lib/prelude.rs
//@@ INCLUDE lib/sign.rs
//@@ INCLUDE lib/mul_lemmas.rs
//@@ INCLUDE lib/mulalg_stubs.rs
//@@ INCLUDE lib/mulalg_core_lemmas.rs
//@@ INCLUDE lib/mulalg_lemmas.rs
//@@ INCLUDE lib/mulalg_toom_lemmas.rs
pub mod add {
use super::*;
//@@ SIG integer/add/add_signed_same_len_in_place.rs
//@@ SIG integer/add/add_signed_in_place.rs
//@@ SIG integer/add/add_signed_word_in_place.rs
//@@ SIG integer/add/sub_in_place_with_sign.rs
//@@ SIG integer/add/sub_in_place.rs
//@@ SIG integer/add/add_in_place.rs
//@@ SIG integer/add/add_same_len_in_place.rs
}
pub mod div {
use super::*;
//@@ SIG integer/div/div_by_word_in_place.rs
}
pub mod shift {
use super::*;
//@@ SIG integer/shift/shr_in_place.rs
}
pub mod mul {
use super::*;
/// integer/src/mul/mod.rs:17,22 (mirrored)
pub const THRESHOLD_SIMPLE: usize = 24;
pub const THRESHOLD_KARATSUBA: usize = 192;
// the recursion cycle dispatcher -> karatsuba / toom_3 -> dispatcher is verified HERE as a whole (all three are //@@ FN):
// Verus checks the `decreases` clauses (factor length; dispatcher ranked above the algorithms), i.e. termination.
//@@ FN integer/mul_algos/add_signed_mul_same_len.rs
//@@ SIG integer/mul/mul_word_in_place.rs
//@@ SIG integer/mul/add_mul_word_same_len_in_place.rs
//@@ SIG integer/mul/add_mul_word_in_place.rs
//@@ SIG integer/mul/sub_mul_word_same_len_in_place.rs
pub mod simple {
use super::super::*;
//@@ SIG integer/mul_simple/add_signed_mul_same_len.rs
}
pub mod karatsuba {
use super::super::*;
use super::super::mul;
/// integer/src/mul/karatsuba.rs:19 (mirrored)
pub const MIN_LEN: usize = 3;
// (also verified stand-alone in unit int_mul_karatsuba; debug assertion #4 `carry.abs() <= 1` = postcondition)
//@@ FN integer/mul_algos/kara_add_signed_mul_same_len.rs drop_asserts=4
}
pub mod toom_3 {
use super::super::*;
use super::super::mul;
/// integer/src/mul/toom_3.rs:30 (mirrored)
pub const MIN_LEN: usize = 16;
// debug_assert_zero #5 wraps a `bool` (sub_in_place's borrow): the comparison `== 0` is not typable in Verus, the
// annotation proves `!borrow` instead; #11 `carry.abs() <= 1` (exec abs) is the postcondition -1 <= ret <= 1
//@@ FN integer/mul_algos/toom3_add_signed_mul_same_len.rs drop_asserts=5,11
}
}
} // verus!
fn main() {}
