// unit ratio_rem: the RBig / Relaxed `%` arms and the Euclidean division arms of rational/src/div.rs (C04), rule E3.
// The arms are instantiated for the by-value forwarding (`impl Op<T> for T`): a, b, c, d owned and ra..rd the
// references the forwarding macro takes to them.
#![allow(unused_imports, unused_variables, dead_code, non_snake_case, unused_mut, unused_parens, unused_braces)]
use vstd::prelude::*;
use vstd::arithmetic::power2::pow2;
use core::cmp::Ordering;
use core::ops::{Add, Sub, Mul, Div, Rem};
verus! {
//@@ INCLUDE lib/ratio_lemmas.rs
//@@ INCLUDE lib/bigstub.rs
impl Sign {
// base/src/sign.rs: proved in unit ratio_ops / ratio_reduce, here seen through their contracts
//@@ SIG rational/sign/base_sign_mul.rs
//@@ SIG rational/sign/base_sign_neg.rs
//@@ SIG rational/sign/base_sign_cmp.rs
}
//@@ INCLUDE lib/ratio_types.rs
//@@ INCLUDE lib/ratio2_stubs.rs
//@@ INCLUDE lib/ratio2_lemmas.rs
// rational/src/error.rs: `total` reading, the panic is unreachable under the precondition (divisor != 0)
#[verifier::external_body]
pub fn panic_divide_by_0() -> ! requires false { unimplemented!() }
impl Repr {
// proved in unit ratio_reduce (not called by the unchanged arms; declared so that an arm rewritten to use the
// cheaper reductions is still checked against the contract instead of failing to resolve)
//@@ SIG rational/repr/reduce.rs
//@@ SIG rational/repr/reduce_with_hint.rs
//@@ SIG rational/repr/reduce2.rs
}
impl RBig {
// proved in unit ratio_reduce
//@@ SIG rational/rbig/rbig_from_parts.rs
}
impl Relaxed {
// proved in unit ratio_ops
//@@ SIG rational/rbig/relaxed_from_parts.rs
}
//@@ WRAP rbig_rem fn rbig_rem(a: IBig, b: UBig, c: IBig, d: UBig, ra: &IBig, rb: &UBig, rc: &IBig, rd: &UBig) -> RBig
//@@ FN rational/rem/rem_with_rbig.rs wrap=rbig_rem subst=method:rem
//@@ WRAP relaxed_rem fn relaxed_rem(a: IBig, b: UBig, c: IBig, d: UBig, ra: &IBig, rb: &UBig, rc: &IBig, rd: &UBig) -> Relaxed
//@@ FN rational/rem/rem_with_relaxed.rs wrap=relaxed_rem subst=method:rem
//@@ WRAP euclid_div fn euclid_div(a: IBig, b: UBig, c: IBig, d: UBig, ra: &IBig, rb: &UBig, rc: &IBig, rd: &UBig) -> IBig
//@@ FN rational/rem/euclid_div.rs wrap=euclid_div subst=method:div_euclid
//@@ WRAP rbig_rem_euclid fn rbig_rem_euclid(a: IBig, b: UBig, c: IBig, d: UBig, ra: &IBig, rb: &UBig, rc: &IBig, rd: &UBig) -> RBig
//@@ FN rational/rem/euclid_rem_with_rbig.rs wrap=rbig_rem_euclid subst=method:rem_euclid
//@@ WRAP relaxed_rem_euclid fn relaxed_rem_euclid(a: IBig, b: UBig, c: IBig, d: UBig, ra: &IBig, rb: &UBig, rc: &IBig, rd: &UBig) -> Relaxed
//@@ FN rational/rem/euclid_rem_with_relaxed.rs wrap=relaxed_rem_euclid subst=method:rem_euclid
//@@ WRAP rbig_divrem_euclid fn rbig_divrem_euclid(a: IBig, b: UBig, c: IBig, d: UBig, ra: &IBig, rb: &UBig, rc: &IBig, rd: &UBig) -> (IBig, RBig)
//@@ FN rational/rem/euclid_divrem_with_rbig.rs wrap=rbig_divrem_euclid subst=method:div_rem_euclid
//@@ WRAP relaxed_divrem_euclid fn relaxed_divrem_euclid(a: IBig, b: UBig, c: IBig, d: UBig, ra: &IBig, rb: &UBig, rc: &IBig, rd: &UBig) -> (IBig, Relaxed)
//@@ FN rational/rem/euclid_divrem_with_relaxed.rs wrap=relaxed_divrem_euclid subst=method:div_rem_euclid
} // verus!
fn main() {}
