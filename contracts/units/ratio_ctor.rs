// unit ratio_ctor: constructors of rational/src/rbig.rs that are not in unit ratio_reduce: RBig / Relaxed
// `from_parts_signed` and the const constructor `RBig::from_parts_const` with its own Euclid loop on double words (C04:
// "every RBig ever produced has a positive denominator coprime to its numerator with zero stored as 0/1").
#![allow(unused_imports, unused_variables, dead_code, non_snake_case, unused_mut, unused_parens, unused_braces)]
use vstd::prelude::*;
use vstd::arithmetic::power2::pow2;
use core::cmp::Ordering;
use core::ops::{Add, Sub, Mul, Div, Rem};
verus! {
//@@ INCLUDE lib/ratio_lemmas.rs
//@@ INCLUDE lib/bigstub.rs
impl Sign {
// base/src/sign.rs: proved in unit ratio_ops / ratio_reduce, here seen through their contracts
//@@ SIG rational/sign/base_sign_mul.rs
//@@ SIG rational/sign/base_sign_neg.rs
//@@ SIG rational/sign/base_sign_cmp.rs
}
//@@ INCLUDE lib/ratio_types.rs
//@@ INCLUDE lib/ratio2_ctor_stubs.rs
// rational/src/error.rs: `total` reading, the panic is unreachable under the precondition (denominator != 0)
#[verifier::external_body]
pub fn panic_divide_by_0() -> ! requires false { unimplemented!() }
impl RBig {
// proved in unit ratio_reduce
//@@ SIG rational/rbig/rbig_from_parts.rs
//@@ FN rational/ctor/rbig_from_parts_signed.rs
//@@ FN rational/ctor/rbig_from_parts_const.rs
}
impl Relaxed {
// proved in unit ratio_ops
//@@ SIG rational/rbig/relaxed_from_parts.rs
//@@ FN rational/ctor/relaxed_from_parts_signed.rs
//@@ FN rational/ctor/relaxed_from_parts_const.rs
}
} // verus!
fn main() {}
