// unit clone_int: the `Clone` wrappers of dashu-int's public types ("necessary due to rust issue 98374"):
//   integer/src/ubig.rs `impl Clone for UBig`  clone, clone_from
//   integer/src/ibig.rs `impl Clone for IBig`  clone, clone_from
// forwarding to integer/src/repr.rs `Clone for Repr`:  ret.v() == self.v()  resp.  final(self).v() == source.v()
// (C05: a copy equals its source; C15: `b.clone_from(&a)` leaves b with the value `a.clone()` has, whatever b held).
// These are the statements lib/round_int_stubs.rs, lib/cl_int_clone.rs, lib/cl_int_clone_from.rs, lib/farey_stubs.rs ... assume
// of UBig / IBig clones.  Trusted: `Clone for Repr` (lib/cl_int_types.rs; storage-level copy: Kani groups int_repr / int_buffer).
#![allow(unused_imports, unused_variables, dead_code, non_snake_case, unused_mut, unused_parens, unused_braces)]
use vstd::prelude::*;
verus! {
global size_of usize == 8;
//@@ INCLUDE lib/cl_int_types.rs
impl UBig {
//@@ FN integer/clones/ubig_clone.rs
//@@ FN integer/clones/ubig_clone_from.rs
}
impl IBig {
//@@ FN integer/clones/ibig_clone.rs
//@@ FN integer/clones/ibig_clone_from.rs
}
} // verus!
fn main() {}
