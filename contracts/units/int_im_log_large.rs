// unit int_im_log_large: integer/src/log.rs `mod repr` log_large (C12, C16): floor logarithm of a multi-word number in a base of
// two or more words:  base^e <= target < base^(e+1), ret.1 == base^e, for an ARBITRARY f32 estimate (rule D10b: only the
// resource claim of lib/im_log_large_est.rs is trusted), the run-time `assert!(est_pow <= target)` being a possible panic
// (rule D4a `#[assert_guard]`); the correction loop terminates.  pow_dword_base / pow_large_base / mul_large enter through the
// contracts PROVED in units int_pow / int_mul_ops (//@@ SIG).  Trusted: lib/im_log_stubs.rs, lib/repr_stubs.rs.
// Dropped debug assertion #0 `cmp_in_place(target, base).is_ge()` (an exec call, not spec-expressible): it is the precondition.
#![allow(unused_imports, unused_variables, dead_code, non_snake_case, unused_mut, unused_parens, unused_braces)]
use vstd::prelude::*;
verus! {
//@@ INCLUDE lib/prelude.rs
//@@ INCLUDE lib/sign.rs
//@@ INCLUDE lib/repr_stubs.rs
//@@ INCLUDE lib/shift_bv.rs
//@@ INCLUDE lib/dispatch_lemmas.rs
//@@ INCLUDE lib/pow_lemmas.rs
//@@ INCLUDE lib/pow_api_stubs.rs
//@@ INCLUDE lib/pow_api_lemmas.rs
//@@ INCLUDE lib/gcdo_log_stubs.rs
//@@ INCLUDE lib/im_log_stubs.rs
pub mod pow {
pub mod repr {
use super::super::*;
// contracts proved in unit int_pow
//@@ SIG integer/pow/pow_dword_base.rs
//@@ SIG integer/pow/pow_large_base.rs
}
}
pub mod mul_ops {
pub mod repr {
use super::super::*;
// contract proved in unit int_mul_ops
//@@ SIG integer/mul_ops/mul_large.rs
}
}
pub mod log {
pub mod repr {
use super::super::*;
use super::super::cmp::cmp_in_place;
use core::cmp::Ordering;
broadcast use {crate::buffer_stub::ax_buffer_inv, crate::repr_stub::ax_repr_of};
//@@ INCLUDE lib/im_log_large_est.rs
//@@ FN integer/intmisc/log_large.rs drop_asserts=0
}
}
} // verus!
fn main() {}
