// unit int_shift_ops_dword: integer/src/shift_ops.rs `mod repr`: the double-word left shift (needs u128::leading_zeros,
// 64-bit words only) and the `Shl/Shr<usize>` dispatch of TypedRepr / TypedReprRef over the contracts proved in unit
// int_shift_ops (C09, C16)
#![allow(unused_imports, unused_variables, dead_code, non_snake_case, unused_mut, unused_parens, unused_braces)]
use vstd::prelude::*;
verus! {
//@@ INCLUDE lib/prelude.rs
//@@ INCLUDE lib/shift_bv.rs
//@@ INCLUDE lib/bits_repr_lemmas.rs
//@@ INCLUDE lib/shift_ops_lemmas.rs
//@@ INCLUDE lib/bits_dword_lemmas.rs
//@@ INCLUDE lib/shift_ops_lz_@BITS@.rs
//@@ INCLUDE lib/sign.rs
//@@ INCLUDE lib/repr_stubs.rs
//@@ INCLUDE lib/bits_stubs.rs
pub mod repr {
use super::*;
broadcast use crate::buffer_stub::ax_buffer_inv;
// proved in unit int_shift_ops
//@@ SIG integer/shift_ops/shr_dword.rs
//@@ SIG integer/shift_ops/shr_large.rs
//@@ SIG integer/shift_ops/shr_large_ref.rs
//@@ SIG integer/shift_ops/shl_one_spilled.rs
//@@ SIG integer/shift_ops/shl_dword_spilled.rs
//@@ SIG integer/shift_ops/shl_large_ref.rs
//@@ SIG integer/shift_ops/shl_large.rs
//@@ FN integer/shift_ops/shl_dword.rs
pub mod owned { use super::*;
//@@ FN integer/shift_ops/typed_shl.rs
//@@ FN integer/shift_ops/typed_shr.rs
}
pub mod borrowed { use super::*;
//@@ FN integer/shift_ops/typedref_shl.rs
//@@ FN integer/shift_ops/typedref_shr.rs
}
}
} // verus!
fn main() {}
