// unit float_fmt_round: float/src/fmt.rs `Repr::fmt_round` (Display, `{:.N}`) and `Repr::fmt_round_scientific`
// (LowerExp / UpperExp / Binary / Octal / LowerHex / UpperHex, `{:.Ne}`), C08 "printing with a precision option shows the
// value correctly rounded to that many fractional digits under the type's mode".
// What is verified is the PREFIX of both functions up to the point where the digits are handed to the integer printer
// (lowering rule D20, marker `#[cut_tail]`): the infinity shortcut against the sink, the number of dropped digits
// (from the EXACT digit count `Repr::digits`), the call of `Round::round_fract` (contract proved in unit float_round)
// and the resulting (significand, exponent) pair, stated as a proof obligation in front of the cut.  The layout of the
// characters (String / write! / Formatter width, fill, alignment) is NOT verified.
// Trusted: lib/fio_fmt_stubs.rs (Formatter sink), lib/round_float_repr.rs (digit_len, split_digits_ref, IBig + Rounding),
// lib/round_int_stubs.rs (IBig).
#![allow(unused_imports, unused_variables, dead_code, non_snake_case, unused_mut, unused_parens, unused_braces)]
use vstd::prelude::*;
verus! {
global size_of usize == 8;
//@@ INCLUDE lib/round_prelude.rs
//@@ INCLUDE lib/round_int_stubs.rs
pub trait Round: Copy {
    /// ghost: which of the six mode definitions the implementing type stands for
    spec fn md() -> Mode;
//@@ SIG float/round/round_fract.rs
}
//@@ INCLUDE lib/round_float_repr.rs
//@@ INCLUDE lib/fio_fmt_stubs.rs
//@@ INCLUDE lib/fio_cut_tail.rs
//@@ SIG float/error/panic_operate_with_inf.rs
//@@ SIG float/error/assert_finite.rs
impl<const B: Word> Repr<B> {
//@@ SIG float/repr/is_infinite.rs
//@@ SIG float/repr/digits.rs
//@@ SIG float/convert/repr_sign.rs
//@@ FN float/fmt/fmt_round.rs
//@@ FN float/fmt/fmt_round_scientific.rs
}
} // verus!
fn main() {}
