// unit int_leh_gcd: integer/src/gcd/lehmer.rs gcd_in_place (C12): Lehmer's gcd on word slices -- the loop keeps the set of common
// divisors of (x, y) equal to that of the operands (Lehmer step: unimodular combination, lemma_leh_cd_unimod; Euclidean step:
// lemma_leh_cd_euclid), x >= y, both normalized, and terminates (val(x) + val(y) decreases); the tail forwards to the word /
// double-word gcd.  Same contract as the formerly ASSUMED stub of lib/gcdo_ops_stubs.rs (plus `2 * lhs.len() <= usize::MAX`).
// Callees through the contracts PROVED in units int_leh_guess, int_leh_step, int_leh_top, int_div_ops, int_shift, int_div_word,
// int_div_dword (//@@ SIG).  Trusted: lib/gcdo_ops_stubs.rs (primitive Gcd::gcd for Word / DoubleWord, cmp::cmp_in_place,
// opaque Memory), primitive.rs highest_dword, core::mem::replace / Ordering::is_le / is_ge.
#![allow(unused_imports, unused_variables, dead_code, non_snake_case, unused_mut, unused_parens, unused_braces)]
use vstd::prelude::*;
use core::cmp::Ordering;
verus! {
//@@ INCLUDE lib/prelude.rs
//@@ INCLUDE lib/sign.rs
//@@ INCLUDE lib/gcdo_stubs.rs
impl Sign {
//@@ SIG rational/sign/base_sign_neg.rs
}
//@@ INCLUDE lib/repr_stubs.rs
//@@ INCLUDE lib/dispatch_lemmas.rs
//@@ INCLUDE lib/div_dword_stubs.rs
//@@ INCLUDE lib/div_post_spec.rs
//@@ INCLUDE lib/gcdo_ops_stubs.rs
//@@ INCLUDE lib/shift_bv.rs
//@@ INCLUDE lib/leh_guess_lemmas.rs
//@@ INCLUDE lib/leh_step_lemmas.rs
//@@ INCLUDE lib/leh_top_lemmas.rs
//@@ INCLUDE lib/leh_gcd_lemmas.rs
//@@ SIG integer/primitive/split_dword.rs
pub mod div {
use super::*;
// contracts PROVED in unit int_div_ops
//@@ SIG integer/div_glue/normalize.rs
//@@ SIG integer/div_glue/div_rem_unshifted_in_place.rs
// contracts PROVED in units int_div_word / int_div_dword
//@@ SIG integer/div/rem_by_word.rs
//@@ SIG integer/div/rem_by_dword.rs
}
pub mod shift {
use super::*;
// contract PROVED in unit int_shift
//@@ SIG integer/shift/shr_in_place.rs
}
pub mod gcd {
pub mod lehmer {
use super::super::*;
use super::super::cmp::cmp_in_place;
use core::mem;
//@@ CONST integer/lehmer/min_dword_guess_len.rs
// contracts PROVED in units int_leh_guess, int_leh_top, int_leh_step
//@@ SIG integer/lehmer/lehmer_guess.rs
//@@ SIG integer/lehmer/lehmer_guess_dword.rs
//@@ SIG integer/lehmer/highest_word_normalized.rs
//@@ SIG integer/lehmer/highest_dword_normalized.rs
//@@ SIG integer/lehmer/trim_leading_zeros.rs
//@@ SIG integer/lehmer/lehmer_step.rs
// debug assertion #0 `cmp_in_place(lhs, rhs).is_ge()` is an exec call (not spec-expressible): dropped; it is implied by the
// precondition val(lhs) > val(rhs) through the contract of cmp_in_place
//@@ FN integer/lehmer/gcd_in_place.rs drop_asserts=0
}
}
} // verus!
fn main() {}
