// unit float_round_add: float/src/round.rs `impl Add<Rounding> for IBig`, `impl AddAssign<Rounding> for IBig` (C03, C10:
// applying the adjustment), hoisted out of their impl blocks by lowering rule D2
#![allow(unused_imports, unused_variables, dead_code, non_snake_case, unused_mut, unused_parens, unused_braces)]
use vstd::prelude::*;
verus! {
//@@ INCLUDE lib/round_prelude.rs
//@@ INCLUDE lib/round_int_stubs.rs
//@@ INCLUDE lib/round_int_addsub_stubs.rs
//@@ FN float/round/ibig_add_rounding.rs
//@@ FN float/round/ibig_add_assign_rounding.rs
} // verus!
fn main() {}
