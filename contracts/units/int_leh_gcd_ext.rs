// unit int_leh_gcd_ext: integer/src/gcd/lehmer.rs gcd_ext_in_place (C12) -- needs the EXACT Jebelean contract of lehmer_guess (leh_guess_exact,
// proved in unit int_leh_guess since the repair of lehmer.rs:77/:153):
// g = gcd(lhs, rhs) left in rhs[..ret.0], |b| in lhs[..ret.1], a*lhs + (ret.2 * |b|)*rhs == g for some a (inplace_gcd_ext_post: the
// contract lib/gcdo_ops_stubs.rs ASSUMES, plus `2 * lhs.len() + 2 <= usize::MAX`).  Loop invariants: same common divisors as
// (lhs, rhs); lhs == T1*x + T0*y; the signed Bezout relations of x and y (ghost cofactors of lhs); T0 <= T1 (needs the exact guess);
// cofactor buffers zero above their lengths; termination.
// Trusted: lib/leh_ext_stubs.rs (primitive gcd_ext for Word incl. the zero-operand clause, cmp::cmp_in_place, Memory::
// allocate_slice_fill, <[T]>::fill, unsigned_abs), core::mem::replace / swap, Ordering::is_le.
#![allow(unused_imports, unused_variables, dead_code, non_snake_case, unused_mut, unused_parens, unused_braces)]
use vstd::prelude::*;
use core::cmp::Ordering;
verus! {
//@@ INCLUDE lib/prelude.rs
//@@ INCLUDE lib/sign.rs
//@@ INCLUDE lib/div_dword_stubs.rs
//@@ INCLUDE lib/div_post_spec.rs
//@@ INCLUDE lib/shift_bv.rs
//@@ INCLUDE lib/leh_ext_stubs.rs
//@@ INCLUDE lib/leh_guess_lemmas.rs
//@@ INCLUDE lib/leh_step_lemmas.rs
//@@ INCLUDE lib/leh_top_lemmas.rs
//@@ INCLUDE lib/leh_gcd_lemmas.rs
//@@ INCLUDE lib/leh_ext_lemmas.rs
//@@ SIG integer/modular2/locate_top_word_plus_one.rs
pub mod div {
use super::*;
// contracts PROVED in unit int_div_ops
//@@ SIG integer/div_glue/normalize.rs
//@@ SIG integer/div_glue/div_rem_unshifted_in_place.rs
// contract PROVED in unit int_div_word
//@@ SIG integer/div/div_by_word_in_place.rs
}
pub mod shift {
use super::*;
// contract PROVED in unit int_shift
//@@ SIG integer/shift/shr_in_place.rs
}
pub mod mul {
use super::*;
// contracts PROVED in units int_mul_dispatch / int_mul
//@@ SIG integer/mul_algos/add_signed_mul.rs
//@@ SIG integer/mul/add_mul_word_in_place.rs
}
pub mod gcd {
pub mod lehmer {
use super::super::*;
use super::super::cmp::cmp_in_place;
use core::mem;
//@@ CONST integer/lehmer/min_dword_guess_len.rs
// contracts PROVED in units int_leh_guess, int_leh_top, int_leh_step
//@@ SIG integer/lehmer/lehmer_guess.rs
//@@ SIG integer/lehmer/lehmer_guess_dword.rs
//@@ SIG integer/lehmer/highest_word_normalized.rs
//@@ SIG integer/lehmer/highest_dword_normalized.rs
//@@ SIG integer/lehmer/trim_leading_zeros.rs
//@@ SIG integer/lehmer/lehmer_step.rs
//@@ SIG integer/lehmer/lehmer_ext_step.rs
// debug assertion #0 `cmp_in_place(lhs, rhs).is_ge()` is an exec call: dropped (it is the precondition val(lhs) > val(rhs))
//@@ FN integer/lehmer/gcd_ext_in_place.rs drop_asserts=0
}
}
} // verus!
fn main() {}
