// unit float_error_bounds: float/src/round.rs `impl ErrorBounds for mode::{Zero, Away, Up, Down, HalfAway}` (C18: the
// rounding interval that RBig::simplest_from_float searches), with the real helpers is_power_of_base, ulp_towards_zero,
// FBig::{precision, repr, ulp, new}, Repr::{is_zero, sign, is_infinite, digits}.  HalfEven: unit float_error_bounds_halfeven
// (same contract, separate file for historical reasons).
#![allow(unused_imports, unused_variables, dead_code, non_snake_case, unused_mut, unused_parens, unused_braces)]
use vstd::prelude::*;
verus! {
//@@ INCLUDE lib/round_prelude.rs
//@@ INCLUDE lib/round_int_stubs.rs
//@@ INCLUDE lib/round_modes.rs
pub trait Round: Copy {
    /// ghost: which of the six mode definitions the implementing type stands for
    spec fn md() -> Mode;
}
impl Round for mode::Zero { open spec fn md() -> Mode { Mode::Zero } }
impl Round for mode::Away { open spec fn md() -> Mode { Mode::Away } }
impl Round for mode::Up { open spec fn md() -> Mode { Mode::Up } }
impl Round for mode::Down { open spec fn md() -> Mode { Mode::Down } }
impl Round for mode::HalfAway { open spec fn md() -> Mode { Mode::HalfAway } }
impl Round for mode::HalfEven { open spec fn md() -> Mode { Mode::HalfEven } }
//@@ INCLUDE lib/round_float_repr.rs
//@@ INCLUDE lib/conv_fbig_stubs.rs
//@@ INCLUDE lib/ebounds_stubs.rs
//@@ INCLUDE lib/ebounds_lemmas.rs
use core::marker::PhantomData;
//@@ SIG float/error/panic_operate_with_inf.rs
//@@ FN float/error/assert_finite.rs
impl<const B: Word> Repr<B> {
//@@ FN float/repr/is_infinite.rs
//@@ FN float/repr/digits.rs
//@@ FN float/ebounds/repr_is_zero.rs
//@@ FN float/ebounds/repr_sign.rs
}
impl<R: Round, const B: Word> FBig<R, B> {
//@@ FN float/fbig/new.rs
//@@ FN float/ebounds/fbig_precision.rs
//@@ FN float/ebounds/fbig_repr.rs
//@@ FN float/ebounds/fbig_ulp.rs
}
//@@ FN float/ebounds/is_power_of_base.rs
//@@ FN float/ebounds/ulp_towards_zero.rs
//@@ FN float/ebounds/zero.rs
//@@ FN float/ebounds/away.rs
//@@ FN float/ebounds/up.rs
//@@ FN float/ebounds/down.rs
//@@ FN float/ebounds/halfaway.rs
} // verus!
fn main() {}
