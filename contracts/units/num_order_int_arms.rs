// unit num_order_int_arms: integer/src/third_party/num_order.rs -- the NumOrd arms not covered by unit num_order_int_float (C14):
// `NumOrd<f32 / f64> for IBig` (macro impl_num_ord_ibig_with_float: NaN, zeros, signs, the bit-length shortcuts on the MAGNITUDES
// with the sign applied, the exact comparison), the mirrored arms `NumOrd<UBig> for f32 / f64`, `NumOrd<IBig> for f32 / f64`,
// NumOrd between UBig and IBig, and with every primitive integer type.  Floats: abstract model of lib/gcdo_numord_stubs.rs.
#![allow(unused_imports, unused_variables, dead_code, non_snake_case, unused_mut, unused_parens, unused_braces)]
use vstd::prelude::*;
use vstd::arithmetic::power2::pow2;
use core::cmp::Ordering;
use core::ops::{Add, Sub, Mul, Div, Rem};
verus! {
global size_of usize == 8;
//@@ INCLUDE lib/ratio_lemmas.rs
//@@ INCLUDE lib/bigstub.rs
impl Sign {
//@@ SIG rational/sign/base_sign_mul.rs
//@@ SIG rational/sign/base_sign_neg.rs
//@@ SIG rational/sign/base_sign_cmp.rs
}
//@@ INCLUDE lib/ratio2_cmp_stubs.rs
//@@ INCLUDE lib/gcdo_numord_stubs.rs
//@@ INCLUDE lib/no_ord_stubs.rs
//@@ INCLUDE lib/no_prim_stubs.rs
//@@ INCLUDE lib/no_int_ord_stubs.rs
//@@ INCLUDE lib/no_numord_trait.rs
pub mod with_f32 {
use super::*;
broadcast use {crate::bigstub::ax_ubig_of, crate::bigstub::ax_ibig_of, crate::bigstub::ax_ubig_nonneg};
// `NumOrd<f32> for UBig :: num_partial_cmp`: proved in unit num_order_int_float, seen here through its contract
//@@ SIG integer/num_order/ubig_cmp_float.rs variant=f32 msubst=t:f32
//@@ FN integer/numorder2/ibig_cmp_float.rs variant=f32 msubst=t:f32
// glue (verified one-liners): the trait impls that the mirrored arms call by method syntax
impl NumOrd<f32> for UBig {
    open spec fn npc_req(&self, other: &f32) -> bool { true }
    open spec fn npc_spec(&self, other: &f32) -> Option<Ordering> {
        cmp_int_float(self.v(), f32_nan(*other), f32_inf(*other), f32_neg(*other), f32_man(*other), f32_exp(*other))
    }
    fn num_partial_cmp(&self, other: &f32) -> (r: Option<Ordering>) { num_partial_cmp(self, other) }
    // default method of num-order (TRUSTED): `self.num_partial_cmp(other).unwrap()`
    #[verifier::external_body]
    fn num_cmp(&self, other: &f32) -> (r: Ordering) { unimplemented!() }
}
impl NumOrd<f32> for IBig {
    open spec fn npc_req(&self, other: &f32) -> bool { true }
    open spec fn npc_spec(&self, other: &f32) -> Option<Ordering> {
        cmp_int_float(self.v(), f32_nan(*other), f32_inf(*other), f32_neg(*other), f32_man(*other), f32_exp(*other))
    }
    fn num_partial_cmp(&self, other: &f32) -> (r: Option<Ordering>) { ibig_cmp_float(self, other) }
    // default method of num-order (TRUSTED): `self.num_partial_cmp(other).unwrap()`
    #[verifier::external_body]
    fn num_cmp(&self, other: &f32) -> (r: Ordering) { unimplemented!() }
}
//@@ FN integer/numorder2/float_cmp_ubig.rs variant=f32 msubst=t:f32
//@@ FN integer/numorder2/float_cmp_ibig.rs variant=f32 msubst=t:f32
}
pub mod with_f64 {
use super::*;
broadcast use {crate::bigstub::ax_ubig_of, crate::bigstub::ax_ibig_of, crate::bigstub::ax_ubig_nonneg};
// `NumOrd<f64> for UBig :: num_partial_cmp`: proved in unit num_order_int_float, seen here through its contract
//@@ SIG integer/num_order/ubig_cmp_float.rs variant=f64 msubst=t:f64
//@@ FN integer/numorder2/ibig_cmp_float.rs variant=f64 msubst=t:f64
// glue (verified one-liners): the trait impls that the mirrored arms call by method syntax
impl NumOrd<f64> for UBig {
    open spec fn npc_req(&self, other: &f64) -> bool { true }
    open spec fn npc_spec(&self, other: &f64) -> Option<Ordering> {
        cmp_int_float(self.v(), f64_nan(*other), f64_inf(*other), f64_neg(*other), f64_man(*other), f64_exp(*other))
    }
    fn num_partial_cmp(&self, other: &f64) -> (r: Option<Ordering>) { num_partial_cmp(self, other) }
    // default method of num-order (TRUSTED): `self.num_partial_cmp(other).unwrap()`
    #[verifier::external_body]
    fn num_cmp(&self, other: &f64) -> (r: Ordering) { unimplemented!() }
}
impl NumOrd<f64> for IBig {
    open spec fn npc_req(&self, other: &f64) -> bool { true }
    open spec fn npc_spec(&self, other: &f64) -> Option<Ordering> {
        cmp_int_float(self.v(), f64_nan(*other), f64_inf(*other), f64_neg(*other), f64_man(*other), f64_exp(*other))
    }
    fn num_partial_cmp(&self, other: &f64) -> (r: Option<Ordering>) { ibig_cmp_float(self, other) }
    // default method of num-order (TRUSTED): `self.num_partial_cmp(other).unwrap()`
    #[verifier::external_body]
    fn num_cmp(&self, other: &f64) -> (r: Ordering) { unimplemented!() }
}
//@@ FN integer/numorder2/float_cmp_ubig.rs variant=f64 msubst=t:f64
//@@ FN integer/numorder2/float_cmp_ibig.rs variant=f64 msubst=t:f64
}
// ---- NumOrd between UBig and IBig
pub mod big_big {
use super::*;
broadcast use {crate::bigstub::ax_ubig_of, crate::bigstub::ax_ibig_of, crate::bigstub::ax_ubig_nonneg};
//@@ FN integer/numorder2/ubig_ubig_cmp.rs
//@@ FN integer/numorder2/ubig_ubig_pcmp.rs
//@@ FN integer/numorder2/ibig_ibig_cmp.rs
//@@ FN integer/numorder2/ibig_ibig_pcmp.rs
//@@ FN integer/numorder2/ubig_ibig_cmp.rs
//@@ FN integer/numorder2/ibig_ubig_cmp.rs
// glue (verified one-liners): the trait impls that `self.num_cmp(other)` / `x.num_partial_cmp(y)` resolve to
impl NumOrd<IBig> for UBig {
    open spec fn npc_req(&self, other: &IBig) -> bool { true }
    open spec fn npc_spec(&self, other: &IBig) -> Option<Ordering> { Some(cmp_int(self.v(), other.v())) }
    fn num_partial_cmp(&self, other: &IBig) -> (r: Option<Ordering>) { ubig_num_partial_cmp_ibig(self, other) }
    fn num_cmp(&self, other: &IBig) -> (r: Ordering) { ubig_num_cmp_ibig(self, other) }
}
impl NumOrd<UBig> for IBig {
    open spec fn npc_req(&self, other: &UBig) -> bool { true }
    open spec fn npc_spec(&self, other: &UBig) -> Option<Ordering> { Some(cmp_int(self.v(), other.v())) }
    fn num_partial_cmp(&self, other: &UBig) -> (r: Option<Ordering>) { ibig_num_partial_cmp_ubig(self, other) }
    fn num_cmp(&self, other: &UBig) -> (r: Ordering) { ibig_num_cmp_ubig(self, other) }
}
//@@ FN integer/numorder2/ubig_ibig_pcmp.rs
//@@ FN integer/numorder2/ibig_ubig_pcmp.rs
// ---- NumOrd between UBig / IBig and the primitive integers
pub mod uu_u8 {
use super::*;
//@@ FN integer/numorder2/prim_uu_big_t.rs msubst=t:u8
//@@ FN integer/numorder2/prim_uu_t_big.rs variant=u8 msubst=t:u8
}
pub mod uu_u16 {
use super::*;
//@@ FN integer/numorder2/prim_uu_big_t.rs msubst=t:u16
//@@ FN integer/numorder2/prim_uu_t_big.rs variant=u16 msubst=t:u16
}
pub mod uu_u32 {
use super::*;
//@@ FN integer/numorder2/prim_uu_big_t.rs msubst=t:u32
//@@ FN integer/numorder2/prim_uu_t_big.rs variant=u32 msubst=t:u32
}
pub mod uu_u64 {
use super::*;
//@@ FN integer/numorder2/prim_uu_big_t.rs msubst=t:u64
//@@ FN integer/numorder2/prim_uu_t_big.rs variant=u64 msubst=t:u64
}
pub mod uu_u128 {
use super::*;
//@@ FN integer/numorder2/prim_uu_big_t.rs msubst=t:u128
//@@ FN integer/numorder2/prim_uu_t_big.rs variant=u128 msubst=t:u128
}
pub mod uu_usize {
use super::*;
//@@ FN integer/numorder2/prim_uu_big_t.rs msubst=t:usize
//@@ FN integer/numorder2/prim_uu_t_big.rs variant=usize msubst=t:usize
}
pub mod us_i8 {
use super::*;
//@@ FN integer/numorder2/prim_us_big_t.rs msubst=t:i8
//@@ FN integer/numorder2/prim_us_t_big.rs variant=i8 msubst=t:i8
}
pub mod us_i16 {
use super::*;
//@@ FN integer/numorder2/prim_us_big_t.rs msubst=t:i16
//@@ FN integer/numorder2/prim_us_t_big.rs variant=i16 msubst=t:i16
}
pub mod us_i32 {
use super::*;
//@@ FN integer/numorder2/prim_us_big_t.rs msubst=t:i32
//@@ FN integer/numorder2/prim_us_t_big.rs variant=i32 msubst=t:i32
}
pub mod us_i64 {
use super::*;
//@@ FN integer/numorder2/prim_us_big_t.rs msubst=t:i64
//@@ FN integer/numorder2/prim_us_t_big.rs variant=i64 msubst=t:i64
}
pub mod us_i128 {
use super::*;
//@@ FN integer/numorder2/prim_us_big_t.rs msubst=t:i128
//@@ FN integer/numorder2/prim_us_t_big.rs variant=i128 msubst=t:i128
}
pub mod us_isize {
use super::*;
//@@ FN integer/numorder2/prim_us_big_t.rs msubst=t:isize
//@@ FN integer/numorder2/prim_us_t_big.rs variant=isize msubst=t:isize
}
pub mod iu_u8 {
use super::*;
//@@ FN integer/numorder2/prim_iu_big_t.rs msubst=t:u8
//@@ FN integer/numorder2/prim_iu_t_big.rs variant=u8 msubst=t:u8
}
pub mod iu_u16 {
use super::*;
//@@ FN integer/numorder2/prim_iu_big_t.rs msubst=t:u16
//@@ FN integer/numorder2/prim_iu_t_big.rs variant=u16 msubst=t:u16
}
pub mod iu_u32 {
use super::*;
//@@ FN integer/numorder2/prim_iu_big_t.rs msubst=t:u32
//@@ FN integer/numorder2/prim_iu_t_big.rs variant=u32 msubst=t:u32
}
pub mod iu_u64 {
use super::*;
//@@ FN integer/numorder2/prim_iu_big_t.rs msubst=t:u64
//@@ FN integer/numorder2/prim_iu_t_big.rs variant=u64 msubst=t:u64
}
pub mod iu_u128 {
use super::*;
//@@ FN integer/numorder2/prim_iu_big_t.rs msubst=t:u128
//@@ FN integer/numorder2/prim_iu_t_big.rs variant=u128 msubst=t:u128
}
pub mod iu_usize {
use super::*;
//@@ FN integer/numorder2/prim_iu_big_t.rs msubst=t:usize
//@@ FN integer/numorder2/prim_iu_t_big.rs variant=usize msubst=t:usize
}
pub mod is_i8 {
use super::*;
//@@ FN integer/numorder2/prim_is_big_t.rs msubst=t:i8
//@@ FN integer/numorder2/prim_is_t_big.rs variant=i8 msubst=t:i8
}
pub mod is_i16 {
use super::*;
//@@ FN integer/numorder2/prim_is_big_t.rs msubst=t:i16
//@@ FN integer/numorder2/prim_is_t_big.rs variant=i16 msubst=t:i16
}
pub mod is_i32 {
use super::*;
//@@ FN integer/numorder2/prim_is_big_t.rs msubst=t:i32
//@@ FN integer/numorder2/prim_is_t_big.rs variant=i32 msubst=t:i32
}
pub mod is_i64 {
use super::*;
//@@ FN integer/numorder2/prim_is_big_t.rs msubst=t:i64
//@@ FN integer/numorder2/prim_is_t_big.rs variant=i64 msubst=t:i64
}
pub mod is_i128 {
use super::*;
//@@ FN integer/numorder2/prim_is_big_t.rs msubst=t:i128
//@@ FN integer/numorder2/prim_is_t_big.rs variant=i128 msubst=t:i128
}
pub mod is_isize {
use super::*;
//@@ FN integer/numorder2/prim_is_big_t.rs msubst=t:isize
//@@ FN integer/numorder2/prim_is_t_big.rs variant=isize msubst=t:isize
}
}
} // verus!
fn main() {}
