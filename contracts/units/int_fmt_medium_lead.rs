// unit int_fmt_medium_lead: integer/src/fmt/non_power_two.rs PreparedMedium::new once more, with ONE MORE postcondition than
// in unit int_fmt_digits (annotated copy integer/fmt_npt/medium_new.rs, same body annotations): if there are low groups the
// top group is not zero, hence the digit string that PreparedMedium::write emits has NO LEADING ZERO (C07 "no leading
// zeros except for zero itself").  The end-to-end unit int_fmt_e2e and int_fmt_large_new take the contract from this copy.
// Trusted: as unit int_fmt_digits.
#![allow(unused_imports, unused_variables, dead_code, non_snake_case, unused_mut, unused_parens, unused_braces)]
use vstd::prelude::*;
verus! {
//@@ INCLUDE lib/prelude.rs
//@@ INCLUDE lib/shift_bv.rs
//@@ INCLUDE lib/div_word_stubs.rs
//@@ INCLUDE lib/codecs_fmt_stubs.rs
//@@ INCLUDE lib/codecs_digit_lemmas.rs
//@@ INCLUDE lib/codecs_writer_stub.rs
impl PreparedWord {
//@@ SIG integer/fmt_npt/word_new.rs
}
//@@ SIG integer/primitive/split_dword.rs
pub mod div {
use super::*;
//@@ SIG integer/div/fast_div_by_word_in_place.rs
}
//@@ SIG integer/fmt_npt/repr_to_chunk_buffer.rs
impl PreparedMedium {
//@@ FN integer/fmt_large/medium_new_lead.rs drop_asserts=0
}
} // verus!
fn main() {}
