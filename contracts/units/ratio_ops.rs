// unit ratio_ops: the RBig and Relaxed `+ - * /` macro arms of rational/src/{add,mul,div}.rs (C04), rule E3.
// The arms are instantiated for the by-value forwarding (`impl Op<T> for T`): a, b, c, d owned and ra..rd the
// references the forwarding macro takes to them.
#![allow(unused_imports, unused_variables, dead_code, non_snake_case, unused_mut, unused_parens, unused_braces)]
use vstd::prelude::*;
use vstd::arithmetic::power2::pow2;
use core::cmp::Ordering;
use core::ops::{Add, Sub, Mul, Div};
verus! {
//@@ INCLUDE lib/ratio_lemmas.rs
//@@ INCLUDE lib/bigstub.rs
impl Sign {
//@@ FN rational/sign/base_sign_mul.rs
//@@ FN rational/sign/base_sign_neg.rs
//@@ FN rational/sign/base_sign_cmp.rs
}
//@@ INCLUDE lib/ratio_types.rs
// rational/src/error.rs: `total` reading, the panic is unreachable under the precondition (divisor != 0)
#[verifier::external_body]
pub fn panic_divide_by_0() -> ! requires false { unimplemented!() }
impl Repr {
//@@ SIG rational/repr/reduce_with_hint.rs
//@@ SIG rational/repr/reduce2.rs
}
impl Relaxed {
//@@ FN rational/rbig/relaxed_from_parts.rs
}
//@@ WRAP rbig_add fn rbig_add(a: IBig, b: UBig, c: IBig, d: UBig, ra: &IBig, rb: &UBig, rc: &IBig, rd: &UBig) -> RBig
//@@ FN rational/add/add_or_sub_with_rbig.rs wrap=rbig_add subst=method:add variant=add
//@@ WRAP rbig_sub fn rbig_sub(a: IBig, b: UBig, c: IBig, d: UBig, ra: &IBig, rb: &UBig, rc: &IBig, rd: &UBig) -> RBig
//@@ FN rational/add/add_or_sub_with_rbig.rs wrap=rbig_sub subst=method:sub variant=sub
//@@ WRAP relaxed_add fn relaxed_add(a: IBig, b: UBig, c: IBig, d: UBig, ra: &IBig, rb: &UBig, rc: &IBig, rd: &UBig) -> Relaxed
//@@ FN rational/add/addsub_with_relaxed.rs wrap=relaxed_add subst=method:add variant=add
//@@ WRAP relaxed_sub fn relaxed_sub(a: IBig, b: UBig, c: IBig, d: UBig, ra: &IBig, rb: &UBig, rc: &IBig, rd: &UBig) -> Relaxed
//@@ FN rational/add/addsub_with_relaxed.rs wrap=relaxed_sub subst=method:sub variant=sub
//@@ WRAP rbig_mul fn rbig_mul(a: IBig, b: UBig, c: IBig, d: UBig, ra: &IBig, rb: &UBig, rc: &IBig, rd: &UBig) -> RBig
//@@ FN rational/mul/mul_with_rbig.rs wrap=rbig_mul subst=method:mul
//@@ WRAP relaxed_mul fn relaxed_mul(a: IBig, b: UBig, c: IBig, d: UBig, ra: &IBig, rb: &UBig, rc: &IBig, rd: &UBig) -> Relaxed
//@@ FN rational/mul/mul_with_relaxed.rs wrap=relaxed_mul subst=method:mul
//@@ WRAP rbig_div fn rbig_div(a: IBig, b: UBig, c: IBig, d: UBig, ra: &IBig, rb: &UBig, rc: &IBig, rd: &UBig) -> RBig
//@@ FN rational/div/div_with_rbig.rs wrap=rbig_div subst=method:div
//@@ WRAP relaxed_div fn relaxed_div(a: IBig, b: UBig, c: IBig, d: UBig, ra: &IBig, rb: &UBig, rc: &IBig, rd: &UBig) -> Relaxed
//@@ FN rational/div/div_with_relaxed.rs wrap=relaxed_div subst=method:div
} // verus!
fn main() {}
