// unit ratio_to_fbig_rbig: rational/src/third_party/dashu_float.rs `RBig::to_float` forwards to `Repr::to_float` (C06/C10: the
// rational rounded ONCE to `precision` digits in base B by mode R, truthful flag); the Repr method is seen through the
// contract it is verified against in unit ratio_to_fbig (SIG = generated from the same annotated copy).
#![allow(unused_imports, unused_variables, dead_code, non_snake_case, unused_mut, unused_parens, unused_braces)]
use vstd::prelude::*;
verus! {
//@@ INCLUDE lib/round_prelude.rs
//@@ INCLUDE lib/round_int_stubs.rs
//@@ INCLUDE lib/round_int_addsub_stubs.rs
pub trait Round: Copy {
    /// ghost: which of the six mode definitions the implementing type stands for
    spec fn md() -> Mode;
}
//@@ INCLUDE lib/round_float_repr.rs
//@@ INCLUDE lib/conv_fbig_stubs.rs
//@@ INCLUDE lib/ebounds_stubs.rs
//@@ INCLUDE lib/farith_lemmas.rs
//@@ INCLUDE lib/tf_stubs.rs
//@@ INCLUDE lib/tf_lemmas.rs
pub mod ratio {
use super::*;
// rational/src/repr.rs `pub struct Repr { numerator: IBig, denominator: UBig }`, rational/src/rbig.rs
// `pub struct RBig(pub(crate) Repr)` -- transcriptions (this Repr shadows the float Repr, imported as `FBigRepr` in the real file)
pub struct Repr {
    pub numerator: IBig,
    pub denominator: UBig,
}
pub struct RBig(pub Repr);
impl Repr {
//@@ SIG rational/to_float/repr_to_float.rs
}
impl RBig {
//@@ FN rational/to_float/rbig_to_float.rs
}
}
} // verus!
fn main() {}
