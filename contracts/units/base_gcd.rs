// unit base_gcd (C12): the PRIMITIVE gcd algorithms of dashu-base, base/src/ring/gcd.rs -- work in progress
#![allow(unused_imports, unused_variables, dead_code, non_snake_case, unused_mut, unused_parens, unused_braces)]
use vstd::prelude::*;
use vstd::arithmetic::power2::pow2;
verus! {
//@@ INCLUDE lib/div_dword_bits_64.rs
//@@ INCLUDE lib/basering_bits.rs
//@@ INCLUDE lib/basering_gcd_lemmas.rs
} // verus!
fn main() {}
