// unit base_gcd (C12): the PRIMITIVE gcd algorithms of dashu-base, base/src/ring/gcd.rs, proved UNBOUNDED for the u32 / u64 / u128
// instances of the three macros (rule E3b: `$U`, `$I`, `$HU` substituted on the FN line):
//   impl_unchecked_gcd_ops_prim#0  UncheckedGcd::unchecked_gcd (binary gcd),  UncheckedExtendedGcd::unchecked_gcd_ext (extended Euclid)
//   impl_unchecked_gcd_ops_prim#1  the double-width versions (u128 as two u64: forward to single width / "reduce double by single";
//                                  u64 as two u32 is the arm chosen on 32-bit targets)
//   impl_gcd_ops_prim#0            Gcd::gcd, ExtendedGcd::gcd_ext (the public wrappers: zero operands, common power of two)
// Postconditions (mathematical integers, from the property statement):
//   gcd:      ret >= 1, ret | a, ret | b, every common divisor divides ret              (gcd(0, 0): documented panic = precondition)
//   gcd_ext:  the same for ret.0, ret.1 * a + ret.2 * b == ret.0, |ret.1| <= b and |ret.2| <= a (a, b > 0), |ret.2| < a (a > b > 0)
//   unchecked_gcd (odd operands): ret == br_gcd(a, b) (Euclid's recursion as proof device, lemma_br_gcd_props ties it to divisibility)
//   unchecked_gcd_ext (a >= b >= 1): br_ext_post: g | a, g | b, s*a + t*b == g, |s| <= b, |t| <= a, halved when a > b
// All debug assertions are proved (D3), no arithmetic overflow (the i64 / i128 cofactor arithmetic included), termination.
// Trusted: u128::{trailing_zeros, leading_zeros} (lib/div_dword_bits_64.rs; vstd specifies them up to u64), core::mem::replace.
// The traits of gcd.rs are mirrored in lib/basering_gcd_traits.rs; their impls below FORWARD to the verified functions (checked).
#![allow(unused_imports, unused_variables, dead_code, non_snake_case, unused_mut, unused_parens, unused_braces)]
use vstd::prelude::*;
use vstd::arithmetic::power2::pow2;
verus! {
//@@ INCLUDE lib/div_dword_bits_64.rs
//@@ INCLUDE lib/basering_bits.rs
//@@ INCLUDE lib/basering_gcd_lemmas.rs
//@@ INCLUDE lib/basering_gcd_traits.rs
//@@ FN base/ring_gcd/unchecked_gcd_prim.rs variant=u64 msubst=U:u64,I:i64
//@@ FN base/ring_gcd/unchecked_gcd_ext_prim.rs variant=u64 msubst=U:u64,I:i64
impl UncheckedGcd for u64 {
    type Output = u64;
    open spec fn ugcd_req(self, rhs: u64) -> bool { (self as int) % 2 == 1 && (rhs as int) % 2 == 1 }
    open spec fn ugcd_post(self, rhs: u64, r: u64) -> bool { r as int == br_gcd(self as nat, rhs as nat) && r >= 1 }
    fn unchecked_gcd(self, rhs: u64) -> (r: u64) { unchecked_gcd_u64(self, rhs) }
}
impl UncheckedExtendedGcd for u64 {
    type OutputGcd = u64;
    type OutputCoeff = i64;
    open spec fn ugcd_ext_req(self, rhs: u64) -> bool { self >= rhs && rhs >= 1 }
    open spec fn ugcd_ext_post(self, rhs: u64, r: (u64, i64, i64)) -> bool { br_ext_post(self as int, rhs as int, r.0 as int, r.1 as int, r.2 as int) }
    fn unchecked_gcd_ext(self, rhs: u64) -> (r: (u64, i64, i64)) { unchecked_gcd_ext_u64(self, rhs) }
}
//@@ FN base/ring_gcd/unchecked_gcd_dbl.rs variant=u128 msubst=U:u128,I:i128,HU:u64,HI:i64
//@@ FN base/ring_gcd/unchecked_gcd_ext_dbl.rs variant=u128 msubst=U:u128,I:i128,HU:u64,HI:i64
impl UncheckedGcd for u128 {
    type Output = u128;
    open spec fn ugcd_req(self, rhs: u128) -> bool { (self as int) % 2 == 1 && (rhs as int) % 2 == 1 }
    open spec fn ugcd_post(self, rhs: u128, r: u128) -> bool { r as int == br_gcd(self as nat, rhs as nat) && r >= 1 }
    fn unchecked_gcd(self, rhs: u128) -> (r: u128) { unchecked_gcd_u128(self, rhs) }
}
impl UncheckedExtendedGcd for u128 {
    type OutputGcd = u128;
    type OutputCoeff = i128;
    open spec fn ugcd_ext_req(self, rhs: u128) -> bool { self >= rhs && rhs >= 1 }
    open spec fn ugcd_ext_post(self, rhs: u128, r: (u128, i128, i128)) -> bool { br_ext_post(self as int, rhs as int, r.0 as int, r.1 as int, r.2 as int) }
    fn unchecked_gcd_ext(self, rhs: u128) -> (r: (u128, i128, i128)) { unchecked_gcd_ext_u128(self, rhs) }
}
//@@ FN base/ring_gcd/gcd.rs variant=u64 msubst=U:u64,I:i64
//@@ FN base/ring_gcd/gcd_ext.rs variant=u64 msubst=U:u64,I:i64
pub mod inst_u128 {      // (the fn-local `const GCD_BIT_DIFF_THRESHOLD` is hoisted in front of each instance by rule D19: one module per instance)
use super::*;
//@@ FN base/ring_gcd/gcd.rs variant=u128 msubst=U:u128,I:i128
//@@ FN base/ring_gcd/gcd_ext.rs variant=u128 msubst=U:u128,I:i128
}
// ---- 32-bit instances: u32 (single width), and u64 as TWO u32 halves (`impl_unchecked_gcd_ops_prim!(u64 | i64 => u32 | i32; ..)`,
// the arm selected on targets with 32-bit pointers; on 64-bit targets u64 is the single-width instance above)
pub mod inst_u32 {
use super::*;
//@@ FN base/ring_gcd/unchecked_gcd_prim.rs variant=u32 msubst=U:u32,I:i32
//@@ FN base/ring_gcd/unchecked_gcd_ext_prim.rs variant=u32 msubst=U:u32,I:i32
impl UncheckedGcd for u32 {
    type Output = u32;
    open spec fn ugcd_req(self, rhs: u32) -> bool { (self as int) % 2 == 1 && (rhs as int) % 2 == 1 }
    open spec fn ugcd_post(self, rhs: u32, r: u32) -> bool { r as int == br_gcd(self as nat, rhs as nat) && r >= 1 }
    fn unchecked_gcd(self, rhs: u32) -> (r: u32) { unchecked_gcd_u32(self, rhs) }
}
impl UncheckedExtendedGcd for u32 {
    type OutputGcd = u32;
    type OutputCoeff = i32;
    open spec fn ugcd_ext_req(self, rhs: u32) -> bool { self >= rhs && rhs >= 1 }
    open spec fn ugcd_ext_post(self, rhs: u32, r: (u32, i32, i32)) -> bool { br_ext_post(self as int, rhs as int, r.0 as int, r.1 as int, r.2 as int) }
    fn unchecked_gcd_ext(self, rhs: u32) -> (r: (u32, i32, i32)) { unchecked_gcd_ext_u32(self, rhs) }
}
//@@ FN base/ring_gcd/gcd.rs variant=u32 msubst=U:u32,I:i32
//@@ FN base/ring_gcd/gcd_ext.rs variant=u32 msubst=U:u32,I:i32
//@@ FN base/ring_gcd/unchecked_gcd_dbl.rs variant=u64d msubst=U:u64,I:i64,HU:u32,HI:i32
//@@ FN base/ring_gcd/unchecked_gcd_ext_dbl.rs variant=u64d msubst=U:u64,I:i64,HU:u32,HI:i32
}
} // verus!
fn main() {}
