// unit int_bits: word scans of integer/src/bits.rs (mod repr) (C09, C19)
#![allow(unused_imports, unused_variables, dead_code, non_snake_case, unused_mut, unused_parens, unused_braces)]
use vstd::prelude::*;
verus! {
//@@ INCLUDE lib/prelude.rs
//@@ INCLUDE lib/shift_bv.rs
//@@ INCLUDE lib/bits_lemmas.rs
//@@ FN integer/bits/trailing_zeros_large.rs
//@@ FN integer/bits/trailing_ones_large.rs
//@@ FN integer/bits/trailing_zeros_large_shifted_by_one.rs
} // verus!
fn main() {}
