// unit ratio_fm_numord: rational/src/third_party/num_order.rs macro `impl_ord_between_ratio` -- NumOrd between RBig and
// Relaxed in both directions (num_eq, num_partial_cmp, num_cmp; num_ne / num_lt .. are the num-order crate's defaults on
// top of them) -- C14: the result is the equality / ordering of the exact values n1/d1 and n2/d2 (cross-multiplied) for
// ANY positive denominators, i.e. also for a Relaxed operand that is not in lowest terms.  Both instantiations are bound
// to the REAL invocations (rule E3c).  Below them: `PartialEq / Ord / PartialOrd for Repr` (rational/src/cmp.rs, hoisted
// because the invariant denominator > 0 is a precondition) over repr_eq / repr_cmp (SIG, proved in unit ratio_cmp).
#![allow(unused_imports, unused_variables, dead_code, non_snake_case, unused_mut, unused_parens, unused_braces)]
use vstd::prelude::*;
use vstd::arithmetic::power2::pow2;
use core::cmp::Ordering;
use core::ops::{Add, Sub, Mul, Div, Rem};
verus! {
//@@ INCLUDE lib/ratio_lemmas.rs
//@@ INCLUDE lib/bigstub.rs
impl Sign {
//@@ SIG rational/sign/base_sign_mul.rs
//@@ SIG rational/sign/base_sign_neg.rs
//@@ SIG rational/sign/base_sign_cmp.rs
}
//@@ INCLUDE lib/ratio_types.rs
//@@ INCLUDE lib/ratio2_cmp_stubs.rs
//@@ INCLUDE lib/ratio2_unique_lemmas.rs
//@@ INCLUDE lib/ratio2_cmp_lemmas.rs
//@@ SIG rational/cmp/repr_eq.rs
//@@ SIG rational/cmp/repr_cmp.rs
//@@ FN rational/fmisc/repr_partial_eq.rs
//@@ FN rational/fmisc/repr_ord_cmp.rs
//@@ INCLUDE lib/fm_ratio_glue.rs
//@@ FN rational/fmisc/repr_partial_cmp.rs
pub mod rbig_relaxed {      // impl_ord_between_ratio!(RBig, Relaxed);
use super::*;
//@@ FN rational/fmisc/between_num_eq.rs variant=RBig minvoke=0 mexpect=t1:RBig,t2:Relaxed
//@@ FN rational/fmisc/between_num_partial_cmp.rs variant=RBig minvoke=0 mexpect=t1:RBig,t2:Relaxed
//@@ FN rational/fmisc/between_num_cmp.rs variant=RBig minvoke=0 mexpect=t1:RBig,t2:Relaxed
}
pub mod relaxed_rbig {      // impl_ord_between_ratio!(Relaxed, RBig);
use super::*;
//@@ FN rational/fmisc/between_num_eq.rs variant=Relaxed minvoke=1 mexpect=t1:Relaxed,t2:RBig
//@@ FN rational/fmisc/between_num_partial_cmp.rs variant=Relaxed minvoke=1 mexpect=t1:Relaxed,t2:RBig
//@@ FN rational/fmisc/between_num_cmp.rs variant=Relaxed minvoke=1 mexpect=t1:Relaxed,t2:RBig
}
} // verus!
fn main() {}
