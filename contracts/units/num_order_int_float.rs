// unit num_order_int_float: integer/src/third_party/num_order.rs macro `impl_num_ord_ubig_with_float`, method
// `NumOrd<f32 / f64> for UBig :: num_partial_cmp` (C14), instantiated for $t = f32 and $t = f64 (rule E3b): NaN is incomparable,
// zeros, sign, infinities, the bit-length shortcuts (step 3: "more bits than any finite float", step 4) and the exact
// comparison all give the ordering of the exact real values.  Floats are seen through an abstract model (lib/gcdo_numord_stubs.rs).
#![allow(unused_imports, unused_variables, dead_code, non_snake_case, unused_mut, unused_parens, unused_braces)]
use vstd::prelude::*;
use vstd::arithmetic::power2::pow2;
use core::cmp::Ordering;
use core::ops::{Add, Sub, Mul, Div, Rem};
verus! {
global size_of usize == 8;
//@@ INCLUDE lib/ratio_lemmas.rs
//@@ INCLUDE lib/bigstub.rs
impl Sign {
//@@ SIG rational/sign/base_sign_mul.rs
//@@ SIG rational/sign/base_sign_neg.rs
//@@ SIG rational/sign/base_sign_cmp.rs
}
//@@ INCLUDE lib/ratio2_cmp_stubs.rs
//@@ INCLUDE lib/gcdo_numord_stubs.rs
pub mod ubig_f32 {
use super::*;
broadcast use {crate::bigstub::ax_ubig_of, crate::bigstub::ax_ibig_of, crate::bigstub::ax_ubig_nonneg};
//@@ FN integer/num_order/ubig_cmp_float.rs variant=f32 msubst=t:f32
}
pub mod ubig_f64 {
use super::*;
broadcast use {crate::bigstub::ax_ubig_of, crate::bigstub::ax_ibig_of, crate::bigstub::ax_ubig_nonneg};
//@@ FN integer/num_order/ubig_cmp_float.rs variant=f64 msubst=t:f64
}
} // verus!
fn main() {}
