// unit int_fmt_width: integer/src/fmt/non_power_two.rs, the `width()` methods of PreparedWord / PreparedDword /
// PreparedMedium / PreparedLarge (C07: the padding arithmetic of every formatter lays the text out around exactly this
// number).  Contract: width() == the number of digits write() emits, read off the prepared structure
// (lib/codecs_fmt_stubs.rs): for PreparedLarge the top chunk plus (digits_per_word * CHUNK_LEN) << level for the STORED
// level of every big chunk.  Trusted: the struct mirrors and radix::radix_info (lib/codecs_fmt_stubs.rs; lib/div_word_stubs.rs only supplies
// the type of a RadixInfo field).
#![allow(unused_imports, unused_variables, dead_code, non_snake_case, unused_mut, unused_parens, unused_braces)]
use vstd::prelude::*;
verus! {
//@@ INCLUDE lib/prelude.rs
//@@ INCLUDE lib/div_word_stubs.rs
//@@ INCLUDE lib/codecs_fmt_stubs.rs
//@@ INCLUDE lib/codecs_fmt_lemmas.rs
//@@ FN integer/fmt_npt/word_width.rs
//@@ FN integer/fmt_npt/dword_width.rs
//@@ FN integer/fmt_npt/medium_width.rs
//@@ FN integer/fmt_npt/large_width.rs
// D2 link: `self.top_group.width()` / `self.top_chunk.width()` in the real code resolve to the trait methods whose
// bodies ARE the hoisted functions verified above.
impl PreparedWord {
    pub fn width(&self) -> (r: usize) requires word_wf(*self) ensures r as int == word_digits(*self) { word_width(self) }
}
impl PreparedMedium {
    pub fn width(&self) -> (r: usize) requires medium_wf(*self), medium_digits(*self) <= usize::MAX
        ensures r as int == medium_digits(*self) { medium_width(self) }
}
} // verus!
fn main() {}
