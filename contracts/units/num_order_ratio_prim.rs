// unit num_order_ratio_prim: rational/src/third_party/num_order.rs macro `impl_num_ord_with_float` -- NumOrd<f32 / f64> for the
// rational Repr (behind RBig / Relaxed; C14), instantiated for $t = f32 and $t = f64 (rule E3b), and the forwarding impls:
// NaN incomparable, infinities, zeros, signs, the bit-length shortcuts (step 3, step 4: the magnitude estimate of the float MUST
// use the bit length of its mantissa -- subnormals) PROVED from exact power-of-two enclosures, and the exact comparison
// n * 2^-ex  vs  man * d * 2^ex.  Primitive floats are seen through the abstract model of lib/gcdo_numord_stubs.rs.
#![allow(unused_imports, unused_variables, dead_code, non_snake_case, unused_mut, unused_parens, unused_braces)]
use vstd::prelude::*;
use vstd::arithmetic::power2::pow2;
use core::cmp::Ordering;
use core::ops::{Add, Sub, Mul, Div, Rem};
verus! {
global size_of usize == 8;
//@@ INCLUDE lib/ratio_lemmas.rs
//@@ INCLUDE lib/bigstub.rs
impl Sign {
//@@ SIG rational/sign/base_sign_mul.rs
//@@ SIG rational/sign/base_sign_neg.rs
//@@ SIG rational/sign/base_sign_cmp.rs
}
//@@ INCLUDE lib/ratio_types.rs
//@@ INCLUDE lib/ratio2_cmp_stubs.rs
//@@ INCLUDE lib/gcdo_numord_stubs.rs
//@@ INCLUDE lib/no_ipw.rs
//@@ INCLUDE lib/no_ord_stubs.rs
//@@ INCLUDE lib/no_frac_lemmas.rs
//@@ INCLUDE lib/no_prim_stubs.rs
//@@ INCLUDE lib/no_ratio_prim_stubs.rs
//@@ INCLUDE lib/no_numord_trait.rs
pub mod repr_f32 {
use super::*;
broadcast use {crate::bigstub::ax_ubig_of, crate::bigstub::ax_ibig_of, crate::bigstub::ax_ubig_nonneg};
//@@ FN rational/numorder2/repr_cmp_prim_float.rs variant=f32 msubst=t:f32
// glue (verified one-liner): the trait impl that the RBig / Relaxed forwarding impls call by method syntax
impl NumOrd<f32> for Repr {
    open spec fn npc_req(&self, other: &f32) -> bool { self.denominator.v() >= 1 }
    open spec fn npc_spec(&self, other: &f32) -> Option<Ordering> {
        cmp_ratio_prim(self.numerator.v(), self.denominator.v(),
            f32_nan(*other), f32_inf(*other), f32_neg(*other), f32_man(*other), f32_exp(*other))
    }
    fn num_partial_cmp(&self, other: &f32) -> (r: Option<Ordering>) { repr_cmp_prim_float(self, other) }
    // default method of num-order (TRUSTED): `self.num_partial_cmp(other).unwrap()`
    #[verifier::external_body]
    fn num_cmp(&self, other: &f32) -> (r: Ordering) { unimplemented!() }
}
pub mod rbig {
use super::*;
//@@ FN rational/numorder2/fwd_r_t_cmp.rs variant=RBig msubst=R:RBig,T:f32
//@@ FN rational/numorder2/fwd_r_t_pcmp.rs variant=RBig msubst=R:RBig,T:f32
//@@ FN rational/numorder2/fwd_t_r_cmp.rs variant=f32 msubst=R:RBig,T:f32
//@@ FN rational/numorder2/fwd_t_r_pcmp.rs variant=f32 msubst=R:RBig,T:f32
}
pub mod relaxed {
use super::*;
//@@ FN rational/numorder2/fwd_r_t_cmp.rs variant=Relaxed msubst=R:Relaxed,T:f32
//@@ FN rational/numorder2/fwd_r_t_pcmp.rs variant=Relaxed msubst=R:Relaxed,T:f32
//@@ FN rational/numorder2/fwd_t_r_cmp.rs variant=f32 msubst=R:Relaxed,T:f32
//@@ FN rational/numorder2/fwd_t_r_pcmp.rs variant=f32 msubst=R:Relaxed,T:f32
}
}
pub mod repr_f64 {
use super::*;
broadcast use {crate::bigstub::ax_ubig_of, crate::bigstub::ax_ibig_of, crate::bigstub::ax_ubig_nonneg};
//@@ FN rational/numorder2/repr_cmp_prim_float.rs variant=f64 msubst=t:f64
// glue (verified one-liner): the trait impl that the RBig / Relaxed forwarding impls call by method syntax
impl NumOrd<f64> for Repr {
    open spec fn npc_req(&self, other: &f64) -> bool { self.denominator.v() >= 1 }
    open spec fn npc_spec(&self, other: &f64) -> Option<Ordering> {
        cmp_ratio_prim(self.numerator.v(), self.denominator.v(),
            f64_nan(*other), f64_inf(*other), f64_neg(*other), f64_man(*other), f64_exp(*other))
    }
    fn num_partial_cmp(&self, other: &f64) -> (r: Option<Ordering>) { repr_cmp_prim_float(self, other) }
    // default method of num-order (TRUSTED): `self.num_partial_cmp(other).unwrap()`
    #[verifier::external_body]
    fn num_cmp(&self, other: &f64) -> (r: Ordering) { unimplemented!() }
}
pub mod rbig {
use super::*;
//@@ FN rational/numorder2/fwd_r_t_cmp.rs variant=RBig msubst=R:RBig,T:f64
//@@ FN rational/numorder2/fwd_r_t_pcmp.rs variant=RBig msubst=R:RBig,T:f64
//@@ FN rational/numorder2/fwd_t_r_cmp.rs variant=f64 msubst=R:RBig,T:f64
//@@ FN rational/numorder2/fwd_t_r_pcmp.rs variant=f64 msubst=R:RBig,T:f64
}
pub mod relaxed {
use super::*;
//@@ FN rational/numorder2/fwd_r_t_cmp.rs variant=Relaxed msubst=R:Relaxed,T:f64
//@@ FN rational/numorder2/fwd_r_t_pcmp.rs variant=Relaxed msubst=R:Relaxed,T:f64
//@@ FN rational/numorder2/fwd_t_r_cmp.rs variant=f64 msubst=R:Relaxed,T:f64
//@@ FN rational/numorder2/fwd_t_r_pcmp.rs variant=f64 msubst=R:Relaxed,T:f64
}
}
} // verus!
fn main() {}
