// unit int_fmt_digits: integer/src/fmt/non_power_two.rs (C07 "the printed digits are exactly the positional
// representation of the value" for non-power-of-two radices): PreparedWord::new produces the positional digits of a
// word (padded to min_digits, no superfluous leading zero).
// Trusted: lib/codecs_fmt_stubs.rs (struct mirrors, radix_info, num_modular PreMulInv1by1::div_rem),
// lib/div_word_stubs.rs (num_modular Normalized2by1Divisor).
#![allow(unused_imports, unused_variables, dead_code, non_snake_case, unused_mut, unused_parens, unused_braces)]
use vstd::prelude::*;
verus! {
//@@ INCLUDE lib/prelude.rs
//@@ INCLUDE lib/shift_bv.rs
//@@ INCLUDE lib/div_word_stubs.rs
//@@ INCLUDE lib/codecs_fmt_stubs.rs
//@@ INCLUDE lib/codecs_digit_lemmas.rs
//@@ INCLUDE lib/codecs_writer_stub.rs
impl PreparedWord {
//@@ FN integer/fmt_npt/word_new.rs drop_asserts=0
}
//@@ FN integer/fmt_npt/word_write.rs
// D2 link: `self.top_group.write(..)` / `prepared.write(..)` in the real code resolve to the trait method whose body IS
// the hoisted function verified above.
impl PreparedWord {
    pub fn write(&mut self, digit_writer: &mut DigitWriter) -> (ret: fmt::Result)
        requires word_wf(*old(self)),
        ensures *final(self) == *old(self),
            ret is Ok ==> final(digit_writer)@ == old(digit_writer)@
                + old(self).digits@.subrange(old(self).start_index as int, radix::MAX_WORD_DIGITS_NON_POW_2 as int),
    { word_write(self, digit_writer) }
}
//@@ FN integer/fmt_npt/medium_write.rs
//@@ SIG integer/primitive/split_dword.rs
pub mod div {
use super::*;
//@@ SIG integer/div/fast_div_by_word_in_place.rs
}
//@@ FN integer/fmt_npt/repr_to_chunk_buffer.rs
impl PreparedMedium {
//@@ FN integer/fmt_npt/medium_new.rs drop_asserts=0
}
} // verus!
fn main() {}
