// unit num_order_ratio_fbig: rational/src/cmp.rs `with_float::repr_cmp_fbig` -- the function behind NumOrd / AbsOrd between
// RBig / Relaxed and FBig of any base (C14): infinities, sign cases and the EXACT comparison step (scaling by B^|exponent|,
// by a shift when B is a power of two); the f32 log2 filter in between is ASSUMED sound (lib/gcdo_cmpf_stubs.rs).
#![allow(unused_imports, unused_variables, dead_code, non_snake_case, unused_mut, unused_parens, unused_braces)]
use vstd::prelude::*;
use vstd::arithmetic::power2::pow2;
use core::cmp::Ordering;
use core::ops::{Add, Sub, Mul, Div, Rem};
verus! {
global size_of usize == 8;
//@@ INCLUDE lib/ratio_lemmas.rs
//@@ INCLUDE lib/bigstub.rs
impl Sign {
// base/src/sign.rs: proved in unit ratio_ops / ratio_reduce, here seen through their contracts
//@@ SIG rational/sign/base_sign_mul.rs
//@@ SIG rational/sign/base_sign_neg.rs
//@@ SIG rational/sign/base_sign_cmp.rs
}
//@@ INCLUDE lib/ratio_types.rs
//@@ INCLUDE lib/ratio2_cmp_stubs.rs
//@@ INCLUDE lib/gcdo_cmpf_stubs.rs
pub mod with_float {
use super::*;
broadcast use {crate::bigstub::ax_ubig_of, crate::bigstub::ax_ibig_of, crate::bigstub::ax_ubig_nonneg};
//@@ FN rational/cmpf/repr_cmp_fbig.rs
}
} // verus!
fn main() {}
