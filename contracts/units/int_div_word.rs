// unit int_div_word: integer/src/div/mod.rs single-word divisor kernels (C02, C19)
// Trusted: the num_modular::Normalized2by1Divisor stub (lib/div_word_stubs.rs), assume_specifications for
// is_power_of_two and <[T]>::split_last; vstd specifications of trailing_zeros / leading_zeros.
#![allow(unused_imports, unused_variables, dead_code, non_snake_case, unused_mut, unused_parens, unused_braces)]
use vstd::prelude::*;
use core::hint::unreachable_unchecked;
verus! {
//@@ INCLUDE lib/prelude.rs
//@@ INCLUDE lib/shift_bv.rs
//@@ INCLUDE lib/div_word_stubs.rs
//@@ INCLUDE lib/div_word_lemmas.rs
//@@ SIG integer/primitive/extend_word.rs
//@@ SIG integer/primitive/double_word.rs
//@@ FN integer/primitive/split_hi_word.rs
pub mod shift {
use super::*;
//@@ SIG integer/shift/shl_in_place.rs
//@@ SIG integer/shift/shr_in_place.rs
}
//@@ FN integer/div/fast_div_by_word_in_place.rs
//@@ FN integer/div/div_by_word_in_place.rs
//@@ FN integer/div/fast_rem_by_normalized_word.rs
//@@ FN integer/div/rem_by_word.rs
} // verus!
fn main() {}
