// unit int_im_pow_api: integer/src/pow.rs `UBig::pow`, `IBig::pow`: factor-2 removal (trailing zeros, >>, <<) and the sign
// parity around TypedReprRef::pow, whose contract is the one PROVED in unit int_pow (C01).
// Trusted: lib/repr_stubs.rs, lib/pow_api_stubs.rs (UBig/IBig accessors, trailing_zeros, >>, << on the value).
#![allow(unused_imports, unused_variables, dead_code, non_snake_case, unused_mut, unused_parens, unused_braces)]
use vstd::prelude::*;
verus! {
//@@ INCLUDE lib/prelude.rs
//@@ INCLUDE lib/sign.rs
//@@ INCLUDE lib/repr_stubs.rs
//@@ INCLUDE lib/shift_bv.rs
//@@ INCLUDE lib/dispatch_lemmas.rs
//@@ INCLUDE lib/pow_lemmas.rs
//@@ INCLUDE lib/pow_api_stubs.rs
//@@ INCLUDE lib/pow_api_lemmas.rs
//@@ INCLUDE lib/im_pow_stubs.rs
use core::ops::{Shl, Shr};
// `sign == Negative` on the mirrored enum: derived PartialEq is structural equality
impl vstd::std_specs::cmp::PartialEqSpecImpl for Sign {
    open spec fn obeys_eq_spec() -> bool { true }
    open spec fn eq_spec(&self, other: &Sign) -> bool { *self == *other }
}
pub mod pow_repr {
use super::*;
// contract proved in unit int_pow
//@@ SIG integer/pow/typedref_pow.rs
}
// D2 link: `x.pow(exp)` on a TypedReprRef is the hoisted method proved in unit int_pow
impl<'a> TypedReprRef<'a> {
    pub fn pow(self, exp: usize) -> (r: Repr)
        requires self.wf(), 2 * (self.nwords() * exp) <= max_capacity(),
        ensures r.v() == ipow(self.v(), exp as int),
    { pow_repr::typedref_pow(self, exp) }
}
//@@ FN integer/pow_api/ubig_pow.rs
//@@ FN integer/pow_api/ibig_pow.rs
} // verus!
fn main() {}
