// unit int_im_remove: integer/src/remove.rs `UBig::remove` (C12, C16): None exactly for self == 0 or factor <= 1, otherwise
// Some(e) with factor^e | old(self), factor^(e+1) not dividing old(self), new self == old(self) / factor^e; both loops
// (table of repeated squares factor^(2^i), descent through the table) terminate; the power-of-two shortcut included.
// Trusted: lib/im_remove.rs `mod im_big` (UBig seen through its value: is_zero / is_one / is_power_of_two / trailing_zeros /
// sqr / >>= / div_rem / cmp; a UBig has fewer than usize::MAX bits).
#![allow(unused_imports, unused_variables, dead_code, non_snake_case, unused_mut, unused_parens, unused_braces)]
use vstd::prelude::*;
verus! {
global size_of usize == 8;   // DESIGN.md section 6: usize is 64-bit in all proofs
//@@ INCLUDE lib/prelude.rs
//@@ INCLUDE lib/sign.rs
//@@ INCLUDE lib/repr_stubs.rs
//@@ INCLUDE lib/dispatch_lemmas.rs
//@@ INCLUDE lib/shift_bv.rs
//@@ INCLUDE lib/pow_lemmas.rs
//@@ INCLUDE lib/im_remove.rs
pub mod remove {
use super::*;
broadcast use {crate::im_big::ax_im_ubig, crate::im_big::ax_im_ubig_nonneg};
impl UBig {
//@@ FN integer/intmisc/ubig_remove.rs
}
}
} // verus!
fn main() {}
