// unit float_split: float/src/utils.rs `split_bits`, `split_bits_ref`, `split_digits`, `split_digits_ref`, `base_as_ibig`
// (C03: the alignment step of FBig addition / subtraction and every rounding cut the significand with these; the contract
// `is_trunc_divrem(value, B^pos, hi, lo)` is the one the float units ASSUME for split_digits / split_digits_ref in
// lib/round_float_repr.rs).  Trusted: lib/round_int_stubs.rs + lib/df_float_utils.rs (dashu-int seen through its values).
#![allow(unused_imports, unused_variables, dead_code, non_snake_case, unused_mut, unused_parens, unused_braces)]
use vstd::prelude::*;
verus! {
//@@ INCLUDE lib/round_prelude.rs
//@@ INCLUDE lib/round_int_stubs.rs
//@@ INCLUDE lib/round_int_addsub_stubs.rs
pub type DoubleWord = u128;
pub mod wl {
use vstd::prelude::*;
//@@ INCLUDE lib/prelude.rs
//@@ INCLUDE lib/shift_bv.rs
//@@ INCLUDE lib/div_word_stubs.rs
//@@ INCLUDE lib/div_word_lemmas.rs
}
//@@ INCLUDE lib/df_float_utils.rs
global size_of usize == 8;   // DESIGN.md section 6: usize is 64-bit in all proofs
//@@ FN float/utils2/base_as_ibig.rs
//@@ FN float/utils2/split_bits.rs
//@@ FN float/utils2/split_bits_ref.rs
//@@ FN float/utils2/split_digits_ref.rs
//@@ FN float/utils2/split_digits.rs
} // verus!
fn main() {}
