// unit int_div_sign: integer/src/div_ops.rs sign-convention macro arms (C02) over a TypedRepr stub (rule E3)
// (template generated once by a script; edit by hand from now on)
#![allow(unused_imports, unused_variables, dead_code, non_snake_case, unused_mut, unused_parens, unused_braces)]
use vstd::prelude::*;
verus! {
pub open spec fn rabs(x: int) -> int { if x >= 0 { x } else { -x } }

pub mod stub {
use super::*;
use vstd::std_specs::ops::*;
use core::ops::{Sub, Mul, Div, Rem, Neg};

// dashu_base::Sign: enum mirrored from base/src/sign.rs (trusted to match); the operator bodies are the REAL
// functions, extracted below as inherent methods Sign::{mul, neg} which the trait impls forward to.
#[derive(Clone, Copy, PartialEq, Eq)]
pub enum Sign { Positive, Negative }
pub use Sign::*;
pub open spec fn sign_mul(a: Sign, b: Sign) -> Sign { if a == b { Sign::Positive } else { Sign::Negative } }
pub open spec fn sign_neg(a: Sign) -> Sign { match a { Sign::Positive => Sign::Negative, Sign::Negative => Sign::Positive } }
// signed value of a sign-magnitude pair
pub open spec fn sv(s: Sign, m: int) -> int { match s { Sign::Positive => m, Sign::Negative => -m } }
impl NegSpecImpl for Sign {
    open spec fn obeys_neg_spec() -> bool { true }
    open spec fn neg_req(self) -> bool { true }
    open spec fn neg_spec(self) -> Sign { sign_neg(self) }
}
impl Neg for Sign { type Output = Sign;
    fn neg(self) -> Sign { Sign::neg(self) }
}
impl MulSpecImpl<Sign> for Sign {
    open spec fn obeys_mul_spec() -> bool { true }
    open spec fn mul_req(self, rhs: Sign) -> bool { true }
    open spec fn mul_spec(self, rhs: Sign) -> Sign { sign_mul(self, rhs) }
}
impl Mul<Sign> for Sign { type Output = Sign;
    fn mul(self, rhs: Sign) -> Sign { Sign::mul(self, rhs) }
}

// ---- integer/src/repr.rs: Repr (signed), TypedRepr / TypedReprRef (unsigned magnitude); abstract, value = v()
#[verifier::external_body]
pub struct Repr { _p: u8 }
#[verifier::external_body]
pub struct TypedRepr { _p: u8 }
#[verifier::external_body]
#[derive(Clone, Copy)]
pub struct TypedReprRef<'a> { _p: &'a u8 }
impl Repr { pub uninterp spec fn v(&self) -> int; }
impl TypedRepr { pub uninterp spec fn v(&self) -> int; }
impl<'a> TypedReprRef<'a> { pub uninterp spec fn v(&self) -> int; }
pub uninterp spec fn repr_of(i: int) -> Repr;
// TRUSTED: every integer is the value of some Repr; magnitudes are never negative
#[verifier::external_body]
pub broadcast proof fn ax_repr_of(i: int) ensures #[trigger] repr_of(i).v() == i {}
#[verifier::external_body]
pub broadcast proof fn ax_typed_nonneg(t: TypedRepr) ensures #[trigger] t.v() >= 0 {}
#[verifier::external_body]
pub broadcast proof fn ax_typedref_nonneg(t: TypedReprRef) ensures #[trigger] t.v() >= 0 {}

impl Repr {
    // TRUSTED (integer/src/repr.rs)
    #[verifier::external_body]
    pub fn is_zero(&self) -> (r: bool) ensures r == (self.v() == 0) { unimplemented!() }
    // "Set the sign flag ... The sign will not be flipped if self is zero": magnitude kept, sign replaced
    #[verifier::external_body]
    pub fn with_sign(self, sign: Sign) -> (r: Repr) ensures r.v() == sv(sign, rabs(self.v())) { unimplemented!() }
    // into_typed debug-asserts a positive capacity, i.e. a non-negative value
    #[verifier::external_body]
    pub fn into_typed(self) -> (r: TypedRepr) requires self.v() >= 0 ensures r.v() == self.v() { unimplemented!() }
}
impl TypedRepr {
    #[verifier::external_body]
    pub fn as_ref(&self) -> (r: TypedReprRef<'_>) ensures r.v() == self.v() { unimplemented!() }
    // TRUSTED (integer/src/add_ops.rs repr::add_one)
    #[verifier::external_body]
    pub fn add_one(self) -> (r: Repr) ensures r.v() == self.v() + 1 { unimplemented!() }
}
impl<'a> TypedReprRef<'a> {
    #[verifier::external_body]
    pub fn as_ref(&self) -> (r: TypedReprRef<'_>) ensures r.v() == self.v() { unimplemented!() }
}

// crate::ops::DivRem (trait mirrored).  TRUSTED (integer/src/div_ops.rs mod repr): the UNSIGNED contract
// a == q*b + r, 0 <= r < b for b != 0; a zero divisor panics (div_rem_req)
pub trait DivRem<Rhs = Self> {
    type OutputDiv;
    type OutputRem;
    spec fn div_rem_req(self, rhs: Rhs) -> bool;
    spec fn div_rem_post(self, rhs: Rhs, q: Self::OutputDiv, r: Self::OutputRem) -> bool;
    fn div_rem(self, rhs: Rhs) -> (qr: (Self::OutputDiv, Self::OutputRem))
        requires self.div_rem_req(rhs) ensures self.div_rem_post(rhs, qr.0, qr.1);
}

impl DivRem<TypedRepr> for TypedRepr {
    type OutputDiv = Repr;
    type OutputRem = Repr;
    open spec fn div_rem_req(self, rhs: TypedRepr) -> bool { rhs.v() != 0 }
    open spec fn div_rem_post(self, rhs: TypedRepr, q: Repr, r: Repr) -> bool {
        self.v() == q.v() * rhs.v() + r.v() && 0 <= r.v() < rhs.v() && q.v() >= 0
    }
    #[verifier::external_body]
    fn div_rem(self, rhs: TypedRepr) -> (qr: (Repr, Repr)) { unimplemented!() }
}
impl<'b> DivRem<TypedReprRef<'b>> for TypedRepr {
    type OutputDiv = Repr;
    type OutputRem = Repr;
    open spec fn div_rem_req(self, rhs: TypedReprRef<'b>) -> bool { rhs.v() != 0 }
    open spec fn div_rem_post(self, rhs: TypedReprRef<'b>, q: Repr, r: Repr) -> bool {
        self.v() == q.v() * rhs.v() + r.v() && 0 <= r.v() < rhs.v() && q.v() >= 0
    }
    #[verifier::external_body]
    fn div_rem(self, rhs: TypedReprRef<'b>) -> (qr: (Repr, Repr)) { unimplemented!() }
}
impl<'a> DivRem<TypedRepr> for TypedReprRef<'a> {
    type OutputDiv = Repr;
    type OutputRem = Repr;
    open spec fn div_rem_req(self, rhs: TypedRepr) -> bool { rhs.v() != 0 }
    open spec fn div_rem_post(self, rhs: TypedRepr, q: Repr, r: Repr) -> bool {
        self.v() == q.v() * rhs.v() + r.v() && 0 <= r.v() < rhs.v() && q.v() >= 0
    }
    #[verifier::external_body]
    fn div_rem(self, rhs: TypedRepr) -> (qr: (Repr, Repr)) { unimplemented!() }
}
impl<'a, 'b> DivRem<TypedReprRef<'b>> for TypedReprRef<'a> {
    type OutputDiv = Repr;
    type OutputRem = Repr;
    open spec fn div_rem_req(self, rhs: TypedReprRef<'b>) -> bool { rhs.v() != 0 }
    open spec fn div_rem_post(self, rhs: TypedReprRef<'b>, q: Repr, r: Repr) -> bool {
        self.v() == q.v() * rhs.v() + r.v() && 0 <= r.v() < rhs.v() && q.v() >= 0
    }
    #[verifier::external_body]
    fn div_rem(self, rhs: TypedReprRef<'b>) -> (qr: (Repr, Repr)) { unimplemented!() }
}
// `/` and `%` on magnitudes: floor quotient and remainder (Verus `/` `%` on non-negative ints); zero divisor panics
impl DivSpecImpl<TypedRepr> for TypedRepr {
    open spec fn obeys_div_spec() -> bool { true }
    open spec fn div_req(self, rhs: TypedRepr) -> bool { rhs.v() != 0 }
    open spec fn div_spec(self, rhs: TypedRepr) -> Repr { repr_of(self.v() / rhs.v()) }
}
impl Div<TypedRepr> for TypedRepr { type Output = Repr;
    #[verifier::external_body]
    fn div(self, rhs: TypedRepr) -> Repr { unimplemented!() }
}
impl<'b> DivSpecImpl<TypedReprRef<'b>> for TypedRepr {
    open spec fn obeys_div_spec() -> bool { true }
    open spec fn div_req(self, rhs: TypedReprRef<'b>) -> bool { rhs.v() != 0 }
    open spec fn div_spec(self, rhs: TypedReprRef<'b>) -> Repr { repr_of(self.v() / rhs.v()) }
}
impl<'b> Div<TypedReprRef<'b>> for TypedRepr { type Output = Repr;
    #[verifier::external_body]
    fn div(self, rhs: TypedReprRef<'b>) -> Repr { unimplemented!() }
}
impl<'a> DivSpecImpl<TypedRepr> for TypedReprRef<'a> {
    open spec fn obeys_div_spec() -> bool { true }
    open spec fn div_req(self, rhs: TypedRepr) -> bool { rhs.v() != 0 }
    open spec fn div_spec(self, rhs: TypedRepr) -> Repr { repr_of(self.v() / rhs.v()) }
}
impl<'a> Div<TypedRepr> for TypedReprRef<'a> { type Output = Repr;
    #[verifier::external_body]
    fn div(self, rhs: TypedRepr) -> Repr { unimplemented!() }
}
impl<'a, 'b> DivSpecImpl<TypedReprRef<'b>> for TypedReprRef<'a> {
    open spec fn obeys_div_spec() -> bool { true }
    open spec fn div_req(self, rhs: TypedReprRef<'b>) -> bool { rhs.v() != 0 }
    open spec fn div_spec(self, rhs: TypedReprRef<'b>) -> Repr { repr_of(self.v() / rhs.v()) }
}
impl<'a, 'b> Div<TypedReprRef<'b>> for TypedReprRef<'a> { type Output = Repr;
    #[verifier::external_body]
    fn div(self, rhs: TypedReprRef<'b>) -> Repr { unimplemented!() }
}
impl RemSpecImpl<TypedRepr> for TypedRepr {
    open spec fn obeys_rem_spec() -> bool { true }
    open spec fn rem_req(self, rhs: TypedRepr) -> bool { rhs.v() != 0 }
    open spec fn rem_spec(self, rhs: TypedRepr) -> Repr { repr_of(self.v() % rhs.v()) }
}
impl Rem<TypedRepr> for TypedRepr { type Output = Repr;
    #[verifier::external_body]
    fn rem(self, rhs: TypedRepr) -> Repr { unimplemented!() }
}
impl<'b> RemSpecImpl<TypedReprRef<'b>> for TypedRepr {
    open spec fn obeys_rem_spec() -> bool { true }
    open spec fn rem_req(self, rhs: TypedReprRef<'b>) -> bool { rhs.v() != 0 }
    open spec fn rem_spec(self, rhs: TypedReprRef<'b>) -> Repr { repr_of(self.v() % rhs.v()) }
}
impl<'b> Rem<TypedReprRef<'b>> for TypedRepr { type Output = Repr;
    #[verifier::external_body]
    fn rem(self, rhs: TypedReprRef<'b>) -> Repr { unimplemented!() }
}
impl<'a> RemSpecImpl<TypedRepr> for TypedReprRef<'a> {
    open spec fn obeys_rem_spec() -> bool { true }
    open spec fn rem_req(self, rhs: TypedRepr) -> bool { rhs.v() != 0 }
    open spec fn rem_spec(self, rhs: TypedRepr) -> Repr { repr_of(self.v() % rhs.v()) }
}
impl<'a> Rem<TypedRepr> for TypedReprRef<'a> { type Output = Repr;
    #[verifier::external_body]
    fn rem(self, rhs: TypedRepr) -> Repr { unimplemented!() }
}
impl<'a, 'b> RemSpecImpl<TypedReprRef<'b>> for TypedReprRef<'a> {
    open spec fn obeys_rem_spec() -> bool { true }
    open spec fn rem_req(self, rhs: TypedReprRef<'b>) -> bool { rhs.v() != 0 }
    open spec fn rem_spec(self, rhs: TypedReprRef<'b>) -> Repr { repr_of(self.v() % rhs.v()) }
}
impl<'a, 'b> Rem<TypedReprRef<'b>> for TypedReprRef<'a> { type Output = Repr;
    #[verifier::external_body]
    fn rem(self, rhs: TypedReprRef<'b>) -> Repr { unimplemented!() }
}
// unsigned subtraction (integer/src/add_ops.rs mod repr): panics if the result would be negative (sub_req)
impl SubSpecImpl<TypedRepr> for TypedRepr {
    open spec fn obeys_sub_spec() -> bool { true }
    open spec fn sub_req(self, rhs: TypedRepr) -> bool { self.v() >= rhs.v() }
    open spec fn sub_spec(self, rhs: TypedRepr) -> Repr { repr_of(self.v() - rhs.v()) }
}
impl Sub<TypedRepr> for TypedRepr { type Output = Repr;
    #[verifier::external_body]
    fn sub(self, rhs: TypedRepr) -> Repr { unimplemented!() }
}
impl<'a> SubSpecImpl<TypedRepr> for TypedReprRef<'a> {
    open spec fn obeys_sub_spec() -> bool { true }
    open spec fn sub_req(self, rhs: TypedRepr) -> bool { self.v() >= rhs.v() }
    open spec fn sub_spec(self, rhs: TypedRepr) -> Repr { repr_of(self.v() - rhs.v()) }
}
impl<'a> Sub<TypedRepr> for TypedReprRef<'a> { type Output = Repr;
    #[verifier::external_body]
    fn sub(self, rhs: TypedRepr) -> Repr { unimplemented!() }
}

// integer/src/{ubig,ibig}.rs: `pub struct UBig(pub(crate) Repr)`, `pub struct IBig(pub(crate) Repr)` (mirrored)
pub struct UBig(pub Repr);
pub struct IBig(pub Repr);
} // mod stub
pub use stub::*;
impl Sign {
//@@ FN rational/sign/base_sign_mul.rs
//@@ FN rational/sign/base_sign_neg.rs
}
broadcast use {stub::ax_repr_of, stub::ax_typed_nonneg, stub::ax_typedref_nonneg};

// ---- the property's own sentences (C02), in signed mathematical integers ----
// truncation toward zero: a == q*b + r, |r| < |b|, r == 0 or r has the sign of a
pub open spec fn trunc_ok(a: int, b: int, q: int, r: int) -> bool {
    a == q * b + r && rabs(r) < rabs(b) && (r == 0 || (r > 0 && a > 0) || (r < 0 && a < 0))
}
// Euclidean: a == q*b + r, 0 <= r < |b|
pub open spec fn euclid_ok(a: int, b: int, q: int, r: int) -> bool {
    a == q * b + r && 0 <= r < rabs(b)
}

pub proof fn lemma_trunc(s0: Sign, s1: Sign, a0: int, b0: int, q0: int, r0: int)
    requires a0 == q0 * b0 + r0, 0 <= r0 < b0, q0 >= 0
    ensures trunc_ok(sv(s0, a0), sv(s1, b0), sv(sign_mul(s0, s1), q0), sv(s0, r0))
{
    let a = sv(s0, a0); let b = sv(s1, b0); let q = sv(sign_mul(s0, s1), q0); let r = sv(s0, r0);
    assert(a0 >= r0) by (nonlinear_arith) requires a0 == q0 * b0 + r0, q0 >= 0, b0 > 0;
    assert(a == q * b + r) by (nonlinear_arith)
        requires a0 == q0 * b0 + r0,
            (a == a0 && r == r0 && ((q == q0 && b == b0) || (q == -q0 && b == -b0)))
            || (a == -a0 && r == -r0 && ((q == -q0 && b == b0) || (q == q0 && b == -b0)));
}

// floor quotient/remainder of non-negative ints satisfy the unsigned contract
pub proof fn lemma_divmod(a0: int, b0: int)
    requires a0 >= 0, b0 > 0
    ensures a0 == (a0 / b0) * b0 + a0 % b0, 0 <= a0 % b0 < b0, a0 / b0 >= 0
{
    vstd::arithmetic::div_mod::lemma_fundamental_div_mod(a0, b0);
    vstd::arithmetic::div_mod::lemma_mod_bound(a0, b0);
    vstd::arithmetic::div_mod::lemma_div_pos_is_pos(a0, b0);
    let q = a0 / b0;
    assert(b0 * q == q * b0) by (nonlinear_arith);
}

// Euclidean fix-up: for a negative dividend with non-zero remainder, quotient magnitude + 1 and b0 - r0
pub proof fn lemma_euclid(s0: Sign, s1: Sign, a0: int, b0: int, q0: int, r0: int)
    requires a0 == q0 * b0 + r0, 0 <= r0 < b0, q0 >= 0
    ensures
        s0 == Sign::Positive ==> euclid_ok(sv(s0, a0), sv(s1, b0), sv(s1, q0), r0),
        s0 == Sign::Negative && r0 == 0 ==> euclid_ok(sv(s0, a0), sv(s1, b0), sv(sign_neg(s1), q0), 0),
        s0 == Sign::Negative && r0 != 0 ==> euclid_ok(sv(s0, a0), sv(s1, b0), sv(sign_neg(s1), q0 + 1), b0 - r0),
{
    let a = sv(s0, a0); let b = sv(s1, b0);
    if s0 == Sign::Positive {
        let q = sv(s1, q0);
        assert(a == q * b + r0) by (nonlinear_arith)
            requires a == q0 * b0 + r0, (q == q0 && b == b0) || (q == -q0 && b == -b0);
    } else if r0 == 0 {
        let q = sv(sign_neg(s1), q0);
        assert(a == q * b + 0) by (nonlinear_arith)
            requires a == -(q0 * b0), (q == -q0 && b == b0) || (q == q0 && b == -b0);
    } else {
        let q = sv(sign_neg(s1), q0 + 1);
        assert(a == q * b + (b0 - r0)) by (nonlinear_arith)
            requires a == -(q0 * b0 + r0), (q == -(q0 + 1) && b == b0) || (q == q0 + 1 && b == -b0);
    }
}

// ---- the macro arms, each instantiated for the four (owned | borrowed) magnitude combinations the
//      forwarding macros of integer/src/helper_macros.rs supply (into_sign_repr / as_sign_repr)
//@@ WRAP ibig_div_vv fn ibig_div_vv(sign0: Sign, mag0: TypedRepr, sign1: Sign, mag1: TypedRepr) -> IBig
//@@ FN integer/div_ops/ibig_div.rs wrap=ibig_div_vv
//@@ WRAP ibig_div_vr fn ibig_div_vr(sign0: Sign, mag0: TypedRepr, sign1: Sign, mag1: TypedReprRef) -> IBig
//@@ FN integer/div_ops/ibig_div.rs wrap=ibig_div_vr
//@@ WRAP ibig_div_rv fn ibig_div_rv(sign0: Sign, mag0: TypedReprRef, sign1: Sign, mag1: TypedRepr) -> IBig
//@@ FN integer/div_ops/ibig_div.rs wrap=ibig_div_rv
//@@ WRAP ibig_div_rr fn ibig_div_rr(sign0: Sign, mag0: TypedReprRef, sign1: Sign, mag1: TypedReprRef) -> IBig
//@@ FN integer/div_ops/ibig_div.rs wrap=ibig_div_rr
//@@ WRAP ibig_rem_vv fn ibig_rem_vv(sign0: Sign, mag0: TypedRepr, sign1: Sign, mag1: TypedRepr) -> IBig
//@@ FN integer/div_ops/ibig_rem.rs wrap=ibig_rem_vv
//@@ WRAP ibig_rem_vr fn ibig_rem_vr(sign0: Sign, mag0: TypedRepr, sign1: Sign, mag1: TypedReprRef) -> IBig
//@@ FN integer/div_ops/ibig_rem.rs wrap=ibig_rem_vr
//@@ WRAP ibig_rem_rv fn ibig_rem_rv(sign0: Sign, mag0: TypedReprRef, sign1: Sign, mag1: TypedRepr) -> IBig
//@@ FN integer/div_ops/ibig_rem.rs wrap=ibig_rem_rv
//@@ WRAP ibig_rem_rr fn ibig_rem_rr(sign0: Sign, mag0: TypedReprRef, sign1: Sign, mag1: TypedReprRef) -> IBig
//@@ FN integer/div_ops/ibig_rem.rs wrap=ibig_rem_rr
//@@ WRAP ibig_divrem_vv fn ibig_divrem_vv(sign0: Sign, mag0: TypedRepr, sign1: Sign, mag1: TypedRepr) -> (IBig, IBig)
//@@ FN integer/div_ops/ibig_divrem.rs wrap=ibig_divrem_vv
//@@ WRAP ibig_divrem_vr fn ibig_divrem_vr(sign0: Sign, mag0: TypedRepr, sign1: Sign, mag1: TypedReprRef) -> (IBig, IBig)
//@@ FN integer/div_ops/ibig_divrem.rs wrap=ibig_divrem_vr
//@@ WRAP ibig_divrem_rv fn ibig_divrem_rv(sign0: Sign, mag0: TypedReprRef, sign1: Sign, mag1: TypedRepr) -> (IBig, IBig)
//@@ FN integer/div_ops/ibig_divrem.rs wrap=ibig_divrem_rv
//@@ WRAP ibig_divrem_rr fn ibig_divrem_rr(sign0: Sign, mag0: TypedReprRef, sign1: Sign, mag1: TypedReprRef) -> (IBig, IBig)
//@@ FN integer/div_ops/ibig_divrem.rs wrap=ibig_divrem_rr
//@@ WRAP ibig_div_euclid_vv fn ibig_div_euclid_vv(sign0: Sign, mag0: TypedRepr, sign1: Sign, mag1: TypedRepr) -> IBig
//@@ FN integer/div_ops/ibig_div_euclid.rs wrap=ibig_div_euclid_vv
//@@ WRAP ibig_div_euclid_vr fn ibig_div_euclid_vr(sign0: Sign, mag0: TypedRepr, sign1: Sign, mag1: TypedReprRef) -> IBig
//@@ FN integer/div_ops/ibig_div_euclid.rs wrap=ibig_div_euclid_vr
//@@ WRAP ibig_div_euclid_rv fn ibig_div_euclid_rv(sign0: Sign, mag0: TypedReprRef, sign1: Sign, mag1: TypedRepr) -> IBig
//@@ FN integer/div_ops/ibig_div_euclid.rs wrap=ibig_div_euclid_rv
//@@ WRAP ibig_div_euclid_rr fn ibig_div_euclid_rr(sign0: Sign, mag0: TypedReprRef, sign1: Sign, mag1: TypedReprRef) -> IBig
//@@ FN integer/div_ops/ibig_div_euclid.rs wrap=ibig_div_euclid_rr
//@@ WRAP ibig_rem_euclid_vv fn ibig_rem_euclid_vv(sign0: Sign, mag0: TypedRepr, sign1: Sign, mag1: TypedRepr) -> UBig
//@@ FN integer/div_ops/ibig_rem_euclid.rs wrap=ibig_rem_euclid_vv
//@@ WRAP ibig_rem_euclid_vr fn ibig_rem_euclid_vr(sign0: Sign, mag0: TypedRepr, sign1: Sign, mag1: TypedReprRef) -> UBig
//@@ FN integer/div_ops/ibig_rem_euclid.rs wrap=ibig_rem_euclid_vr
//@@ WRAP ibig_rem_euclid_rv fn ibig_rem_euclid_rv(sign0: Sign, mag0: TypedReprRef, sign1: Sign, mag1: TypedRepr) -> UBig
//@@ FN integer/div_ops/ibig_rem_euclid.rs wrap=ibig_rem_euclid_rv
//@@ WRAP ibig_rem_euclid_rr fn ibig_rem_euclid_rr(sign0: Sign, mag0: TypedReprRef, sign1: Sign, mag1: TypedReprRef) -> UBig
//@@ FN integer/div_ops/ibig_rem_euclid.rs wrap=ibig_rem_euclid_rr
//@@ WRAP ibig_divrem_euclid_vv fn ibig_divrem_euclid_vv(sign0: Sign, mag0: TypedRepr, sign1: Sign, mag1: TypedRepr) -> (IBig, UBig)
//@@ FN integer/div_ops/ibig_divrem_euclid.rs wrap=ibig_divrem_euclid_vv
//@@ WRAP ibig_divrem_euclid_vr fn ibig_divrem_euclid_vr(sign0: Sign, mag0: TypedRepr, sign1: Sign, mag1: TypedReprRef) -> (IBig, UBig)
//@@ FN integer/div_ops/ibig_divrem_euclid.rs wrap=ibig_divrem_euclid_vr
//@@ WRAP ibig_divrem_euclid_rv fn ibig_divrem_euclid_rv(sign0: Sign, mag0: TypedReprRef, sign1: Sign, mag1: TypedRepr) -> (IBig, UBig)
//@@ FN integer/div_ops/ibig_divrem_euclid.rs wrap=ibig_divrem_euclid_rv
//@@ WRAP ibig_divrem_euclid_rr fn ibig_divrem_euclid_rr(sign0: Sign, mag0: TypedReprRef, sign1: Sign, mag1: TypedReprRef) -> (IBig, UBig)
//@@ FN integer/div_ops/ibig_divrem_euclid.rs wrap=ibig_divrem_euclid_rr
//@@ WRAP ubig_ibig_rem_vv fn ubig_ibig_rem_vv(sign0: Sign, mag0: TypedRepr, sign1: Sign, mag1: TypedRepr) -> UBig
//@@ FN integer/div_ops/ubig_ibig_rem.rs wrap=ubig_ibig_rem_vv
//@@ WRAP ubig_ibig_rem_vr fn ubig_ibig_rem_vr(sign0: Sign, mag0: TypedRepr, sign1: Sign, mag1: TypedReprRef) -> UBig
//@@ FN integer/div_ops/ubig_ibig_rem.rs wrap=ubig_ibig_rem_vr
//@@ WRAP ubig_ibig_rem_rv fn ubig_ibig_rem_rv(sign0: Sign, mag0: TypedReprRef, sign1: Sign, mag1: TypedRepr) -> UBig
//@@ FN integer/div_ops/ubig_ibig_rem.rs wrap=ubig_ibig_rem_rv
//@@ WRAP ubig_ibig_rem_rr fn ubig_ibig_rem_rr(sign0: Sign, mag0: TypedReprRef, sign1: Sign, mag1: TypedReprRef) -> UBig
//@@ FN integer/div_ops/ubig_ibig_rem.rs wrap=ubig_ibig_rem_rr
//@@ WRAP ubig_ibig_divrem_vv fn ubig_ibig_divrem_vv(sign0: Sign, mag0: TypedRepr, sign1: Sign, mag1: TypedRepr) -> (IBig, UBig)
//@@ FN integer/div_ops/ubig_ibig_divrem.rs wrap=ubig_ibig_divrem_vv
//@@ WRAP ubig_ibig_divrem_vr fn ubig_ibig_divrem_vr(sign0: Sign, mag0: TypedRepr, sign1: Sign, mag1: TypedReprRef) -> (IBig, UBig)
//@@ FN integer/div_ops/ubig_ibig_divrem.rs wrap=ubig_ibig_divrem_vr
//@@ WRAP ubig_ibig_divrem_rv fn ubig_ibig_divrem_rv(sign0: Sign, mag0: TypedReprRef, sign1: Sign, mag1: TypedRepr) -> (IBig, UBig)
//@@ FN integer/div_ops/ubig_ibig_divrem.rs wrap=ubig_ibig_divrem_rv
//@@ WRAP ubig_ibig_divrem_rr fn ubig_ibig_divrem_rr(sign0: Sign, mag0: TypedReprRef, sign1: Sign, mag1: TypedReprRef) -> (IBig, UBig)
//@@ FN integer/div_ops/ubig_ibig_divrem.rs wrap=ubig_ibig_divrem_rr
//@@ WRAP ubig_divrem_vv fn ubig_divrem_vv(repr0: TypedRepr, repr1: TypedRepr) -> (UBig, UBig)
//@@ FN integer/div_ops/ubig_divrem.rs wrap=ubig_divrem_vv
//@@ WRAP ubig_divrem_vr fn ubig_divrem_vr(repr0: TypedRepr, repr1: TypedReprRef) -> (UBig, UBig)
//@@ FN integer/div_ops/ubig_divrem.rs wrap=ubig_divrem_vr
//@@ WRAP ubig_divrem_rv fn ubig_divrem_rv(repr0: TypedReprRef, repr1: TypedRepr) -> (UBig, UBig)
//@@ FN integer/div_ops/ubig_divrem.rs wrap=ubig_divrem_rv
//@@ WRAP ubig_divrem_rr fn ubig_divrem_rr(repr0: TypedReprRef, repr1: TypedReprRef) -> (UBig, UBig)
//@@ FN integer/div_ops/ubig_divrem.rs wrap=ubig_divrem_rr
} // verus!
fn main() {}
