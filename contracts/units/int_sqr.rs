// unit int_sqr: integer/src/sqr/mod.rs `sqr` (dispatch: simple squaring <= 30 words, else the multiplication dispatcher)
// and integer/src/sqr/simple.rs `square` (diagonal trick) (C01, C16): val(b') == val(a)^2.
// mul::add_signed_mul_same_len through its contract (//@@ SIG, PROVED in int_mul_dispatch); word kernels through the
// contracts proved in int_mul / int_prim / int_add.
// Trusted: lib/mulalg_stubs.rs (Memory only passed along), lib/dword_core_specs.rs (DoubleWord::overflowing_add),
// lib/mulalg_sqr_stubs.rs (<[T]>::first / first_mut / last_mut), MAX_LEN_SIMPLE mirrored.
#![allow(unused_imports, unused_variables, dead_code, non_snake_case, unused_mut, unused_parens, unused_braces)]
use vstd::prelude::*;
verus! {
//@@ INCLUDE lib/prelude.rs
//@@ INCLUDE lib/sign.rs
//@@ INCLUDE lib/dword_core_specs.rs
//@@ INCLUDE lib/mul_lemmas.rs
//@@ INCLUDE lib/mulalg_stubs.rs
//@@ INCLUDE lib/mulalg_core_lemmas.rs
//@@ INCLUDE lib/mulalg_lemmas.rs
//@@ INCLUDE lib/mulalg_sqr_stubs.rs
//@@ INCLUDE lib/mulalg_sqr_lemmas.rs
pub mod primitive {
use super::*;
//@@ SIG integer/primitive/double_word.rs
//@@ SIG integer/primitive/split_dword.rs
}
pub mod math {
use super::*;
//@@ SIG integer/math/mul_add_2carry.rs
}
pub mod arch { pub mod add {
use super::super::*;
//@@ SIG integer/arch/add_with_carry.rs
} }
pub mod mul {
use super::*;
//@@ SIG integer/mul/add_mul_word_same_len_in_place.rs
//@@ SIG integer/mul_algos/add_signed_mul_same_len.rs
}
pub mod sqr {
use super::*;
/// integer/src/sqr/mod.rs:15 (mirrored)
pub const MAX_LEN_SIMPLE: usize = 30;
// debug assertion #2 `b.iter().all(|&v| v == 0)` is not spec-expressible: it is the `forall` of the precondition
//@@ FN integer/mul_algos/sqr.rs drop_asserts=2
pub mod simple {
use super::super::*;
use super::super::math::mul_add_2carry;
use super::super::primitive::{double_word, split_dword};
//@@ FN integer/mul_algos/square.rs
}
}
} // verus!
fn main() {}
