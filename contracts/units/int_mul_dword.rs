// unit int_mul_dword: integer/src/mul/mod.rs `mul_dword_in_place` (C01, C16): words *= rhs for a double-word multiplier,
// two-word carry out: val(words') + ret*B^n == val(words)*rhs.  The `chunks_exact_mut(2)` iteration + `into_remainder()`
// is lowered by rules D1d / D1c.  Scalar kernels through the contracts proved in int_mul / int_prim.
#![allow(unused_imports, unused_variables, dead_code, non_snake_case, unused_mut, unused_parens, unused_braces)]
use vstd::prelude::*;
verus! {
//@@ INCLUDE lib/prelude.rs
//@@ INCLUDE lib/mulalg_dword_lemmas.rs
//@@ SIG integer/primitive/double_word.rs
//@@ SIG integer/primitive/split_dword.rs
pub mod math {
use super::*;
//@@ SIG integer/math/mul_add_carry.rs
//@@ SIG integer/math/mul_add_2carry.rs
//@@ SIG integer/math/mul_add_carry_dword.rs
}
pub mod mul {
use super::*;
//@@ FN integer/mul_algos/mul_dword_in_place.rs
}
} // verus!
fn main() {}
