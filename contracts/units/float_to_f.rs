// unit float_to_f: float/src/convert.rs `Repr::{into_f32_internal, into_f64_internal}` (C06: a base-2 float with at
// most 24 / 53 significant bits -> f32 / f64 is the correctly rounded value with a truthful flag; overflow / underflow
// thresholds), with the small real helpers `Repr::{sign, is_infinite}`.  `encode` is seen through the contract that the
// Kani group base_bit proves for it.
#![allow(unused_imports, unused_variables, dead_code, non_snake_case, unused_mut, unused_parens, unused_braces)]
use vstd::prelude::*;
verus! {
//@@ INCLUDE lib/round_prelude.rs
//@@ INCLUDE lib/round_int_stubs.rs
pub trait Round: Copy {
    /// ghost: which of the six mode definitions the implementing type stands for
    spec fn md() -> Mode;
}
//@@ INCLUDE lib/round_float_repr.rs
//@@ INCLUDE lib/conv_float.rs
//@@ INCLUDE lib/conv_float_int.rs
//@@ INCLUDE lib/conv_enc.rs
//@@ INCLUDE lib/conv_sign_float.rs
//@@ INCLUDE lib/conv_float_stubs.rs
impl<const B: Word> Repr<B> {
//@@ FN float/repr/is_infinite.rs
//@@ FN float/convert/repr_sign.rs
//@@ FN float/convert/into_f32_internal.rs drop_asserts=0
//@@ FN float/convert/into_f64_internal.rs drop_asserts=0
}
} // verus!
fn main() {}
