// unit ratio_simplest: rational/src/simplify.rs `Repr::simplest_in` (continued fractions of both end points) and
// `RBig::simplest_in` (C18): strict membership AND optimality (minimal denominator, minimal numerator magnitude).
#![allow(unused_imports, unused_variables, dead_code, non_snake_case, unused_mut, unused_parens, unused_braces)]
use vstd::prelude::*;
use vstd::arithmetic::power2::pow2;
use core::cmp::Ordering;
use core::mem;
use core::ops::{Add, Sub, Mul, Div, Rem};
verus! {
// (own module: verified in its own solver context, independent of what else the unit contains)
pub mod ratio_lemmas_m { use super::*;
//@@ INCLUDE lib/ratio_lemmas.rs
}
pub use ratio_lemmas_m::*;
//@@ INCLUDE lib/bigstub.rs
impl Sign {
// base/src/sign.rs: proved in unit ratio_ops / ratio_reduce, here seen through their contracts
//@@ SIG rational/sign/base_sign_mul.rs
//@@ SIG rational/sign/base_sign_neg.rs
//@@ SIG rational/sign/base_sign_cmp.rs
}
//@@ INCLUDE lib/ratio_types.rs
//@@ INCLUDE lib/ratio2_stubs.rs
//@@ INCLUDE lib/ratio2_cmp_stubs.rs
pub mod ratio2_unique_lemmas_m { use super::*;
//@@ INCLUDE lib/ratio2_unique_lemmas.rs
}
pub use ratio2_unique_lemmas_m::*;
pub mod ratio2_lemmas_m { use super::*;
//@@ INCLUDE lib/ratio2_lemmas.rs
}
pub use ratio2_lemmas_m::*;
//@@ INCLUDE lib/farey_stubs.rs
pub mod farey_lemmas_m { use super::*;
//@@ INCLUDE lib/farey_lemmas.rs
}
pub use farey_lemmas_m::*;
//@@ INCLUDE lib/simplest_stubs.rs
pub mod simplest_lemmas_m { use super::*;
//@@ INCLUDE lib/simplest_lemmas.rs
}
pub use simplest_lemmas_m::*;
impl Repr {
// proved in unit ratio_reduce
//@@ SIG rational/repr/reduce.rs
//@@ SIG rational/repr/zero.rs
//@@ FN rational/simplest/simplest_in.rs drop_asserts=0
}
impl RBig {
//@@ FN rational/simplest/rbig_simplest_in.rs
}
} // verus!
fn main() {}
