// unit ratio_rem_ref: the RBig / Relaxed `%` arms and the Euclidean division arms of rational/src/div.rs (C04), rule E3,
// instantiated for the three BY-REFERENCE forwardings of helper_macros::impl_binop_with_macro! (`T op &T`, `&T op T`,
// `&T op &T`; unit ratio_rem has the by-value one): the SAME annotated arm text and the SAME contract are proved for each
// form (see unit ratio_ops_ref).  Trusted in addition to unit ratio_rem: lib/rp_refops.rs.
#![allow(unused_imports, unused_variables, dead_code, non_snake_case, unused_mut, unused_parens, unused_braces)]
use vstd::prelude::*;
use vstd::arithmetic::power2::pow2;
use core::cmp::Ordering;
use core::ops::{Add, Sub, Mul, Div, Rem};
verus! {
//@@ INCLUDE lib/ratio_lemmas.rs
//@@ INCLUDE lib/bigstub.rs
//@@ INCLUDE lib/rp_refops.rs
impl Sign {
// base/src/sign.rs: proved in unit ratio_ops / ratio_reduce, here seen through their contracts
//@@ SIG rational/sign/base_sign_mul.rs
//@@ SIG rational/sign/base_sign_neg.rs
//@@ SIG rational/sign/base_sign_cmp.rs
}
//@@ INCLUDE lib/ratio_types.rs
//@@ INCLUDE lib/ratio2_stubs.rs
//@@ INCLUDE lib/ratio2_lemmas.rs
// rational/src/error.rs: `total` reading, the panic is unreachable under the precondition (divisor != 0)
#[verifier::external_body]
pub fn panic_divide_by_0() -> ! requires false { unimplemented!() }
impl Repr {
// proved in unit ratio_reduce (not called by the unchanged arms; declared so that an arm rewritten to use the
// cheaper reductions is still checked against the contract instead of failing to resolve)
//@@ SIG rational/repr/reduce.rs
//@@ SIG rational/repr/reduce_with_hint.rs
//@@ SIG rational/repr/reduce2.rs
}
impl RBig {
// proved in unit ratio_reduce
//@@ SIG rational/rbig/rbig_from_parts.rs
}
impl Relaxed {
// proved in unit ratio_ops
//@@ SIG rational/rbig/relaxed_from_parts.rs
}
// ---- `T op &T`: a: IBig, b: UBig, c: &IBig, d: &UBig
//@@ WRAP rbig_rem_vr fn rbig_rem_vr(a: IBig, b: UBig, c: &IBig, d: &UBig, ra: &IBig, rb: &UBig, rc: &IBig, rd: &UBig) -> RBig
//@@ FN rational/rem/rem_with_rbig.rs wrap=rbig_rem_vr subst=method:rem
//@@ WRAP relaxed_rem_vr fn relaxed_rem_vr(a: IBig, b: UBig, c: &IBig, d: &UBig, ra: &IBig, rb: &UBig, rc: &IBig, rd: &UBig) -> Relaxed
//@@ FN rational/rem/rem_with_relaxed.rs wrap=relaxed_rem_vr subst=method:rem
//@@ WRAP euclid_div_vr fn euclid_div_vr(a: IBig, b: UBig, c: &IBig, d: &UBig, ra: &IBig, rb: &UBig, rc: &IBig, rd: &UBig) -> IBig
//@@ FN rational/rem/euclid_div.rs wrap=euclid_div_vr subst=method:div_euclid
//@@ WRAP rbig_rem_euclid_vr fn rbig_rem_euclid_vr(a: IBig, b: UBig, c: &IBig, d: &UBig, ra: &IBig, rb: &UBig, rc: &IBig, rd: &UBig) -> RBig
//@@ FN rational/rem/euclid_rem_with_rbig.rs wrap=rbig_rem_euclid_vr subst=method:rem_euclid
//@@ WRAP relaxed_rem_euclid_vr fn relaxed_rem_euclid_vr(a: IBig, b: UBig, c: &IBig, d: &UBig, ra: &IBig, rb: &UBig, rc: &IBig, rd: &UBig) -> Relaxed
//@@ FN rational/rem/euclid_rem_with_relaxed.rs wrap=relaxed_rem_euclid_vr subst=method:rem_euclid
//@@ WRAP rbig_divrem_euclid_vr fn rbig_divrem_euclid_vr(a: IBig, b: UBig, c: &IBig, d: &UBig, ra: &IBig, rb: &UBig, rc: &IBig, rd: &UBig) -> (IBig, RBig)
//@@ FN rational/rem/euclid_divrem_with_rbig.rs wrap=rbig_divrem_euclid_vr subst=method:div_rem_euclid
//@@ WRAP relaxed_divrem_euclid_vr fn relaxed_divrem_euclid_vr(a: IBig, b: UBig, c: &IBig, d: &UBig, ra: &IBig, rb: &UBig, rc: &IBig, rd: &UBig) -> (IBig, Relaxed)
//@@ FN rational/rem/euclid_divrem_with_relaxed.rs wrap=relaxed_divrem_euclid_vr subst=method:div_rem_euclid
// ---- `&T op T`: a: &IBig, b: &UBig, c: IBig, d: UBig
//@@ WRAP rbig_rem_rv fn rbig_rem_rv(a: &IBig, b: &UBig, c: IBig, d: UBig, ra: &IBig, rb: &UBig, rc: &IBig, rd: &UBig) -> RBig
//@@ FN rational/rem/rem_with_rbig.rs wrap=rbig_rem_rv subst=method:rem
//@@ WRAP relaxed_rem_rv fn relaxed_rem_rv(a: &IBig, b: &UBig, c: IBig, d: UBig, ra: &IBig, rb: &UBig, rc: &IBig, rd: &UBig) -> Relaxed
//@@ FN rational/rem/rem_with_relaxed.rs wrap=relaxed_rem_rv subst=method:rem
//@@ WRAP euclid_div_rv fn euclid_div_rv(a: &IBig, b: &UBig, c: IBig, d: UBig, ra: &IBig, rb: &UBig, rc: &IBig, rd: &UBig) -> IBig
//@@ FN rational/rem/euclid_div.rs wrap=euclid_div_rv subst=method:div_euclid
//@@ WRAP rbig_rem_euclid_rv fn rbig_rem_euclid_rv(a: &IBig, b: &UBig, c: IBig, d: UBig, ra: &IBig, rb: &UBig, rc: &IBig, rd: &UBig) -> RBig
//@@ FN rational/rem/euclid_rem_with_rbig.rs wrap=rbig_rem_euclid_rv subst=method:rem_euclid
//@@ WRAP relaxed_rem_euclid_rv fn relaxed_rem_euclid_rv(a: &IBig, b: &UBig, c: IBig, d: UBig, ra: &IBig, rb: &UBig, rc: &IBig, rd: &UBig) -> Relaxed
//@@ FN rational/rem/euclid_rem_with_relaxed.rs wrap=relaxed_rem_euclid_rv subst=method:rem_euclid
//@@ WRAP rbig_divrem_euclid_rv fn rbig_divrem_euclid_rv(a: &IBig, b: &UBig, c: IBig, d: UBig, ra: &IBig, rb: &UBig, rc: &IBig, rd: &UBig) -> (IBig, RBig)
//@@ FN rational/rem/euclid_divrem_with_rbig.rs wrap=rbig_divrem_euclid_rv subst=method:div_rem_euclid
//@@ WRAP relaxed_divrem_euclid_rv fn relaxed_divrem_euclid_rv(a: &IBig, b: &UBig, c: IBig, d: UBig, ra: &IBig, rb: &UBig, rc: &IBig, rd: &UBig) -> (IBig, Relaxed)
//@@ FN rational/rem/euclid_divrem_with_relaxed.rs wrap=relaxed_divrem_euclid_rv subst=method:div_rem_euclid
// ---- `&T op &T`: a: &IBig, b: &UBig, c: &IBig, d: &UBig
//@@ WRAP rbig_rem_rr fn rbig_rem_rr(a: &IBig, b: &UBig, c: &IBig, d: &UBig, ra: &IBig, rb: &UBig, rc: &IBig, rd: &UBig) -> RBig
//@@ FN rational/rem/rem_with_rbig.rs wrap=rbig_rem_rr subst=method:rem
//@@ WRAP relaxed_rem_rr fn relaxed_rem_rr(a: &IBig, b: &UBig, c: &IBig, d: &UBig, ra: &IBig, rb: &UBig, rc: &IBig, rd: &UBig) -> Relaxed
//@@ FN rational/rem/rem_with_relaxed.rs wrap=relaxed_rem_rr subst=method:rem
//@@ WRAP euclid_div_rr fn euclid_div_rr(a: &IBig, b: &UBig, c: &IBig, d: &UBig, ra: &IBig, rb: &UBig, rc: &IBig, rd: &UBig) -> IBig
//@@ FN rational/rem/euclid_div.rs wrap=euclid_div_rr subst=method:div_euclid
//@@ WRAP rbig_rem_euclid_rr fn rbig_rem_euclid_rr(a: &IBig, b: &UBig, c: &IBig, d: &UBig, ra: &IBig, rb: &UBig, rc: &IBig, rd: &UBig) -> RBig
//@@ FN rational/rem/euclid_rem_with_rbig.rs wrap=rbig_rem_euclid_rr subst=method:rem_euclid
//@@ WRAP relaxed_rem_euclid_rr fn relaxed_rem_euclid_rr(a: &IBig, b: &UBig, c: &IBig, d: &UBig, ra: &IBig, rb: &UBig, rc: &IBig, rd: &UBig) -> Relaxed
//@@ FN rational/rem/euclid_rem_with_relaxed.rs wrap=relaxed_rem_euclid_rr subst=method:rem_euclid
//@@ WRAP rbig_divrem_euclid_rr fn rbig_divrem_euclid_rr(a: &IBig, b: &UBig, c: &IBig, d: &UBig, ra: &IBig, rb: &UBig, rc: &IBig, rd: &UBig) -> (IBig, RBig)
//@@ FN rational/rem/euclid_divrem_with_rbig.rs wrap=rbig_divrem_euclid_rr subst=method:div_rem_euclid
//@@ WRAP relaxed_divrem_euclid_rr fn relaxed_divrem_euclid_rr(a: &IBig, b: &UBig, c: &IBig, d: &UBig, ra: &IBig, rb: &UBig, rc: &IBig, rd: &UBig) -> (IBig, Relaxed)
//@@ FN rational/rem/euclid_divrem_with_relaxed.rs wrap=relaxed_divrem_euclid_rr subst=method:div_rem_euclid
} // verus!
fn main() {}
