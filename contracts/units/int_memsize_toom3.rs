// unit int_memsize_toom3: integer/src/mul/toom_3.rs add_signed_mul_same_len under a RESOURCE contract (C01, C16):
// with a scratch chunk of tneed(n) Words (lib/mem_need.rs) none of its eight allocate_slice_* calls and none of the five
// nested products runs out of scratch memory ("internal error: not enough memory allocated", memory.rs:166).
// The functional contract of the same function is proved in int_mul_toom3 with an OPAQUE Memory; here Memory is the
// capacity-tracking model lib/mem_model.rs.  Value facts are not re-proved: debug_assert_zero! comparisons dropped, the two
// `assert_eq!(rem, 0)` are run-time guards (possible panics, rule D4a-eq `#[assert_guard]`; proved unreachable in
// int_mul_toom3), the returned carry is only bounded by |ret| <= 2.  The evaluation-point carries a_eval[n3] += .. are
// bounded (<= 2, <= 4) from the word kernels' contracts (overflow freedom).
// The nested products go through the dispatcher's RESOURCE contract (//@@ SIG, PROVED in unit int_memsize_dispatch).
#![allow(unused_imports, unused_variables, dead_code, non_snake_case, unused_mut, unused_parens, unused_braces)]
use vstd::prelude::*;
verus! {
//@@ INCLUDE lib/prelude.rs
//@@ INCLUDE lib/sign.rs
//@@ INCLUDE lib/mem_sign_ops.rs
//@@ INCLUDE lib/mem_layout_@BITS@.rs
//@@ INCLUDE lib/mem_model.rs
//@@ INCLUDE lib/mem_need.rs
//@@ INCLUDE lib/mem_kern_lemmas.rs
pub mod add {
use super::*;
//@@ SIG integer/add/add_signed_same_len_in_place.rs
//@@ SIG integer/add/add_signed_in_place.rs
//@@ SIG integer/add/add_signed_word_in_place.rs
//@@ SIG integer/add/sub_in_place_with_sign.rs
//@@ SIG integer/add/sub_in_place.rs
//@@ SIG integer/add/add_in_place.rs
//@@ SIG integer/add/add_same_len_in_place.rs
}
pub mod div {
use super::*;
//@@ SIG integer/div/div_by_word_in_place.rs
}
pub mod shift {
use super::*;
//@@ SIG integer/shift/shr_in_place.rs
}
pub mod mul {
use super::*;
//@@ SIG integer/memsize/disp_same_len.rs
//@@ SIG integer/mul/mul_word_in_place.rs
//@@ SIG integer/mul/add_mul_word_same_len_in_place.rs
//@@ SIG integer/mul/add_mul_word_in_place.rs
//@@ SIG integer/mul/sub_mul_word_same_len_in_place.rs
pub mod toom_3 {
use super::super::*;
use super::super::mul;
//@@ CONST integer/memsize/c_toom_min_len.rs
// debug_assert_zero #2..#10 (value facts, proved in int_mul_toom3) and #11 `carry.abs() <= 1` (exec abs) dropped
//@@ FN integer/memsize/toom3_same_len.rs drop_asserts=2,3,4,5,6,7,8,9,10,11
}
}
} // verus!
fn main() {}
