// unit int_div_simple: integer/src/div/simple.rs, Knuth's algorithm D with a 3-by-2 quotient estimate (C02, C16, C19)
// Trusted: the num_modular::Normalized3by2Divisor stub (lib/div_dword_stubs.rs), assume_specifications for
// <[T]>::split_last / split_last_mut, assumed contracts of primitive::highest_dword (unsafe get_unchecked) and
// cmp::cmp_same_len (Iterator::cmp) in lib/div_simple_stubs.rs.
#![allow(unused_imports, unused_variables, dead_code, non_snake_case, unused_mut, unused_parens, unused_braces)]
use vstd::prelude::*;
verus! {
//@@ INCLUDE lib/prelude.rs
//@@ INCLUDE lib/div_word_stubs.rs
//@@ INCLUDE lib/div_dword_stubs.rs
//@@ INCLUDE lib/div_simple_stubs.rs
//@@ INCLUDE lib/div_simple_lemmas.rs
//@@ SIG integer/primitive/double_word.rs
//@@ SIG integer/primitive/split_dword.rs
pub mod add {
use super::*;
//@@ SIG integer/add/add_same_len_in_place.rs
//@@ SIG integer/add/sub_same_len_in_place.rs
}
pub mod mul {
use super::*;
//@@ SIG integer/mul/sub_mul_word_same_len_in_place.rs
}
//@@ FN integer/div_simple/div_rem_highest_word.rs drop_asserts=1
//@@ FN integer/div_simple/div_rem_in_place.rs
} // verus!
fn main() {}
