// unit float_fm_with_base: float/src/convert.rs `FBig::with_base` (C08): the precision-estimation loop for the new base
// -- proved to end at THE precision documented for with_base (the largest p' with NewB^p' <= B^p; 0 stays 0) given only
// that the f32 estimate is a lower bound (trusted, rule D10b) -- followed by `with_base_and_precision` (SIG, proved in unit
// float_convert_base: one correct rounding to the precision handed in).  Also the one-liners `with_rounding`,
// `to_decimal` (= with_rounding::<HalfAway>().with_base::<10>()), `to_binary` (= with_rounding::<Zero>().with_base::<2>()) (over the
// trusted stub of `Clone for FBig`, lib/fm_fbig_clone.rs).
#![allow(unused_imports, unused_variables, dead_code, non_snake_case, unused_mut, unused_parens, unused_braces)]
use vstd::prelude::*;
verus! {
global size_of usize == 8;
//@@ INCLUDE lib/round_prelude.rs
//@@ INCLUDE lib/round_int_stubs.rs
pub trait Round: Copy {
    /// ghost: which of the six mode definitions the implementing type stands for
    spec fn md() -> Mode;
}
//@@ INCLUDE lib/round_float_repr.rs
//@@ INCLUDE lib/conv_fbig_stubs.rs
//@@ INCLUDE lib/fio_convbase.rs
//@@ INCLUDE lib/fm_convbase.rs
//@@ INCLUDE lib/fm_fbig_clone.rs
//@@ INCLUDE lib/round_modes.rs
use mode::{HalfAway, Zero};
impl Round for mode::HalfAway { open spec fn md() -> Mode { Mode::HalfAway } }
impl Round for mode::Zero { open spec fn md() -> Mode { Mode::Zero } }
use core::marker::PhantomData;
impl<R: Round> Context<R> {
//@@ FN float/convert/context_new.rs
}
impl<R: Round, const B: Word> FBig<R, B> {
//@@ SIG float/convbase/with_base_and_precision.rs
//@@ FN float/fmisc/with_base.rs
//@@ FN float/fmisc/with_rounding.rs
//@@ FN float/fmisc/to_decimal.rs
//@@ FN float/fmisc/to_binary.rs
}
} // verus!
fn main() {}
