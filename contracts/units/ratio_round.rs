// unit ratio_round: rational/src/round.rs `impl Repr` (C10: RBig/Relaxed trunc/floor/ceil/round/fract/split_at_point
// are one-line forwards to these)
#![allow(unused_imports, unused_variables, dead_code, non_snake_case, unused_mut, unused_parens, unused_braces)]
use vstd::prelude::*;
verus! {
//@@ INCLUDE lib/round_prelude.rs
//@@ INCLUDE lib/round_int_stubs.rs
//@@ INCLUDE lib/round_int_addsub_stubs.rs
//@@ INCLUDE lib/round_ratio_stubs.rs
//@@ INCLUDE lib/round_ratio_lemmas.rs

// rational/src/repr.rs `pub struct Repr` -- transcription (two fields)
pub struct Repr {
    pub numerator: IBig,
    pub denominator: UBig,
}
impl Repr {
//@@ FN rational/round/zero.rs
//@@ FN rational/round/split_at_point.rs
//@@ FN rational/round/ceil.rs
//@@ FN rational/round/floor.rs
//@@ FN rational/round/trunc.rs
//@@ FN rational/round/fract.rs
//@@ FN rational/round/round.rs
}
} // verus!
fn main() {}
