// unit int_add_ops_signed: integer/src/add_ops.rs `mod repr_signed`: signed difference of two magnitudes (the IBig
// + and - arms with operands of opposite "direction") over the verified kernels and over add_ops::repr (C01, C16, C19).
// add_ops::repr::{sub_large_dword, sub_large_ref_val} are seen through the contracts proved in unit int_add_ops.
#![allow(unused_imports, unused_variables, dead_code, non_snake_case, unused_mut, unused_parens, unused_braces)]
use vstd::prelude::*;
verus! {
//@@ INCLUDE lib/prelude.rs
//@@ INCLUDE lib/sign.rs
//@@ INCLUDE lib/dword_core_specs.rs
//@@ INCLUDE lib/repr_stubs.rs
//@@ INCLUDE lib/dispatch_lemmas.rs
pub mod add {
use super::*;
//@@ SIG integer/add/add_one_in_place.rs
//@@ SIG integer/add/sub_one_in_place.rs
//@@ SIG integer/add/add_dword_in_place.rs
//@@ SIG integer/add/sub_dword_in_place.rs
//@@ SIG integer/add/add_same_len_in_place.rs
//@@ SIG integer/add/sub_same_len_in_place_swap.rs
//@@ SIG integer/add/sub_in_place.rs
//@@ SIG integer/add/sub_in_place_with_sign.rs
}
//@@ SIG integer/primitive/split_dword.rs
pub mod error {
use super::*;
//@@ SIG integer/error/panic_negative_ubig.rs
}
pub mod add_ops {
pub mod repr {
use super::super::*;
//@@ SIG integer/add_ops/sub_large_dword.rs
//@@ SIG integer/add_ops/sub_large_ref_val.rs
}
pub mod repr_signed {
use super::super::*;
broadcast use crate::buffer_stub::ax_buffer_inv;
//@@ FN integer/add_ops/signed_sub_dword.rs
//@@ FN integer/add_ops/signed_sub_large_dword.rs
//@@ FN integer/add_ops/signed_sub_large.rs
// `impl SubSigned<..> for TypedRepr(Ref)`: methods hoisted to free functions (rule D2, renamed)
//@@ FN integer/add_ops/typed_sub_signed_rr.rs
//@@ FN integer/add_ops/typed_sub_signed_rv.rs
//@@ FN integer/add_ops/typed_sub_signed_vr.rs
//@@ FN integer/add_ops/typed_sub_signed_vv.rs
}
}
} // verus!
fn main() {}
