// unit base_root (C12): work in progress
#![allow(unused_imports, unused_variables, dead_code, non_snake_case, unused_mut, unused_parens, unused_braces)]
use vstd::prelude::*;
use vstd::arithmetic::power2::pow2;
verus! {
//@@ INCLUDE lib/div_dword_bits_64.rs
//@@ INCLUDE lib/basering_bits.rs
//@@ INCLUDE lib/basering_root_lemmas.rs
//@@ CONST base/ring_root/rsqrt_tab.rs
//@@ INCLUDE lib/basering_root_est.rs
//@@ FN base/ring_root/wmul32_hi.rs
//@@ FN base/ring_root/normalized_sqrt_rem_u64.rs drop_asserts=0 minline=fix_sqrt_error:base/ring_root/fix_sqrt_error.rs mconst=base/ring_root/rsqrt_tab.rs
//@@ INCLUDE lib/basering_root_traits.rs
impl NormalizedRootRem for u64 {
    type OutputRoot = u32;
    open spec fn nsqrt_req(self) -> bool { self >= 0x4000_0000_0000_0000 }
    open spec fn nsqrt_post(self, r: (u32, u64)) -> bool { (r.0 as int) * (r.0 as int) + r.1 as int == self as int && r.1 as int <= 2 * (r.0 as int) }
    fn normalized_sqrt_rem(self) -> (r: (u32, u64)) { normalized_sqrt_rem_u64(self) }
}
//@@ FN base/ring_root/div_rem.rs variant=u64 msubst=T:u64
impl DivRem for u64 {
    type OutputDiv = u64;
    type OutputRem = u64;
    open spec fn div_rem_req(self, rhs: u64) -> bool { rhs != 0 }
    open spec fn div_rem_post(self, rhs: u64, r: (u64, u64)) -> bool { r.0 as int == (self as int) / (rhs as int) && r.1 as int == (self as int) % (rhs as int) }
    fn div_rem(self, rhs: u64) -> (r: (u64, u64)) { div_rem_u64(self, rhs) }
}
//@@ FN base/ring_root/normalized_sqrt_rem_u128.rs drop_asserts=0
impl NormalizedRootRem for u128 {
    type OutputRoot = u64;
    open spec fn nsqrt_req(self) -> bool { self >= 0x4000_0000_0000_0000_0000_0000_0000_0000 }
    open spec fn nsqrt_post(self, r: (u64, u128)) -> bool { (r.0 as int) * (r.0 as int) + r.1 as int == self as int && r.1 as int <= 2 * (r.0 as int) }
    fn normalized_sqrt_rem(self) -> (r: (u64, u128)) { normalized_sqrt_rem_u128(self) }
}
// base/src/ring/root.rs `impl_rootrem_using_normalized!(u64, u32);` (invocation #2) and `(u128, u64)` (#3): rule E3c reads the
// instantiation from the source
//@@ FN base/ring_root/sqrt_rem.rs variant=u64 minvoke=2 mexpect=t:u64,half:u32 mbase=t:u64,half:u32
//@@ FN base/ring_root/sqrt_rem.rs variant=u128 minvoke=3 mexpect=t:u128,half:u64 mbase=t:u128,half:u64
// base/src/math/root.rs `impl_root_using_rootrem!(u64, u32);` (#2), `(u128, u64)` (#3)
//@@ FN base/ring_root/sqrt.rs variant=u64 minvoke=2 mexpect=t:u64,half:u32 mbase=t:u64,half:u32
//@@ FN base/ring_root/sqrt.rs variant=u128 minvoke=3 mexpect=t:u128,half:u64 mbase=t:u128,half:u64
} // verus!
fn main() {}
