// unit base_root (C12): the PRIMITIVE square-root algorithms of dashu-base, proved UNBOUNDED:
//   base/src/ring/root.rs   wmul32_hi;  macro fix_sqrt_error (correction loop, inlined by rule E3d from its own annotated copy);
//                           <u64 / u32 as NormalizedRootRem>::normalized_sqrt_rem  (table RSQRT_TAB + Newton steps + margin `s -= 10` / `s -= 4`)
//                           <u128 as NormalizedRootRem>::normalized_sqrt_rem (Karatsuba square root on top of the u64 contract)
//                           impl_rootrem_using_normalized: SquareRootRem::sqrt_rem for u32, u64 and u128 (normalising shift)
//   base/src/math/root.rs   impl_root_using_rootrem: SquareRoot::sqrt for u32, u64 and u128
//   base/src/ring/div_rem.rs impl_div_rem_ops_prim: DivRem::div_rem for u64
// Postconditions (property statement): sqrt_rem / normalized_sqrt_rem: s*s + r == n and r <= 2s (<==> s*s <= n < (s+1)^2: root
// truncated toward zero, remainder value - root^2);  sqrt: s*s <= n < (s+1)^2.  No overflow / underflow anywhere, termination.
// TWO explicit assumptions (lib/basering_root_est.rs, TRUSTED): `axiom_br_sq64_estimate`: the closed-form integer functions that
// describe steps 1-5 of the u64 routine per high word n32 satisfy `br_sq64_ok` for all 3 * 2^30 classes -- established by the
// exhaustive native run of tools/base_root_exhaust.rs, not by Verus (the margin 10 is exactly tight, no analytic bound exists);
// `axiom_br_sq32_estimate`: the same for the u32 routine (`br_sq32_ok(n)` for all 3 * 2^30 inputs, `tools/base_root_exhaust.rs u32`).
// Verus proves that the machine code computes those integers on the REAL table (rule E4: `//@@ CONST`, entry-wise equal to the
// pinned copy), that the class-wise facts cover every n, the correction loop, the Karatsuba step and the wrappers.
// Other trusted items: u128::leading_zeros (lib/div_dword_bits_64.rs), u32/u64/u128::pow, u64::overflowing_add (core).
// The debug assertion `self.leading_zeros() <= 1` calls an exec function (not expressible by D3): dropped (drop_asserts=0) and
// proved separately in spec form (lemma_br_norm_lz64 / lemma_br_norm_lz128) right in front of it.
#![allow(unused_imports, unused_variables, dead_code, non_snake_case, unused_mut, unused_parens, unused_braces)]
use vstd::prelude::*;
use vstd::arithmetic::power2::pow2;
verus! {
//@@ INCLUDE lib/div_dword_bits_64.rs
//@@ INCLUDE lib/basering_bits.rs
//@@ INCLUDE lib/basering_root_lemmas.rs
//@@ CONST base/ring_root/rsqrt_tab.rs
//@@ INCLUDE lib/basering_root_est.rs
//@@ FN base/ring_root/wmul32_hi.rs
//@@ FN base/ring_root/normalized_sqrt_rem_u64.rs drop_asserts=0 minline=fix_sqrt_error:base/ring_root/fix_sqrt_error.rs mconst=base/ring_root/rsqrt_tab.rs
//@@ INCLUDE lib/basering_root_traits.rs
impl NormalizedRootRem for u64 {
    type OutputRoot = u32;
    open spec fn nsqrt_req(self) -> bool { self >= 0x4000_0000_0000_0000 }
    open spec fn nsqrt_post(self, r: (u32, u64)) -> bool { (r.0 as int) * (r.0 as int) + r.1 as int == self as int && r.1 as int <= 2 * (r.0 as int) }
    fn normalized_sqrt_rem(self) -> (r: (u32, u64)) { normalized_sqrt_rem_u64(self) }
}
//@@ FN base/ring_root/div_rem.rs variant=u64 msubst=T:u64
impl DivRem for u64 {
    type OutputDiv = u64;
    type OutputRem = u64;
    open spec fn div_rem_req(self, rhs: u64) -> bool { rhs != 0 }
    open spec fn div_rem_post(self, rhs: u64, r: (u64, u64)) -> bool { r.0 as int == (self as int) / (rhs as int) && r.1 as int == (self as int) % (rhs as int) }
    fn div_rem(self, rhs: u64) -> (r: (u64, u64)) { div_rem_u64(self, rhs) }
}
//@@ FN base/ring_root/normalized_sqrt_rem_u128.rs drop_asserts=0
impl NormalizedRootRem for u128 {
    type OutputRoot = u64;
    open spec fn nsqrt_req(self) -> bool { self >= 0x4000_0000_0000_0000_0000_0000_0000_0000 }
    open spec fn nsqrt_post(self, r: (u64, u128)) -> bool { (r.0 as int) * (r.0 as int) + r.1 as int == self as int && r.1 as int <= 2 * (r.0 as int) }
    fn normalized_sqrt_rem(self) -> (r: (u64, u128)) { normalized_sqrt_rem_u128(self) }
}
// base/src/ring/root.rs `impl_rootrem_using_normalized!(u64, u32);` (invocation #2) and `(u128, u64)` (#3): rule E3c reads the
// instantiation from the source
//@@ FN base/ring_root/sqrt_rem.rs variant=u64 minvoke=2 mexpect=t:u64,half:u32 mbase=t:u64,half:u32
//@@ FN base/ring_root/sqrt_rem.rs variant=u128 minvoke=3 mexpect=t:u128,half:u64 mbase=t:u128,half:u64
// base/src/math/root.rs `impl_root_using_rootrem!(u64, u32);` (#2), `(u128, u64)` (#3)
//@@ FN base/ring_root/sqrt.rs variant=u64 minvoke=2 mexpect=t:u64,half:u32 mbase=t:u64,half:u32
//@@ FN base/ring_root/sqrt.rs variant=u128 minvoke=3 mexpect=t:u128,half:u64 mbase=t:u128,half:u64
// ---- u32 (steps 1-4 under the second explicit assumption axiom_br_sq32_estimate: exhaustive run `tools/base_root_exhaust.rs u32`)
//@@ FN base/ring_root/wmul16_hi.rs
//@@ FN base/ring_root/normalized_sqrt_rem_u32.rs drop_asserts=0 minline=fix_sqrt_error:base/ring_root/fix_sqrt_error.rs mconst=base/ring_root/rsqrt_tab.rs
impl NormalizedRootRem for u32 {
    type OutputRoot = u16;
    open spec fn nsqrt_req(self) -> bool { self >= 0x4000_0000 }
    open spec fn nsqrt_post(self, r: (u16, u32)) -> bool { (r.0 as int) * (r.0 as int) + r.1 as int == self as int && r.1 as int <= 2 * (r.0 as int) }
    fn normalized_sqrt_rem(self) -> (r: (u16, u32)) { normalized_sqrt_rem_u32(self) }
}
// `impl_rootrem_using_normalized!(u32, u16);` / `impl_root_using_rootrem!(u32, u16);` (invocation #1)
//@@ FN base/ring_root/sqrt_rem.rs variant=u32 minvoke=1 mexpect=t:u32,half:u16 mbase=t:u32,half:u16
//@@ FN base/ring_root/sqrt.rs variant=u32 minvoke=1 mexpect=t:u32,half:u16 mbase=t:u32,half:u16
} // verus!
fn main() {}
