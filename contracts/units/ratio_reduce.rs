// unit ratio_reduce: rational/src/repr.rs Repr::{zero, reduce, reduce_with_hint, reduce2} and the constructors of
// rational/src/rbig.rs that establish the invariant (RBig::from_parts, Relaxed::canonicalize; Relaxed::from_parts is in
// unit ratio_ops) (C04)
#![allow(unused_imports, unused_variables, dead_code, non_snake_case, unused_mut, unused_parens, unused_braces)]
use vstd::prelude::*;
use vstd::arithmetic::power2::pow2;
use core::cmp::Ordering;
verus! {
//@@ INCLUDE lib/ratio_lemmas.rs
//@@ INCLUDE lib/bigstub.rs
impl Sign {
//@@ FN rational/sign/base_sign_mul.rs
//@@ FN rational/sign/base_sign_neg.rs
//@@ FN rational/sign/base_sign_cmp.rs
}
//@@ INCLUDE lib/ratio_types.rs
// rational/src/error.rs: verified in the `total` reading, the panic is unreachable under the precondition
#[verifier::external_body]
pub fn panic_divide_by_0() -> ! requires false { unimplemented!() }
impl Repr {
//@@ FN rational/repr/zero.rs
//@@ FN rational/repr/reduce.rs
//@@ FN rational/repr/reduce_with_hint.rs
//@@ FN rational/repr/reduce2.rs
}
impl RBig {
//@@ FN rational/rbig/rbig_from_parts.rs
}
impl Relaxed {
//@@ FN rational/rbig/canonicalize.rs
}
} // verus!
fn main() {}
