// unit int_memsize_mul_ops: integer/src/mul_ops.rs `mod repr` mul_large / square_large under a RESOURCE contract (C01, C16):
// the callers compute the scratch size with mul::memory_requirement_exact / sqr::memory_requirement_exact, allocate it
// (MemoryAllocation::new) and hand it to mul::multiply / sqr::sqr: the size computed IS enough (contracts PROVED in
// int_memsize_req, int_memsize_dispatch; //@@ SIG here), so the public UBig/IBig `*`, `sqr`, ... on large operands never
// panic with "internal error: not enough memory allocated".  The values are proved in int_mul_ops (opaque Memory).
// Trusted: lib/repr_stubs.rs (Buffer / Repr), lib/mem_model.rs (capacity-tracking Memory / MemoryAllocation / Layout).
#![allow(unused_imports, unused_variables, dead_code, non_snake_case, unused_mut, unused_parens, unused_braces)]
use vstd::prelude::*;
use core::cmp::Ordering;
verus! {
//@@ INCLUDE lib/prelude.rs
//@@ INCLUDE lib/sign.rs
//@@ INCLUDE lib/repr_stubs.rs
//@@ INCLUDE lib/mem_layout_@BITS@.rs
//@@ INCLUDE lib/mem_model.rs
//@@ INCLUDE lib/mem_need.rs
//@@ INCLUDE lib/mem_req_stubs.rs
pub assume_specification [core::cmp::Ordering::is_eq] (o: core::cmp::Ordering) -> (r: bool)
    ensures r == (o == core::cmp::Ordering::Equal);
pub mod cmp {
use super::*;
//@@ SIG integer/cmp/cmp_in_place.rs
}
pub mod mul {
use super::*;
//@@ SIG integer/memsize/multiply.rs
//@@ SIG integer/memsize/mul_req_exact.rs
}
pub mod sqr {
use super::*;
//@@ SIG integer/memsize/sqr.rs
//@@ SIG integer/memsize/sqr_req.rs
}
pub mod mul_ops {
pub mod repr {
use super::super::*;
use super::super::cmp::cmp_in_place;
broadcast use {crate::buffer_stub::ax_buffer_inv, crate::repr_stub::ax_repr_of};
//@@ FN integer/memsize/mul_large.rs
//@@ FN integer/memsize/square_large.rs
}
}
} // verus!
fn main() {}
