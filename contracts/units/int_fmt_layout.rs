// unit int_fmt_layout: integer/src/fmt/mod.rs InRadixWriter::format_prepared (C07 "with sign / prefix / padding as
// requested"): against a ghost-output model of core::fmt::Formatter the formatter receives
//   [fill] sign prefix [zeros] digits [fill]
// exactly as core::fmt documents for numbers -- which branch is taken and how many padding characters are written.
// Trusted: lib/fmtl_fmt_stubs.rs (Formatter / DigitWriter model, contract of trait PreparedForFormatting),
// lib/fmtl_fmt_types.rs (struct mirrors); rules D24 (closure inlining) and D1 (range loops).
#![allow(unused_imports, unused_variables, dead_code, non_snake_case, unused_mut, unused_parens, unused_braces)]
use vstd::prelude::*;
use vstd::string::*;
verus! {
//@@ INCLUDE lib/prelude.rs
//@@ INCLUDE lib/fmtl_fmt_stubs.rs
//@@ INCLUDE lib/fmtl_fmt_types.rs
impl<'a> InRadixWriter<'a> {
//@@ FN integer/fmt_large/format_prepared.rs
}
} // verus!
fn main() {}
