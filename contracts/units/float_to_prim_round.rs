// unit float_to_prim_round: float/src/repr.rs `Context::{repr_round, repr_round_ref}` once more, against the contract of
// unit float_repr_round (ONE correct rounding, truthful flag) STRENGTHENED by "an Inexact result is in normal form".
// The conversions to f32 / f64 (units float_to_prim_once / _repr / _fbig) need it to establish the precondition of
// `into_f32_internal` / `into_f64_internal` (at most 24 / 53 significant bits): a rounded significand +-2^p must have
// been normalised to +-1.  Same libraries and callees as float_repr_round.
#![allow(unused_imports, unused_variables, dead_code, non_snake_case, unused_mut, unused_parens, unused_braces)]
use vstd::prelude::*;
verus! {
//@@ INCLUDE lib/round_prelude.rs
//@@ INCLUDE lib/round_int_stubs.rs
pub trait Round: Copy {
    /// ghost: which of the six mode definitions the implementing type stands for
    spec fn md() -> Mode;
//@@ SIG float/round/round_fract.rs
}
//@@ INCLUDE lib/round_float_repr.rs
//@@ SIG float/error/panic_operate_with_inf.rs
//@@ FN float/error/assert_finite.rs
impl<const B: Word> Repr<B> {
//@@ FN float/repr/is_infinite.rs
//@@ FN float/repr/digits.rs
}
impl<R: Round> Context<R> {
//@@ FN float/repr/is_limited.rs
//@@ FN float/to_prim/repr_round.rs
//@@ FN float/to_prim/repr_round_ref.rs
}
} // verus!
fn main() {}
