// unit int_fmt_dispatch: integer/src/fmt/non_power_two.rs InRadixWriter::fmt_non_power_two (C07): every prepared number
// that the dispatch hands to the layout code (`format_prepared`) satisfies its structure invariant and STANDS FOR THE
// MAGNITUDE being printed; in particular the size test `len * (digits_per_word + 1) <= CHUNK_LEN * digits_per_word`
// establishes the precondition `number < range_per_word^CHUNK_LEN` under which PreparedMedium::new is proved (unit
// int_fmt_digits).  + integer/src/repr.rs TypedReprRef::len.
// Trusted: lib/codecs_dispatch_stubs.rs (PreparedDword::new / PreparedLarge::new "stand for their argument",
// format_prepared as a sink), lib/codecs_fmt_stubs.rs, lib/div_word_stubs.rs.
#![allow(unused_imports, unused_variables, dead_code, non_snake_case, unused_mut, unused_parens, unused_braces)]
use vstd::prelude::*;
verus! {
//@@ INCLUDE lib/prelude.rs
//@@ INCLUDE lib/shift_bv.rs
//@@ INCLUDE lib/div_word_stubs.rs
//@@ INCLUDE lib/codecs_fmt_stubs.rs
//@@ INCLUDE lib/codecs_digit_lemmas.rs
//@@ INCLUDE lib/codecs_writer_stub.rs
//@@ INCLUDE lib/codecs_dispatch_stubs.rs
pub use repr_ref::TypedReprRef::*;
//@@ SIG integer/primitive/shrink_dword.rs
impl PreparedWord {
//@@ SIG integer/fmt_npt/word_new.rs
}
impl PreparedMedium {
//@@ SIG integer/fmt_npt/medium_new.rs
}
impl<'a> TypedReprRef<'a> {
//@@ FN integer/fmt_npt/typedref_len.rs
}
impl<'a> InRadixWriter<'a> {
//@@ FN integer/fmt_npt/fmt_non_power_two.rs drop_asserts=0
}
} // verus!
fn main() {}
