// unit float_conv: float/src/convert.rs `FBig::with_precision` (C08/C10: one correct rounding to the new precision,
// on top of the contract of `Context::repr_round` proved in unit float_repr_round) and `Repr::to_int` (C10: rounding
// towards zero, Exact iff integral); with the real helpers `Approximation::map` (base/src/approx.rs), `FBig::new`,
// `Context::new`.
#![allow(unused_imports, unused_variables, dead_code, non_snake_case, unused_mut, unused_parens, unused_braces)]
use vstd::prelude::*;
verus! {
//@@ INCLUDE lib/round_prelude.rs
//@@ INCLUDE lib/round_int_stubs.rs
pub trait Round: Copy {
    /// ghost: which of the six mode definitions the implementing type stands for
    spec fn md() -> Mode;
}
//@@ INCLUDE lib/round_float_repr.rs
//@@ INCLUDE lib/conv_fbig_stubs.rs
use core::marker::PhantomData;
pub open spec fn rd_val0<T, E>(r: Approximation<T, E>) -> T { match r { Approximation::Exact(v) => v, Approximation::Inexact(v, _) => v } }
impl<T, E> Approximation<T, E> {
//@@ FN base/approx/map.rs
}
//@@ SIG float/error/panic_operate_with_inf.rs
//@@ FN float/error/assert_finite.rs
impl<const B: Word> Repr<B> {
//@@ FN float/repr/is_infinite.rs
//@@ FN float/convert/repr_is_finite.rs
//@@ FN float/convert/repr_to_int.rs
}
impl<R: Round> Context<R> {
//@@ FN float/convert/context_new.rs
//@@ FN float/repr/is_limited.rs
//@@ SIG float/repr/repr_round.rs
}
impl<R: Round, const B: Word> FBig<R, B> {
//@@ FN float/fbig/new.rs
//@@ FN float/convert/with_precision.rs
}
} // verus!
fn main() {}
