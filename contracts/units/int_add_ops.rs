// unit int_add_ops: integer/src/add_ops.rs `mod repr`: the representation-level dispatch of UBig + and - (and the
// magnitude operations behind IBig + -) over the verified slice kernels of add.rs (C01, C16, C19).  "Total" variant:
// unsigned a - b is verified under a >= b with the panic helper unreachable (`requires false`); the complementary
// must-panic statement is unit int_add_ops_panic.
// Trusted: lib/repr_stubs.rs (Buffer / Repr contracts), lib/dword_core_specs.rs.  The kernels' contracts are the ones
// PROVED in unit int_add (//@@ SIG from the same annotated copies).
#![allow(unused_imports, unused_variables, dead_code, non_snake_case, unused_mut, unused_parens, unused_braces)]
use vstd::prelude::*;
verus! {
//@@ INCLUDE lib/prelude.rs
//@@ INCLUDE lib/sign.rs
//@@ INCLUDE lib/dword_core_specs.rs
//@@ INCLUDE lib/repr_stubs.rs
//@@ INCLUDE lib/dispatch_lemmas.rs
pub mod add {
use super::*;
//@@ SIG integer/add/add_one_in_place.rs
//@@ SIG integer/add/sub_one_in_place.rs
//@@ SIG integer/add/add_dword_in_place.rs
//@@ SIG integer/add/sub_dword_in_place.rs
//@@ SIG integer/add/add_same_len_in_place.rs
//@@ SIG integer/add/sub_same_len_in_place_swap.rs
//@@ SIG integer/add/sub_in_place.rs
//@@ SIG integer/add/sub_in_place_with_sign.rs
}
//@@ SIG integer/primitive/split_dword.rs
pub mod error {
use super::*;
//@@ SIG integer/error/panic_negative_ubig.rs
}
pub mod add_ops {
pub mod repr {
use super::super::*;
use super::super::error::panic_negative_ubig;
use core::ops::{Add, Sub};
use vstd::std_specs::ops::*;
broadcast use {crate::buffer_stub::ax_buffer_inv, crate::repr_stub::ax_repr_of};
//@@ FN integer/add_ops/add_dword.rs
//@@ FN integer/add_ops/add_large_dword.rs
//@@ FN integer/add_ops/add_large.rs
//@@ FN integer/add_ops/add_large_one.rs
//@@ FN integer/add_ops/sub_large_one.rs
//@@ FN integer/add_ops/sub_dword.rs
//@@ FN integer/add_ops/sub_large_dword.rs
//@@ FN integer/add_ops/sub_large.rs
//@@ FN integer/add_ops/sub_large_ref_val.rs
// ---- the match dispatch of `impl Add/Sub<..> for TypedRepr(Ref)` and add_one / sub_one: methods hoisted to free
//      functions (rule D2, renamed: the method names coincide)
//@@ FN integer/add_ops/typed_add_rr.rs
//@@ FN integer/add_ops/typed_add_rv.rs
//@@ FN integer/add_ops/typed_add_vr.rs
//@@ FN integer/add_ops/typed_add_vv.rs
//@@ FN integer/add_ops/typed_sub_rr.rs
//@@ FN integer/add_ops/typed_sub_vr.rs
//@@ FN integer/add_ops/typed_sub_rv.rs
//@@ FN integer/add_ops/typed_sub_vv.rs
//@@ FN integer/add_ops/typedref_add_one.rs
//@@ FN integer/add_ops/typedref_sub_one.rs
//@@ FN integer/add_ops/typed_add_one.rs
//@@ FN integer/add_ops/typed_sub_one.rs
// D2 link: `rhs.add(self)` inside `impl Add<TypedReprRef> for TypedRepr` resolves to this impl, whose body IS the
// hoisted method verified above (typed_add_rv).  add_req / add_spec restate its contract (checked here: the body must
// satisfy them).
impl<'l> AddSpecImpl<TypedRepr> for TypedReprRef<'l> {
    open spec fn obeys_add_spec() -> bool { true }
    open spec fn add_req(self, rhs: TypedRepr) -> bool {
        self.wf() && rhs.wf() && self.nwords() < max_capacity() && rhs.nwords() < max_capacity()
    }
    open spec fn add_spec(self, rhs: TypedRepr) -> Repr { repr_of(self.v() + rhs.v()) }
}
impl<'l> Add<TypedRepr> for TypedReprRef<'l> { type Output = Repr;
    fn add(self, rhs: TypedRepr) -> Repr {
        let ghost a = self.v(); let ghost b = rhs.v();
        let r = typed_add_rv(self, rhs);
        proof { ax_repr_ext(r, repr_of(a + b)); }
        r
    }
}
}
}
} // verus!
fn main() {}
