// unit ratio_inv: rational/src/div.rs `Inverse for Repr::inv` (the reciprocal behind RBig::inv / Relaxed::inv) against
// C04's "every RBig ever produced has a positive denominator".  NOT registered: the contract fails on the
// unchanged tree for self == 0 (0.inv() returns 1/0 instead of panicking) -- genuine defect, see the report.
#![allow(unused_imports, unused_variables, dead_code, non_snake_case, unused_mut, unused_parens, unused_braces)]
use vstd::prelude::*;
use vstd::arithmetic::power2::pow2;
use core::cmp::Ordering;
verus! {
//@@ INCLUDE lib/ratio_lemmas.rs
//@@ INCLUDE lib/bigstub.rs
impl Sign {
//@@ FN rational/sign/base_sign_mul.rs
//@@ FN rational/sign/base_sign_neg.rs
//@@ FN rational/sign/base_sign_cmp.rs
}
//@@ INCLUDE lib/ratio_types.rs
#[verifier::external_body]
pub fn panic_divide_by_0() -> ! requires false { unimplemented!() }
// `impl Inverse for Repr :: inv`, hoisted to a free function by rule D2
//@@ FN rational/div/repr_inv.rs
} // verus!
fn main() {}
