// unit float_parse_fbig: float/src/parse.rs `FBig::from_str_native` (behind `FromStr for FBig`), C08: the value is the one
// `Repr::from_str_native` returns (contract proved in unit float_parse, seen here through SIG) and the context precision
// is the number of written digits.
#![allow(unused_imports, unused_variables, dead_code, non_snake_case, unused_mut, unused_parens, unused_braces, non_camel_case_types, unused_assignments)]
use vstd::prelude::*;
verus! {
global size_of usize == 8;
//@@ INCLUDE lib/round_prelude.rs
//@@ INCLUDE lib/round_int_stubs.rs
pub trait Round: Copy {
    /// ghost: which of the six mode definitions the implementing type stands for
    spec fn md() -> Mode;
}
//@@ INCLUDE lib/round_float_repr.rs
//@@ INCLUDE lib/conv_fbig_stubs.rs
//@@ INCLUDE lib/fio_convbase.rs
use core::ops::{Index, RangeFrom, RangeTo};
use vstd::std_specs::core::IndexSpecImpl;
//@@ INCLUDE lib/fio_parse_stubs.rs
use core::marker::PhantomData;
impl<const B: Word> Repr<B> {
//@@ SIG float/parse/repr_from_str_native.rs
}
impl<R: Round> Context<R> {
//@@ SIG float/convert/context_new.rs
}
impl<R: Round, const B: Word> FBig<R, B> {
//@@ FN float/parse/fbig_from_str_native.rs
}
} // verus!
fn main() {}
