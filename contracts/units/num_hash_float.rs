// unit num_hash_float: float/src/third_party/num_order.rs `impl NumHash for Repr<B>` (C14): the i128 fed to the hasher is
// num-order's hash of the rational number significand * B^exponent in Z/(2^127 - 1), for every base B >= 2: the base-2 shortcut
// (exponent reduced mod 127 because 2^127 == 1) and the general branches (B^|exponent|, inverted for negative exponents).
// Trusted: lib/gcdo_numhash_stubs.rs (num_modular FixedMersenneInt, ModularAbs; primality of 2^127 - 1; IBig % i128; the
// NumHash impl of i128), lib/bigstub.rs.
#![allow(unused_imports, unused_variables, dead_code, non_snake_case, unused_mut, unused_parens, unused_braces)]
use vstd::prelude::*;
use vstd::arithmetic::power2::pow2;
use core::cmp::Ordering;
use core::ops::{Add, Sub, Mul, Div, Rem};
verus! {
global size_of usize == 8;
//@@ INCLUDE lib/ratio_lemmas.rs
//@@ INCLUDE lib/bigstub.rs
impl Sign {
//@@ SIG rational/sign/base_sign_mul.rs
//@@ SIG rational/sign/base_sign_neg.rs
//@@ SIG rational/sign/base_sign_cmp.rs
}
//@@ INCLUDE lib/gcdo_numhash_stubs.rs
pub mod num_order {
use super::*;
use vstd::arithmetic::div_mod::*;
broadcast use {crate::bigstub::ax_ubig_of, crate::bigstub::ax_ibig_of, crate::bigstub::ax_ubig_nonneg};
//@@ FN float/num_order/repr_num_hash.rs
}
} // verus!
fn main() {}
