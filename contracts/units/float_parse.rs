// unit float_parse: float/src/parse.rs `Repr::<B>::from_str_native` (behind `FBig::from_str` / `FromStr`), C08 "parsing a
// float string yields exactly the written value with the precision implied by the number of written digits" and C16
// (no panic on the covered inputs): for every ASCII text the function either returns Err or a (Repr, digits) pair that
// is the reading of the text under the documented grammar (lib/fio_parse_stubs.rs `grammar`, `ft_mant`, `ft_exp`,
// `ft_prec`), normalised.  The primitive `str` is modelled by an opaque stub type with the contracts of the core::str
// methods on ASCII strings; `UBig::from_str_radix` is seen through its documented contract (positional value).
// (The wrapper `FBig::from_str_native` is unit float_parse_fbig: FN names must be unique inside a unit.)
// The former defect regions (an inner '+', a scale close to isize::MIN) are repaired in the code (proposed_fixes IO2, IO3):
// no exclusion is left but the RESOURCE LIMIT `parse_room` (lib/fio_parse_stubs.rs): the exponent of the leading digit of the
// written value must fit isize, else `Repr::new` (normalisation) overflows the exponent: a documented panic (C16), not modelled.
#![allow(unused_imports, unused_variables, dead_code, non_snake_case, unused_mut, unused_parens, unused_braces, non_camel_case_types, unused_assignments)]
use vstd::prelude::*;
verus! {
global size_of usize == 8;
//@@ INCLUDE lib/round_prelude.rs
//@@ INCLUDE lib/round_int_stubs.rs
pub trait Round: Copy {
    /// ghost: which of the six mode definitions the implementing type stands for
    spec fn md() -> Mode;
}
//@@ INCLUDE lib/round_float_repr.rs
//@@ INCLUDE lib/conv_fbig_stubs.rs
//@@ INCLUDE lib/fio_convbase.rs
use core::ops::{Index, RangeFrom, RangeTo};
use vstd::std_specs::core::IndexSpecImpl;
//@@ INCLUDE lib/fio_parse_stubs.rs
use core::marker::PhantomData;
impl<const B: Word> Repr<B> {
//@@ FN float/parse/repr_from_str_native.rs
}
} // verus!
fn main() {}
