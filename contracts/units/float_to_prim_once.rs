// unit float_to_prim_once: float/src/convert.rs `Context::convert_to_binary_once` (C06: a finite float of any base is
// converted to base 2 with ONE rounding to the context precision p under the context mode R and a truthful flag).
// The conversion itself (`convert_base`, mode Zero, p + 2 digits) is seen through an ASSUMED contract (lib/fp_stubs.rs,
// lib/fp_spec.rs fp_cb_post: exact, or the exact value truncated at the last of >= p + 2 digits); the unit proves that
// the sticky bit placed below the truncated significand makes the single `repr_round` (SIG: unit float_to_prim_round)
// return the rounding of EVERY value in the open interval the truncation leaves (lib/fp_lemmas.rs lemma_fp_sticky_core,
// over integers, all six modes).
// KNOWN FINDING: precondition fp_cb_region (B a power of two or |exponent| <= 38) excludes the ln / exp path of
// convert_base, where the assumed contract is false (see lib/fp_spec.rs).
#![allow(unused_imports, unused_variables, dead_code, non_snake_case, unused_mut, unused_parens, unused_braces)]
use vstd::prelude::*;
verus! {
global size_of usize == 8;   // DESIGN.md section 6: usize is 64-bit in all proofs
//@@ INCLUDE lib/round_prelude.rs
//@@ INCLUDE lib/round_int_stubs.rs
//@@ INCLUDE lib/round_int_addsub_stubs.rs
//@@ INCLUDE lib/round_modes.rs
pub trait Round: Copy {
    /// ghost: which of the six mode definitions the implementing type stands for
    spec fn md() -> Mode;
}
// the mode type used by name in convert_to_binary_once (its `round_low_part` is verified against this definition in
// unit float_round_zero)
impl Round for mode::Zero { open spec fn md() -> Mode { Mode::Zero } }
use mode::Zero;
//@@ INCLUDE lib/round_float_repr.rs
//@@ INCLUDE lib/conv_float.rs
//@@ INCLUDE lib/conv_enc.rs
//@@ INCLUDE lib/conv_float_stubs.rs
//@@ INCLUDE lib/fp_spec.rs
//@@ INCLUDE lib/fp_stubs.rs
//@@ INCLUDE lib/fp_lemmas.rs
use core::marker::PhantomData;
impl<T, E> Approximation<T, E> {
//@@ FN float/mul/approx_value.rs
}
impl<const B: Word> Repr<B> {
//@@ FN float/repr/is_infinite.rs
//@@ FN float/convert/repr_is_finite.rs
}
impl<R: Round> Context<R> {
//@@ FN float/convert/context_new.rs
//@@ SIG float/to_prim/repr_round.rs
//@@ FN float/to_prim/convert_to_binary_once.rs drop_asserts=0
}
} // verus!
fn main() {}
