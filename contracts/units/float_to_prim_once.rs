// unit float_to_prim_once: float/src/convert.rs `Context::convert_to_binary_once` (C06: a finite float of any base is
// converted to base 2 with ONE rounding to the context precision p under the context mode R and a truthful flag).
// No assumption about `convert_base`: the value sig * B^exp = num / den is divided out exactly with >= p + 2 quotient bits,
// a sticky bit below them records a non-zero remainder, and the unit proves that the single `repr_round` (SIG: unit
// float_to_prim_round) of the sticky-extended number is the rounding of the exact value: no p-bit boundary and no
// midpoint lies strictly within one unit of an odd number two or more bits below the rounding position
// (lib/fp_lemmas.rs lemma_fp_sticky_core, over integers, all six modes).  Zero gives Exact(0).
// ASSUMED: the far-range shortcut (|log2 value| beyond 4096 according to the f32 estimate `log2_bounds`) is seen through
// the enclosure the estimate is supposed to give (lib/fp_spec.rs fp_est_lo / fp_est_hi, __f32_guard0 below: lowering rule
// D10, ax_fp_gt_zero); its result is the stand-in +-2^+-4096 (fp_far), stated as such in the contract.  dashu-int operations: lib/fp_stubs.rs.
#![allow(unused_imports, unused_variables, dead_code, non_snake_case, unused_mut, unused_parens, unused_braces)]
use vstd::prelude::*;
verus! {
global size_of usize == 8;   // DESIGN.md section 6: usize is 64-bit in all proofs
//@@ INCLUDE lib/round_prelude.rs
//@@ INCLUDE lib/round_int_stubs.rs
//@@ INCLUDE lib/round_int_addsub_stubs.rs
pub trait Round: Copy {
    /// ghost: which of the six mode definitions the implementing type stands for
    spec fn md() -> Mode;
}
//@@ INCLUDE lib/round_float_repr.rs
//@@ INCLUDE lib/conv_float.rs
//@@ INCLUDE lib/conv_enc.rs
//@@ INCLUDE lib/conv_float_stubs.rs
//@@ INCLUDE lib/fp_spec.rs
//@@ INCLUDE lib/fp_stubs.rs
//@@ INCLUDE lib/fp_lemmas.rs
use core::marker::PhantomData;
// the first float test of convert_to_binary_once (rule D10).  TRUSTED statement about the f32 expression
// `log2_lb > FAR as f32 || log2_ub < -FAR as f32` (FAR = 4096 is exactly representable in f32); the second test
// `log2_lb > 0.` is a native comparison read through lib/fp_spec.rs ax_fp_gt_zero
#[verifier::external_body]
pub fn __f32_guard0(log2_lb: f32, FAR: isize, log2_ub: f32) -> (r: bool)
    ensures r == (fp_f32_gt(log2_lb, FAR as int) || fp_f32_lt(log2_ub, -(FAR as int)))
{ unimplemented!() }
impl<const B: Word> Repr<B> {
//@@ FN float/repr/is_infinite.rs
//@@ FN float/convert/repr_is_finite.rs
//@@ FN float/to_prim/repr_zero.rs
}
impl<R: Round> Context<R> {
//@@ SIG float/to_prim/repr_round.rs
//@@ FN float/to_prim/convert_to_binary_once.rs drop_asserts=0
}
} // verus!
fn main() {}
