// unit int_memsize_gcd_ext_ops: gcd/lehmer.rs memory_requirement_ext_up_to, gcd/mod.rs memory_requirement_ext_exact +
// gcd_ext_in_place under the (FUNCTIONAL +) RESOURCE contract (C12, C13, C16): the Layout computed provides
// ext_need(lhs_len) = 2 (lhs_len + 1) + gneed(ceil(lhs_len / 2)) Words, which is what the kernel gcd_ext_in_place needs
// (PROVED in int_memsize_gcd_ext; //@@ SIG here).
// (Until the repair 914fd28 -- `lhs_len / 2` -> `(lhs_len + 1) / 2` -- this unit FAILED: the final cofactor product can have
// lhs_len + 1 words; ConstDivisor::new(2^3072 + 12345 * 2^1536 + 3).reduce(2^1536 + 12345).inv() panicked.)
// The callers are in int_memsize_moddiv (modular/div.rs inv_large) and int_memsize_gcd_ext_large (gcd_ops.rs gcd_ext_large).
#![allow(unused_imports, unused_variables, dead_code, non_snake_case, unused_mut, unused_parens, unused_braces)]
use vstd::prelude::*;
use core::cmp::Ordering;
verus! {
//@@ INCLUDE lib/prelude.rs
//@@ INCLUDE lib/sign.rs
//@@ INCLUDE lib/div_dword_stubs.rs
//@@ INCLUDE lib/mem_layout_@BITS@.rs
//@@ INCLUDE lib/mem_model.rs
//@@ INCLUDE lib/mem_need.rs
//@@ INCLUDE lib/mem_req_stubs.rs
//@@ INCLUDE lib/mem_chunk_spec.rs
//@@ INCLUDE lib/mem_div_spec.rs
//@@ INCLUDE lib/mem_leh_ext_stubs.rs
pub mod mul {
use super::*;
//@@ SIG integer/memsize/mul_req_up_to.rs
}
pub mod div {
use super::*;
//@@ SIG integer/memsize/div_req.rs
}
pub mod gcd {
use super::*;
pub mod lehmer {
use super::super::*;
//@@ FN integer/memsize/leh_ext_req.rs
//@@ SIG integer/memsize/gcd_ext_in_place.rs
}
//@@ FN integer/memsize/gcd_mod_ext_req.rs
//@@ FN integer/memsize/gcd_mod_gcd_ext_in_place.rs
}
} // verus!
fn main() {}
