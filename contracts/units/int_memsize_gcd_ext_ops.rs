// unit int_memsize_gcd_ext_ops (NOT REGISTERED: it FAILS on the unchanged tree, that is the genuine defect proposed_fixes/MEM2):
// gcd/lehmer.rs memory_requirement_ext_up_to, gcd/mod.rs memory_requirement_ext_exact + gcd_ext_in_place under the
// (FUNCTIONAL +) RESOURCE contract: the Layout computed provides ext_need(lhs_len) = 2 (lhs_len + 1) + gneed(ceil(lhs_len / 2))
// Words, which is what the kernel gcd_ext_in_place needs (PROVED in int_memsize_gcd_ext; //@@ SIG here).
// The annotated copy of lehmer::memory_requirement_ext_up_to is written for the REPAIRED text (`(lhs_len + 1) / 2`): verify with
// `python3 -m engine.dev int_memsize_gcd_ext_ops.rs --repo <tree with proposed_fixes/MEM2/patch.diff applied>`; on the unchanged
// tree the contract is transplanted onto `lhs_len / 2` and the proof fails.  Register under C12 / C13 / C16 once repaired.
// The callers gcd_ops.rs gcd_ext_large (allocation = clones + max(gcd_mem, post_mem)) and modular/div.rs inv_large (allocation =
// exactly memory_requirement_ext_exact: where the defect shows) are not yet under a resource contract.
#![allow(unused_imports, unused_variables, dead_code, non_snake_case, unused_mut, unused_parens, unused_braces)]
use vstd::prelude::*;
use core::cmp::Ordering;
verus! {
//@@ INCLUDE lib/prelude.rs
//@@ INCLUDE lib/sign.rs
//@@ INCLUDE lib/div_dword_stubs.rs
//@@ INCLUDE lib/mem_layout_@BITS@.rs
//@@ INCLUDE lib/mem_model.rs
//@@ INCLUDE lib/mem_need.rs
//@@ INCLUDE lib/mem_req_stubs.rs
//@@ INCLUDE lib/mem_chunk_spec.rs
//@@ INCLUDE lib/mem_div_spec.rs
//@@ INCLUDE lib/mem_leh_ext_stubs.rs
pub mod mul {
use super::*;
//@@ SIG integer/memsize/mul_req_up_to.rs
}
pub mod div {
use super::*;
//@@ SIG integer/memsize/div_req.rs
}
pub mod gcd {
use super::*;
pub mod lehmer {
use super::super::*;
//@@ FN integer/memsize/leh_ext_req.rs
//@@ SIG integer/memsize/gcd_ext_in_place.rs
}
//@@ FN integer/memsize/gcd_mod_ext_req.rs
//@@ FN integer/memsize/gcd_mod_gcd_ext_in_place.rs
}
} // verus!
fn main() {}
