// unit int_fmt_e2e: integer/src/fmt/non_power_two.rs InRadixWriter::fmt_non_power_two END TO END (C07, non-power-of-two
// radix): whatever the size of the magnitude, the formatter receives sign, prefix and exactly the positional digits of the
// magnitude (no leading zero except for zero itself), padded as requested.  The callees are seen through the contracts
// PROVED in units int_fmt_digits (PreparedWord::new), int_fmt_dword (PreparedDword::new), int_fmt_medium_lead
// (PreparedMedium::new), int_fmt_large_new (PreparedLarge::new), int_fmt_layout (format_prepared), int_fmt_dispatch
// (TypedReprRef::len), int_div_ops (shrink_dword) -- //@@ SIG from the same annotated copies.
// Trusted: lib/fmtl_e2e.rs (the four trait impls: link between the trait contract and the concrete proved contracts),
// lib/fmtl_fmt_stubs.rs (Formatter / DigitWriter model), lib/fmtl_stubs.rs, lib/codecs_fmt_stubs.rs.
#![allow(unused_imports, unused_variables, dead_code, non_snake_case, unused_mut, unused_parens, unused_braces)]
use vstd::prelude::*;
use vstd::string::*;
verus! {
//@@ INCLUDE lib/prelude.rs
//@@ INCLUDE lib/shift_bv.rs
//@@ INCLUDE lib/div_word_stubs.rs
//@@ INCLUDE lib/codecs_fmt_stubs.rs
//@@ INCLUDE lib/codecs_digit_lemmas.rs
//@@ INCLUDE lib/fmtl_fmt_stubs.rs
//@@ INCLUDE lib/fmtl_stubs.rs
//@@ INCLUDE lib/fmtl_lemmas.rs
//@@ INCLUDE lib/fmtl_e2e.rs
pub use repr_ref::TypedReprRef::*;
//@@ SIG integer/primitive/shrink_dword.rs
impl PreparedWord {
//@@ SIG integer/fmt_npt/word_new.rs
}
impl PreparedDword {
//@@ SIG integer/fmt_large/dword_new.rs
}
impl PreparedMedium {
//@@ SIG integer/fmt_large/medium_new_lead.rs
}
impl PreparedLarge {
//@@ SIG integer/fmt_large/large_new.rs
}
impl<'a> TypedReprRef<'a> {
//@@ SIG integer/fmt_npt/typedref_len.rs
}
impl<'a> InRadixWriter<'a> {
//@@ SIG integer/fmt_large/format_prepared.rs
//@@ FN integer/fmt_large/fmt_non_power_two_e2e.rs drop_asserts=0
}
} // verus!
fn main() {}
