// unit ratio_cmp: rational/src/cmp.rs `repr_eq`, `repr_cmp` (the functions behind ==, cmp, abs_eq, abs_cmp of Relaxed and
// cmp / abs_cmp of RBig) (C05): the result is the equality / order of the cross products for ANY positive
// denominators (reduced or not); the bit-length shortcuts are proved sound from the enclosure 2^(k-1) <= |x| < 2^k.
#![allow(unused_imports, unused_variables, dead_code, non_snake_case, unused_mut, unused_parens, unused_braces)]
use vstd::prelude::*;
use vstd::arithmetic::power2::pow2;
use core::cmp::Ordering;
use core::ops::{Add, Sub, Mul, Div, Rem};
verus! {
//@@ INCLUDE lib/ratio_lemmas.rs
//@@ INCLUDE lib/bigstub.rs
impl Sign {
// base/src/sign.rs: proved in unit ratio_ops / ratio_reduce, here seen through their contracts
//@@ SIG rational/sign/base_sign_mul.rs
//@@ SIG rational/sign/base_sign_neg.rs
//@@ SIG rational/sign/base_sign_cmp.rs
}
//@@ INCLUDE lib/ratio_types.rs
//@@ INCLUDE lib/ratio2_cmp_stubs.rs
//@@ INCLUDE lib/ratio2_unique_lemmas.rs
//@@ INCLUDE lib/ratio2_cmp_lemmas.rs
//@@ FN rational/cmp/repr_eq.rs
//@@ FN rational/cmp/repr_cmp.rs
} // verus!
fn main() {}
