// unit float_cmp: float/src/cmp.rs `repr_cmp_same_base` (C05 float clause: cmp / == follow the mathematical value) and
// the `Ord` / `PartialOrd` / `PartialEq` / `AbsOrd` impls of Repr and FBig that dispatch to it.  The precision shortcut
// (case 4) and the `digits_ub` shortcut (case 5) are proved SOUND from "at most p+1 digits at precision p" resp. the
// ASSUMED enclosure of the f32 estimate `digits_ub` (stub in farith_add_stubs.rs).
#![allow(unused_imports, unused_variables, dead_code, non_snake_case, unused_mut, unused_parens, unused_braces)]
use vstd::prelude::*;
verus! {
//@@ INCLUDE lib/round_prelude.rs
//@@ INCLUDE lib/round_int_stubs.rs
//@@ INCLUDE lib/round_int_addsub_stubs.rs
pub trait Round: Copy {
    /// ghost: which of the six mode definitions the implementing type stands for
    spec fn md() -> Mode;
}
//@@ INCLUDE lib/round_float_repr.rs
//@@ INCLUDE lib/conv_fbig_stubs.rs
//@@ INCLUDE lib/farith_repr_stubs.rs
//@@ INCLUDE lib/farith_lemmas.rs
//@@ INCLUDE lib/farith_add_stubs.rs
//@@ INCLUDE lib/farith_add_lemmas.rs
//@@ INCLUDE lib/farith_cmp_lemmas.rs
global size_of usize == 8;   // DESIGN.md section 6: usize is 64-bit in all proofs
impl<const B: Word> Repr<B> {
//@@ FN float/repr/is_infinite.rs
}
//@@ FN float/cmp/repr_cmp_same_base.rs
//@@ FN float/cmp/repr_ord_cmp.rs
//@@ FN float/cmp/fbig_partial_cmp.rs
//@@ FN float/cmp/fbig_ord_cmp.rs
//@@ FN float/cmp/fbig_abs_cmp.rs
//@@ FN float/cmp/fbig_eq.rs
} // verus!
fn main() {}
