// unit int_fmt_dword: integer/src/fmt/non_power_two.rs PreparedDword::new (C07): the digits stored for a double word
// (three parts separated by range_per_word, each printed through the closure `get_digit`) are exactly its positional
// digits in the radix, without a leading zero; PreparedDword::write passes exactly these digits on.
// Trusted: lib/codecs_fmt_stubs.rs (struct mirrors, radix_info, num_modular PreMulInv1by1::div_rem),
// lib/div_word_stubs.rs (num_modular Normalized2by1Divisor::div_rem_2by1); shl_dword / double_word are seen through the
// contracts PROVED in units int_shift / int_prim (//@@ SIG); rule D24 (closure inlining, engine/lower.py).
#![allow(unused_imports, unused_variables, dead_code, non_snake_case, unused_mut, unused_parens, unused_braces)]
use vstd::prelude::*;
verus! {
//@@ INCLUDE lib/prelude.rs
//@@ INCLUDE lib/shift_bv.rs
//@@ INCLUDE lib/div_word_stubs.rs
//@@ INCLUDE lib/div_word_lemmas.rs
//@@ INCLUDE lib/codecs_fmt_stubs.rs
//@@ INCLUDE lib/codecs_digit_lemmas.rs
//@@ INCLUDE lib/fmtl_dword_lemmas.rs
//@@ INCLUDE lib/codecs_writer_stub.rs
//@@ SIG integer/math/shl_dword.rs
//@@ SIG integer/primitive/double_word.rs
impl PreparedDword {
//@@ FN integer/fmt_large/dword_new.rs drop_asserts=0
}
// PreparedDword::write: passes exactly digits[start_index..] to the digit writer
//@@ FN integer/fmt_large/dword_write.rs
} // verus!
fn main() {}
