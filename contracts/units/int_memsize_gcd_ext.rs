// unit int_memsize_gcd_ext: integer/src/gcd/lehmer.rs gcd_ext_in_place under its FUNCTIONAL + RESOURCE contract (C12 / C16):
// the proof of int_leh_gcd_ext (same annotations) over the capacity-tracking Memory of lib/mem_model.rs, plus: a scratch chunk
// of ext_need(|lhs|) = 2 (|lhs| + 1) + gneed(ceil(|lhs| / 2)) Words is enough for the two cofactor buffers, every Euclidean
// division and every cofactor product (their length bound |lhs| + 1 comes from the value invariant lhs == T1 x + T0 y).
// The division and mul::add_signed_mul are seen through the conjunction of their functional and resource contracts.
// NOTE: the CALLERS' sizing lehmer::memory_requirement_ext_up_to reserves mul::memory_requirement_up_to(lhs_len, lhs_len / 2)
// = gneed(FLOOR(lhs_len / 2)) for the products: genuine defect for odd lhs_len at the thresholds (proposed_fixes/MEM2).
// Trusted: as int_leh_gcd_ext (lib/mem_leh_ext_stubs.rs = lib/leh_ext_stubs.rs without its opaque Memory) + lib/mem_model.rs.
#![allow(unused_imports, unused_variables, dead_code, non_snake_case, unused_mut, unused_parens, unused_braces)]
use vstd::prelude::*;
use core::cmp::Ordering;
verus! {
//@@ INCLUDE lib/prelude.rs
//@@ INCLUDE lib/sign.rs
//@@ INCLUDE lib/div_dword_stubs.rs
//@@ INCLUDE lib/mem_layout_@BITS@.rs
//@@ INCLUDE lib/mem_model.rs
//@@ INCLUDE lib/mem_need.rs
//@@ INCLUDE lib/mem_req_stubs.rs
//@@ INCLUDE lib/mem_chunk_spec.rs
//@@ INCLUDE lib/mem_div_spec.rs
//@@ INCLUDE lib/shift_bv.rs
//@@ INCLUDE lib/mem_leh_ext_stubs.rs
//@@ INCLUDE lib/leh_guess_lemmas.rs
//@@ INCLUDE lib/leh_step_lemmas.rs
//@@ INCLUDE lib/leh_top_lemmas.rs
//@@ INCLUDE lib/leh_gcd_lemmas.rs
//@@ INCLUDE lib/leh_ext_lemmas.rs
//@@ SIG integer/modular2/locate_top_word_plus_one.rs
pub mod div {
use super::*;
// contracts PROVED in unit int_div_ops
//@@ SIG integer/div_glue/normalize.rs
// functional contract (int_div_ops) AND resource contract (int_memsize_div)
//@@ SIG integer/div_glue/div_rem_unshifted_in_place.rs and=integer/memsize/div_rem_unshifted.rs
// contract PROVED in unit int_div_word
//@@ SIG integer/div/div_by_word_in_place.rs
}
pub mod shift {
use super::*;
// contract PROVED in unit int_shift
//@@ SIG integer/shift/shr_in_place.rs
}
pub mod mul {
use super::*;
// contracts PROVED in units int_mul_dispatch / int_mul
// functional contract (int_mul_dispatch) AND resource contract (int_memsize_dispatch)
//@@ SIG integer/mul_algos/add_signed_mul.rs and=integer/memsize/disp_add_signed_mul.rs
//@@ SIG integer/mul/add_mul_word_in_place.rs
}
pub mod gcd {
pub mod lehmer {
use super::super::*;
use super::super::cmp::cmp_in_place;
use core::mem;
//@@ CONST integer/lehmer/min_dword_guess_len.rs
// contracts PROVED in units int_leh_guess, int_leh_top, int_leh_step
//@@ SIG integer/lehmer/lehmer_guess.rs
//@@ SIG integer/lehmer/lehmer_guess_dword.rs
//@@ SIG integer/lehmer/highest_word_normalized.rs
//@@ SIG integer/lehmer/highest_dword_normalized.rs
//@@ SIG integer/lehmer/trim_leading_zeros.rs
//@@ SIG integer/lehmer/lehmer_step.rs
//@@ SIG integer/lehmer/lehmer_ext_step.rs
// debug assertion #0 `cmp_in_place(lhs, rhs).is_ge()` is an exec call: dropped (it is the precondition val(lhs) > val(rhs))
//@@ FN integer/memsize/gcd_ext_in_place.rs drop_asserts=0
}
}
} // verus!
fn main() {}
