// unit int_div_ops_zero: "division by zero panics" for the representation-level entry points of integer/src/div_ops.rs
// (`must_panic` variants, rule D4: with divisor == 0 no normal return is possible) (C02, C16).
// Trusted: lib/repr_stubs.rs; `panic_divide_by_0() -> !` never returns (it is `panic!`).
#![allow(unused_imports, unused_variables, dead_code, non_snake_case, unused_mut, unused_parens, unused_braces)]
use vstd::prelude::*;
verus! {
//@@ INCLUDE lib/prelude.rs
//@@ INCLUDE lib/sign.rs
//@@ INCLUDE lib/repr_stubs.rs
//@@ INCLUDE lib/div_ops_lemmas.rs
//@@ SIG integer/primitive/split_dword.rs
//@@ SIG integer/div_ops_repr/shrink_dword.rs
pub mod error {
use super::*;
//@@ SIG integer/div_ops_repr/panic_divide_by_0.rs variant=must_panic
}
pub mod div {
use super::*;
//@@ SIG integer/div/div_by_word_in_place.rs
//@@ SIG integer/div/div_by_dword_in_place.rs
//@@ SIG integer/div/rem_by_word.rs
//@@ SIG integer/div/rem_by_dword.rs
}
pub mod div_ops {
pub mod repr {
use super::super::*;
use super::super::error::panic_divide_by_0;
broadcast use super::super::buffer_stub::ax_buffer_inv;
//@@ FN integer/div_ops_repr/div_rem_dword.rs variant=must_panic
//@@ FN integer/div_ops_repr/div_dword.rs variant=must_panic
//@@ FN integer/div_ops_repr/rem_dword.rs variant=must_panic
//@@ FN integer/div_ops_repr/div_rem_large_dword.rs variant=must_panic
//@@ FN integer/div_ops_repr/rem_large_dword.rs variant=must_panic
}
}
} // verus!
fn main() {}
