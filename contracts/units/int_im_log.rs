// unit int_im_log: integer/src/log.rs `mod repr` TypedReprRef::log (behind UBig::ilog / IBig::ilog; C12, C16): the dispatch over
// (Small | Large) x (Small | Large) with the base-2 and power-of-two-base shortcuts (bit_len arithmetic), the "smaller than the
// base" / "equal to the base" cases and the forwarding to log_dword (PROVED in unit int_log), log_word_base (unit
// int_im_log_word), log_large (unit int_im_log_large) -- all through //@@ SIG of their annotated copies:
//     ret.0 = e with base^e <= self < base^(e+1);   the documented panics (self == 0, base < 2) are the precondition;
// and the public entry points UBig::ilog / IBig::ilog (magnitude of the IBig) on top of it.
// Trusted: lib/im_log_stubs.rs (bit_len, set_bit, cmp_in_place), lib/im_log_dw_stubs.rs (u128::is_power_of_two / trailing_zeros).
#![allow(unused_imports, unused_variables, dead_code, non_snake_case, unused_mut, unused_parens, unused_braces)]
use vstd::prelude::*;
verus! {
//@@ INCLUDE lib/prelude.rs
//@@ INCLUDE lib/sign.rs
//@@ INCLUDE lib/repr_stubs.rs
//@@ INCLUDE lib/shift_bv.rs
//@@ INCLUDE lib/dispatch_lemmas.rs
//@@ INCLUDE lib/pow_lemmas.rs
//@@ INCLUDE lib/pow_api_stubs.rs
//@@ INCLUDE lib/pow_api_lemmas.rs
//@@ INCLUDE lib/gcdo_log_stubs.rs
//@@ INCLUDE lib/im_log_stubs.rs
//@@ INCLUDE lib/im_log_dw_stubs.rs
//@@ SIG integer/primitive/shrink_dword.rs
//@@ SIG integer/primitive/split_dword.rs
pub mod log {
pub mod repr {
use super::super::*;
use super::super::cmp::cmp_in_place;
use core::cmp::Ordering;
broadcast use {crate::buffer_stub::ax_buffer_inv, crate::repr_stub::ax_repr_of};
//@@ SIG integer/log/log_dword.rs
//@@ SIG integer/intmisc/log_word_base.rs
//@@ SIG integer/intmisc/log_large.rs
//@@ FN integer/intmisc/typedref_log.rs
// D2 link: `x.log(base)` on a TypedReprRef is the hoisted method verified above
impl<'a> TypedReprRef<'a> {
    pub fn log(self, base: TypedReprRef<'_>) -> (r: (usize, Repr))
        requires self.wf(), base.wf(), self.v() != 0, base.v() >= 2,
            6 * self.nwords() <= max_capacity(), im_bits() * self.nwords() < max_capacity(),
        ensures im_is_log(base.v(), self.v(), r.0 as int),
    { typedref_log(self, base) }
}
}
}
// integer/src/log.rs UBig::ilog / IBig::ilog (the public API)
//@@ FN integer/intmisc/ubig_ilog.rs
//@@ FN integer/intmisc/ibig_ilog.rs
} // verus!
fn main() {}
