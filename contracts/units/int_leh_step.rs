// unit int_leh_step: integer/src/gcd/lehmer.rs lehmer_step, lehmer_ext_step (C12): the word-level application of a Lehmer
// cofactor matrix, value-level:  (x, y) <- (a x - b y, d y - c x)  resp. the cofactor update (t0, t1) <- (a t0 + b t1, c t0 + d t1)
// with carry words.  primitive.rs signed_extend_word / split_signed_dword / extend_word / split_dword are verified here too.
// No trusted stubs.
#![allow(unused_imports, unused_variables, dead_code, non_snake_case, unused_mut, unused_parens, unused_braces)]
use vstd::prelude::*;
verus! {
//@@ INCLUDE lib/prelude.rs
//@@ INCLUDE lib/word_bv_@BITS@.rs
//@@ INCLUDE lib/leh_bv_@BITS@.rs
//@@ INCLUDE lib/leh_step_lemmas.rs
pub mod primitive {
use super::*;
//@@ INCLUDE lib/leh_prim_spec.rs
//@@ FN integer/lehmer/signed_extend_word.rs
//@@ FN integer/lehmer/split_signed_dword.rs
//@@ SIG integer/primitive/extend_word.rs
//@@ SIG integer/primitive/split_dword.rs
}
pub mod gcd {
pub mod lehmer {
use super::super::*;
use super::super::primitive::*;
//@@ FN integer/lehmer/lehmer_step.rs
//@@ FN integer/lehmer/lehmer_ext_step.rs
}
}
} // verus!
fn main() {}
