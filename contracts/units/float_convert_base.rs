// unit float_convert_base: float/src/convert.rs `Context::convert_base`, the INTEGER-ONLY shortcuts (C08 "changing base is
// exact whenever the value is representable in the target precision and otherwise errs by less than one unit in the last
// place on the side required by the rounding mode, with a truthful Exact/Inexact flag"): same base, infinities, NewB a
// power of B (exact re-basing + one `repr_round`), B a power of NewB (exact re-basing, normalised).  The general path
// (ln / exp at doubled precision, f32 estimates) is cut off (rule D20) and proved unreachable under the precondition.
// Since proposed_fixes IO1 every shortcut ends in repr_round: no "value fits the target precision" exclusion is left.
// Also the public wrapper `FBig::with_base_and_precision` (context of the requested precision, result tagged with it).
// Trusted: lib/fio_convbase.rs (u64::pow, isize div_rem_euclid, IBig * Word), lib/round_float_repr.rs (Repr::new).
#![allow(unused_imports, unused_variables, dead_code, non_snake_case, unused_mut, unused_parens, unused_braces)]
use vstd::prelude::*;
verus! {
global size_of usize == 8;
//@@ INCLUDE lib/round_prelude.rs
//@@ INCLUDE lib/round_int_stubs.rs
pub trait Round: Copy {
    /// ghost: which of the six mode definitions the implementing type stands for
    spec fn md() -> Mode;
}
//@@ INCLUDE lib/round_float_repr.rs
//@@ INCLUDE lib/conv_fbig_stubs.rs
//@@ INCLUDE lib/fio_convbase.rs
//@@ INCLUDE lib/fio_cut_tail.rs
//@@ SIG float/convbase/ilog_exact.rs
impl<const B: Word> Repr<B> {
//@@ SIG float/repr/is_infinite.rs
}
use core::marker::PhantomData;
impl<T, E> Approximation<T, E> {
//@@ SIG base/approx/map.rs
}
impl<R: Round> Context<R> {
//@@ SIG float/convert/context_new.rs
//@@ SIG float/repr/repr_round.rs
//@@ FN float/convbase/convert_base.rs
}
impl<R: Round, const B: Word> FBig<R, B> {
//@@ SIG float/fbig/new.rs
//@@ FN float/convbase/with_base_and_precision.rs
}
} // verus!
fn main() {}
