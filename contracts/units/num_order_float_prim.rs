// unit num_order_float_prim: float/src/third_party/num_order.rs macro `impl_num_ord_with_float` -- NumOrd<f32 / f64> for Repr<B>
// of any base B >= 2 (C14), instantiated for $t = f32 and $t = f64 (rule E3b), the mirrored `NumOrd<Repr<B>> for f32 / f64` and
// the FBig forwarding impls: NaN incomparable, zeros, signs, infinities on either side, the bit-length shortcuts (step 3 "bigger
// than every finite float", step 4) PROVED from exact power-of-two enclosures (no f32 estimate is involved in this function),
// and the exact comparison.  Primitive floats are seen through the abstract model of lib/gcdo_numord_stubs.rs.
#![allow(unused_imports, unused_variables, dead_code, non_snake_case, unused_mut, unused_parens, unused_braces)]
use vstd::prelude::*;
use vstd::arithmetic::power2::pow2;
use core::cmp::Ordering;
use core::ops::{Add, Sub, Mul, Div, Rem};
verus! {
global size_of usize == 8;
//@@ INCLUDE lib/ratio_lemmas.rs
//@@ INCLUDE lib/bigstub.rs
impl Sign {
//@@ SIG rational/sign/base_sign_mul.rs
//@@ SIG rational/sign/base_sign_neg.rs
//@@ SIG rational/sign/base_sign_cmp.rs
}
//@@ INCLUDE lib/ratio2_cmp_stubs.rs
//@@ INCLUDE lib/gcdo_numord_stubs.rs
//@@ INCLUDE lib/no_ipw.rs
//@@ INCLUDE lib/no_ord_stubs.rs
//@@ INCLUDE lib/no_float_stubs.rs
//@@ INCLUDE lib/no_frac_lemmas.rs
//@@ INCLUDE lib/no_prim_stubs.rs
//@@ INCLUDE lib/no_float_prim_stubs.rs
//@@ INCLUDE lib/no_numord_trait.rs
impl<const B: Word> Repr<B> {
//@@ FN float/repr/is_infinite.rs
//@@ FN float/numorder2/repr_is_zero.rs
//@@ FN float/numorder2/repr_sign.rs
}
pub mod repr_f32 {
use super::*;
broadcast use {crate::bigstub::ax_ubig_of, crate::bigstub::ax_ibig_of, crate::bigstub::ax_ubig_nonneg};
//@@ FN float/numorder2/repr_cmp_prim_float.rs variant=f32 msubst=t:f32
// glue (verified one-liners): the trait impls that the forwarding impls call by method syntax
impl<const B: Word> NumOrd<f32> for Repr<B> {
    open spec fn npc_req(&self, other: &f32) -> bool {
        fp_pre(B as int, self.exponent as int)
    }
    open spec fn npc_spec(&self, other: &f32) -> Option<Ordering> {
        cmp_repr_prim(self.significand.v(), B as int, self.exponent as int,
            f32_nan(*other), f32_inf(*other), f32_neg(*other), f32_man(*other), f32_exp(*other))
    }
    fn num_partial_cmp(&self, other: &f32) -> (r: Option<Ordering>) { repr_cmp_prim_float(self, other) }
    // default method of num-order (TRUSTED): `self.num_partial_cmp(other).unwrap()`
    #[verifier::external_body]
    fn num_cmp(&self, other: &f32) -> (r: Ordering) { unimplemented!() }
}
//@@ FN float/numorder2/prim_float_cmp_repr.rs variant=f32 msubst=t:f32
impl<const B: Word> NumOrd<Repr<B>> for f32 {
    open spec fn npc_req(&self, other: &Repr<B>) -> bool { other.npc_req(self) }
    open spec fn npc_spec(&self, other: &Repr<B>) -> Option<Ordering> {
        cmp_prim_repr(f32_nan(*self), f32_inf(*self), f32_neg(*self), f32_man(*self), f32_exp(*self),
            other.significand.v(), B as int, other.exponent as int)
    }
    fn num_partial_cmp(&self, other: &Repr<B>) -> (r: Option<Ordering>) { prim_float_cmp_repr(self, other) }
    // default method of num-order (TRUSTED): `self.num_partial_cmp(other).unwrap()`
    #[verifier::external_body]
    fn num_cmp(&self, other: &Repr<B>) -> (r: Ordering) { unimplemented!() }
}
//@@ FN float/numorder2/fwd_fbig_t_cmp.rs msubst=t:f32
//@@ FN float/numorder2/fwd_fbig_t_pcmp.rs msubst=t:f32
//@@ FN float/numorder2/fwd_t_fbig_cmp.rs variant=f32 msubst=t:f32
//@@ FN float/numorder2/fwd_t_fbig_pcmp.rs variant=f32 msubst=t:f32
}
pub mod repr_f64 {
use super::*;
broadcast use {crate::bigstub::ax_ubig_of, crate::bigstub::ax_ibig_of, crate::bigstub::ax_ubig_nonneg};
//@@ FN float/numorder2/repr_cmp_prim_float.rs variant=f64 msubst=t:f64
// glue (verified one-liners): the trait impls that the forwarding impls call by method syntax
impl<const B: Word> NumOrd<f64> for Repr<B> {
    open spec fn npc_req(&self, other: &f64) -> bool {
        fp_pre(B as int, self.exponent as int)
    }
    open spec fn npc_spec(&self, other: &f64) -> Option<Ordering> {
        cmp_repr_prim(self.significand.v(), B as int, self.exponent as int,
            f64_nan(*other), f64_inf(*other), f64_neg(*other), f64_man(*other), f64_exp(*other))
    }
    fn num_partial_cmp(&self, other: &f64) -> (r: Option<Ordering>) { repr_cmp_prim_float(self, other) }
    // default method of num-order (TRUSTED): `self.num_partial_cmp(other).unwrap()`
    #[verifier::external_body]
    fn num_cmp(&self, other: &f64) -> (r: Ordering) { unimplemented!() }
}
//@@ FN float/numorder2/prim_float_cmp_repr.rs variant=f64 msubst=t:f64
impl<const B: Word> NumOrd<Repr<B>> for f64 {
    open spec fn npc_req(&self, other: &Repr<B>) -> bool { other.npc_req(self) }
    open spec fn npc_spec(&self, other: &Repr<B>) -> Option<Ordering> {
        cmp_prim_repr(f64_nan(*self), f64_inf(*self), f64_neg(*self), f64_man(*self), f64_exp(*self),
            other.significand.v(), B as int, other.exponent as int)
    }
    fn num_partial_cmp(&self, other: &Repr<B>) -> (r: Option<Ordering>) { prim_float_cmp_repr(self, other) }
    // default method of num-order (TRUSTED): `self.num_partial_cmp(other).unwrap()`
    #[verifier::external_body]
    fn num_cmp(&self, other: &Repr<B>) -> (r: Ordering) { unimplemented!() }
}
//@@ FN float/numorder2/fwd_fbig_t_cmp.rs msubst=t:f64
//@@ FN float/numorder2/fwd_fbig_t_pcmp.rs msubst=t:f64
//@@ FN float/numorder2/fwd_t_fbig_cmp.rs variant=f64 msubst=t:f64
//@@ FN float/numorder2/fwd_t_fbig_pcmp.rs variant=f64 msubst=t:f64
}
} // verus!
fn main() {}
