// unit ratio_sf_ebounds (C18): float/src/round.rs `impl ErrorBounds for mode::{Zero, Away, Up, Down, HalfAway, HalfEven}`
// against the contract of units float_error_bounds / float_error_bounds_halfeven (eb_post: EXACTLY the reals that round to
// f) STRENGTHENED by the shape of the two bounds (lib/sf_shape.rs: one-digit significand, precision of f), which the
// caller `RBig::simplest_from_float` (unit ratio_simplest_from_float) needs for `bound.with_precision(p + 1).unwrap()`
// and for the exactness of `f - bound` / `f + bound`.  Own annotated copies (annot/rational/simplestf/eb_*.rs) of the same
// six real functions; the helpers are seen through the contracts they are proved against in unit float_error_bounds.
#![allow(unused_imports, unused_variables, dead_code, non_snake_case, unused_mut, unused_parens, unused_braces)]
use vstd::prelude::*;
verus! {
//@@ INCLUDE lib/round_prelude.rs
//@@ INCLUDE lib/round_int_stubs.rs
//@@ INCLUDE lib/round_modes.rs
pub trait Round: Copy {
    /// ghost: which of the six mode definitions the implementing type stands for
    spec fn md() -> Mode;
}
impl Round for mode::Zero { open spec fn md() -> Mode { Mode::Zero } }
impl Round for mode::Away { open spec fn md() -> Mode { Mode::Away } }
impl Round for mode::Up { open spec fn md() -> Mode { Mode::Up } }
impl Round for mode::Down { open spec fn md() -> Mode { Mode::Down } }
impl Round for mode::HalfAway { open spec fn md() -> Mode { Mode::HalfAway } }
impl Round for mode::HalfEven { open spec fn md() -> Mode { Mode::HalfEven } }
//@@ INCLUDE lib/round_float_repr.rs
//@@ INCLUDE lib/conv_fbig_stubs.rs
//@@ INCLUDE lib/ebounds_stubs.rs
//@@ INCLUDE lib/ebounds_lemmas.rs
//@@ INCLUDE lib/sf_shape.rs
use core::marker::PhantomData;
impl<const B: Word> Repr<B> {
//@@ SIG float/repr/is_infinite.rs
//@@ SIG float/repr/digits.rs
//@@ SIG float/ebounds/repr_is_zero.rs
//@@ SIG float/ebounds/repr_sign.rs
}
impl<R: Round, const B: Word> FBig<R, B> {
//@@ SIG float/ebounds/fbig_precision.rs
//@@ SIG float/ebounds/fbig_repr.rs
//@@ SIG float/ebounds/fbig_ulp.rs
}
//@@ SIG float/ebounds/is_power_of_base.rs
//@@ SIG float/ebounds/ulp_towards_zero.rs
//@@ FN rational/simplestf/eb_zero.rs
//@@ FN rational/simplestf/eb_away.rs
//@@ FN rational/simplestf/eb_up.rs
//@@ FN rational/simplestf/eb_down.rs
//@@ FN rational/simplestf/eb_halfaway.rs
//@@ FN rational/simplestf/eb_halfeven.rs
} // verus!
fn main() {}
