// unit base_cbrt (C12): the PRIMITIVE cube-root algorithms of dashu-base, proved UNBOUNDED:
//   base/src/ring/root.rs   macro fix_cbrt_error (correction loop, inlined by rule E3d from its own annotated copy);
//                           <u32 / u64 as NormalizedRootRem>::normalized_cbrt_rem (table RCBRT_TAB + Newton steps + margins `r - 10` / `r - 1`)
//                           <u128 as NormalizedRootRem>::normalized_cbrt_rem (root of the high 62 bits by the u64 routine, one division step,
//                             downward adjustment loop)
//                           impl_rootrem_using_normalized: CubicRootRem::cbrt_rem for u32, u64, u128 (normalising shift, a multiple of 3)
//   base/src/math/root.rs   impl_root_using_rootrem: CubicRoot::cbrt for u32, u64, u128
//   base/src/ring/div_rem.rs impl_div_rem_ops_prim: DivRem::div_rem for u128
// Postconditions (property statement): cbrt_rem / normalized_cbrt_rem: c^3 + r == n and r <= 3c^2 + 3c (<==> c^3 <= n < (c+1)^3: root
// truncated toward zero, remainder value - root^3);  cbrt: c^3 <= n < (c+1)^3.  No overflow / underflow anywhere, termination.
// TWO explicit assumptions (lib/basering_cbrt_est.rs, TRUSTED): axiom_br_cb64_estimate (`br_cb64_ok(h)` for every high word h = n >> 32
// in [2^29, 2^32): the u64 estimate depends on h only) and axiom_br_cb32_estimate (`br_cb32_ok(n)` for every u32 n >= 2^29): the
// closed-form integer descriptions of the table/Newton estimate chains neither over- nor underflow and yield c with c^3 <= n.
// Established by exhaustive native enumeration (`tools/base_root_exhaust.rs cbrt64` / `cbrt32`), not by Verus.  Verus proves that the
// machine code computes those integers on the REAL table (entry-wise equal to the pinned copy), the correction loop, the whole u128
// routine and the wrappers.  Other trusted items: u64/u128::leading_zeros etc. as in unit base_root; wmul32_hi / wmul16_hi are
// //@@ SIG of the copies proved in unit base_root.  The debug assertions `self.leading_zeros() <= 2` (exec call: drop_asserts=0)
// are proved in spec form right in front of them.
#![allow(unused_imports, unused_variables, dead_code, non_snake_case, unused_mut, unused_parens, unused_braces)]
use vstd::prelude::*;
use vstd::arithmetic::power2::pow2;
verus! {
//@@ INCLUDE lib/div_dword_bits_64.rs
//@@ INCLUDE lib/basering_bits.rs
//@@ INCLUDE lib/basering_root_lemmas.rs
//@@ INCLUDE lib/basering_cbrt_lemmas.rs
//@@ CONST base/ring_root/rcbrt_tab.rs
//@@ INCLUDE lib/basering_cbrt_est.rs
// proved in unit base_root
//@@ SIG base/ring_root/wmul32_hi.rs
//@@ SIG base/ring_root/wmul16_hi.rs
//@@ FN base/ring_root/normalized_cbrt_rem_u64.rs drop_asserts=0 minline=fix_cbrt_error:base/ring_root/fix_cbrt_error.rs mconst=base/ring_root/rcbrt_tab.rs
//@@ INCLUDE lib/basering_cbrt_traits.rs
impl NormalizedRootRem for u64 {
    type OutputRoot = u32;
    open spec fn ncbrt_req(self) -> bool { self >= 0x2000_0000_0000_0000 }
    open spec fn ncbrt_post(self, r: (u32, u64)) -> bool {
        br_cube(r.0 as int) + r.1 as int == self as int && r.1 as int <= 3 * ((r.0 as int) * (r.0 as int)) + 3 * (r.0 as int)
    }
    fn normalized_cbrt_rem(self) -> (r: (u32, u64)) { normalized_cbrt_rem_u64(self) }
}
//@@ FN base/ring_root/div_rem.rs variant=u128 msubst=T:u128
impl DivRem for u128 {
    type OutputDiv = u128;
    type OutputRem = u128;
    open spec fn div_rem_req(self, rhs: u128) -> bool { rhs != 0 }
    open spec fn div_rem_post(self, rhs: u128, r: (u128, u128)) -> bool { r.0 as int == (self as int) / (rhs as int) && r.1 as int == (self as int) % (rhs as int) }
    fn div_rem(self, rhs: u128) -> (r: (u128, u128)) { div_rem_u128(self, rhs) }
}
//@@ FN base/ring_root/normalized_cbrt_rem_u128.rs drop_asserts=0
//@@ FN base/ring_root/normalized_cbrt_rem_u32.rs drop_asserts=0 minline=fix_cbrt_error:base/ring_root/fix_cbrt_error.rs mconst=base/ring_root/rcbrt_tab.rs
impl NormalizedRootRem for u128 {
    type OutputRoot = u64;
    open spec fn ncbrt_req(self) -> bool { self >= 0x2000_0000_0000_0000_0000_0000_0000_0000 }
    open spec fn ncbrt_post(self, r: (u64, u128)) -> bool {
        br_cube(r.0 as int) + r.1 as int == self as int && r.1 as int <= 3 * ((r.0 as int) * (r.0 as int)) + 3 * (r.0 as int)
    }
    fn normalized_cbrt_rem(self) -> (r: (u64, u128)) { normalized_cbrt_rem_u128(self) }
}
impl NormalizedRootRem for u32 {
    type OutputRoot = u16;
    open spec fn ncbrt_req(self) -> bool { self >= 0x2000_0000 }
    open spec fn ncbrt_post(self, r: (u16, u32)) -> bool {
        br_cube(r.0 as int) + r.1 as int == self as int && r.1 as int <= 3 * ((r.0 as int) * (r.0 as int)) + 3 * (r.0 as int)
    }
    fn normalized_cbrt_rem(self) -> (r: (u16, u32)) { normalized_cbrt_rem_u32(self) }
}
// `impl_rootrem_using_normalized!(u32, u16);` (#1) `(u64, u32)` (#2) `(u128, u64)` (#3); the same invocations of impl_root_using_rootrem
//@@ FN base/ring_root/cbrt_rem.rs variant=u32 minvoke=1 mexpect=t:u32,half:u16 mbase=t:u32,half:u16
//@@ FN base/ring_root/cbrt_rem.rs variant=u64 minvoke=2 mexpect=t:u64,half:u32 mbase=t:u64,half:u32
//@@ FN base/ring_root/cbrt_rem.rs variant=u128 minvoke=3 mexpect=t:u128,half:u64 mbase=t:u128,half:u64
//@@ FN base/ring_root/cbrt.rs variant=u32 minvoke=1 mexpect=t:u32,half:u16 mbase=t:u32,half:u16
//@@ FN base/ring_root/cbrt.rs variant=u64 minvoke=2 mexpect=t:u64,half:u32 mbase=t:u64,half:u32
//@@ FN base/ring_root/cbrt.rs variant=u128 minvoke=3 mexpect=t:u128,half:u64 mbase=t:u128,half:u64
} // verus!
fn main() {}
