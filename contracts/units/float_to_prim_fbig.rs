// unit float_to_prim_fbig: float/src/convert.rs `FBig::{to_f32, to_f64}` (C06: a float of any base -> f32 / f64 with
// the documented rule: to_f32 rounds with the mode R of the type, to_f64 with HalfEven regardless of R), with the real
// `FBig::sign`; `Repr::{to_f32, to_f64}` are present through the contract of unit float_to_prim_repr (SIG: not called by the
// unchanged code; a change that delegates to them is judged against the rule of the FBig function): infinite input => Inexact(+-inf, NoOp); B == 2 => `repr_round_ref` then
// `into_f32_internal` / `into_f64_internal`; otherwise `convert_to_binary_once` then the same second stage.  The
// precondition of the second stage (at most 24 / 53 bits; the debug assertion that fired before the repair eabe4cf) is
// ESTABLISHED, the postcondition is the composition of the two contracts through the real `Approximation::and_then`.
// Callees through the contracts they are verified against: repr_round_ref (SIG, float_to_prim_round), into_f32_internal /
// into_f64_internal (SIG, float_to_f), convert_to_binary_once (lib/fp_once_stub.rs = the contract of float_to_prim_once).
// Values beyond 2^+-4096 may reach the second stage as the stand-in +-2^+-4096 (far-range shortcut of convert_to_binary_once,
// lib/fp_spec.rs fp_far); every other finite value of every base is covered without assumption about convert_base.
#![allow(unused_imports, unused_variables, dead_code, non_snake_case, unused_mut, unused_parens, unused_braces)]
use vstd::prelude::*;
verus! {
global size_of usize == 8;   // DESIGN.md section 6: usize is 64-bit in all proofs
//@@ INCLUDE lib/round_prelude.rs
//@@ INCLUDE lib/round_int_stubs.rs
//@@ INCLUDE lib/round_int_addsub_stubs.rs
//@@ INCLUDE lib/round_modes.rs
pub trait Round: Copy {
    /// ghost: which of the six mode definitions the implementing type stands for
    spec fn md() -> Mode;
}
// the mode type used by name in to_f32 / to_f64 (its `round_low_part` is verified against this definition in unit
// float_round_halfeven)
impl Round for mode::HalfEven { open spec fn md() -> Mode { Mode::HalfEven } }
use mode::HalfEven;
//@@ INCLUDE lib/round_float_repr.rs
//@@ INCLUDE lib/conv_float.rs
//@@ INCLUDE lib/conv_enc.rs
//@@ INCLUDE lib/conv_sign_float.rs
//@@ INCLUDE lib/conv_float_stubs.rs
//@@ INCLUDE lib/fp_spec.rs
//@@ INCLUDE lib/fp_stubs.rs
//@@ INCLUDE lib/fp_lemmas.rs
//@@ INCLUDE lib/fp_once_stub.rs
use core::marker::PhantomData;
impl<T, E> Approximation<T, E> {
//@@ FN base/approx/and_then.rs
}
impl<R: Round> Context<R> {
//@@ FN float/convert/context_new.rs
//@@ SIG float/to_prim/repr_round_ref.rs
}
impl<const B: Word> Repr<B> {
//@@ FN float/repr/is_infinite.rs
//@@ FN float/convert/repr_sign.rs
//@@ SIG float/convert/into_f32_internal.rs
//@@ SIG float/convert/into_f64_internal.rs
//@@ SIG float/to_prim/repr_to_f32.rs
//@@ SIG float/to_prim/repr_to_f64.rs
}
//@@ INCLUDE lib/conv_fbig_stubs.rs
impl<R: Round, const B: Word> FBig<R, B> {
//@@ FN float/to_prim/fbig_sign.rs
//@@ FN float/to_prim/fbig_to_f32.rs
//@@ FN float/to_prim/fbig_to_f64.rs
}
} // verus!
fn main() {}
