// unit float_round_ops: float/src/round_ops.rs `FBig::{trunc, split_at_point, fract, ceil, floor, round}` (C10: the
// integer neighbour named by the definition, trunc + fract == x), with the real helpers `Repr::{is_zero, sign,
// is_infinite}`, `assert_finite`, `FBig::new`, `Context::new`.  `Repr::smaller_than_one` and
// `FBig::split_at_point_internal` are seen through the contracts they are verified against in unit float_round_ops_split,
// `Round::round_fract` through the one of unit float_round (SIG).  The `digits_ub` shortcut of round() (|x| < 1/2) is
// PROVED from the enclosure digits <= digits_ub (the only thing assumed about the f32 estimate).
#![allow(unused_imports, unused_variables, dead_code, non_snake_case, unused_mut, unused_parens, unused_braces)]
use vstd::prelude::*;
verus! {
//@@ INCLUDE lib/round_prelude.rs
//@@ INCLUDE lib/round_int_stubs.rs
//@@ INCLUDE lib/round_modes.rs
pub trait Round: Copy {
    /// ghost: which of the six mode definitions the implementing type stands for
    spec fn md() -> Mode;
//@@ SIG float/round/round_fract.rs
}
// the mode types used by name in round_ops.rs (their `round_low_part` is verified against these definitions in units
// float_round_up / float_round_down / float_round_halfaway)
impl Round for mode::Up { open spec fn md() -> Mode { Mode::Up } }
impl Round for mode::Down { open spec fn md() -> Mode { Mode::Down } }
impl Round for mode::HalfAway { open spec fn md() -> Mode { Mode::HalfAway } }
//@@ INCLUDE lib/round_float_repr.rs
//@@ INCLUDE lib/farith_lemmas.rs
//@@ INCLUDE lib/ro_stubs.rs
//@@ INCLUDE lib/ebounds_stubs.rs
//@@ INCLUDE lib/ro_lemmas.rs
use core::marker::PhantomData;
global size_of usize == 8;   // DESIGN.md section 6: usize is 64-bit in all proofs
//@@ SIG float/error/panic_operate_with_inf.rs
//@@ FN float/error/assert_finite.rs
impl<const B: Word> Repr<B> {
//@@ FN float/repr/is_infinite.rs
//@@ FN float/ebounds/repr_is_zero.rs
//@@ FN float/convert/repr_sign.rs
//@@ SIG float/round_ops/smaller_than_one.rs
}
impl<R: Round> Context<R> {
//@@ FN float/convert/context_new.rs
//@@ FN float/repr/is_limited.rs
}
impl<R: Round, const B: Word> FBig<R, B> {
//@@ FN float/fbig/new.rs
//@@ SIG float/round_ops/split_at_point_internal.rs
//@@ FN float/round_ops/trunc.rs
//@@ FN float/round_ops/split_at_point.rs
//@@ FN float/round_ops/fract.rs
//@@ FN float/round_ops/ceil.rs
//@@ FN float/round_ops/floor.rs
//@@ FN float/round_ops/round.rs
}
} // verus!
fn main() {}
