// unit int_modadd2: integer/src/modular/add.rs multi-word residue negation and doubling (C13, C16, C19); add_in_place
// is re-verified here next to dbl_in_place with the full set of Ordering::is_* specifications, so that a change of its
// comparison (`is_ge` -> `is_gt`) is a failed obligation and not an unsupported construct.
#![allow(unused_imports, unused_variables, dead_code, non_snake_case, unused_mut, unused_parens, unused_braces)]
use vstd::prelude::*;
use core::cmp::Ordering;
verus! {
//@@ INCLUDE lib/prelude.rs
//@@ INCLUDE lib/div_dword_stubs.rs
//@@ INCLUDE lib/mod2_ring.rs
pub mod add {
use super::*;
//@@ SIG integer/add/add_same_len_in_place.rs
//@@ SIG integer/add/sub_same_len_in_place.rs
//@@ SIG integer/add/sub_same_len_in_place_swap.rs
}
pub mod shift {
use super::*;
//@@ SIG integer/shift/shl_in_place.rs
}
pub mod cmp {
use super::*;
// ASSUMED contract (integer/src/cmp.rs uses Iterator::cmp, outside Verus' reach); bounded-checked on the
// real code by the Kani group int_cmp.  Same text as in unit int_modadd.
#[verifier::external_body]
pub fn cmp_same_len(lhs: &[Word], rhs: &[Word]) -> (ret: Ordering)
    requires lhs@.len() == rhs@.len(),
    ensures (ret is Less) == (val(lhs@) < val(rhs@)), (ret is Equal) == (val(lhs@) == val(rhs@)),
        (ret is Greater) == (val(lhs@) > val(rhs@)),
{ unimplemented!() }
}
//@@ FN integer/modular2/negate_in_place.rs drop_asserts=0
//@@ FN integer/modular2/dbl_in_place.rs drop_asserts=0
//@@ FN integer/modular/add_in_place.rs drop_asserts=0
} // verus!
fn main() {}
