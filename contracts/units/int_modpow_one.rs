// unit int_modpow_one: integer/src/modular/repr.rs ReducedLarge::one (the value pow(0) returns): stored 2^shift, residue 1.
// Trusted: lib/mod2_conv.rs (Buffer mirror: allocate_exact / push / push_zeros / into_boxed_slice), lib/mod2_mem.rs.
#![feature(allocator_api)]
#![allow(unused_imports, unused_variables, dead_code, non_snake_case, unused_mut, unused_parens, unused_braces)]
use vstd::prelude::*;
use vstd::std_specs::cmp::*;
use core::cmp::Ordering;
use core::ops::Deref;
verus! {
global size_of usize == 8;
//@@ INCLUDE lib/prelude.rs
//@@ INCLUDE lib/shift_bv.rs
//@@ INCLUDE lib/div_dword_stubs.rs
//@@ INCLUDE lib/div_post_spec.rs
//@@ INCLUDE lib/mod2_ring.rs
//@@ INCLUDE lib/mod2_mem.rs
//@@ INCLUDE lib/mod2_conv.rs
//@@ INCLUDE lib/mp_arith.rs
//@@ INCLUDE lib/mp_lemmas.rs
impl ReducedLarge {
//@@ FN integer/modpow/large_one.rs
}
} // verus!
fn main() {}
