// unit ratio_farey: rational/src/simplify.rs RBig::{farey_neighbors, next_up, next_down, nearest} (C18)
#![allow(unused_imports, unused_variables, dead_code, non_snake_case, unused_mut, unused_parens, unused_braces)]
use vstd::prelude::*;
use vstd::arithmetic::power2::pow2;
use core::cmp::Ordering;
use core::ops::{Add, Sub, Mul, Div, Rem};
verus! {
// (own module: verified in its own solver context, independent of what else the unit contains)
pub mod ratio_lemmas_m { use super::*;
//@@ INCLUDE lib/ratio_lemmas.rs
}
pub use ratio_lemmas_m::*;
//@@ INCLUDE lib/bigstub.rs
impl Sign {
// base/src/sign.rs: proved in unit ratio_ops / ratio_reduce, here seen through their contracts
//@@ SIG rational/sign/base_sign_mul.rs
//@@ SIG rational/sign/base_sign_neg.rs
//@@ SIG rational/sign/base_sign_cmp.rs
}
//@@ INCLUDE lib/ratio_types.rs
//@@ INCLUDE lib/ratio2_stubs.rs
pub mod ratio2_unique_lemmas_m { use super::*;
//@@ INCLUDE lib/ratio2_unique_lemmas.rs
}
pub use ratio2_unique_lemmas_m::*;
pub mod ratio2_lemmas_m { use super::*;
//@@ INCLUDE lib/ratio2_lemmas.rs
}
pub use ratio2_lemmas_m::*;
//@@ INCLUDE lib/farey_stubs.rs
pub mod farey_lemmas_m { use super::*;
//@@ INCLUDE lib/farey_lemmas.rs
}
pub use farey_lemmas_m::*;
// rational/src/error.rs: `total` reading, the panic is unreachable under the precondition (limit != 0)
#[verifier::external_body]
pub fn panic_divide_by_0() -> ! requires false { unimplemented!() }
impl Repr {
// proved in unit ratio_reduce
//@@ SIG rational/repr/reduce.rs
//@@ SIG rational/repr/zero.rs
//@@ FN rational/farey/repr_one.rs
//@@ FN rational/farey/repr_neg_one.rs
//@@ FN rational/farey/split_at_point.rs
}
impl RBig {
// proved in unit ratio_simpler
//@@ SIG rational/rbig/rbig_numerator.rs
//@@ SIG rational/rbig/rbig_denominator.rs
//@@ SIG rational/sign/rbig_sign.rs
//@@ FN rational/farey/rbig_split_at_point.rs
//@@ FN rational/farey/farey_neighbors.rs drop_asserts=0,1,2
//@@ FN rational/farey/next_up.rs
//@@ FN rational/farey/next_down.rs
//@@ FN rational/farey/nearest.rs
}
} // verus!
fn main() {}
