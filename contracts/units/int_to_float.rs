// unit int_to_float: integer/src/convert.rs `mod repr` `TypedReprRef::{to_f32_nontrivial, to_f64_nontrivial}` (C06:
// multi-word integer -> f32/f64 is the correctly rounded value of the INTEGER with a truthful flag).  The integer is
// abstract (unbounded); `encode` is seen through the contract that the Kani group base_bit proves for it.
#![allow(unused_imports, unused_variables, dead_code, non_snake_case, unused_mut, unused_parens, unused_braces)]
use vstd::prelude::*;
verus! {
//@@ INCLUDE lib/conv_approx.rs
//@@ INCLUDE lib/conv_base_types.rs
//@@ INCLUDE lib/conv_float.rs
//@@ INCLUDE lib/conv_float_int.rs
//@@ INCLUDE lib/conv_enc.rs
//@@ INCLUDE lib/conv_int_stubs.rs
//@@ INCLUDE lib/conv_sign_float.rs
impl<'a> TypedReprRef<'a> {
//@@ FN integer/convert/to_f32_nontrivial.rs
//@@ FN integer/convert/to_f64_nontrivial.rs
//@@ FN integer/convert/to_f32.rs
//@@ FN integer/convert/to_f64.rs
}
impl UBig {
//@@ FN integer/convert/ubig_to_f32.rs
//@@ FN integer/convert/ubig_to_f64.rs
}
impl IBig {
//@@ FN integer/convert/ibig_to_f32.rs
//@@ FN integer/convert/ibig_to_f64.rs
}
} // verus!
fn main() {}
