// unit ratio_zero_panic_ref: C04 "division by zero panics" (and C16) for rational/src/div.rs, the `must_panic` variants (rule
// D4) of unit ratio_zero_panic instantiated for the BY-REFERENCE forwardings: the three of impl_binop_with_macro!
// (`T op &T`, `&T op T`, `&T op &T`; op in /, %, div_euclid, rem_euclid, div_rem_euclid) and the borrowed-integer form of
// impl_binop_with_int! (`/` with `rhs: &UBig` / `&IBig` on either side).  Same annotated arm text, same contract:
// requires <zero divisor>, ensures false.
// Trusted: as unit ratio_zero_panic (lib/rp_stubs.rs: must_panic contracts of IBig::rem / div_euclid / rem_euclid /
// div_rem_euclid; panic_divide_by_0 never returns) plus lib/rp_refops.rs (by-reference operator forms, UnsignedAbs for &IBig).
#![allow(unused_imports, unused_variables, dead_code, non_snake_case, unused_mut, unused_parens, unused_braces)]
use vstd::prelude::*;
use vstd::arithmetic::power2::pow2;
use core::cmp::Ordering;
use core::ops::{Add, Sub, Mul, Div};
verus! {
//@@ INCLUDE lib/ratio_lemmas.rs
//@@ INCLUDE lib/bigstub.rs
//@@ INCLUDE lib/rp_refops.rs
impl Sign {
// base/src/sign.rs: proved in unit ratio_ops / ratio_reduce, here seen through their contracts
//@@ SIG rational/sign/base_sign_mul.rs
//@@ SIG rational/sign/base_sign_neg.rs
//@@ SIG rational/sign/base_sign_cmp.rs
}
//@@ INCLUDE lib/ratio_types.rs
//@@ INCLUDE lib/rp_stubs.rs
// rational/src/error.rs: must_panic reading, the helper never returns
//@@ SIG rational/panic/panic_divide_by_0.rs variant=must_panic
impl RBig {
// proved in unit ratio_reduce (total contract: denominator != 0); only reached after the panicking call
//@@ SIG rational/rbig/rbig_from_parts.rs
}
impl Relaxed {
// proved in unit ratio_ops (total contract: denominator != 0)
//@@ SIG rational/rbig/relaxed_from_parts.rs
}
// ---- `T op &T`: a: IBig, b: UBig, c: &IBig, d: &UBig
//@@ WRAP rbig_div_vr fn rbig_div_vr_zero(a: IBig, b: UBig, c: &IBig, d: &UBig, ra: &IBig, rb: &UBig, rc: &IBig, rd: &UBig) -> RBig
//@@ FN rational/panic/div_with_rbig.rs wrap=rbig_div_vr subst=method:div variant=must_panic
//@@ WRAP relaxed_div_vr fn relaxed_div_vr_zero(a: IBig, b: UBig, c: &IBig, d: &UBig, ra: &IBig, rb: &UBig, rc: &IBig, rd: &UBig) -> Relaxed
//@@ FN rational/panic/div_with_relaxed.rs wrap=relaxed_div_vr subst=method:div variant=must_panic
//@@ WRAP euclid_div_vr fn euclid_div_vr_zero(a: IBig, b: UBig, c: &IBig, d: &UBig, ra: &IBig, rb: &UBig, rc: &IBig, rd: &UBig) -> IBig
//@@ FN rational/panic/euclid_div.rs wrap=euclid_div_vr subst=method:div_euclid variant=must_panic
//@@ WRAP rbig_rem_vr fn rbig_rem_vr_zero(a: IBig, b: UBig, c: &IBig, d: &UBig, ra: &IBig, rb: &UBig, rc: &IBig, rd: &UBig) -> RBig
//@@ FN rational/panic/rem_with_rbig.rs wrap=rbig_rem_vr subst=method:rem variant=must_panic
//@@ WRAP relaxed_rem_vr fn relaxed_rem_vr_zero(a: IBig, b: UBig, c: &IBig, d: &UBig, ra: &IBig, rb: &UBig, rc: &IBig, rd: &UBig) -> Relaxed
//@@ FN rational/panic/rem_with_relaxed.rs wrap=relaxed_rem_vr subst=method:rem variant=must_panic
//@@ WRAP rbig_rem_euclid_vr fn rbig_rem_euclid_vr_zero(a: IBig, b: UBig, c: &IBig, d: &UBig, ra: &IBig, rb: &UBig, rc: &IBig, rd: &UBig) -> RBig
//@@ FN rational/panic/euclid_rem_with_rbig.rs wrap=rbig_rem_euclid_vr subst=method:rem_euclid variant=must_panic
//@@ WRAP relaxed_rem_euclid_vr fn relaxed_rem_euclid_vr_zero(a: IBig, b: UBig, c: &IBig, d: &UBig, ra: &IBig, rb: &UBig, rc: &IBig, rd: &UBig) -> Relaxed
//@@ FN rational/panic/euclid_rem_with_relaxed.rs wrap=relaxed_rem_euclid_vr subst=method:rem_euclid variant=must_panic
//@@ WRAP rbig_divrem_euclid_vr fn rbig_divrem_euclid_vr_zero(a: IBig, b: UBig, c: &IBig, d: &UBig, ra: &IBig, rb: &UBig, rc: &IBig, rd: &UBig) -> (IBig, RBig)
//@@ FN rational/panic/euclid_divrem_with_rbig.rs wrap=rbig_divrem_euclid_vr subst=method:div_rem_euclid variant=must_panic
//@@ WRAP relaxed_divrem_euclid_vr fn relaxed_divrem_euclid_vr_zero(a: IBig, b: UBig, c: &IBig, d: &UBig, ra: &IBig, rb: &UBig, rc: &IBig, rd: &UBig) -> (IBig, Relaxed)
//@@ FN rational/panic/euclid_divrem_with_relaxed.rs wrap=relaxed_divrem_euclid_vr subst=method:div_rem_euclid variant=must_panic
// ---- `&T op T`: a: &IBig, b: &UBig, c: IBig, d: UBig
//@@ WRAP rbig_div_rv fn rbig_div_rv_zero(a: &IBig, b: &UBig, c: IBig, d: UBig, ra: &IBig, rb: &UBig, rc: &IBig, rd: &UBig) -> RBig
//@@ FN rational/panic/div_with_rbig.rs wrap=rbig_div_rv subst=method:div variant=must_panic
//@@ WRAP relaxed_div_rv fn relaxed_div_rv_zero(a: &IBig, b: &UBig, c: IBig, d: UBig, ra: &IBig, rb: &UBig, rc: &IBig, rd: &UBig) -> Relaxed
//@@ FN rational/panic/div_with_relaxed.rs wrap=relaxed_div_rv subst=method:div variant=must_panic
//@@ WRAP euclid_div_rv fn euclid_div_rv_zero(a: &IBig, b: &UBig, c: IBig, d: UBig, ra: &IBig, rb: &UBig, rc: &IBig, rd: &UBig) -> IBig
//@@ FN rational/panic/euclid_div.rs wrap=euclid_div_rv subst=method:div_euclid variant=must_panic
//@@ WRAP rbig_rem_rv fn rbig_rem_rv_zero(a: &IBig, b: &UBig, c: IBig, d: UBig, ra: &IBig, rb: &UBig, rc: &IBig, rd: &UBig) -> RBig
//@@ FN rational/panic/rem_with_rbig.rs wrap=rbig_rem_rv subst=method:rem variant=must_panic
//@@ WRAP relaxed_rem_rv fn relaxed_rem_rv_zero(a: &IBig, b: &UBig, c: IBig, d: UBig, ra: &IBig, rb: &UBig, rc: &IBig, rd: &UBig) -> Relaxed
//@@ FN rational/panic/rem_with_relaxed.rs wrap=relaxed_rem_rv subst=method:rem variant=must_panic
//@@ WRAP rbig_rem_euclid_rv fn rbig_rem_euclid_rv_zero(a: &IBig, b: &UBig, c: IBig, d: UBig, ra: &IBig, rb: &UBig, rc: &IBig, rd: &UBig) -> RBig
//@@ FN rational/panic/euclid_rem_with_rbig.rs wrap=rbig_rem_euclid_rv subst=method:rem_euclid variant=must_panic
//@@ WRAP relaxed_rem_euclid_rv fn relaxed_rem_euclid_rv_zero(a: &IBig, b: &UBig, c: IBig, d: UBig, ra: &IBig, rb: &UBig, rc: &IBig, rd: &UBig) -> Relaxed
//@@ FN rational/panic/euclid_rem_with_relaxed.rs wrap=relaxed_rem_euclid_rv subst=method:rem_euclid variant=must_panic
//@@ WRAP rbig_divrem_euclid_rv fn rbig_divrem_euclid_rv_zero(a: &IBig, b: &UBig, c: IBig, d: UBig, ra: &IBig, rb: &UBig, rc: &IBig, rd: &UBig) -> (IBig, RBig)
//@@ FN rational/panic/euclid_divrem_with_rbig.rs wrap=rbig_divrem_euclid_rv subst=method:div_rem_euclid variant=must_panic
//@@ WRAP relaxed_divrem_euclid_rv fn relaxed_divrem_euclid_rv_zero(a: &IBig, b: &UBig, c: IBig, d: UBig, ra: &IBig, rb: &UBig, rc: &IBig, rd: &UBig) -> (IBig, Relaxed)
//@@ FN rational/panic/euclid_divrem_with_relaxed.rs wrap=relaxed_divrem_euclid_rv subst=method:div_rem_euclid variant=must_panic
// ---- `&T op &T`: a: &IBig, b: &UBig, c: &IBig, d: &UBig
//@@ WRAP rbig_div_rr fn rbig_div_rr_zero(a: &IBig, b: &UBig, c: &IBig, d: &UBig, ra: &IBig, rb: &UBig, rc: &IBig, rd: &UBig) -> RBig
//@@ FN rational/panic/div_with_rbig.rs wrap=rbig_div_rr subst=method:div variant=must_panic
//@@ WRAP relaxed_div_rr fn relaxed_div_rr_zero(a: &IBig, b: &UBig, c: &IBig, d: &UBig, ra: &IBig, rb: &UBig, rc: &IBig, rd: &UBig) -> Relaxed
//@@ FN rational/panic/div_with_relaxed.rs wrap=relaxed_div_rr subst=method:div variant=must_panic
//@@ WRAP euclid_div_rr fn euclid_div_rr_zero(a: &IBig, b: &UBig, c: &IBig, d: &UBig, ra: &IBig, rb: &UBig, rc: &IBig, rd: &UBig) -> IBig
//@@ FN rational/panic/euclid_div.rs wrap=euclid_div_rr subst=method:div_euclid variant=must_panic
//@@ WRAP rbig_rem_rr fn rbig_rem_rr_zero(a: &IBig, b: &UBig, c: &IBig, d: &UBig, ra: &IBig, rb: &UBig, rc: &IBig, rd: &UBig) -> RBig
//@@ FN rational/panic/rem_with_rbig.rs wrap=rbig_rem_rr subst=method:rem variant=must_panic
//@@ WRAP relaxed_rem_rr fn relaxed_rem_rr_zero(a: &IBig, b: &UBig, c: &IBig, d: &UBig, ra: &IBig, rb: &UBig, rc: &IBig, rd: &UBig) -> Relaxed
//@@ FN rational/panic/rem_with_relaxed.rs wrap=relaxed_rem_rr subst=method:rem variant=must_panic
//@@ WRAP rbig_rem_euclid_rr fn rbig_rem_euclid_rr_zero(a: &IBig, b: &UBig, c: &IBig, d: &UBig, ra: &IBig, rb: &UBig, rc: &IBig, rd: &UBig) -> RBig
//@@ FN rational/panic/euclid_rem_with_rbig.rs wrap=rbig_rem_euclid_rr subst=method:rem_euclid variant=must_panic
//@@ WRAP relaxed_rem_euclid_rr fn relaxed_rem_euclid_rr_zero(a: &IBig, b: &UBig, c: &IBig, d: &UBig, ra: &IBig, rb: &UBig, rc: &IBig, rd: &UBig) -> Relaxed
//@@ FN rational/panic/euclid_rem_with_relaxed.rs wrap=relaxed_rem_euclid_rr subst=method:rem_euclid variant=must_panic
//@@ WRAP rbig_divrem_euclid_rr fn rbig_divrem_euclid_rr_zero(a: &IBig, b: &UBig, c: &IBig, d: &UBig, ra: &IBig, rb: &UBig, rc: &IBig, rd: &UBig) -> (IBig, RBig)
//@@ FN rational/panic/euclid_divrem_with_rbig.rs wrap=rbig_divrem_euclid_rr subst=method:div_rem_euclid variant=must_panic
//@@ WRAP relaxed_divrem_euclid_rr fn relaxed_divrem_euclid_rr_zero(a: &IBig, b: &UBig, c: &IBig, d: &UBig, ra: &IBig, rb: &UBig, rc: &IBig, rd: &UBig) -> (IBig, Relaxed)
//@@ FN rational/panic/euclid_divrem_with_relaxed.rs wrap=relaxed_divrem_euclid_rr subst=method:div_rem_euclid variant=must_panic
// ---- mixed arms, `T / &Int`, `&T / &Int`, `&Int / T`, `&Int / &T`: impl_binop_with_int! clones a, b for a borrowed T, so the
// arm sees owned a, b in all forms; the integer operand is `rhs: &Int` with ri the same reference
//@@ WRAP rbig_div_ubig_r fn rbig_div_ubig_r_zero(a: IBig, b: UBig, i: &UBig, ra: &IBig, rb: &UBig, ri: &UBig) -> RBig
//@@ FN rational/panic/rbig_div_ubig.rs wrap=rbig_div_ubig_r subst=method:div variant=must_panic
//@@ WRAP rbig_div_ibig_r fn rbig_div_ibig_r_zero(a: IBig, b: UBig, i: &IBig, ra: &IBig, rb: &UBig, ri: &IBig) -> RBig
//@@ FN rational/panic/rbig_div_ibig.rs wrap=rbig_div_ibig_r subst=method:div variant=must_panic
//@@ WRAP ubig_div_rbig_r fn ubig_div_rbig_r_zero(a: IBig, b: UBig, i: &UBig, ra: &IBig, rb: &UBig, ri: &UBig) -> RBig
//@@ FN rational/panic/int_div_rbig.rs wrap=ubig_div_rbig_r subst=method:div variant=must_panic
//@@ WRAP ibig_div_rbig_r fn ibig_div_rbig_r_zero(a: IBig, b: UBig, i: &IBig, ra: &IBig, rb: &UBig, ri: &IBig) -> RBig
//@@ FN rational/panic/int_div_rbig.rs wrap=ibig_div_rbig_r subst=method:div variant=must_panic
//@@ WRAP relaxed_div_ubig_r fn relaxed_div_ubig_r_zero(a: IBig, b: UBig, i: &UBig, ra: &IBig, rb: &UBig, ri: &UBig) -> Relaxed
//@@ FN rational/panic/relaxed_div_ubig.rs wrap=relaxed_div_ubig_r subst=method:div variant=must_panic
//@@ WRAP relaxed_div_ibig_r fn relaxed_div_ibig_r_zero(a: IBig, b: UBig, i: &IBig, ra: &IBig, rb: &UBig, ri: &IBig) -> Relaxed
//@@ FN rational/panic/relaxed_div_ibig.rs wrap=relaxed_div_ibig_r subst=method:div variant=must_panic
//@@ WRAP ubig_div_relaxed_r fn ubig_div_relaxed_r_zero(a: IBig, b: UBig, i: &UBig, ra: &IBig, rb: &UBig, ri: &UBig) -> Relaxed
//@@ FN rational/panic/int_div_relaxed.rs wrap=ubig_div_relaxed_r subst=method:div variant=must_panic
//@@ WRAP ibig_div_relaxed_r fn ibig_div_relaxed_r_zero(a: IBig, b: UBig, i: &IBig, ra: &IBig, rb: &UBig, ri: &IBig) -> Relaxed
//@@ FN rational/panic/int_div_relaxed.rs wrap=ibig_div_relaxed_r subst=method:div variant=must_panic
} // verus!
fn main() {}
