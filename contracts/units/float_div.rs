// unit float_div: float/src/div.rs `Context::{repr_div, div, inv}` (C03 for division: truncated quotient refined to p or p+1 digits,
// ONE rounding of the remainder through the contract of `Round::round_ratio` proved in unit float_round).
#![allow(unused_imports, unused_variables, dead_code, non_snake_case, unused_mut, unused_parens, unused_braces)]
use vstd::prelude::*;
verus! {
//@@ INCLUDE lib/round_prelude.rs
//@@ INCLUDE lib/round_int_stubs.rs
//@@ INCLUDE lib/round_int_addsub_stubs.rs
pub trait Round: Copy {
    /// ghost: which of the six mode definitions the implementing type stands for
    spec fn md() -> Mode;
//@@ SIG float/round/round_ratio.rs
}
//@@ INCLUDE lib/round_float_repr.rs
//@@ INCLUDE lib/conv_fbig_stubs.rs
//@@ INCLUDE lib/farith_repr_stubs.rs
//@@ INCLUDE lib/farith_lemmas.rs
//@@ INCLUDE lib/farith_add_stubs.rs
//@@ INCLUDE lib/farith_div_lemmas.rs
use core::marker::PhantomData;
global size_of usize == 8;   // DESIGN.md section 6: usize is 64-bit in all proofs
//@@ SIG float/mul/panic_operate_with_inf.rs
//@@ FN float/mul/assert_finite_operands.rs
//@@ SIG float/root/panic_unlimited_precision.rs
//@@ FN float/root/assert_limited_precision.rs
impl<T, E> Approximation<T, E> {
//@@ FN base/approx/map.rs
//@@ FN float/mul/approx_value.rs
}
impl<const B: Word> Repr<B> {
//@@ FN float/repr/is_infinite.rs
//@@ SIG float/repr/digits.rs
}
impl<R: Round> Context<R> {
//@@ FN float/convert/context_new.rs
//@@ SIG float/repr/repr_round_ref.rs
//@@ FN float/div/repr_div.rs drop_asserts=0
//@@ FN float/div/context_div.rs
//@@ FN float/div/context_inv.rs
}
impl<R: Round, const B: Word> FBig<R, B> {
//@@ FN float/fbig/new.rs
}
} // verus!
fn main() {}
