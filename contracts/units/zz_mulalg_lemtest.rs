#![allow(unused_imports, unused_variables, dead_code, non_snake_case, unused_mut, unused_parens, unused_braces)]
use vstd::prelude::*;
verus! {
//@@ INCLUDE lib/prelude.rs
//@@ INCLUDE lib/mul_lemmas.rs
//@@ INCLUDE lib/mulalg_core_lemmas.rs
//@@ INCLUDE lib/mulalg_root_stubs.rs
//@@ INCLUDE lib/mulalg_root_lemmas.rs
}
fn main() {}
