#![allow(unused_imports, unused_variables, dead_code, non_snake_case, unused_mut, unused_parens, unused_braces)]
use vstd::prelude::*;
verus! {
//@@ INCLUDE lib/prelude.rs
//@@ INCLUDE lib/sign.rs
//@@ INCLUDE lib/mul_lemmas.rs
//@@ INCLUDE lib/mulalg_stubs.rs
//@@ INCLUDE lib/mulalg_lemmas.rs
//@@ INCLUDE lib/mulalg_toom_lemmas.rs
}
fn main() {}
