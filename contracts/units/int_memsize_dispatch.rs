// unit int_memsize_dispatch: the scratch-memory RESOURCE contracts of integer/src/mul/mod.rs `multiply`, `add_signed_mul`,
// `add_signed_mul_same_len` (size dispatch simple / Karatsuba / Toom-3), mul/helpers.rs `add_signed_mul_split_into_chunks`,
// mul/simple.rs (the kernel takes no scratch) and the unequal-length entries {simple,karatsuba,toom_3}::add_signed_mul
// (C01, C16): a chunk offering gneed(min(|a|, |b|)) Words (lib/mem_need.rs: the maximum over all smaller lengths of what
// the equal-length algorithm selected by the thresholds allocates) is enough for EVERY strategy the dispatch can take,
// so `allocate_slice_*` never panics with "internal error: not enough memory allocated".
// The functional contracts of the same functions are proved in int_mul_dispatch / int_mul_simple with an opaque Memory.
// karatsuba / toom_3 :: add_signed_mul_same_len are seen through their RESOURCE contracts (//@@ SIG), PROVED in
// int_memsize_kara / int_memsize_toom3.  Trusted: lib/mem_model.rs (capacity-tracking Memory).  The thresholds are the REAL
// constants (rule E4 //@@ CONST); lib/mem_need.rs mirrors them as literals, so changing one makes the obligations fail.
#![allow(unused_imports, unused_variables, dead_code, non_snake_case, unused_mut, unused_parens, unused_braces)]
use vstd::prelude::*;
verus! {
//@@ INCLUDE lib/prelude.rs
//@@ INCLUDE lib/sign.rs
//@@ INCLUDE lib/mem_sign_ops.rs
//@@ INCLUDE lib/mem_layout_@BITS@.rs
//@@ INCLUDE lib/mem_model.rs
//@@ INCLUDE lib/mem_need.rs
//@@ INCLUDE lib/mem_chunk_spec.rs
pub mod add {
use super::*;
//@@ SIG integer/add/add_signed_word_in_place.rs
}
pub mod mul {
use super::*;
use core::mem;
// the REAL threshold constants (rule E4): lib/mem_need.rs need() mirrors 24 / 192 as literals, so a changed constant
// makes the dispatch obligations fail
//@@ CONST integer/memsize/c_mul_thr_simple.rs
//@@ CONST integer/memsize/c_mul_thr_kara.rs
//@@ FN integer/memsize/multiply.rs drop_asserts=0,1
//@@ FN integer/memsize/disp_add_signed_mul.rs
//@@ FN integer/memsize/disp_same_len.rs
pub mod helpers {
use super::super::*;
use super::super::{add, mul};
//@@ FN integer/memsize/split_chunks.rs
}
pub mod simple {
use super::super::*;
use super::super::Sign::*;
use super::helpers;
//@@ CONST integer/memsize/c_simple_chunk_len.rs
//@@ CONST integer/memsize/c_simple_max_smaller.rs
//@@ SIG integer/mul_simple/add_mul_chunk.rs
//@@ SIG integer/mul_simple/sub_mul_chunk.rs
//@@ FN integer/memsize/simple_chunk.rs drop_asserts=1
//@@ FN integer/memsize/simple_same_len.rs drop_asserts=1
//@@ FN integer/memsize/simple_add_signed_mul.rs
}
pub mod karatsuba {
use super::super::*;
use super::helpers;
//@@ CONST integer/memsize/c_kara_min_len.rs
//@@ SIG integer/memsize/kara_same_len.rs
//@@ FN integer/memsize/kara_add_signed_mul.rs
}
pub mod toom_3 {
use super::super::*;
use super::helpers;
//@@ CONST integer/memsize/c_toom_min_len.rs
//@@ SIG integer/memsize/toom3_same_len.rs
//@@ FN integer/memsize/toom3_add_signed_mul.rs
}
}
} // verus!
fn main() {}
