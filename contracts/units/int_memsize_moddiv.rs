// unit int_memsize_moddiv: integer/src/modular/div.rs inv_large under its FUNCTIONAL + RESOURCE contract (C13 / C16): the proof
// of int_moddiv over the capacity-tracking Memory, plus: the scratch allocated from gcd::memory_requirement_ext_exact(|modulus|,
// raw_len) is what gcd::gcd_ext_in_place needs, so the modular inverse never panics with "internal error: not enough memory
// allocated" (it did before the repair 914fd28: this is the call site where that defect showed).
// Trusted: as int_moddiv (lib/mem_mod2_gcd.rs = lib/mod2_gcd.rs + RESOURCE clauses on gcd::gcd_ext_in_place /
// gcd::memory_requirement_ext_exact that are PROVED in int_memsize_gcd_ext / int_memsize_gcd_ext_ops; lib/mem_mod2_mem.rs =
// lib/mod2_mem.rs without its opaque Memory) + lib/mem_model.rs.
#![feature(allocator_api)]
#![allow(unused_imports, unused_variables, dead_code, non_snake_case, unused_mut, unused_parens, unused_braces)]
use vstd::prelude::*;
use vstd::std_specs::cmp::*;
use core::cmp::Ordering;
use core::ops::Deref;
verus! {
//@@ INCLUDE lib/prelude.rs
//@@ INCLUDE lib/mod2_sign.rs
//@@ INCLUDE lib/repr_stubs.rs
//@@ INCLUDE lib/div_dword_stubs.rs
//@@ INCLUDE lib/mem_layout_@BITS@.rs
//@@ INCLUDE lib/mem_model.rs
//@@ INCLUDE lib/mem_need.rs
//@@ INCLUDE lib/mem_req_stubs.rs
//@@ INCLUDE lib/mem_div_spec.rs
//@@ INCLUDE lib/mod2_ring.rs
//@@ INCLUDE lib/mem_mod2_mem.rs
//@@ INCLUDE lib/mem_mod2_gcd.rs
//@@ SIG integer/shift/shl_in_place.rs
//@@ SIG integer/shift/shr_in_place.rs
//@@ SIG integer/modular2/locate_top_word_plus_one.rs
//@@ SIG integer/modular2/negate_in_place.rs
//@@ FN integer/memsize/inv_large.rs drop_asserts=2
} // verus!
fn main() {}
