// unit int_bits_large: integer/src/bits.rs `mod repr` word-buffer bit operations over Buffer/Repr stubs (C09, C16, C19)
#![allow(unused_imports, unused_variables, dead_code, non_snake_case, unused_mut, unused_parens, unused_braces)]
use vstd::prelude::*;
verus! {
//@@ INCLUDE lib/prelude.rs
//@@ INCLUDE lib/shift_bv.rs
//@@ INCLUDE lib/bits_repr_lemmas.rs
//@@ INCLUDE lib/shift_ops_lemmas.rs
//@@ INCLUDE lib/bits_dword_lemmas.rs
//@@ INCLUDE lib/sign.rs
//@@ INCLUDE lib/repr_stubs.rs
//@@ INCLUDE lib/bits_stubs.rs
pub mod shift_ops { pub mod repr {
use super::super::*;
// proved in unit int_shift_ops
//@@ SIG integer/shift_ops/shr_large_ref.rs
} }
pub mod repr {
use super::*;
broadcast use crate::buffer_stub::ax_buffer_inv;
use super::math_stub::ceil_div;
//@@ SIG integer/bits_repr/ones_word.rs
//@@ SIG integer/bits_repr/ones_dword.rs
//@@ SIG integer/primitive/split_dword.rs
//@@ FN integer/bits_repr/bitand_large.rs
//@@ FN integer/bits_repr/bitor_large.rs
//@@ FN integer/bits_repr/bitxor_large.rs
//@@ FN integer/bits_repr/and_not_large.rs
//@@ FN integer/bits_repr/clear_high_bits_large.rs
//@@ FN integer/bits_repr/with_bit_large.rs
//@@ FN integer/bits_repr/with_bit_dword_spilled.rs
//@@ FN integer/bits_repr/bitor_large_dword.rs
//@@ FN integer/bits_repr/bitxor_large_dword.rs
//@@ FN integer/bits_repr/and_not_large_dword.rs
//@@ FN integer/bits_repr/typed_set_bit.rs
//@@ FN integer/bits_repr/typed_clear_bit.rs
//@@ FN integer/bits_repr/typed_clear_high_bits.rs
//@@ FN integer/bits_repr/typed_split_bits.rs
}
} // verus!
fn main() {}
