// unit int_memsize_gcd_ops: gcd/lehmer.rs memory_requirement_up_to, gcd/mod.rs memory_requirement_exact + gcd_in_place,
// gcd_ops.rs gcd_large under the FUNCTIONAL + RESOURCE contract (C12, C16): the Layout computed provides gneed(rhs_len / 2)
// Words, which is what the kernel gcd_in_place needs for every Euclidean step (PROVED in int_memsize_gcd; //@@ SIG here), so
// UBig::gcd on two large operands never panics with "internal error: not enough memory allocated".
// (Until the repair 1d55bba of lehmer::memory_requirement_up_to this unit FAILED: the old body div::memory_requirement_exact(
// lhs_len, rhs_len) reserved the scratch of the first division only -- the genuine defect found while writing this contract.)
// Trusted: as int_gcd_ops (lib/mem_gcd_stubs.rs = lib/gcdo_ops_stubs.rs without its opaque Memory) + lib/mem_model.rs.
#![allow(unused_imports, unused_variables, dead_code, non_snake_case, unused_mut, unused_parens, unused_braces)]
use vstd::prelude::*;
use core::cmp::Ordering;
verus! {
//@@ INCLUDE lib/prelude.rs
//@@ INCLUDE lib/sign.rs
//@@ INCLUDE lib/gcdo_stubs.rs
impl Sign {
//@@ SIG rational/sign/base_sign_neg.rs
}
//@@ INCLUDE lib/repr_stubs.rs
//@@ INCLUDE lib/dispatch_lemmas.rs
//@@ INCLUDE lib/div_dword_stubs.rs
//@@ INCLUDE lib/mem_layout_@BITS@.rs
//@@ INCLUDE lib/mem_model.rs
//@@ INCLUDE lib/mem_need.rs
//@@ INCLUDE lib/mem_req_stubs.rs
//@@ INCLUDE lib/mem_div_spec.rs
//@@ INCLUDE lib/mem_gcd_stubs.rs
pub mod mul {
use super::*;
//@@ SIG integer/memsize/mul_req_up_to.rs
}
pub mod div {
use super::*;
// (not called by the repaired code; kept so that the pre-repair body `div::memory_requirement_exact(lhs_len, rhs_len)` is
// judged by the contract instead of being rejected by the compiler)
//@@ SIG integer/memsize/div_req.rs
}
pub mod gcd {
use super::*;
pub mod lehmer {
use super::super::*;
//@@ FN integer/memsize/leh_req.rs
//@@ SIG integer/memsize/gcd_in_place.rs
}
//@@ FN integer/memsize/gcd_mod_req.rs
// debug assertion #0 (`.last().unwrap() != &0`) is the normalisation precondition
//@@ FN integer/memsize/gcd_mod_gcd_in_place.rs drop_asserts=0
}
pub mod gcd_ops {
pub mod repr {
use super::super::*;
broadcast use {crate::buffer_stub::ax_buffer_inv, crate::repr_stub::ax_repr_of};
//@@ FN integer/memsize/gcd_large.rs
}
}
} // verus!
fn main() {}
