// unit float_add: float/src/add.rs (C03 for add/sub as far as carried, C15 operand forms, C16): `Context::repr_round_sum`,
// the two mirror helpers `repr_add_large_small` / `repr_add_small_large`, `Context::{add, sub}` and the four
// `add_*` dispatch functions behind the FBig `+` / `-` operators.  `Round::round_fract` and `Context::repr_round(_ref)`
// are seen through the contracts they are verified against in units float_round / float_repr_round.
#![allow(unused_imports, unused_variables, dead_code, non_snake_case, unused_mut, unused_parens, unused_braces)]
use vstd::prelude::*;
verus! {
//@@ INCLUDE lib/round_prelude.rs
//@@ INCLUDE lib/round_int_stubs.rs
//@@ INCLUDE lib/round_int_addsub_stubs.rs
pub trait Round: Copy {
    /// ghost: which of the six mode definitions the implementing type stands for
    spec fn md() -> Mode;
//@@ SIG float/round/round_fract.rs
}
//@@ INCLUDE lib/round_float_repr.rs
//@@ INCLUDE lib/conv_fbig_stubs.rs
//@@ INCLUDE lib/farith_repr_stubs.rs
//@@ INCLUDE lib/farith_lemmas.rs
//@@ INCLUDE lib/farith_add_stubs.rs
//@@ INCLUDE lib/farith_add_lemmas.rs
use core::marker::PhantomData;
use Sign::*;
global size_of usize == 8;   // DESIGN.md section 6: usize is 64-bit in all proofs
impl<T, E> Approximation<T, E> {
//@@ FN base/approx/map.rs
//@@ FN float/mul/approx_value.rs
}
//@@ SIG float/mul/panic_operate_with_inf.rs
//@@ FN float/mul/assert_finite_operands.rs
impl<const B: Word> Repr<B> {
//@@ FN float/repr/is_infinite.rs
//@@ SIG float/repr/digits.rs
}
impl<R: Round> Context<R> {
//@@ FN float/repr/is_limited.rs
//@@ FN float/mul/context_max.rs
//@@ SIG float/repr/repr_round.rs
//@@ SIG float/repr/repr_round_ref.rs
//@@ FN float/add/repr_round_sum.rs
//@@ FN float/add/repr_add_large_small.rs
//@@ FN float/add/repr_add_small_large.rs
//@@ FN float/add/context_add.rs
//@@ FN float/add/context_sub.rs
}
impl<R: Round, const B: Word> FBig<R, B> {
//@@ FN float/fbig/new.rs
}
} // verus!
fn main() {}
