// unit float_ilog_exact: float/src/utils.rs `ilog_exact` (decides which shortcut of `Context::convert_base` applies, C08):
// returns the exponent k >= 1 with base^k == n and 0 when n is not a power of base -- soundness AND completeness.
#![allow(unused_imports, unused_variables, dead_code, non_snake_case, unused_mut, unused_parens, unused_braces)]
use vstd::prelude::*;
verus! {
//@@ INCLUDE lib/round_prelude.rs
//@@ INCLUDE lib/round_int_stubs.rs
pub trait Round: Copy {
    spec fn md() -> Mode;
}
//@@ INCLUDE lib/round_float_repr.rs
//@@ INCLUDE lib/fio_convbase.rs
//@@ FN float/convbase/ilog_exact.rs
} // verus!
fn main() {}
