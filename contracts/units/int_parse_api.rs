// unit int_parse_api (C07, parsing half): integer/src/parse/mod.rs -- UBig::{from_str_radix_no_sign, from_str_radix,
// from_str_with_radix_prefix_no_sign, from_str_with_radix_default, from_str_with_radix_prefix}, IBig::{from_str_radix,
// from_str_with_radix_default, from_str_with_radix_prefix}, FromStr for UBig / IBig.
// Post (property statement + the documented grammar; lib/parse_api_spec.rs): the text is  [sign] [prefix] body  with
// sign '+' (UBig) or '+' / '-' (IBig), prefix "0b" / "0o" / "0x" (the *_with_radix_* forms; radix 2 / 8 / 16, otherwise the
// default radix), and
//     body_result(body, radix) = Err(NoDigits)      if body is empty or consists of '_' only
//                              = Ok(digits_value(strip_us(body), radix))   if every byte is '_' or a digit of the radix
//                              = Err(InvalidDigit)  otherwise  ("invalid characters are rejected, never silently accepted")
// the result is exactly that (negated for '-'), plus the radix used; Err(UnsupportedRadix) iff radix is outside 2..=36
// (from_str_radix).  Leading-zero stripping is proved value-preserving.
// The digit parsers are seen through their contracts (SIG: proved in units int_parse_p2 / int_parse_npt).
// Trusted: lib/parse_str.rs (string model: as_bytes / len / strip_prefix of an ASCII pattern), lib/parse_stubs.rs,
// lib/repr_stubs.rs (Repr::with_sign), Option::unwrap_or / Result::map (vstd), u32::is_power_of_two.  Engine rule D15b
// (`src.bytes().all(|b| b == b'_')`): helper lib/parse_str_all.rs verified here.
// RESTRICTION (defect, reported): `from_str_with_radix_default(src, default_radix)` does NOT validate `default_radix`:
// for default_radix outside 2..=36 and a text without prefix it panics (debug: `debug_assert!(is_radix_valid)`; release:
// division by zero for 0 / 1, `assert!(is_radix_valid(radix))` in digit_from_ascii_byte otherwise) instead of returning
// Err(UnsupportedRadix) as from_str_radix does.  The contracts of the three *_default / *_no_sign functions therefore
// REQUIRE 2 <= default_radix <= 36.
// Resource precondition everywhere: the text has at most Buffer::MAX_CAPACITY (usize::MAX / WORD_BITS) bytes.
#![allow(unused_imports, unused_variables, dead_code, non_snake_case, unused_mut, unused_parens, unused_braces, non_camel_case_types)]
use vstd::prelude::*;
verus! {
//@@ INCLUDE lib/prelude.rs
//@@ INCLUDE lib/sign.rs
//@@ INCLUDE lib/repr_stubs.rs
//@@ INCLUDE lib/shift_bv.rs
//@@ INCLUDE lib/dispatch_lemmas.rs
//@@ INCLUDE lib/pow_lemmas.rs
//@@ INCLUDE lib/pow_api_stubs.rs
//@@ INCLUDE lib/pow_api_lemmas.rs
//@@ INCLUDE lib/parse_spec.rs
//@@ INCLUDE lib/parse_stubs.rs
//@@ INCLUDE lib/parse_lemmas.rs
//@@ INCLUDE lib/parse_p2_lemmas.rs
//@@ INCLUDE lib/parse_str.rs
//@@ INCLUDE lib/parse_str_all.rs
//@@ INCLUDE lib/parse_api_spec.rs
use radix::is_radix_valid;
pub mod power_two {
use super::*;
//@@ SIG integer/parse/p2_parse.rs
}
pub mod non_power_two {
use super::*;
//@@ SIG integer/parse/npt_parse.rs
}
impl UBig {
//@@ FN integer/parse/ubig_from_str_radix_no_sign.rs
//@@ FN integer/parse/ubig_from_str_radix.rs
//@@ FN integer/parse/ubig_prefix_no_sign.rs
//@@ FN integer/parse/ubig_radix_default.rs
//@@ FN integer/parse/ubig_radix_prefix.rs
}
impl IBig {
//@@ FN integer/parse/ibig_from_str_radix.rs
//@@ FN integer/parse/ibig_radix_default.rs
//@@ FN integer/parse/ibig_radix_prefix.rs
}
//@@ FN integer/parse/ubig_from_str.rs
//@@ FN integer/parse/ibig_from_str.rs
} // verus!
fn main() {}
