// unit int_parse_api (C07, parsing half): integer/src/parse/mod.rs
#![allow(unused_imports, unused_variables, dead_code, non_snake_case, unused_mut, unused_parens, unused_braces, non_camel_case_types)]
use vstd::prelude::*;
verus! {
//@@ INCLUDE lib/prelude.rs
//@@ INCLUDE lib/sign.rs
//@@ INCLUDE lib/repr_stubs.rs
//@@ INCLUDE lib/shift_bv.rs
//@@ INCLUDE lib/dispatch_lemmas.rs
//@@ INCLUDE lib/pow_lemmas.rs
//@@ INCLUDE lib/pow_api_stubs.rs
//@@ INCLUDE lib/pow_api_lemmas.rs
//@@ INCLUDE lib/parse_spec.rs
//@@ INCLUDE lib/parse_stubs.rs
//@@ INCLUDE lib/parse_lemmas.rs
//@@ INCLUDE lib/parse_p2_lemmas.rs
//@@ INCLUDE lib/parse_str.rs
//@@ INCLUDE lib/parse_str_all.rs
//@@ INCLUDE lib/parse_api_spec.rs
use radix::is_radix_valid;
pub mod power_two {
use super::*;
//@@ SIG integer/parse/p2_parse.rs
}
pub mod non_power_two {
use super::*;
//@@ SIG integer/parse/npt_parse.rs
}
impl UBig {
//@@ FN integer/parse/ubig_from_str_radix_no_sign.rs
//@@ FN integer/parse/ubig_from_str_radix.rs
}
impl IBig {
//@@ FN integer/parse/ibig_from_str_radix.rs
}
} // verus!
fn main() {}
