// unit int_parse_p2 (C07, parsing half): integer/src/parse/power_two.rs -- parse_word, parse_large, parse; UNBOUNDED in the
// length of the text (the Kani group int_parse_p2 covers 5 symbolic characters).
// Post (property statement; lib/parse_spec.rs): with s = the bytes of src
//     Ok(v)  ==> text_ok(s, radix)  (every byte is '_' or a digit of the radix)  &&  v == digits_value(strip_us(s), radix)
//     Err(e) ==> !text_ok(s, radix) && e == InvalidDigit
// parse_word under `len <= floor(WORD_BITS / log2 radix)` (its documented precondition; `parse` must establish it: a
// fast path taken for ceil(..) digits -- radix 8 and 32 -- fails the call's precondition); parse_large for any non-empty
// text whose bit count fits a Buffer (resource precondition = the documented "number to be parsed is too large" panic).
// Proved besides: shift amounts < WORD_BITS (`<< bits`, `>> (WORD_BITS - bits)`), `num_bits - 1` does not underflow,
// every `buffer.push` has room in the ceil(num_bits / WORD_BITS)-word buffer, the second debug assertion of parse_word.
// Trusted: lib/parse_stubs.rs (digit_from_ascii_byte: Kani int_radix; Word -> UBig), lib/parse_str.rs (string model),
// lib/repr_stubs.rs (Buffer, Repr::from_buffer), vstd specs of u32::trailing_zeros / checked_mul / Option::expect,
// u32::is_power_of_two (lib/parse_p2_lemmas.rs, only used by unit int_parse_api).
#![allow(unused_imports, unused_variables, dead_code, non_snake_case, unused_mut, unused_parens, unused_braces, non_camel_case_types)]
use vstd::prelude::*;
verus! {
//@@ INCLUDE lib/prelude.rs
//@@ INCLUDE lib/sign.rs
//@@ INCLUDE lib/repr_stubs.rs
//@@ INCLUDE lib/shift_bv.rs
//@@ INCLUDE lib/dispatch_lemmas.rs
//@@ INCLUDE lib/pow_lemmas.rs
//@@ INCLUDE lib/pow_api_stubs.rs
//@@ INCLUDE lib/pow_api_lemmas.rs
//@@ INCLUDE lib/parse_spec.rs
//@@ INCLUDE lib/parse_stubs.rs
//@@ INCLUDE lib/parse_lemmas.rs
//@@ INCLUDE lib/parse_p2_lemmas.rs
//@@ INCLUDE lib/parse_str.rs
pub mod power_two {
use super::*;
broadcast use {buffer_stub::ax_buffer_inv, repr_stub::ax_repr_of};
//@@ FN integer/parse/p2_parse_word.rs drop_asserts=0
//@@ FN integer/parse/p2_parse_large.rs drop_asserts=0
//@@ FN integer/parse/p2_parse.rs drop_asserts=0
}
} // verus!
fn main() {}
