// unit int_parse_p2 (C07, parsing half): integer/src/parse/power_two.rs
#![allow(unused_imports, unused_variables, dead_code, non_snake_case, unused_mut, unused_parens, unused_braces, non_camel_case_types)]
use vstd::prelude::*;
verus! {
//@@ INCLUDE lib/prelude.rs
//@@ INCLUDE lib/sign.rs
//@@ INCLUDE lib/repr_stubs.rs
//@@ INCLUDE lib/shift_bv.rs
//@@ INCLUDE lib/dispatch_lemmas.rs
//@@ INCLUDE lib/pow_lemmas.rs
//@@ INCLUDE lib/pow_api_stubs.rs
//@@ INCLUDE lib/pow_api_lemmas.rs
//@@ INCLUDE lib/parse_spec.rs
//@@ INCLUDE lib/parse_stubs.rs
//@@ INCLUDE lib/parse_lemmas.rs
//@@ INCLUDE lib/parse_p2_lemmas.rs
//@@ INCLUDE lib/parse_str.rs
pub mod power_two {
use super::*;
broadcast use {buffer_stub::ax_buffer_inv, repr_stub::ax_repr_of};
//@@ FN integer/parse/p2_parse_word.rs drop_asserts=0
//@@ FN integer/parse/p2_parse_large.rs drop_asserts=0
//@@ FN integer/parse/p2_parse.rs drop_asserts=0
}
} // verus!
fn main() {}
