// unit int_bits_signed: the sign-case analysis of integer/src/bits.rs -- macro arms impl_ibig_bitand / impl_ibig_bitor /
// impl_ibig_bitxor (rule E3) and `Not for IBig` / `Not for &IBig` -- against two's complement with infinitely many sign
// bits on mathematical integers (digit i of x = floor(x / 2^i) mod 2), over abstract magnitudes whose UNSIGNED digit-wise
// operations are assumed (lib/bits_signed_stubs.rs) (C09, C16)
#![allow(unused_imports, unused_variables, dead_code, non_snake_case, unused_mut, unused_parens, unused_braces)]
use vstd::prelude::*;
verus! {
//@@ INCLUDE lib/prelude.rs
//@@ INCLUDE lib/shift_bv.rs
//@@ INCLUDE lib/bits_repr_lemmas.rs
//@@ INCLUDE lib/bits_signed_lemmas.rs
//@@ INCLUDE lib/bits_signed_stubs.rs
broadcast use {stub::ax_repr_of, stub::ax_typed_nonneg, stub::ax_typedref_nonneg};

// ---- the real `Not` bodies, then the operator `!` on IBig forwarded to them
pub mod ibig_not { use super::*;
broadcast use {stub::ax_repr_of, stub::ax_typed_nonneg, stub::ax_typedref_nonneg};
//@@ FN integer/bits_signed/ibig_not.rs
impl vstd::std_specs::ops::NotSpecImpl for IBig {
    open spec fn obeys_not_spec() -> bool { true }
    open spec fn not_req(self) -> bool { true }
    open spec fn not_spec(self) -> IBig { IBig(repr_of(-self.0.v() - 1)) }
}
impl core::ops::Not for IBig { type Output = IBig;
    fn not(self) -> IBig {
        let r = not(self);
        proof { ax_repr_ext(r.0, repr_of(-self.0.v() - 1)); }
        r
    }
}
}
pub mod ibig_ref_not { use super::*;
broadcast use {stub::ax_repr_of, stub::ax_typed_nonneg, stub::ax_typedref_nonneg};
//@@ FN integer/bits_signed/ibig_ref_not.rs
}

// ---- shift_ops.rs: arithmetic right shift of IBig
pub mod ibig_shr { use super::*;
broadcast use {stub::ax_repr_of, stub::ax_typed_nonneg, stub::ax_typedref_nonneg};
//@@ FN integer/bits_signed/ibig_shr.rs
}
pub mod ibig_ref_shr { use super::*;
broadcast use {stub::ax_repr_of, stub::ax_typed_nonneg, stub::ax_typedref_nonneg};
//@@ FN integer/bits_signed/ibig_ref_shr.rs
}

// ---- the macro arms, each instantiated for the four (owned | borrowed) magnitude combinations the forwarding macros
//      of integer/src/helper_macros.rs supply (into_sign_repr / as_sign_repr)
//@@ WRAP and_vv fn ibig_bitand_vv(sign0: Sign, mag0: TypedRepr, sign1: Sign, mag1: TypedRepr) -> IBig
//@@ FN integer/bits_signed/ibig_bitand.rs wrap=and_vv
//@@ WRAP and_vr fn ibig_bitand_vr(sign0: Sign, mag0: TypedRepr, sign1: Sign, mag1: TypedReprRef) -> IBig
//@@ FN integer/bits_signed/ibig_bitand.rs wrap=and_vr
//@@ WRAP and_rv fn ibig_bitand_rv(sign0: Sign, mag0: TypedReprRef, sign1: Sign, mag1: TypedRepr) -> IBig
//@@ FN integer/bits_signed/ibig_bitand.rs wrap=and_rv
//@@ WRAP and_rr fn ibig_bitand_rr(sign0: Sign, mag0: TypedReprRef, sign1: Sign, mag1: TypedReprRef) -> IBig
//@@ FN integer/bits_signed/ibig_bitand.rs wrap=and_rr
//@@ WRAP or_vv fn ibig_bitor_vv(sign0: Sign, mag0: TypedRepr, sign1: Sign, mag1: TypedRepr) -> IBig
//@@ FN integer/bits_signed/ibig_bitor.rs wrap=or_vv
//@@ WRAP or_vr fn ibig_bitor_vr(sign0: Sign, mag0: TypedRepr, sign1: Sign, mag1: TypedReprRef) -> IBig
//@@ FN integer/bits_signed/ibig_bitor.rs wrap=or_vr
//@@ WRAP or_rv fn ibig_bitor_rv(sign0: Sign, mag0: TypedReprRef, sign1: Sign, mag1: TypedRepr) -> IBig
//@@ FN integer/bits_signed/ibig_bitor.rs wrap=or_rv
//@@ WRAP or_rr fn ibig_bitor_rr(sign0: Sign, mag0: TypedReprRef, sign1: Sign, mag1: TypedReprRef) -> IBig
//@@ FN integer/bits_signed/ibig_bitor.rs wrap=or_rr
//@@ WRAP xor_vv fn ibig_bitxor_vv(sign0: Sign, mag0: TypedRepr, sign1: Sign, mag1: TypedRepr) -> IBig
//@@ FN integer/bits_signed/ibig_bitxor.rs wrap=xor_vv
//@@ WRAP xor_vr fn ibig_bitxor_vr(sign0: Sign, mag0: TypedRepr, sign1: Sign, mag1: TypedReprRef) -> IBig
//@@ FN integer/bits_signed/ibig_bitxor.rs wrap=xor_vr
//@@ WRAP xor_rv fn ibig_bitxor_rv(sign0: Sign, mag0: TypedReprRef, sign1: Sign, mag1: TypedRepr) -> IBig
//@@ FN integer/bits_signed/ibig_bitxor.rs wrap=xor_rv
//@@ WRAP xor_rr fn ibig_bitxor_rr(sign0: Sign, mag0: TypedReprRef, sign1: Sign, mag1: TypedReprRef) -> IBig
//@@ FN integer/bits_signed/ibig_bitxor.rs wrap=xor_rr
} // verus!
fn main() {}
