// unit ratio_to_fbig: rational/src/third_party/dashu_float.rs `Repr::to_float` (C06/C10: the rational rounded ONCE to a
// float of `precision` digits in base B by mode R, truthful Exact/Inexact flag, Exact iff representable), together with
// the real callees float/src/convert.rs `Context::convert_int`, float/src/shift.rs `Shr<isize> for FBig` (hoisted),
// `Context::new`, `Repr::{is_infinite, is_zero}`, `FBig::new`, `Approximation::{map, and_then}`, `assert_finite`.
// `Context::repr_round`, `FBig::with_precision` and `Round::round_ratio` are seen through the contracts they are verified
// against in units float_repr_round / float_conv / float_round (SIG = generated from the same annotated copies).
#![allow(unused_imports, unused_variables, dead_code, non_snake_case, unused_mut, unused_parens, unused_braces)]
use vstd::prelude::*;
verus! {
//@@ INCLUDE lib/round_prelude.rs
//@@ INCLUDE lib/round_int_stubs.rs
//@@ INCLUDE lib/round_int_addsub_stubs.rs
pub trait Round: Copy {
    /// ghost: which of the six mode definitions the implementing type stands for
    spec fn md() -> Mode;
//@@ SIG float/round/round_ratio.rs
}
//@@ INCLUDE lib/round_float_repr.rs
//@@ INCLUDE lib/conv_fbig_stubs.rs
//@@ INCLUDE lib/ebounds_stubs.rs
//@@ INCLUDE lib/farith_lemmas.rs
//@@ INCLUDE lib/tf_stubs.rs
//@@ INCLUDE lib/tf_lemmas.rs
use core::marker::PhantomData;
global size_of usize == 8;   // DESIGN.md section 6: usize is 64-bit in all proofs
impl<T, E> Approximation<T, E> {
//@@ FN base/approx/map.rs
//@@ FN base/approx/and_then.rs
}
//@@ SIG float/error/panic_operate_with_inf.rs
//@@ FN float/error/assert_finite.rs
impl<const B: Word> Repr<B> {
//@@ FN float/repr/is_infinite.rs
//@@ FN float/ebounds/repr_is_zero.rs
}
impl<R: Round> Context<R> {
//@@ FN float/convert/context_new.rs
//@@ SIG float/repr/repr_round.rs
//@@ FN rational/to_float/convert_int.rs
}
impl<R: Round, const B: Word> FBig<R, B> {
//@@ FN float/fbig/new.rs
//@@ SIG float/convert/with_precision.rs
}
//@@ FN rational/to_float/fbig_shr.rs
pub mod ratio {
use super::*;
// rational/src/repr.rs `pub struct Repr { numerator: IBig, denominator: UBig }` -- transcription (shadows the float Repr,
// which the real file imports as `FBigRepr`)
pub struct Repr {
    pub numerator: IBig,
    pub denominator: UBig,
}
impl Repr {
//@@ FN rational/to_float/repr_to_float.rs
}
}
} // verus!
fn main() {}
