// unit int_add: integer/src/add.rs slice kernels (C01, C13, C16, C19)
#![allow(unused_imports, unused_variables, dead_code, non_snake_case, unused_mut, unused_parens, unused_braces)]
use vstd::prelude::*;
use core::cmp::Ordering::*;
verus! {
//@@ INCLUDE lib/prelude.rs
//@@ INCLUDE lib/sign.rs
//@@ INCLUDE lib/add_lemmas.rs
pub mod arch { pub mod add {
use super::super::*;
//@@ SIG integer/arch/add_with_carry.rs
//@@ SIG integer/arch/sub_with_borrow.rs
} }
use arch::add::{add_with_carry, sub_with_borrow};
//@@ SIG integer/primitive/split_dword.rs
//@@ FN integer/add/add_one_in_place.rs
//@@ FN integer/add/sub_one_in_place.rs
//@@ FN integer/add/add_word_in_place.rs
//@@ FN integer/add/sub_word_in_place.rs
//@@ FN integer/add/add_dword_in_place.rs
//@@ FN integer/add/sub_dword_in_place.rs
//@@ FN integer/add/add_same_len_in_place.rs
//@@ FN integer/add/sub_same_len_in_place.rs
//@@ FN integer/add/sub_same_len_in_place_swap.rs
//@@ FN integer/add/add_in_place.rs
//@@ FN integer/add/sub_in_place.rs
//@@ FN integer/add/sub_in_place_with_sign.rs
//@@ FN integer/add/add_signed_word_in_place.rs
//@@ FN integer/add/add_signed_same_len_in_place.rs
//@@ FN integer/add/add_signed_in_place.rs
} // verus!
fn main() {}
