// unit int_add: integer/src/add.rs slice kernels (C01, C13, C16, C19)
#![allow(unused_imports, unused_variables, dead_code, non_snake_case, unused_mut, unused_parens, unused_braces)]
use vstd::prelude::*;
verus! {
//@@ INCLUDE lib/prelude.rs
//@@ INCLUDE lib/add_lemmas.rs
//@@ FN integer/add/add_one_in_place.rs
} // verus!
fn main() {}
