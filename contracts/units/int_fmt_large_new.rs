// unit int_fmt_large_new: integer/src/fmt/non_power_two.rs PreparedLarge::new (C07): the table of radix powers
// radix^((digits_per_word * CHUNK_LEN) << k) built by squaring, and the splitting of the number into a top chunk and
// big chunks by div_rem: the structure satisfies the invariant under which PreparedLarge::write is proved (unit
// int_fmt_large_write) and STANDS FOR THE NUMBER.
// Trusted: lib/fmtl_stubs.rs (value contracts of Repr / TypedRepr / TypedReprRef operations), lib/codecs_fmt_stubs.rs;
// pow / sqr / PreparedMedium::new / TypedReprRef::len are seen through the contracts PROVED in units int_pow,
// int_mul_ops, int_fmt_digits, int_fmt_dispatch (//@@ SIG); rule D22 with its helper lib/fmtl_iter.rs verified here.
#![allow(unused_imports, unused_variables, dead_code, non_snake_case, unused_mut, unused_parens, unused_braces)]
use vstd::prelude::*;
verus! {
//@@ INCLUDE lib/prelude.rs
//@@ INCLUDE lib/shift_bv.rs
//@@ INCLUDE lib/div_word_stubs.rs
//@@ INCLUDE lib/codecs_fmt_stubs.rs
//@@ INCLUDE lib/codecs_digit_lemmas.rs
//@@ INCLUDE lib/codecs_writer_stub.rs
//@@ INCLUDE lib/fmtl_stubs.rs
//@@ INCLUDE lib/fmtl_lemmas.rs
//@@ INCLUDE lib/fmtl_iter.rs
// contracts PROVED in units int_pow / int_mul_ops (hoisted trait-free methods) ...
pub mod pow_repr {
use super::*;
//@@ SIG integer/pow/typedref_pow.rs
}
pub mod mul_repr {
use super::*;
//@@ SIG integer/mul_ops/typedref_sqr.rs
}
impl<'a> TypedReprRef<'a> {
    // ... D2 links: `x.pow(exp)` / `x.sqr()` on a TypedReprRef are those hoisted methods
    pub fn pow(self, exp: usize) -> (r: Repr)
        requires self.wf(), 2 * (self.nwords() * exp) <= max_capacity(),
        ensures r.v() == ipow(self.v(), exp as int),
    { pow_repr::typedref_pow(self, exp) }
    pub fn sqr(&self) -> (r: Repr)
        requires self.wf(), self.nwords() * 2 <= max_capacity(),
        ensures r.v() == self.v() * self.v(),
    { mul_repr::typedref_sqr(self) }
// contract PROVED in unit int_fmt_dispatch
//@@ SIG integer/fmt_npt/typedref_len.rs
}
impl PreparedMedium {
// contract PROVED in unit int_fmt_medium_lead
//@@ SIG integer/fmt_large/medium_new_lead.rs
}
impl PreparedLarge {
//@@ FN integer/fmt_large/large_new.rs drop_asserts=0
}
} // verus!
fn main() {}
