// unit ratio_zero_panic: C04 "division by zero panics" (and C16) for rational/src/div.rs: the `must_panic` variants (rule D4)
// of every arm that divides -- `/` (RBig, Relaxed, and the six mixed arms with UBig / IBig on either side), `%`, div_euclid,
// rem_euclid, div_rem_euclid -- and of Inverse::inv for Repr / RBig / &RBig / Relaxed / &Relaxed: with a zero divisor
// (requires) no normal return is possible (ensures false).  The value-level units (ratio_ops, ratio_int_ops, ratio_rem,
// ratio_inv, ratio_inv_fwd) have "divisor != 0" as a precondition and leave this clause open.
// The arms are instantiated for the by-value forwarding (a, b, c, d / i owned, ra.. the references the forwarding macro takes
// to them); the by-reference forwardings are instantiated in unit ratio_zero_panic_ref.
// Where the arm has its own guard the panic is `panic_divide_by_0()` (TRUSTED never to return: its body is `panic!`); the
// `%`, rem_euclid and div_rem_euclid arms have no guard: the zero divisor reaches IBig::rem / rem_euclid / div_rem_euclid,
// whose must_panic stub contracts (lib/rp_stubs.rs, `requires rhs.v() == 0 ensures false`) are TRUSTED here and are the
// subject of unit int_div_ops_zero (C02/C16) at the representation level.
// must_panic functions are exempt from the `ensures false` canary by construction; that their preconditions are not
// contradictory is shown by the mutation runs (a dropped / misplaced guard makes each of them fail).
#![allow(unused_imports, unused_variables, dead_code, non_snake_case, unused_mut, unused_parens, unused_braces)]
use vstd::prelude::*;
use vstd::arithmetic::power2::pow2;
use core::cmp::Ordering;
use core::ops::{Add, Sub, Mul, Div};
verus! {
//@@ INCLUDE lib/ratio_lemmas.rs
//@@ INCLUDE lib/bigstub.rs
impl Sign {
// base/src/sign.rs: proved in unit ratio_ops / ratio_reduce, here seen through their contracts
//@@ SIG rational/sign/base_sign_mul.rs
//@@ SIG rational/sign/base_sign_neg.rs
//@@ SIG rational/sign/base_sign_cmp.rs
}
//@@ INCLUDE lib/ratio_types.rs
//@@ INCLUDE lib/rp_stubs.rs
//@@ INCLUDE lib/rp_inv_stubs.rs
// rational/src/error.rs: must_panic reading, the helper never returns
//@@ SIG rational/panic/panic_divide_by_0.rs variant=must_panic
impl RBig {
// proved in unit ratio_reduce (total contract: denominator != 0); only reached after the panicking call
//@@ SIG rational/rbig/rbig_from_parts.rs
}
impl Relaxed {
// proved in unit ratio_ops (total contract: denominator != 0)
//@@ SIG rational/rbig/relaxed_from_parts.rs
}
// ---- `/` with an explicit guard
//@@ WRAP rbig_div fn rbig_div_zero(a: IBig, b: UBig, c: IBig, d: UBig, ra: &IBig, rb: &UBig, rc: &IBig, rd: &UBig) -> RBig
//@@ FN rational/panic/div_with_rbig.rs wrap=rbig_div subst=method:div variant=must_panic
//@@ WRAP relaxed_div fn relaxed_div_zero(a: IBig, b: UBig, c: IBig, d: UBig, ra: &IBig, rb: &UBig, rc: &IBig, rd: &UBig) -> Relaxed
//@@ FN rational/panic/div_with_relaxed.rs wrap=relaxed_div subst=method:div variant=must_panic
//@@ WRAP rbig_div_ubig fn rbig_div_ubig_zero(a: IBig, b: UBig, i: UBig, ra: &IBig, rb: &UBig, ri: &UBig) -> RBig
//@@ FN rational/panic/rbig_div_ubig.rs wrap=rbig_div_ubig subst=method:div variant=must_panic
//@@ WRAP rbig_div_ibig fn rbig_div_ibig_zero(a: IBig, b: UBig, i: IBig, ra: &IBig, rb: &UBig, ri: &IBig) -> RBig
//@@ FN rational/panic/rbig_div_ibig.rs wrap=rbig_div_ibig subst=method:div variant=must_panic
//@@ WRAP ubig_div_rbig fn ubig_div_rbig_zero(a: IBig, b: UBig, i: UBig, ra: &IBig, rb: &UBig, ri: &UBig) -> RBig
//@@ FN rational/panic/int_div_rbig.rs wrap=ubig_div_rbig subst=method:div variant=must_panic
//@@ WRAP ibig_div_rbig fn ibig_div_rbig_zero(a: IBig, b: UBig, i: IBig, ra: &IBig, rb: &UBig, ri: &IBig) -> RBig
//@@ FN rational/panic/int_div_rbig.rs wrap=ibig_div_rbig subst=method:div variant=must_panic
//@@ WRAP relaxed_div_ubig fn relaxed_div_ubig_zero(a: IBig, b: UBig, i: UBig, ra: &IBig, rb: &UBig, ri: &UBig) -> Relaxed
//@@ FN rational/panic/relaxed_div_ubig.rs wrap=relaxed_div_ubig subst=method:div variant=must_panic
//@@ WRAP relaxed_div_ibig fn relaxed_div_ibig_zero(a: IBig, b: UBig, i: IBig, ra: &IBig, rb: &UBig, ri: &IBig) -> Relaxed
//@@ FN rational/panic/relaxed_div_ibig.rs wrap=relaxed_div_ibig subst=method:div variant=must_panic
//@@ WRAP ubig_div_relaxed fn ubig_div_relaxed_zero(a: IBig, b: UBig, i: UBig, ra: &IBig, rb: &UBig, ri: &UBig) -> Relaxed
//@@ FN rational/panic/int_div_relaxed.rs wrap=ubig_div_relaxed subst=method:div variant=must_panic
//@@ WRAP ibig_div_relaxed fn ibig_div_relaxed_zero(a: IBig, b: UBig, i: IBig, ra: &IBig, rb: &UBig, ri: &IBig) -> Relaxed
//@@ FN rational/panic/int_div_relaxed.rs wrap=ibig_div_relaxed subst=method:div variant=must_panic
// ---- div_euclid (explicit guard; instantiated by the real code for RBig and for Relaxed with the same arm)
//@@ WRAP euclid_div fn euclid_div_zero(a: IBig, b: UBig, c: IBig, d: UBig, ra: &IBig, rb: &UBig, rc: &IBig, rd: &UBig) -> IBig
//@@ FN rational/panic/euclid_div.rs wrap=euclid_div subst=method:div_euclid variant=must_panic
// ---- `%`, rem_euclid, div_rem_euclid: the panic happens inside the integer operation
//@@ WRAP rbig_rem fn rbig_rem_zero(a: IBig, b: UBig, c: IBig, d: UBig, ra: &IBig, rb: &UBig, rc: &IBig, rd: &UBig) -> RBig
//@@ FN rational/panic/rem_with_rbig.rs wrap=rbig_rem subst=method:rem variant=must_panic
//@@ WRAP relaxed_rem fn relaxed_rem_zero(a: IBig, b: UBig, c: IBig, d: UBig, ra: &IBig, rb: &UBig, rc: &IBig, rd: &UBig) -> Relaxed
//@@ FN rational/panic/rem_with_relaxed.rs wrap=relaxed_rem subst=method:rem variant=must_panic
//@@ WRAP rbig_rem_euclid fn rbig_rem_euclid_zero(a: IBig, b: UBig, c: IBig, d: UBig, ra: &IBig, rb: &UBig, rc: &IBig, rd: &UBig) -> RBig
//@@ FN rational/panic/euclid_rem_with_rbig.rs wrap=rbig_rem_euclid subst=method:rem_euclid variant=must_panic
//@@ WRAP relaxed_rem_euclid fn relaxed_rem_euclid_zero(a: IBig, b: UBig, c: IBig, d: UBig, ra: &IBig, rb: &UBig, rc: &IBig, rd: &UBig) -> Relaxed
//@@ FN rational/panic/euclid_rem_with_relaxed.rs wrap=relaxed_rem_euclid subst=method:rem_euclid variant=must_panic
//@@ WRAP rbig_divrem_euclid fn rbig_divrem_euclid_zero(a: IBig, b: UBig, c: IBig, d: UBig, ra: &IBig, rb: &UBig, rc: &IBig, rd: &UBig) -> (IBig, RBig)
//@@ FN rational/panic/euclid_divrem_with_rbig.rs wrap=rbig_divrem_euclid subst=method:div_rem_euclid variant=must_panic
//@@ WRAP relaxed_divrem_euclid fn relaxed_divrem_euclid_zero(a: IBig, b: UBig, c: IBig, d: UBig, ra: &IBig, rb: &UBig, rc: &IBig, rd: &UBig) -> (IBig, Relaxed)
//@@ FN rational/panic/euclid_divrem_with_relaxed.rs wrap=relaxed_divrem_euclid subst=method:div_rem_euclid variant=must_panic
// ---- Inverse::inv: `impl Inverse for Repr :: inv` hoisted to a free function by rule D2, then the four forwardings
//@@ FN rational/panic/repr_inv.rs variant=must_panic
//@@ FN rational/panic/rbig_inv.rs variant=must_panic
//@@ FN rational/panic/rbig_ref_inv.rs variant=must_panic
//@@ FN rational/panic/relaxed_inv.rs variant=must_panic
//@@ FN rational/panic/relaxed_ref_inv.rs variant=must_panic
} // verus!
fn main() {}
