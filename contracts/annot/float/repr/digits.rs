//@ item: float/src/repr.rs :: impl<const B: Word> Repr<B> :: digits
pub fn digits(&self) -> usize
/*@
    requires B >= 2, !(self.significand.v() == 0 && self.exponent != 0),
    ensures ret == ndigits(B as int, self.significand.v()),
@*/
{
        assert_finite(self);
        digit_len::<B>(&self.significand)
}
