//@ item: float/src/repr.rs :: impl<const B: Word> Repr<B> :: is_infinite
pub const fn is_infinite(&self) -> bool
/*@
    ensures ret == (self.significand.v() == 0 && self.exponent != 0),
@*/
{
        self.significand.is_zero() && self.exponent != 0
}
