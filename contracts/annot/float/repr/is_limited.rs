//@ item: float/src/repr.rs :: impl<R: Round> Context<R> :: is_limited
pub(crate) const fn is_limited(&self) -> bool
/*@
    ensures ret == (self.precision != 0),
@*/
{
        self.precision != 0
}
