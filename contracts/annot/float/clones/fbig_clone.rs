//@ item: float/src/fbig.rs :: impl<R: Round, const B: Word> Clone for FBig<R, B> :: clone
fn clone(&self) -> Self
/*@
    ensures
        // C05 / C15: a clone has the significand, the exponent AND the precision of its source
        cl_fbig_copy(*self, ret),
@*/
{
        Self {
            repr: self.repr.clone(),
            context: self.context,
        }
    }
