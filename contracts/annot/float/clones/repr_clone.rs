//@ item: float/src/repr.rs :: impl<const B: Word> Clone for Repr<B> :: clone
fn clone(&self) -> Self
/*@
    ensures
        // C05 / C15: a clone has the significand and the exponent of its source
        cl_frepr_copy(*self, ret),
@*/
{
        Self {
            significand: self.significand.clone(),
            exponent: self.exponent,
        }
    }
