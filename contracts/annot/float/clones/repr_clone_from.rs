//@ item: float/src/repr.rs :: impl<const B: Word> Clone for Repr<B> :: clone_from
fn clone_from(&mut self, source: &Self)
/*@
    ensures
        // C15: whatever the destination held, it is left indistinguishable from `source.clone()`
        cl_frepr_copy(*source, *final(self)),
@*/
{
        self.significand.clone_from(&source.significand);
        self.exponent = source.exponent;
    }
