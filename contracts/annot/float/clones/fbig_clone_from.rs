//@ item: float/src/fbig.rs :: impl<R: Round, const B: Word> Clone for FBig<R, B> :: clone_from
fn clone_from(&mut self, source: &Self)
/*@
    ensures
        // C15: whatever the destination held (value AND precision), it is left indistinguishable from `source.clone()`
        cl_fbig_copy(*source, *final(self)),
@*/
{
        self.repr.clone_from(&source.repr);
        self.context = source.context;
    }
