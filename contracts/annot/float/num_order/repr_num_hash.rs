//@ item: float/src/third_party/num_order.rs :: impl<const B: Word> NumHash for Repr<B> :: num_hash
fn num_hash<H: core::hash::Hasher>(&self, state: &mut H)
/*@ #[hoist(Self = Repr<B>, Name = repr_num_hash, Generics = [const B: Word])]
    requires B >= 2,
        self.exponent > isize::MIN,         // `-self.exponent` / absm: overflow (panic in debug builds) for isize::MIN
    ensures
        // C14: what is fed to the hasher is num-order's hash of the rational number significand * B^exponent
        float_hash_ok(self.significand.v(), B as int, self.exponent as int, fed(*old(state), *final(state))),
@*/
{
        /*@
        let ghost s = self.significand.v(); let ghost e = self.exponent as int; let ghost a = rabs(s);
        let ghost ae: nat = (if e >= 0 { e } else { -e }) as nat;
        proof { lemma_hpw_pos(B as int, ae); lemma_mod_abs_t(s); }
        @*/
        // 2^127 - 1 is used in the num-order crate
        type MInt = FixedMersenneInt<127, 1>;
        const M127: i128 = i128::MAX;
        const M127U: u128 = M127 as u128;

        let signif_residue = &self.significand % M127;
        let signif_hash = MInt::new(signif_residue.unsigned_abs(), &M127U);
        /*@ proof { ax_mint_range(signif_hash); assert(signif_hash.r() == a % m127()); } @*/
        let exp_hash = if B == 2 {
            /*@ proof {
                let k = e % 127;
                lemma_one_shl_u128(k as u32);
                lemma_two_127();
                lemma_hpw_mono2(k as nat, 126);
                lemma_small_mod(hpw(2, k as nat) as nat, m127() as nat);
            } @*/
            signif_hash.convert(1 << self.exponent.absm(&127))
        } else if self.exponent < 0 {
            /*@ proof { ax_m127_pow_nonzero(B as int, ae); lemma_small_mod(B as nat, m127() as nat); } @*/
            // since a Word is at most 64 bits right now, B is always less than M127
            signif_hash
                .convert(B as u128)
                .pow(&(-self.exponent as u128))
                .inv()
                .unwrap()
        } else {
            /*@ proof { lemma_small_mod(B as nat, m127() as nat); } @*/
            signif_hash.convert(B as u128).pow(&(self.exponent as u128))
        };

        let mut hash = (signif_hash * exp_hash).residue() as i128;
        /*@ proof {
            ax_mint_range(exp_hash);
            let p = hpw(B as int, ae);
            if B == 2 {
                let k = e % 127;
                if e >= 0 {
                    lemma_pow2_reduce_pos(a % m127(), e, k);
                    lemma_mul_mod_noop_left(a, p, m127());
                } else {
                    lemma_pow2_reduce_neg(e, k);
                    lemma_mul_mod_noop_right(hpw(2, k as nat), p, m127());
                    lemma_inv_back(a, hpw(2, k as nat), p, hash as int);
                }
            } else if e < 0 {
                lemma_inv_back(a, exp_hash.r(), p, hash as int);
            } else {
                lemma_mulmod(a, p);
            }
        } @*/
        /*@ proof {
            // a significand that is a multiple of M hashes to zero, whatever its sign
            if signif_hash.r() == 0 {
                assert(0 * exp_hash.r() == 0);
                lemma_small_mod(0, m127() as nat);
                assert(hash == 0);
                lemma_mul_mod_noop_left(a, hpw(B as int, ae), m127());
                assert(0 * hpw(B as int, ae) == 0);
            }
        } @*/
        if signif_residue < 0 {
            hash = -hash;
        }

        hash.num_hash(state)
    }
