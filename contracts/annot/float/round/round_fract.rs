//@ item: float/src/round.rs :: trait Round : Copy :: round_fract
fn round_fract<const B: Word>(integer: &IBig, fract: IBig, precision: usize) -> Rounding
/*@
    // documented domain: |fract| / B^precision < 1   (this is also what the dropped debug_assert! #0 says)
    requires B >= 2, iabs(fract.v()) < ipow(B as int, precision as nat),
    // integer + ret is the rounding, under the mode of Self, of the exact value integer + fract / B^precision
    ensures round_def(Self::md(),
                integer.v() * ipow(B as int, precision as nat) + fract.v(),
                ipow(B as int, precision as nat),
                integer.v() + adj_int(ret)),
@*/
{
        /*@ broadcast use round_int_axioms; @*/
        /*@ proof { lemma_ipow_pos(B as int, precision as nat); } @*/
        // this assertion is costly, so only check in debug mode
        debug_assert!(fract.clone().unsigned_abs() < UBig::from_word(B).pow(precision));

        if fract.is_zero() {
            /*@ proof { lemma_round_exact(Self::md(), integer.v(), ipow(B as int, precision as nat)); } @*/
            return Rounding::NoOp;
        }
        let (fsign, fmag) = fract.into_parts();

        let test = || /*@ -> (o: Ordering)
                ensures o == int_cmp(2 * iabs(fract.v()), ipow(B as int, precision as nat)) @*/ {
            /*@ proof { lemma_ipow2_1(); } @*/
            // first use the estimated log2 to do coarse comparison, then do the exact comparison
            let (lb, ub) = fmag.log2_bounds();
            let (b_lb, b_ub) = B.log2_bounds();

            // 0.999 and 1.001 are used here to prevent the influence of the precision loss of the multiplcations
            if lb + 0.999 > b_ub * precision as f32 {
                Ordering::Greater
            } else if ub + 1.001 < b_lb * precision as f32 {
                Ordering::Less
            } else {
                (fmag << 1).cmp(&UBig::from_word(B).pow(precision))
            }
        };
        Self::round_low_part::<_>(integer, fsign, test)
        /*@ proof {
            lemma_mode_rep(Self::md(), integer.v(), fract.v(), ipow(B as int, precision as nat), ret);
        } @*/
}
