//@ item: float/src/round.rs :: impl Add<Rounding> for IBig :: add
fn add(self, rhs: Rounding) -> Self::Output
/*@ #[hoist(Self = IBig, Output = IBig)]
    ensures ret.v() == self.v() + adj_int(rhs),
@*/
{
        /*@ broadcast use round_int_axioms; @*/
        match rhs {
            Rounding::NoOp => self,
            Rounding::AddOne => self + IBig::ONE,
            Rounding::SubOne => self - IBig::ONE,
        }
}
