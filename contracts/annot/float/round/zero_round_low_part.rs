//@ item: float/src/round.rs :: impl Round for mode::Zero :: round_low_part
fn round_low_part<F: FnOnce() -> Ordering>(
        integer: &IBig,
        low_sign: Sign,
        _low_half_test: F,
    ) -> Rounding
/*@
    // (requires low_half_test.requires(()) is inherited from the trait declaration)
    ensures forall|o: Ordering| #[trigger] mode_ok(Mode::Zero, integer.v(), low_sign, o, ret),
@*/
{
        if integer.is_zero() {
            return Rounding::NoOp;
        }
        match (integer.sign(), low_sign) {
            (Sign::Positive, Sign::Positive) | (Sign::Negative, Sign::Negative) => Rounding::NoOp,
            (Sign::Positive, Sign::Negative) => Rounding::SubOne,
            (Sign::Negative, Sign::Positive) => Rounding::AddOne,
        }
}
