//@ item: float/src/round.rs :: impl Round for mode::Up :: round_low_part
fn round_low_part<F: FnOnce() -> Ordering>(
        _integer: &IBig,
        low_sign: Sign,
        _low_half_test: F,
    ) -> Rounding
/*@
    // (requires low_half_test.requires(()) is inherited from the trait declaration)
    ensures forall|o: Ordering| #[trigger] mode_ok(Mode::Up, _integer.v(), low_sign, o, ret),
@*/
{
        // +1 if fract > 0, otherwise 0
        if low_sign == Sign::Positive {
            Rounding::AddOne
        } else {
            Rounding::NoOp
        }
    }
