//@ item: float/src/round.rs :: impl Round for mode::HalfEven :: round_low_part
fn round_low_part<F: FnOnce() -> Ordering>(
        integer: &IBig,
        low_sign: Sign,
        low_half_test: F,
    ) -> Rounding
/*@
    // (requires low_half_test.requires(()) is inherited from the trait declaration)
    ensures exists|o: Ordering| #[trigger] low_half_test.ensures((), o) && mode_ok(Mode::HalfEven, integer.v(), low_sign, o, ret),
@*/
{
        match low_half_test() {
            // |rem| < 1/2
            Ordering::Less => Rounding::NoOp,
            // |rem| = 1/2
            Ordering::Equal => {
                // if integer is odd, +1 if rem > 0, -1 if rem < 0
                if integer.bit(0) {
                    match low_sign {
                        Sign::Positive => Rounding::AddOne,
                        Sign::Negative => Rounding::SubOne,
                    }
                } else {
                    Rounding::NoOp
                }
            }
            // |rem| > 1/2
            Ordering::Greater => {
                // +1 if rem > 0, -1 if rem < 0
                match low_sign {
                    Sign::Positive => Rounding::AddOne,
                    Sign::Negative => Rounding::SubOne,
                }
            }
        }
    }
