//@ item: float/src/round.rs :: trait Round : Copy :: round_ratio
fn round_ratio(integer: &IBig, num: IBig, den: &IBig) -> Rounding
/*@
    // documented domain: |num / den| < 1  (the run-time assert! below only checks <=, see report)
    requires den.v() != 0, iabs(num.v()) < iabs(den.v()),
    // integer + ret is the rounding, under the mode of Self, of the exact value integer + num/den
    // (written over the positive denominator |den|)
    ensures round_def(Self::md(),
                integer.v() * iabs(den.v()) + (if den.v() > 0 { num.v() } else { -num.v() }),
                iabs(den.v()),
                integer.v() + adj_int(ret)),
@*/
{
        /*@ broadcast use round_int_axioms; @*/
        assert!(!den.is_zero() && num.abs_cmp(den).is_le());

        if num.is_zero() {
            /*@ proof { lemma_round_exact(Self::md(), integer.v(), iabs(den.v())); } @*/
            return Rounding::NoOp;
        }
        let (nsign, nmag) = num.into_parts();
        Self::round_low_part::<_>(integer, nsign * den.sign(), || /*@ -> (o: Ordering)
                ensures o == int_cmp(2 * iabs(num.v()), iabs(den.v())) @*/ {
            /*@ proof { lemma_ipow2_1(); } @*/
            if den.is_positive() {
                IBig::from(nmag << 1).cmp(den)
            } else {
                den.cmp(&-(nmag << 1))
            }
        })
        /*@ proof {
            let n = if den.v() > 0 { num.v() } else { -num.v() };
            lemma_mode_rep(Self::md(), integer.v(), n, iabs(den.v()), ret);
        } @*/
}
