//@ item: float/src/round.rs :: impl AddAssign<Rounding> for IBig :: add_assign
fn add_assign(&mut self, rhs: Rounding)
/*@ #[hoist(Self = IBig)]
    ensures final(self).v() == old(self).v() + adj_int(rhs),
@*/
{
        /*@ broadcast use round_int_axioms; @*/
        match rhs {
            Rounding::NoOp => {}
            Rounding::AddOne => *self += IBig::ONE,
            Rounding::SubOne => *self -= IBig::ONE,
        }
}
