//@ item: float/src/round.rs :: impl Round for mode::Away :: round_low_part
fn round_low_part<F: FnOnce() -> Ordering>(
        integer: &IBig,
        low_sign: Sign,
        _low_half_test: F,
    ) -> Rounding
/*@
    // (requires low_half_test.requires(()) is inherited from the trait declaration)
    ensures forall|o: Ordering| #[trigger] mode_ok(Mode::Away, integer.v(), low_sign, o, ret),
@*/
{
        if integer.is_zero() {
            match low_sign {
                Sign::Positive => Rounding::AddOne,
                Sign::Negative => Rounding::SubOne,
            }
        } else {
            match (integer.sign(), low_sign) {
                (Sign::Positive, Sign::Positive) => Rounding::AddOne,
                (Sign::Negative, Sign::Negative) => Rounding::SubOne,
                (Sign::Positive, Sign::Negative) | (Sign::Negative, Sign::Positive) => {
                    Rounding::NoOp
                }
            }
        }
    }
