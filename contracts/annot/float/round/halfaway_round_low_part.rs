//@ item: float/src/round.rs :: impl Round for mode::HalfAway :: round_low_part
fn round_low_part<F: FnOnce() -> Ordering>(
        integer: &IBig,
        low_sign: Sign,
        low_half_test: F,
    ) -> Rounding
/*@
    // (requires low_half_test.requires(()) is inherited from the trait declaration)
    ensures exists|o: Ordering| #[trigger] low_half_test.ensures((), o) && mode_ok(Mode::HalfAway, integer.v(), low_sign, o, ret),
@*/
{
        /*@ broadcast use round_int_axioms; @*/
        match low_half_test() {
            // |rem| < 1/2
            Ordering::Less => Rounding::NoOp,
            // |rem| = 1/2
            Ordering::Equal => {
                // +1 if integer and rem >= 0, -1 if integer and rem <= 0
                if integer >= &IBig::ZERO && low_sign == Sign::Positive {
                    Rounding::AddOne
                } else if integer <= &IBig::ZERO && low_sign == Sign::Negative {
                    Rounding::SubOne
                } else {
                    Rounding::NoOp
                }
            }
            // |rem| > 1/2
            Ordering::Greater => {
                // +1 if rem > 0, -1 if rem < 0
                match low_sign {
                    Sign::Positive => Rounding::AddOne,
                    Sign::Negative => Rounding::SubOne,
                }
            }
        }
    }
