//@ item: float/src/parse.rs :: impl<const B: Word> Repr<B> :: from_str_native
pub fn from_str_native(mut src: &str) -> Result<(Self, usize), ParseError>
/*@
    requires
        // documented panic otherwise ("Panics if the base B is not between MIN_RADIX and MAX_RADIX inclusive")
        2 <= B <= 36,
        // the string model of this unit covers ASCII text (byte offsets == character positions); the length bound keeps
        // `4 * digits` inside usize
        ascii_text(src@),
        src@.len() <= 0x0fff_ffff_ffff_ffff,
        // resource limit: exponent overflow is a documented panic (C16), not modelled: the exponent of the leading digit
        // of the written value fits isize (lib/fio_parse_stubs.rs `parse_room`; needed by `Repr::new`, whose normalisation
        // adds the number of trailing zero digits to the exponent)
        parse_room(src@, B as int),
    ensures
        // C08: an accepted text reads, under the documented grammar, as sign/prefix/digits/point/digits/scale with
        // precision = number of written digits (4 bits per digit of a 0x literal, '_' not counted) and
        // significand * B^exponent == the written value; the result is in normal form
        ret is Ok ==> parsed_ok::<B>(src@, ret.unwrap().0, ret.unwrap().1)
            && sig_normal(B as int, ret.unwrap().0.significand.v()),
@*/
{
        /*@ hide(ipow); hide(parsed_ok); @*/
        /*@ broadcast use round_int_axioms, ubig_zero; @*/
        /*@ let ghost s0 = src@; @*/
        assert!(MIN_RADIX as Word <= B && B <= MAX_RADIX as Word);

        // parse and remove the sign
        let sign = match src.strip_prefix('-') {
            Some(s) => {
                src = s;
                Sign::Negative
            }
            None => {
                src = src.strip_prefix('+').unwrap_or(src);
                Sign::Positive
            }
        };

        /*@ let ghost s1 = src@; @*/
        /*@ let ghost gc: Option<char> = if s0.len() > 0 && at(s0, 0) == '-' { Some('-') } else if s0.len() > 0 && at(s0, 0) == '+' { Some('+') } else { None }; @*/
        /*@ let ghost gsign = sign_seq(gc); @*/
        /*@ proof {
            lemma_sign(s0, s1, gc);
            assert(sign == Sign::Negative <==> gc == Some('-'));
            reveal_strlit("0x");
            reveal_strlit("0X");
        } @*/
        // determine the position of scale markers
        let has_prefix = src.starts_with("0x") || src.starts_with("0X");
        let scale_pos = match B {
            10 => src.rfind(&['e', 'E', '@']),
            2 => {
                if has_prefix {
                    src.rfind(&['p', 'P', '@'])
                } else {
                    src.rfind(&['b', 'B', '@'])
                }
            }
            8 => src.rfind(&['o', 'O', '@']),
            16 => src.rfind(&['h', 'H', '@']),
            _ => src.rfind('@'),
        };

        /*@ let ghost hexflag = B == 2 && has_prefix; @*/
        /*@ proof {
            if has_prefix {
                if sub(s1, 0, 2) == "0x"@ { lemma_starts2(s1, "0x"@); } else { lemma_starts2(s1, "0X"@); }
                assert(at(s1, 0) == '0' && (at(s1, 1) == 'x' || at(s1, 1) == 'X'));
            }
            if scale_pos is Some {
                assert(marker_ok(B as int, hexflag, at(s1, scale_pos.unwrap() as int)));
            }
        } @*/
        // parse scale and remove the scale part from the str
        let (scale, pmarker) = if let Some(pos) = scale_pos {
            let value = match src[pos + 1..].parse::<isize>() {
                Err(e) => match e.kind() {
                    IntErrorKind::Empty => return Err(ParseError::NoDigits),
                    _ => return Err(ParseError::InvalidDigit),
                },
                Ok(v) => v,
            };
            let use_p = if B == 2 {
                src.as_bytes().get(pos) == Some(&b'p') || src.as_bytes().get(pos) == Some(&b'P')
            } else {
                false
            };
            src = &src[..pos];
            (value, use_p)
        } else {
            (0, false)
        };

        // only the sign in front (already removed) and the sign of the scale are allowed, the integer parser
        // would accept another `+` in front of the integral and of the fractional part
        if src.contains('+') {
            return Err(ParseError::InvalidDigit);
        }

        /*@ let ghost s2 = src@; @*/
        /*@ let ghost has_scale = scale_pos is Some; @*/
        /*@ let ghost gpos: int = if has_scale { scale_pos.unwrap() as int } else { s1.len() as int }; @*/
        /*@ let ghost gmarker: char = if has_scale { at(s1, gpos) } else { '@' }; @*/
        /*@ let ghost gstext: Seq<char> = if has_scale { sub(s1, gpos + 1, s1.len() as int) } else { Seq::<char>::empty() }; @*/
        /*@ let ghost gtail: Seq<char> = if has_scale { seq![gmarker] + gstext } else { Seq::<char>::empty() }; @*/
        /*@ proof {
            if has_scale {
                lemma_scale_split(s1, gpos);
                assert(isize_text(gstext) == Some(scale as int));
                // the 0x prefix survives the removal of the scale part (its two characters are not scale markers)
                if has_prefix { assert(gpos >= 2); assert(at(s2, 0) == at(s1, 0) && at(s2, 1) == at(s1, 1)); }
            } else {
                lemma_no_scale(s1);
            }
            assert(s1 == s2 + gtail);
            assert(!has_hit(s2, '+'));       // `if src.contains('+') { return Err(..) }`
            assert(has_prefix ==> s2.len() >= 2 && at(s2, 0) == '0' && (at(s2, 1) == 'x' || at(s2, 1) == 'X'));
        } @*/
        // parse the body of the float number
        let mut exponent = scale;
        let ndigits;
        /*@ let ghost mut gi: Seq<char> = Seq::<char>::empty(); @*/
        /*@ let ghost mut gf: Seq<char> = Seq::<char>::empty(); @*/
        /*@ let ghost mut gdot: bool = false; @*/
        /*@ let ghost mut ghex: bool = false; @*/
        /*@ let ghost mut pre: Seq<char> = Seq::<char>::empty(); @*/
        let significand = if let Some(dot) = src.find('.') {
            // check whether both integral part and fractional part are empty
            if src.len() == 1 {
                return Err(ParseError::NoDigits);
            }

            // parse integral part
            let (int, int_digits, base) = if dot != 0 {
                let int_str = &src[..dot];
                if B == 2 && has_prefix {
                    // only base 2 float is allowed using prefix
                    /*@ proof { assert(dot >= 2); } @*/
                    let int_str = &int_str[2..];
                    /*@ proof {
                        lemma_count_le(int_str@, '_');
                        gi = int_str@; ghex = true; pre = sub(s2, 0, 2);
                        lemma_sub_sub(s2, 0, dot as int, 2, dot as int);
                        assert(gi == sub(s2, 2, dot as int));
                        lemma_part_no_plus(s2, 2, dot as int);
                        if gi.len() == 0 { assert(gi =~= Seq::<char>::empty()); }
                        lemma_dval_empty(16);
                        lemma_digits_ok_empty(16);
                        lemma_body_dot(s2, 2, dot as int);
                    } @*/
                    let digits = 4 * (int_str.len() - int_str.matches('_').count());
                    if int_str.is_empty() {
                        (UBig::ZERO, digits, 16)
                    } else {
                        (UBig::from_str_radix(int_str, 16)?, digits, 16)
                    }
                } else if B == 2 && pmarker && !has_prefix {
                    return Err(ParseError::UnsupportedRadix);
                } else {
                    /*@ proof {
                        lemma_count_le(int_str@, '_');
                        gi = int_str@; ghex = false; pre = sub(s2, 0, 0);
                        lemma_part_no_plus(s2, 0, dot as int);
                        lemma_body_dot(s2, 0, dot as int);
                    } @*/
                    let digits = int_str.len() - int_str.matches('_').count();
                    (UBig::from_str_radix(&src[..dot], B as u32)?, digits, B as u32)
                }
            } else {
                if pmarker {
                    // prefix is required for using `p` as scale marker
                    return Err(ParseError::UnsupportedRadix);
                }
                /*@ proof {
                    ghex = false; pre = sub(s2, 0, 0); gi = sub(s2, 0, 0);
                    lemma_body_dot(s2, 0, 0);
                    assert(gi =~= Seq::<char>::empty());
                    lemma_dval_empty(B as int); lemma_digits_ok_empty(B as int);
                } @*/
                (UBig::ZERO, 0, B as u32)
            };
            /*@ proof {
                assert(ghex == hexflag);
                assert(base as int == (if ghex { 16int } else { B as int }));
                assert(int_.v() == dval(gi, base as int));
                assert(digits_ok(gi, base as int));
                assert(ghex ==> int_digits as int == 4 * ndig(gi));
                assert(!ghex ==> int_digits as int == ndig(gi));
                lemma_count_le(gi, '_');
                assert(s2 == body_of(pre, gi, true, sub(s2, dot as int + 1, s2.len() as int)));
            } @*/

            // parse fractional part
            src = &src[dot + 1..];
            /*@ proof {
                gf = src@; gdot = true;
                lemma_count_le(gf, '_');
                lemma_part_no_plus(s2, dot as int + 1, s2.len() as int);
                if gf.len() == 0 { assert(gf =~= Seq::<char>::empty()); }
                lemma_dval_empty(base as int);
                lemma_digits_ok_empty(base as int);
            } @*/
            let (fract, fract_digits) = if !src.is_empty() {
                let mut digits = src.len() - src.matches('_').count();
                if B == 2 && base == 16 {
                    digits *= 4;
                }
                (UBig::from_str_radix(src, base)?, digits)
            } else {
                (UBig::ZERO, 0)
            };
            /*@ proof {
                assert(fract.v() == dval(gf, base as int));
                assert(digits_ok(gf, base as int));
                assert(ghex ==> fract_digits as int == 4 * ndig(gf));
                assert(!ghex ==> fract_digits as int == ndig(gf));
                lemma_frac_value(B as int, ghex, base as int, gi, gf, int_.v(), fract.v(), fract_digits as int, scale as int);
            } @*/
            ndigits = int_digits + fract_digits;

            /*@ let ghost gm = dval(gi + gf, base as int); @*/
            if fract.is_zero() {
                int
            } else {
                exponent = exponent
                    .checked_sub(fract_digits as isize)
                    .ok_or(ParseError::InvalidDigit)?; // the scale is too small for an isize exponent
                int * UBig::from_word(B).pow(fract_digits) + fract
            }
        } else {
            /*@ let ghost has_prefix1 = has_prefix; @*/
            let has_prefix = src.starts_with("0x") || src.starts_with("0X");
            /*@ proof {
                // the prefix test on the text without the scale part agrees with the one made before
                if has_prefix1 {
                    if at(s2, 1) == 'x' { lemma_starts2_conv(s2, "0x"@); } else { lemma_starts2_conv(s2, "0X"@); }
                }
                if has_prefix {
                    if sub(s2, 0, 2) == "0x"@ { lemma_starts2(s2, "0x"@); } else { lemma_starts2(s2, "0X"@); }
                    if has_scale {
                        assert(at(s1, 0) == at(s2, 0) && at(s1, 1) == at(s2, 1));
                        if at(s1, 1) == 'x' { lemma_starts2_conv(s1, "0x"@); } else { lemma_starts2_conv(s1, "0X"@); }
                    }
                }
                assert(has_prefix == has_prefix1);
            } @*/
            if B == 2 && has_prefix {
                src = &src[2..];
                /*@ proof {
                    lemma_count_le(src@, '_');
                    gi = src@; ghex = true; gf = Seq::<char>::empty(); gdot = false; pre = sub(s2, 0, 2);
                    lemma_part_no_plus(s2, 2, s2.len() as int);
                    lemma_body_nodot(s2, 2);
                    lemma_concat_empty(gi);
                    lemma_same_value_refl(B as int, dval(gi, 16), scale as int);
                    lemma_count_le(gf, '_'); lemma_digits_ok_empty(16);
                } @*/
                ndigits = 4 * (src.len() - src.matches('_').count());
                UBig::from_str_radix(src, 16)?
            } else if B == 2 && pmarker && !has_prefix {
                return Err(ParseError::UnsupportedRadix);
            } else {
                /*@ proof {
                    lemma_count_le(src@, '_');
                    gi = src@; ghex = false; gf = Seq::<char>::empty(); gdot = false; pre = sub(s2, 0, 0);
                    lemma_whole_no_plus(s2);
                    lemma_body_nodot(s2, 0);
                    lemma_concat_empty(gi);
                    lemma_same_value_refl(B as int, dval(gi, B as int), scale as int);
                    lemma_count_le(gf, '_'); lemma_digits_ok_empty(B as int);
                } @*/
                ndigits = src.len() - src.matches('_').count();
                UBig::from_str_radix(src, B as u32)?
            }
        };

        /*@ let ghost d = FloatText { sign: gsign, prefix: pre, ipart: gi, has_dot: gdot, fpart: gf, has_scale: has_scale,
                                    marker: gmarker, stext: gstext }; @*/
        /*@ let ghost radix: int = if ghex { 16 } else { B as int }; @*/
        /*@ let ghost sv = significand.v(); @*/
        /*@ proof {
            assert(ghex == hexflag);
            assert(digits_ok(gi, radix) && digits_ok(gf, radix));
            assert(ghex ==> ndigits as int == 4 * (ndig(gi) + ndig(gf)));
            assert(!ghex ==> ndigits as int == ndig(gi) + ndig(gf));
            let ghost ge: int = if ghex { scale as int - 4 * ndig(gf) } else { scale as int - ndig(gf) };
            assert(same_value(B as int, sv, exponent as int, dval(gi + gf, radix), ge));
            assert(s2 == body_of(pre, gi, gdot, gf));
            lemma_assemble(s0, gsign, s1, s2, gtail, pre, gi, gdot, gf);
            assert(s0 == ft_text(d));
            if ghex { lemma_hex_prefix(s2); } else { assert(pre.len() == 0); }
            assert(grammar(s0, B as int, d));
            if sign == Sign::Negative {
                lemma_sv_neg(B as int, sv, exponent as int, dval(gi + gf, radix), ft_exp(d));
            }
            lemma_parse_room(s0, B as int, d, (if sign == Sign::Negative { -sv } else { sv }), exponent as int);
        } @*/
        let repr = Repr::new(sign * significand, exponent);
        /*@ proof {
            lemma_sv_trans(B as int, repr.significand.v(), repr.exponent as int,
                           (if sign == Sign::Negative { -sv } else { sv }), exponent as int, ft_mant(B as int, d), ft_exp(d));
            lemma_parsed_ok::<B>(s0, repr, ndigits, d);
        } @*/
        Ok((repr, ndigits))
    }
