//@ item: float/src/parse.rs :: impl<R: Round, const B: Word> FBig<R, B> :: from_str_native
pub fn from_str_native(src: &str) -> Result<Self, ParseError>
/*@
    // same domain as Repr::from_str_native (see there)
    requires 2 <= B <= 36, ascii_text(src@), src@.len() <= 0x0fff_ffff_ffff_ffff,
        // resource limit: exponent overflow is a documented panic (C16), not modelled (see Repr::from_str_native)
        parse_room(src@, B as int),
    ensures
        // C08: the written value, and "the precision is determined by the number of digits presented in the input string"
        ret is Ok ==> parsed_ok::<B>(src@, ret.unwrap().repr, ret.unwrap().context.precision)
            && sig_normal(B as int, ret.unwrap().repr.significand.v()),
@*/
{
        let (repr, ndigits) = Repr::from_str_native(src)?;
        Ok(Self {
            repr,
            context: Context::new(ndigits),
        })
    }
