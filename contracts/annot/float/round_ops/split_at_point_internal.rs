//@ item: float/src/round_ops.rs :: impl<R: Round, const B: Word> FBig<R, B> :: split_at_point_internal
pub(crate) fn split_at_point_internal(&self) -> (IBig, IBig, usize)
/*@
    requires
        B >= 2,
        !(self.repr.significand.v() == 0 && self.repr.exponent != 0),          // finite (all callers assert it)
        self.repr.exponent < 0,                                                  // "assuming the radix point exists" (debug_assert #0)
        // machine ranges: `-exponent` fits isize (overflow of isize is outside this contract), fewer than 2^56 digits
        // (memory limit; `digits_ub() as isize` does not wrap)
        isize::MIN < self.repr.exponent,
        ndigits(B as int, self.repr.significand.v()) < 0x100_0000_0000_0000,
    ensures
        // "(integral part, fractional part, fraction precision)": with p = -exponent the number of fractional digits,
        // significand == hi * B^p + lo, |lo| < B^p, lo == 0 or of the sign of the significand: hi = trunc(x), lo/B^p = fract(x)
        ret.2 as int == -(self.repr.exponent as int),
        is_trunc_divrem(self.repr.significand.v(), ipow(B as int, ret.2 as nat), ret.0.v(), ret.1.v()),
@*/
{
        /*@ broadcast use round_int_axioms; @*/
        /*@ proof {
            // (in front of the branches and free of code locals: a changed branch keeps its anchors)
            lemma_ipow_pos(B as int, (-(self.repr.exponent as int)) as nat);
            assert(0 * ipow(B as int, (-(self.repr.exponent as int)) as nat) == 0);
        } @*/
        debug_assert!(self.repr.exponent < 0);
        if self.repr.smaller_than_one() {
            // the fractional part is significand / B^(-exponent), whatever the precision is
            let shift = (-self.repr.exponent) as usize;
            return (IBig::ZERO, self.repr.significand.clone(), shift);
        }

        let shift = (-self.repr.exponent) as usize;
        /*@ proof { assert(pos_room(shift as int)); } // resource precondition of split_digits_ref: at most 2*digits + 3 < 2^58 positions @*/
        let (hi, lo) = split_digits_ref::<B>(&self.repr.significand, shift);
        (hi, lo, shift)
    }
