//@ item: float/src/round_ops.rs :: impl<R: Round, const B: Word> FBig<R, B> :: round
pub fn round(&self) -> Self
/*@
    requires
        B >= 2,
        !(self.repr.significand.v() == 0 && self.repr.exponent != 0),          // finite (documented panic otherwise)
        // machine ranges: `-exponent` fits isize (overflow of isize is outside this contract), fewer than 2^56 digits
        // (memory limit; `digits_ub() as isize` does not wrap)
        isize::MIN < self.repr.exponent,
        ndigits(B as int, self.repr.significand.v()) < 0x100_0000_0000_0000,
    ensures
        // C10: "the integer nearest to self; if there are two integers equally close, the one farther from zero": the
        // result has the integer value t with 2 * |t * B^(-e) - s| <= B^(-e), and in case of equality |t * B^(-e)| > |s|
        // (round_def(Mode::HalfAway, ..); t == s * B^e if e >= 0)
        fl_int_post(Mode::HalfAway, self.repr, ret.repr),
@*/
{
        /*@ broadcast use round_int_axioms, fbig_zero_const; @*/
        /*@ let ghost (b, s, e) = (B as int, self.repr.significand.v(), self.repr.exponent as int);
        proof {
            if e >= 0 {
                lemma_ro_int_exp(b, s, e);
                assert(fl_round_int(Mode::HalfAway, b, s, e, s * ipow(b, e as nat)));
            } else if ndigits(b, s) + 1 <= -e {
                // the digits_ub shortcut, PROVED from the enclosure digits <= digits_ub: exponent + digits_ub < -2 gives
                // digits <= -e - 3, and already digits + 1 <= -e means |s| * B^e < 1/B <= 1/2
                lemma_ro_small(b, s, ndigits(b, s), (-e) as nat);
                lemma_ipow_pos(b, (-e) as nat);
                lemma_ro_tiny(s, ipow(b, (-e) as nat));
                lemma_ro_same_self(b, 0, 0);
                assert(fl_round_int(Mode::HalfAway, b, s, e, 0));
            }
        } @*/
        assert_finite(&self.repr);
        if self.repr.exponent >= 0 {
            return self.clone();
        } else if self.repr.exponent + (self.repr.digits_ub() as isize) < -2 {
            // to determine if the number rounds to zero, we need to make sure |self| < 0.5
            // which is stricter than `self.repr.smaller_than_one()`
            return Self::ZERO;
        }

        let (hi, lo, precision) = self.split_at_point_internal();
        /*@ let ghost (hv, lv) = (hi.v(), lo.v());
            proof { lemma_ipow_pos(b, precision as nat); } @*/
        let rounding = mode::HalfAway::round_fract::<B>(&hi, lo, precision);
        /*@ proof {
            lemma_ro_round_parts(Mode::HalfAway, s, ipow(b, precision as nat), hv, lv, rounding);
            assert(fl_round_int(Mode::HalfAway, b, s, e, hv + adj_int(rounding)));
            lemma_split_exp_room(b, s, precision as nat, hv, lv, adj_int(rounding));   // room for Repr::new (resource limit, C16)
        } @*/
        let context = Context::new(self.context.precision.saturating_sub(precision));
        FBig::new(Repr::new(hi + rounding, 0), context)
        /*@ proof { lemma_ro_new_is(ret.repr, hv + adj_int(rounding), 0); } @*/
    }
