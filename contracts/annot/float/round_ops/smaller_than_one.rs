//@ item: float/src/repr.rs :: impl<const B: Word> Repr<B> :: smaller_than_one
pub(crate) fn smaller_than_one(&self) -> bool
/*@
    requires
        B >= 2,
        !(self.significand.v() == 0 && self.exponent != 0),           // finite (debug_assert #0, dropped: exec call)
        // machine ranges (memory limits; overflow of isize in `exponent + digits` is outside this contract)
        -0x1000_0000_0000_0000 < self.exponent < 0x1000_0000_0000_0000,
        ndigits(B as int, self.significand.v()) < 0x1000_0000_0000_0000,
    ensures
        // "no false positives": a `true` answer means |self| < 1; PROVED here from the enclosure digits <= digits_ub:
        // it even means |significand| * B^exponent < 1/B
        ret ==> self.exponent < 0 && (B as int) * iabs(self.significand.v()) < ipow(B as int, (-(self.exponent as int)) as nat),
        ret ==> iabs(self.significand.v()) < ipow(B as int, (-(self.exponent as int)) as nat),
@*/
{
        debug_assert!(self.is_finite());
        self.exponent + (self.digits_ub() as isize) < -1
        /*@ proof {
            // ret ==> digits <= digits_ub <= -exponent - 2
            if ret {
                lemma_ro_small(B as int, self.significand.v(), (-(self.exponent as int) - 2) as nat, (-(self.exponent as int)) as nat);
            }
        } @*/
    }
