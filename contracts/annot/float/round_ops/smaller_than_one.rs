//@ item: float/src/repr.rs :: impl<const B: Word> Repr<B> :: smaller_than_one
pub(crate) fn smaller_than_one(&self) -> bool
/*@
    requires
        B >= 2,
        !(self.significand.v() == 0 && self.exponent != 0),           // finite (debug_assert #0, dropped: exec call)
        // machine ranges: `exponent + digits_ub` fits isize (every caller has exponent < 0), fewer than 2^56 digits
        // (memory limit; `digits_ub() as isize` does not wrap)
        self.exponent < 0x100_0000_0000_0000,
        ndigits(B as int, self.significand.v()) < 0x100_0000_0000_0000,
    ensures
        // "no false positives": a `true` answer means |self| < 1; PROVED here from the enclosure digits <= digits_ub:
        // it even means |significand| * B^exponent < 1/B
        ret ==> self.exponent < 0 && (B as int) * iabs(self.significand.v()) < ipow(B as int, (-(self.exponent as int)) as nat),
        ret ==> iabs(self.significand.v()) < ipow(B as int, (-(self.exponent as int)) as nat),
        // auxiliary (resource bound for the callers' digit shifts, from the ASSUMED cap digits_ub <= 2*digits + 2):
        // a `false` answer means the radix point is at most 2*digits + 3 positions left of the last digit
        !ret ==> -(self.exponent as int) <= 2 * ndigits(B as int, self.significand.v()) + 3,
@*/
{
        debug_assert!(self.is_finite());
        self.exponent + (self.digits_ub() as isize) < -1
        /*@ proof {
            // ret ==> digits <= digits_ub <= -exponent - 2
            if ret {
                lemma_ro_small(B as int, self.significand.v(), (-(self.exponent as int) - 2) as nat, (-(self.exponent as int)) as nat);
            }
        } @*/
    }
