//@ item: float/src/round_ops.rs :: impl<R: Round, const B: Word> FBig<R, B> :: fract
pub fn fract(&self) -> Self
/*@
    requires
        B >= 2,
        !(self.repr.significand.v() == 0 && self.repr.exponent != 0),          // finite (documented panic otherwise)
        // machine ranges: `-exponent` fits isize (overflow of isize is outside this contract), fewer than 2^56 digits
        // (memory limit; `digits_ub() as isize` does not wrap)
        isize::MIN < self.repr.exponent,
        ndigits(B as int, self.repr.significand.v()) < 0x100_0000_0000_0000,
    ensures
        // C10: the result is the fractional part l * B^e of the unique split s == t * B^(-e) + l, |l| < B^(-e),
        // l == 0 or sign(l) == sign(s)  [trunc() returns t, so trunc + fract == x]
        fl_fract_post(self.repr, ret.repr),
@*/
{
        /*@ broadcast use round_int_axioms, fbig_zero_const; @*/
        /*@ let ghost (b, s, e) = (B as int, self.repr.significand.v(), self.repr.exponent as int);
        proof {
            lemma_ro_same_self(b, s, e);
            if e >= 0 {
                lemma_ro_int_exp(b, s, e);
                assert(fl_split(b, s, e, s * ipow(b, e as nat), 0));
            } else if iabs(s) < ipow(b, (-e) as nat) {
                lemma_ro_below_one(s, ipow(b, (-e) as nat));
                assert(fl_split(b, s, e, 0, s));
            }
        } @*/
        assert_finite(&self.repr);
        if self.repr.exponent >= 0 {
            return Self::ZERO;
        } else if self.repr.smaller_than_one() {
            return self.clone();
        }

        let (_, lo, precision) = self.split_at_point_internal();
        /*@ let ghost lv = lo.v();
        proof {
            let t = choose|t: int| #[trigger] is_trunc_divrem(s, ipow(b, precision as nat), t, lv);
            assert(fl_split(b, s, e, t, lv));
            lemma_split_exp_room(b, s, precision as nat, t, lv, 0);   // room for Repr::new (resource limit, C16)
        } @*/
        let context = Context::new(precision);
        FBig::new(Repr::new(lo, self.repr.exponent), context)
        /*@ proof { lemma_ro_new_is(ret.repr, lv, e); } @*/
    }
