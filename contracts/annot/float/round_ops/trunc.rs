//@ item: float/src/round_ops.rs :: impl<R: Round, const B: Word> FBig<R, B> :: trunc
pub fn trunc(&self) -> Self
/*@
    requires
        B >= 2,
        !(self.repr.significand.v() == 0 && self.repr.exponent != 0),          // finite (documented panic otherwise)
        // machine ranges: `-exponent` fits isize (overflow of isize is outside this contract), fewer than 2^56 digits
        // (memory limit; `digits_ub() as isize` does not wrap)
        isize::MIN < self.repr.exponent,
        ndigits(B as int, self.repr.significand.v()) < 0x100_0000_0000_0000,
    ensures
        // C10: the result is the integral part t of the exact value (towards zero): s == t * B^(-e) + l, |l| < B^(-e),
        // l == 0 or sign(l) == sign(s)  [fract() returns l * B^e of the same unique split, so trunc + fract == x]
        fl_trunc_post(self.repr, ret.repr),
@*/
{
        /*@ broadcast use round_int_axioms, fbig_zero_const; @*/
        /*@ let ghost (b, s, e) = (B as int, self.repr.significand.v(), self.repr.exponent as int);
        proof {
            // the two shortcut answers (all annotations sit in front of the branches: a changed branch keeps its anchors)
            if e >= 0 {
                lemma_ro_int_exp(b, s, e);
                assert(fl_split(b, s, e, s * ipow(b, e as nat), 0));
            } else if iabs(s) < ipow(b, (-e) as nat) {
                lemma_ro_below_one(s, ipow(b, (-e) as nat));
                lemma_ro_same_self(b, 0, 0);
                assert(fl_split(b, s, e, 0, s));
            }
        } @*/
        assert_finite(&self.repr);

        if self.repr.exponent >= 0 {
            return self.clone();
        } else if self.repr.smaller_than_one() {
            return Self::ZERO;
        }

        let shift = (-self.repr.exponent) as usize;
        /*@ proof { assert(pos_room(shift as int)); } // resource precondition of shr_digits: at most 2*digits + 3 < 2^58 positions @*/
        let signif = shr_digits::<B>(&self.repr.significand, shift);
        /*@ let ghost sv = signif.v();
        proof {
            let lo = choose|lo: int| #[trigger] is_trunc_divrem(s, ipow(b, shift as nat), sv, lo);
            assert(fl_split(b, s, e, sv, lo));
            lemma_split_exp_room(b, s, shift as nat, sv, lo, 0);   // room for Repr::new (resource limit, C16)
        } @*/
        let context = Context::new(self.context.precision.saturating_sub(shift));
        FBig::new(Repr::new(signif, 0), context)
        /*@ proof { lemma_ro_new_is(ret.repr, sv, 0); } @*/
    }
