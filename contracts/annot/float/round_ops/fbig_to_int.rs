//@ item: float/src/convert.rs :: impl<R: Round, const B: Word> FBig<R, B> :: to_int
pub fn to_int(&self) -> Rounded<IBig>
/*@
    requires
        B >= 2,
        !(self.repr.significand.v() == 0 && self.repr.exponent != 0),          // finite (documented panic otherwise)
        self.repr.significand.v() == 0 || self.repr.significand.v() % (B as int) != 0,     // normalized (invariant of Repr::new)
        // machine ranges: `-exponent` fits isize (overflow of isize is outside this contract), fewer than 2^56 digits
        // (memory limit; `digits_ub() as isize` does not wrap)
        isize::MIN < self.repr.exponent,
        ndigits(B as int, self.repr.significand.v()) < 0x100_0000_0000_0000,
        // resource limit: exponent overflow is a documented panic (C16), not modelled: `shl_digits` by `exponent` digits
        // computes the bit position `exponent * log2(B)` in usize
        self.repr.exponent >= 0 ==> pos_room(self.repr.exponent as int),
    ensures
        // C10: Exact iff the value is an integer (for a normalized float: iff exponent >= 0), and then it is the value
        self.repr.exponent >= 0 ==> (ret matches Approximation::Exact(i)
            && i.v() == self.repr.significand.v() * ipow(B as int, self.repr.exponent as nat)),
        // otherwise Inexact(i, adj): i is the neighbour named by the mode R of the type, the flag is truthful
        // (adj == i - trunc(x)), and x really is not an integer (trunc(x) != x)
        self.repr.exponent < 0 ==> (ret matches Approximation::Inexact(i, adj) && {
            let d = ipow(B as int, (-(self.repr.exponent as int)) as nat);
            &&& round_def(R::md(), self.repr.significand.v(), d, i.v())
            &&& round_def(Mode::Zero, self.repr.significand.v(), d, i.v() - adj_int(adj))
            &&& (i.v() - adj_int(adj)) * d != self.repr.significand.v()
        }),
@*/
{
        /*@ broadcast use round_int_axioms; @*/
        /*@ let ghost (b, s, e) = (B as int, self.repr.significand.v(), self.repr.exponent as int); @*/
        assert_finite(&self.repr);

        // shortcut when the number is already an integer
        if self.repr.exponent >= 0 {
            return Exact(shl_digits::<B>(&self.repr.significand, self.repr.exponent as usize));
        }

        let (hi, lo, precision) = self.split_at_point_internal();
        /*@ let ghost (hv, lv) = (hi.v(), lo.v());
            proof { lemma_ipow_pos(b, precision as nat); } @*/
        let adjust = R::round_fract::<B>(&hi, lo, precision);
        /*@ proof {
            let d = ipow(b, precision as nat);
            lemma_ro_round_parts(R::md(), s, d, hv, lv, adjust);
            lemma_normalized_lo(s, b, precision as nat, hv, lv);
        } @*/
        Inexact(hi + adjust, adjust)
    }
