//@ item: float/src/round_ops.rs :: impl<R: Round, const B: Word> FBig<R, B> :: floor
pub fn floor(&self) -> Self
/*@
    requires
        B >= 2,
        !(self.repr.significand.v() == 0 && self.repr.exponent != 0),          // finite (documented panic otherwise)
        // machine ranges: `-exponent` fits isize (overflow of isize is outside this contract), fewer than 2^56 digits
        // (memory limit; `digits_ub() as isize` does not wrap)
        isize::MIN < self.repr.exponent,
        ndigits(B as int, self.repr.significand.v()) < 0x100_0000_0000_0000,
    ensures
        // C10: "the largest integer less than or equal to self": the result has the integer value t with
        // s - B^(-e) < t * B^(-e) <= s   (round_def(Mode::Down, ..); t == s * B^e if e >= 0)
        fl_int_post(Mode::Down, self.repr, ret.repr),
@*/
{
        /*@ broadcast use round_int_axioms, fbig_zero_const, ro_fbig_neg_one_const; @*/
        /*@ let ghost (b, s, e) = (B as int, self.repr.significand.v(), self.repr.exponent as int);
        proof {
            if e >= 0 {
                lemma_ro_int_exp(b, s, e);
                assert(fl_round_int(Mode::Down, b, s, e, s * ipow(b, e as nat)));
            } else if iabs(s) < ipow(b, (-e) as nat) {
                lemma_ro_below_one(s, ipow(b, (-e) as nat));
                lemma_ro_same_self(b, 0, 0);
                lemma_ro_same_self(b, -1, 0);
                assert(fl_round_int(Mode::Down, b, s, e, if s > 0 { 0int } else { -1int }));
            }
        } @*/
        assert_finite(&self.repr);
        if self.repr.exponent >= 0 {
            return self.clone();
        } else if self.repr.smaller_than_one() {
            return match self.repr.sign() {
                Sign::Positive => Self::ZERO,
                Sign::Negative => Self::NEG_ONE,
            };
        }

        let (hi, lo, precision) = self.split_at_point_internal();
        /*@ let ghost (hv, lv) = (hi.v(), lo.v());
            proof { lemma_ipow_pos(b, precision as nat); } @*/
        let rounding = mode::Down::round_fract::<B>(&hi, lo, precision);
        /*@ proof {
            lemma_ro_round_parts(Mode::Down, s, ipow(b, precision as nat), hv, lv, rounding);
            assert(fl_round_int(Mode::Down, b, s, e, hv + adj_int(rounding)));
            lemma_split_exp_room(b, s, precision as nat, hv, lv, adj_int(rounding));   // room for Repr::new (resource limit, C16)
        } @*/
        let context = Context::new(self.context.precision.saturating_sub(precision));
        FBig::new(Repr::new(hi + rounding, 0), context)
        /*@ proof { lemma_ro_new_is(ret.repr, hv + adj_int(rounding), 0); } @*/
    }
