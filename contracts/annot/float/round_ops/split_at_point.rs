//@ item: float/src/round_ops.rs :: impl<R: Round, const B: Word> FBig<R, B> :: split_at_point
pub fn split_at_point(self) -> (Self, Self)
/*@
    requires
        B >= 2,
        !(self.repr.significand.v() == 0 && self.repr.exponent != 0),          // finite
        // machine ranges: `-exponent` fits isize (overflow of isize is outside this contract), fewer than 2^56 digits
        // (memory limit; `digits_ub() as isize` does not wrap)
        isize::MIN < self.repr.exponent,
        ndigits(B as int, self.repr.significand.v()) < 0x100_0000_0000_0000,
    ensures
        // C10: (trunc, fract) of ONE split s == t * B^(-e) + l, |l| < B^(-e), l == 0 or sign(l) == sign(s):
        // ret.0 has the value t, ret.1 the value l * B^e, hence ret.0 + ret.1 == self exactly
        fl_split_post(self.repr, ret.0.repr, ret.1.repr),
@*/
{
        /*@ broadcast use round_int_axioms, fbig_zero_const; @*/
        /*@ let ghost (b, s, e) = (B as int, self.repr.significand.v(), self.repr.exponent as int);
        proof {
            lemma_ro_same_self(b, s, e);
            if e >= 0 {
                lemma_ro_int_exp(b, s, e);
                assert(fl_split(b, s, e, s * ipow(b, e as nat), 0));
            } else if iabs(s) < ipow(b, (-e) as nat) {
                lemma_ro_below_one(s, ipow(b, (-e) as nat));
                lemma_ro_same_self(b, 0, 0);
                assert(fl_split(b, s, e, 0, s));
            }
        } @*/
        // trivial case when the exponent is positive
        if self.repr.exponent >= 0 {
            return (self, Self::ZERO);
        } else if self.repr.smaller_than_one() {
            return (Self::ZERO, self);
        }

        let shift = (-self.repr.exponent) as usize;
        /*@ proof { assert(pos_room(shift as int)); } // resource precondition of split_digits: at most 2*digits + 3 < 2^58 positions @*/
        let (hi, lo) = split_digits::<B>(self.repr.significand, shift);
        /*@ let ghost (hv, lv) = (hi.v(), lo.v());
            proof {
                assert(fl_split(b, s, e, hv, lv));
                lemma_split_exp_room(b, s, shift as nat, hv, lv, 0);   // room for Repr::new (resource limit, C16)
            } @*/
        let hi_ctxt = Context::new(self.context.precision.saturating_sub(shift));
        let lo_ctxt = Context::new(shift);
        (
            FBig::new(Repr::new(hi, 0), hi_ctxt),
            FBig::new(Repr::new(lo, self.repr.exponent), lo_ctxt),
        )
        /*@ proof { lemma_ro_new_is(ret.0.repr, hv, 0); lemma_ro_new_is(ret.1.repr, lv, e); } @*/
    }
