//@ item: float/src/fbig.rs :: impl<R: Round, const B: Word> FBig<R, B> :: ulp
pub fn ulp(&self) -> Self
/*@ requires
        B >= 2,
        self.context.precision != 0,                                       // `total` reading: unlimited precision panics (documented)
        !(self.repr.significand.v() == 0 && self.repr.exponent != 0),       // finite (infinities return themselves; not needed here)
        // the exponent arithmetic stays inside isize (it overflow-panics / wraps otherwise)
        isize::MIN < self.repr.exponent + ndigits(B as int, self.repr.significand.v()) - self.context.precision <= isize::MAX,
        ndigits(B as int, self.repr.significand.v()) <= isize::MAX, self.context.precision <= isize::MAX,
        self.repr.exponent + ndigits(B as int, self.repr.significand.v()) <= isize::MAX,
    ensures
        // one unit in the last place of a precision-digit number with the leading digit of self: 1 * B^(exponent + digits - precision)
        ret.repr.significand.v() == 1,
        ret.repr.exponent == self.repr.exponent + ndigits(B as int, self.repr.significand.v()) - self.context.precision,
        ret.context.precision == self.context.precision,
@*/
{
        /*@ broadcast use round_int_axioms; @*/
        if self.context.precision == 0 {
            panic_unlimited_precision();
        }
        if self.repr.is_infinite() {
            return self.clone();
        }

        let repr = Repr {
            significand: IBig::ONE,
            exponent: self.repr.exponent + self.repr.digits() as isize
                - self.context.precision as isize,
        };
        Self::new(repr, self.context)
    }
