//@ item: float/src/round.rs :: ulp_towards_zero
fn ulp_towards_zero<R: Round, const B: Word>(f: &FBig<R, B>) -> FBig<R, B>
/*@ requires
        B >= 2, f.context.precision != 0, !(f.repr.significand.v() == 0 && f.repr.exponent != 0),
        isize::MIN + 1 < f.repr.exponent + ndigits(B as int, f.repr.significand.v()) - f.context.precision <= isize::MAX,
        ndigits(B as int, f.repr.significand.v()) <= isize::MAX, f.context.precision <= isize::MAX,
        f.repr.exponent + ndigits(B as int, f.repr.significand.v()) <= isize::MAX,
    ensures
        // the fine step of the MODEL: f.ulp(), divided by the base when f is a power of the base
        ret.repr.significand.v() == 1,
        ret.repr.exponent == f.repr.exponent + ndigits(B as int, f.repr.significand.v()) - f.context.precision
            - (if eb_pow(f.repr.significand.v()) { 1int } else { 0int }),
        ret.context.precision == f.context.precision,
@*/
{
    let mut ulp = f.ulp();
    if is_power_of_base(f) {
        ulp.repr.exponent -= 1;
    }
    ulp
}
