//@ item: float/src/repr.rs :: impl<const B: Word> Repr<B> :: sign
pub const fn sign(&self) -> Sign
/*@ ensures self.significand.v() != 0 ==> ret == sign_of(self.significand.v()),
            self.significand.v() == 0 ==> ret == (if self.exponent >= 0 { Sign::Positive } else { Sign::Negative }), @*/
{
        /*@ broadcast use round_int_axioms; @*/
        if self.significand.is_zero() {
            if self.exponent >= 0 {
                Sign::Positive
            } else {
                Sign::Negative
            }
        } else {
            self.significand.sign()
        }
    }
