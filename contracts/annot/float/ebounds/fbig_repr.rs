//@ item: float/src/fbig.rs :: impl<R: Round, const B: Word> FBig<R, B> :: repr
pub const fn repr(&self) -> &Repr<B>
/*@ ensures *ret == self.repr, @*/
{
        &self.repr
    }
