//@ item: float/src/fbig.rs :: impl<R: Round, const B: Word> FBig<R, B> :: precision
pub const fn precision(&self) -> usize
/*@ ensures ret == self.context.precision, @*/
{
        self.context.precision
    }
