//@ item: float/src/round.rs :: is_power_of_base
fn is_power_of_base<R: Round, const B: Word>(f: &FBig<R, B>) -> bool
/*@ ensures ret == eb_pow(f.repr.significand.v()), @*/
{
    /*@ broadcast use round_int_axioms, ibig_neg_one_const; @*/
    // the significand is normalized (not divisible by the base)
    f.repr.significand.is_one() || f.repr.significand == IBig::NEG_ONE
}
