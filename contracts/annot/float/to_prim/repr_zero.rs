//@ item: float/src/repr.rs :: impl<const B: Word> Repr<B> :: zero
pub const fn zero() -> Self
/*@
    ensures ret.significand.v() == 0, ret.exponent == 0,
@*/
{
        /*@ broadcast use round_int_axioms; @*/
        Self {
            significand: IBig::ZERO,
            exponent: 0,
        }
    }
