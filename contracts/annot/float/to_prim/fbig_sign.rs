//@ item: float/src/sign.rs :: impl<R: Round, const B: Word> FBig<R, B> :: sign
pub const fn sign(&self) -> Sign
/*@
    ensures
        // "Get the sign of the number. Zero value has a positive sign."  (+inf Positive, -inf Negative)
        self.repr.significand.v() > 0 ==> ret == Sign::Positive,
        self.repr.significand.v() < 0 ==> ret == Sign::Negative,
        self.repr.significand.v() == 0 ==> ret == (if self.repr.exponent >= 0 { Sign::Positive } else { Sign::Negative }),
@*/
{
        self.repr.sign()
    }
