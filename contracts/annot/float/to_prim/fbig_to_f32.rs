//@ item: float/src/convert.rs :: impl<R: Round, const B: Word> FBig<R, B> :: to_f32
pub fn to_f32(&self) -> Rounded<f32>
/*@
    requires
        // operand in normal form (Repr invariant), resource limits (lib/fp_spec.rs fp_src_ok); any base, finite or infinite
        fp_to_f_pre::<B>(self.repr),
    ensures
        // C06 with the documented rounding rule of this function = the rounding mode associated with the type (R):
        // an infinity gives Inexact(+-inf, NoOp); a finite value is rounded ONCE to 24 bits under that mode with a truthful flag
        // and then encoded (exact in the normal range, +-inf beyond the largest float, nearest-even below the normal range),
        // flags combined as Approximation::and_then does (lib/fp_spec.rs fp_to_f32_post)
        fp_to_f32_post::<B>(R::md(), self.repr, ret),
@*/
{
        /*@ broadcast use round_int_axioms, ax_ndigits, ax_blen, ax_f32_neg; @*/
        /*@ let ghost (sig, e) = (self.repr.significand.v(), self.repr.exponent as int);
            let ghost N = fx_num(B as int, sig, e);
            let ghost D = fx_den(B as int, e);
            proof { lemma_fp_den_pos(B as int, e); } @*/
        if self.repr.is_infinite() {
            return Inexact(self.sign() * f32::INFINITY, Rounding::NoOp);
        }

        let context = Context::<R>::new(24);
        if B != 2 {
            /*@ proof {
                // (contract of convert_to_binary_once: finite, at most 24 bits) the precondition of into_f32_internal
                // ("already rounded to 24 binary bits") is ESTABLISHED, and the two contracts compose
                assert forall|rr: Rounded<Repr<2>>, o: Rounded<f32>| #[trigger] fp_into32_post(rd_val0(rr), o)
                        && fp_once_post::<B>(R::md(), 24usize, self.repr, rr)
                    implies fp_two_stage32(R::md(), N, D, mid_of(rr), and_then_spec(rr, o)) by {
                    lemma_fp_compose32(R::md(), N, D, rr, o);
                }
            } @*/
            let rounded = context.convert_to_binary_once(self.repr.clone());
            rounded.and_then(|v| /*@ -> (o: Rounded<f32>) requires fp_into_pre(v, 24) ensures fp_into32_post(v, o) @*/ v.into_f32_internal())
        } else {
            /*@ proof {
                lemma_fp_blen_nd(sig);       // B == 2: the resource bound of fp_src_ok is the digit bound repr_round_ref asks for
                assert forall|rr: Rounded<Repr<B>>| #[trigger] round_once(R::md(), B as int, 24usize, sig, e, rr) && fp_inexact_normal(B as int, rr)
                    implies fp_into_pre(rd_val0(rr), 24) by {
                    lemma_fp_mid_of_round(R::md(), 24, sig, e, rr);
                }
                assert forall|rr: Rounded<Repr<B>>, o: Rounded<f32>| #[trigger] fp_into32_post(rd_val0(rr), o)
                        && round_once(R::md(), B as int, 24usize, sig, e, rr) && fp_inexact_normal(B as int, rr)
                    implies fp_two_stage32(R::md(), N, D, mid_of(rr), and_then_spec(rr, o)) by {
                    lemma_fp_mid_of_round(R::md(), 24, sig, e, rr);
                    lemma_fp_compose32(R::md(), N, D, rr, o);
                }
            } @*/
            context
                .repr_round_ref(&self.repr)
                .and_then(|v| /*@ -> (o: Rounded<f32>) requires fp_into_pre(v, 24) ensures fp_into32_post(v, o) @*/ v.into_f32_internal())
        }
    }
