//@ item: float/src/repr.rs :: impl<R: Round> Context<R> :: repr_round
pub(crate) fn repr_round<const B: Word>(&self, repr: Repr<B>) -> Rounded<Repr<B>>
/*@
    requires
        B >= 2,
        !(repr.significand.v() == 0 && repr.exponent != 0),           // finite (documented panic otherwise)
        // exponent range: the new exponent must be representable (overflow of isize is outside this contract)
        repr.exponent as int + ndigits(B as int, repr.significand.v()) <= isize::MAX,
        ndigits(B as int, repr.significand.v()) <= isize::MAX,
        // resource limit: exponent overflow is a documented panic (C16), not modelled: the digit position of the split
        // (digits - precision) must have a bit position within usize (utils.rs `pos * log2(B)`); the exponent bound
        // above is exactly the room `Repr::new` needs in the carry case (rounded significand == B^precision)
        pos_room(ndigits(B as int, repr.significand.v()) as int),
    ensures
        round_once(R::md(), B as int, self.precision, repr.significand.v(), repr.exponent as int, ret),
        // (added to the contract of unit float_repr_round) a rounded significand goes through `Repr::new`: an Inexact
        // result is in normal form (not divisible by the base), so it carries no more digits than the rounded integer
        ret matches Approximation::Inexact(r, _) ==> (r.significand.v() == 0 || r.significand.v() % (B as int) != 0),
@*/
{
        /*@ broadcast use round_int_axioms, ax_ndigits; @*/
        assert_finite(&repr);
        if !self.is_limited() {
            return Exact(repr);
        }

        let digits = repr.digits();
        if digits > self.precision {
            let shift = digits - self.precision;
            let (signif_hi, signif_lo) = split_digits::<B>(repr.significand, shift);
            /*@ proof {
                let u = ipow(B as int, shift as nat);
                lemma_ipow_pos(B as int, shift as nat);
                lemma_divrem_facts(repr.significand.v(), u, signif_hi.v(), signif_lo.v());
            } @*/
            let adjust = R::round_fract::<B>(&signif_hi, signif_lo, shift);
            /*@ proof {
                let u = ipow(B as int, shift as nat);
                if repr.significand.v() % (B as int) != 0 {
                    lemma_normalized_lo(repr.significand.v(), B as int, shift as nat, signif_hi.v(), signif_lo.v());
                    lemma_inexact(repr.significand.v(), u, signif_hi.v(), signif_lo.v(), adjust);
                }
                lemma_hi_bound(B as int, repr.significand.v(), digits as nat, self.precision as nat, signif_hi.v(), signif_lo.v(), adjust);
                assert(round_witness(R::md(), B as int, repr.significand.v(), shift as nat, signif_hi.v() + adj_int(adjust), adjust));
                assert((shift as isize) as int == shift as int);
                assert(shift as nat == (ndigits(B as int, repr.significand.v()) - self.precision) as nat);
                assert(iabs(signif_hi.v() + adj_int(adjust)) <= ipow(B as int, self.precision as nat));
                lemma_round_exp_room(B as int, signif_hi.v() + adj_int(adjust), self.precision as nat, repr.exponent as int, digits as nat);
            } @*/
            Inexact(Repr::new(signif_hi + adjust, repr.exponent + shift as isize), adjust)
        } else {
            Exact(repr)
        }
    }
