//@ item: float/src/convert.rs :: impl<R: Round> Context<R>#1 :: convert_to_binary_once
fn convert_to_binary_once<const B: Word>(&self, repr: Repr<B>) -> Rounded<Repr<2>>
/*@ #[keep_local_items] @*/
/*@
    requires
        // finite operand, precision > 0 (the `debug_assert!`; both callers establish it), operand in normal form (Repr
        // invariant), resource limits (lib/fp_spec.rs fp_src_ok)
        fp_once_pre::<B>(self.precision, repr),
    ensures
        // C06: the exact value repr.significand * B^repr.exponent rounded ONCE to `precision` bits under the mode of the
        // context (lib/fp_spec.rs bin_once: mode-correct neighbour at the unit in the last place of the exact value,
        // Exact iff equal, flag = rounded - truncated) -- or, for |value| > 2^4096 resp. < 2^-4096 when the f32 log2
        // estimate says so, the stand-in +-2^4096 resp. +-2^-4096 (fp_far); result finite, in normal form, at most
        // `precision` bits
        fp_once_post::<B>(R::md(), self.precision, repr, ret),
@*/
{
        /*@ broadcast use round_int_axioms, ax_ndigits, ax_blen, fp_ubig_one; @*/
        /*@ let ghost (sig, e) = (repr.significand.v(), repr.exponent as int);
            let ghost N = fx_num(B as int, sig, e);
            let ghost D = fx_den(B as int, e);
            let ghost p = self.precision;
            let ghost W: nat = 0x40_0000_0000_0000;
            let ghost ea: nat = (if e >= 0 { e } else { -e }) as nat;
            proof {
                lemma_fp_den_pos(B as int, e);
                lemma_ipow_pos(2, p as nat);
                lemma_fp_ipow01(2);
            } @*/
        debug_assert!(self.precision > 0 && repr.is_finite());
        if repr.significand.is_zero() {
            /*@ proof {
                assert(N == 0) by (nonlinear_arith) requires N == (if e >= 0 { sig * ipow(B as int, e as nat) } else { sig }), sig == 0;
            } @*/
            return Exact(Repr::zero());
        }

        // numbers far outside of the range of f32 and f64 don't need the digits (and the power could be huge)
        const FAR: isize = 4096;
        let (log2_lb, log2_ub) = repr.log2_bounds();
        let (sign, magnitude) = repr.significand.into_parts();
        /*@ let ghost pw = ipow(B as int, ea);
            proof {
                // |N| = |sig| * B^max(e, 0), D = B^max(-e, 0): numerator and denominator of the code
                lemma_fp_pow_bits(B as int, ea, W);
                lemma_fp_abs_mul(sig, pw);
                assert(iabs(N) >= 1) by (nonlinear_arith) requires iabs(N) == (if e >= 0 { iabs(sig) * pw } else { iabs(sig) }), iabs(sig) >= 1, pw >= 1;
                assert((N < 0) == (sig < 0)) by (nonlinear_arith) requires N == (if e >= 0 { sig * pw } else { sig }), pw >= 1;
            } @*/
        if log2_lb > FAR as f32 || log2_ub < -FAR as f32 {
            /*@ proof { lemma_fp_far(log2_lb, log2_ub, iabs(N), D); } @*/
            let exponent = if log2_lb > 0. { /*@ proof { ax_fp_gt_zero(log2_lb, 0f32, true); } @*/ FAR } else { /*@ proof { ax_fp_gt_zero(log2_lb, 0f32, false); } @*/ -FAR };
            let significand = sign * IBig::ONE;
            /*@ proof {
                assert(significand.v() == (if N < 0 { -1int } else { 1int }));
                assert(exponent == 4096 || exponent == -4096);
                assert(exponent == 4096 ==> iabs(N) > ipow(2, 4096) * D);
                assert(exponent == -4096 ==> iabs(N) * ipow(2, 4096) < D);
                assert(fp_far(N, D, Mid { s: significand.v(), e: exponent as int, adj: Some(Rounding::NoOp) }));
                lemma_fp_blen_le(significand.v(), p as nat);
            } @*/
            return Inexact(Repr { significand, exponent }, Rounding::NoOp);
        }

        // |value| = num / den
        let (mut num, den) = if repr.exponent >= 0 {
            let pow = UBig::from_word(B).pow(repr.exponent as usize);
            (magnitude * pow, UBig::ONE)
        } else {
            let pow = UBig::from_word(B).pow((-repr.exponent) as usize);
            (magnitude, pow)
        };
        /*@ let ghost num0 = num.v();
            proof {
                assert(num0 == iabs(N) && den.v() == D);
                // resource bounds: den <= 2^W, num < 2^(2W)
                lemma_fp_blen_bound(sig);
                lemma_ipow_le(2, blen(sig), W);
                lemma_ipow_add(2, W, W);
                let (as_, hw) = (iabs(sig), ipow(2, W));
                assert(as_ * pw < hw * hw) by (nonlinear_arith) requires as_ < hw, 1 <= pw <= hw, as_ >= 0;
                assert(hw * hw >= hw) by (nonlinear_arith) requires hw >= 1;
                assert(num0 < ipow(2, W + W));
                lemma_fp_ipow2_succ(W);
                lemma_fp_blen_le(D, W + 1);
            } @*/

        // the quotient gets at least two bits more than the precision
        let shift = (self.precision + 2 + den.bit_len()).saturating_sub(num.bit_len());
        /*@ proof {
            lemma_ipow_pos(2, shift as nat);
            assert(num0 * ipow(2, shift as nat) >= 0) by (nonlinear_arith) requires num0 >= 1, ipow(2, shift as nat) >= 1;
        } @*/
        num <<= shift;
        let (q, r) = num.div_rem(&den);
        /*@ proof {
            lemma_fp_quot_bits(num0, D, shift as nat, p as nat, q.v(), r.v());
        } @*/
        let sticky = !r.is_zero();
        let significand = sign * IBig::from((q << 1) + UBig::from(sticky as u8));
        /*@ let ghost (S, e2) = (significand.v(), -(shift as int) - 1);
            proof {
                lemma_fp_ipow01(2);
                assert(q.v() * 2 == 2 * q.v());
                assert(num0 < ipow(2, W + W));
                assert(q.v() >= 0 && r.v() >= 0);
                assert(iabs(S) <= 2 * q.v() + 1);
                lemma_fp_near_room(num0, D, shift as nat, W + W, q.v(), r.v(), S);
                assert(S != 0);
                // whatever normalised representation `Repr::new` returns: room for repr_round, and the result is the contract
                assert forall|s1: int, e1: int| #[trigger] same_value(2, s1, e1, S, e2) && fp_normal(2, s1) && (S == 0 ==> s1 == 0 && e1 == 0)
                    implies s1 != 0 && e1 >= e2 && ndigits(2, s1) + e1 == ndigits(2, S) + e2 by {
                    if s1 == 0 { lemma_fp_same_zero(s1, e1, S, e2); }
                    lemma_fp_norm_room(s1, e1, S, e2);
                }
                assert forall|s1: int, e1: int, rr: Rounded<Repr<2>>| same_value(2, s1, e1, S, e2) && fp_normal(2, s1)
                        && #[trigger] round_once(R::md(), 2, p, s1, e1, rr) && fp_inexact_normal(2, rr)
                    implies fp_once_post::<B>(R::md(), p, repr, rr) by {
                    lemma_fp_once_near(R::md(), p, N, D, shift as nat, q.v(), r.v(), S, s1, e1, rr);
                    lemma_fp_once_digits(R::md(), p as nat, N, D, mid_of(rr));
                }
            } @*/
        self.repr_round(Repr::new(significand, -(shift as isize) - 1))
    }
