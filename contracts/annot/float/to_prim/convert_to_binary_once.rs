//@ item: float/src/convert.rs :: impl<R: Round> Context<R>#1 :: convert_to_binary_once
fn convert_to_binary_once<const B: Word>(&self, repr: Repr<B>) -> Rounded<Repr<2>>
/*@
    requires
        // finite operand, precision > 0 (the `debug_assert!`; both callers establish it), operand in normal form,
        // resource limits, and -- KNOWN FINDING -- the region where the assumed contract of convert_base holds
        // (B a power of two, or |exponent| <= 38: lib/fp_spec.rs fp_cb_region)
        fp_once_pre::<B>(self.precision, repr),
    ensures
        // C06: the exact value repr.significand * B^repr.exponent rounded ONCE to `precision` bits under the mode of the
        // context (lib/fp_spec.rs bin_once: mode-correct neighbour at the unit in the last place of the exact value,
        // Exact iff equal, flag = rounded - truncated), result in normal form (hence at most `precision` bits)
        fp_once_post::<B>(R::md(), self.precision, repr, ret),
@*/
{
        /*@ broadcast use round_int_axioms, ax_ndigits, ax_blen; @*/
        /*@ let ghost (sig, e) = (repr.significand.v(), repr.exponent as int);
            let ghost N = fx_num(B as int, sig, e);
            let ghost D = fx_den(B as int, e);
            let ghost p = self.precision;
            proof { lemma_fp_den_pos(B as int, e); } @*/
        debug_assert!(self.precision > 0 && repr.is_finite());
        let wide_precision = self.precision + 2;
        let wide: Rounded<Repr<2>> = Context::<Zero>::new(wide_precision).convert_base(repr);
        let sticky = matches!(wide, Inexact(_, _));
        /*@ let ghost wide0 = wide; @*/
        let Repr {
            mut significand,
            mut exponent,
        } = wide.value();
        /*@ let ghost (ws, we) = (significand.v(), exponent as int);
            let ghost mut padg: nat = 0;
            proof {
                lemma_fp_blen_nd(ws);
                if sticky { lemma_fp_trunc_nonzero(p + 2, N, D, ws, we); }
            } @*/
        if sticky {
            // put the sticky bit below the position where the conversion was truncated
            let pad = wide_precision.saturating_sub(significand.bit_len()) + 1;
            let sign = significand.sign();
            significand <<= pad;
            significand += sign * IBig::ONE;
            exponent -= pad as isize;
            /*@ proof {
                padg = pad as nat;
                lemma_fp_sticky_shape(ws, pad as nat, significand.v());
            } @*/
        }
        /*@ let ghost (S, e2) = (significand.v(), exponent as int);
            proof {
                // `Repr::new` returns (S, e2) itself: S is odd (sticky) or already in normal form (exact conversion)
                assert forall|s1: int, e1: int| #[trigger] same_value(2, s1, e1, S, e2) && fp_normal(2, s1) && (S == 0 ==> s1 == 0 && e1 == 0)
                    implies s1 == S && e1 == e2 by {
                    if S != 0 {
                        if s1 == 0 { lemma_fp_same_zero(s1, e1, S, e2); }
                        lemma_fp_odd_norm(s1, e1, S, e2);
                    }
                }
                assert(exp_room(e2, ndigits(2, S) as int));
            } @*/
        self.repr_round(Repr::new(significand, exponent))
        /*@ proof {
            assert(round_once(R::md(), 2, p, S, e2, ret));
            if sticky {
                lemma_fp_once_sticky(R::md(), p, N, D, ws, we, padg, S, ret);
            } else {
                lemma_fp_once_of_round(R::md(), p, S, e2, N, D, ret);
            }
        } @*/
    }
