//@ item: float/src/convert.rs :: impl<const B: Word> Repr<B> :: to_f64
pub fn to_f64(&self) -> Rounded<f64>
/*@
    requires
        // operand in normal form (Repr invariant), resource limits (lib/fp_spec.rs fp_src_ok); any base, finite or infinite
        fp_to_f_pre::<B>((*self)),
    ensures
        // C06 with the documented rounding rule of this function = the default IEEE 754 rounding mode HalfEven:
        // an infinity gives Inexact(+-inf, NoOp); a finite value is rounded ONCE to 53 bits under that mode with a truthful flag
        // and then encoded (exact in the normal range, +-inf beyond the largest float, nearest-even below the normal range),
        // flags combined as Approximation::and_then does (lib/fp_spec.rs fp_to_f64_post)
        fp_to_f64_post::<B>(Mode::HalfEven, (*self), ret),
@*/
{
        /*@ broadcast use round_int_axioms, ax_ndigits, ax_blen, ax_f64_neg; @*/
        /*@ let ghost (sig, e) = ((*self).significand.v(), (*self).exponent as int);
            let ghost N = fx_num(B as int, sig, e);
            let ghost D = fx_den(B as int, e);
            proof { lemma_fp_den_pos(B as int, e); } @*/
        // Note: the implementation here should be kept consistent with FBig::to_f64

        if self.is_infinite() {
            return Inexact(self.sign() * f64::INFINITY, Rounding::NoOp);
        }

        let context = Context::<HalfEven>::new(53);
        if B != 2 {
            /*@ proof {
                // (contract of convert_to_binary_once: finite, at most 53 bits) the precondition of into_f64_internal
                // ("already rounded to 53 binary bits") is ESTABLISHED, and the two contracts compose
                assert forall|rr: Rounded<Repr<2>>, o: Rounded<f64>| #[trigger] fp_into64_post(rd_val0(rr), o)
                        && fp_once_post::<B>(Mode::HalfEven, 53usize, (*self), rr)
                    implies fp_two_stage64(Mode::HalfEven, N, D, mid_of(rr), and_then_spec(rr, o)) by {
                    lemma_fp_compose64(Mode::HalfEven, N, D, rr, o);
                }
            } @*/
            let rounded = context.convert_to_binary_once(self.clone());
            rounded.and_then(|v| /*@ -> (o: Rounded<f64>) requires fp_into_pre(v, 53) ensures fp_into64_post(v, o) @*/ v.into_f64_internal())
        } else {
            /*@ proof {
                lemma_fp_blen_nd(sig);       // B == 2: the resource bound of fp_src_ok is the digit bound repr_round_ref asks for
                assert forall|rr: Rounded<Repr<B>>| #[trigger] round_once(Mode::HalfEven, B as int, 53usize, sig, e, rr) && fp_inexact_normal(B as int, rr)
                    implies fp_into_pre(rd_val0(rr), 53) by {
                    lemma_fp_mid_of_round(Mode::HalfEven, 53, sig, e, rr);
                }
                assert forall|rr: Rounded<Repr<B>>, o: Rounded<f64>| #[trigger] fp_into64_post(rd_val0(rr), o)
                        && round_once(Mode::HalfEven, B as int, 53usize, sig, e, rr) && fp_inexact_normal(B as int, rr)
                    implies fp_two_stage64(Mode::HalfEven, N, D, mid_of(rr), and_then_spec(rr, o)) by {
                    lemma_fp_mid_of_round(Mode::HalfEven, 53, sig, e, rr);
                    lemma_fp_compose64(Mode::HalfEven, N, D, rr, o);
                }
            } @*/
            context
                .repr_round_ref(self)
                .and_then(|v| /*@ -> (o: Rounded<f64>) requires fp_into_pre(v, 53) ensures fp_into64_post(v, o) @*/ v.into_f64_internal())
        }
    }
