//@ item: float/src/fmt.rs :: impl<const B: Word> Repr<B> :: fmt_round
fn fmt_round<R: Round>(&self, f: &mut Formatter<'_>) -> fmt::Result
/*@
    requires
        B >= 2,
        // a precision option of more than 2^32 digits is outside this contract (core stores it in a u16 since 1.87)
        old(f).prec() is Some ==> old(f).prec().unwrap() <= 0xffff_ffff,
        // exponent range: isize overflow of `precision + exponent` is outside this contract
        isize::MIN < self.exponent, self.exponent as int + 0xffff_ffff <= isize::MAX,
        // resource limit: exponent overflow is a documented panic (C16), not modelled: the rounding drops
        // -(precision + exponent) <= -exponent digits (`split_digits_ref`: bit position `pos * log2(B)` in usize)
        self.exponent < 0 ==> pos_room(-(self.exponent as int)),
    ensures
        // infinities are printed as `inf` / `-inf` and nothing else
        (self.significand.v() == 0 && self.exponent != 0 && ret is Ok) ==>
            final(f)@ == old(f)@ + (if self.exponent >= 0 { "inf"@ } else { "-inf"@ }),
@*/
{
        /*@ broadcast use round_int_axioms, ax_ndigits; @*/
        /*@ let ghost fprec = f.prec(); @*/
        // shortcut for infinities
        if self.is_infinite() {
            return match self.sign() {
                Sign::Positive => f.write_str("inf"),
                Sign::Negative => f.write_str("-inf"),
            };
        }

        // first perform rounding before actual printing if necessary
        let negative = self.significand.sign() == Sign::Negative;
        let rounded_signif;
        let (signif, exp) = if let Some(prec) = f.precision() {
            let diff = prec as isize + self.exponent;
            if diff < 0 {
                let shift = -diff as usize;
                let (signif, rem) = split_digits_ref::<B>(&self.significand, shift);
                /*@ proof {
                    let u = ipow(B as int, shift as nat);
                    lemma_ipow_pos(B as int, shift as nat);
                    lemma_divrem_facts(self.significand.v(), u, signif.v(), rem.v());
                } @*/
                let adjust = R::round_fract::<B>(&signif, rem, shift);
                rounded_signif = signif + adjust;
                (&rounded_signif, self.exponent - diff)
            } else {
                (&self.significand, self.exponent)
            }
        } else {
            (&self.significand, self.exponent)
        };

        /*@ proof {
            // C08: with a precision option the significand handed to the digit printer is the rounding, under the mode
            // R, of the value to `precision` fractional digits (exponent -precision); without it nothing changes
            assert(fmt_fix_rounded(R::md(), B as int, self.significand.v(), self.exponent as int, fprec, signif.v(), exp as int));
            assert(negative == (self.significand.v() < 0));
        } @*/
        /*@ #[cut_tail] @*/

        // then print the digits to a buffer, without the sign
        let mut signif_str = String::new();
        write!(&mut signif_str, "{}", signif.in_radix(B as _))?;
        let signif_str = if negative {
            &signif_str[1..]
        } else {
            signif_str.as_str()
        };

        // calculate padding if necessary
        let (left_pad, right_pad) = if let Some(min_width) = f.width() {
            let mut signif_digits = signif_str.len();
            // the leading zeros needs to be printed (when the exponent of the number is very small).
            let leading_zeros = -(exp + signif_str.len() as isize - 1).min(0) as usize;
            // the trailing zeros needs to be printed (when the exponent of the number is very large)
            let mut trailing_zeros = exp.max(0) as usize;

            // if the precision option is set, there might be extra trailing zeros
            if let Some(prec) = f.precision() {
                let diff = prec as isize + exp.min(0);
                if diff > 0 {
                    trailing_zeros += diff as usize;
                }
            }
            if leading_zeros == 0 {
                // there is at least one digit to print (0)
                signif_digits = signif_digits.max(1);
            }

            let has_sign = (negative || f.sign_plus()) as usize;
            let has_radix_point = if exp > 0 {
                // if there's no fractional part, the result has the floating point
                // only if the precision is set to be non-zero
                f.precision().unwrap_or(0) > 0
            } else {
                // if there is fractional part, the result has the floating point
                // if the precision is not set, or set to be non-zero
                f.precision() != Some(0) // non-zero or none
            } as usize;

            let width = signif_digits + has_sign + has_radix_point + leading_zeros + trailing_zeros;

            // check alignment and calculate padding
            if width >= min_width {
                (0, 0)
            } else if f.sign_aware_zero_pad() {
                (min_width - width, 0)
            } else {
                match f.align() {
                    Some(Alignment::Left) => (0, min_width - width),
                    Some(Alignment::Right) | None => (min_width - width, 0),
                    Some(Alignment::Center) => {
                        let diff = min_width - width;
                        (diff / 2, diff - diff / 2)
                    }
                }
            }
        } else {
            (0, 0)
        };

        // print sign and left padding
        if !f.sign_aware_zero_pad() {
            for _ in 0..left_pad {
                f.write_char(f.fill())?;
            }
        }
        if negative {
            f.write_char('-')?;
        } else if f.sign_plus() {
            f.write_char('+')?;
        }
        if f.sign_aware_zero_pad() {
            for _ in 0..left_pad {
                f.write_char('0')?;
            }
        }

        // print the actual digits
        if exp < 0 {
            // If the exponent is negative, then the float number has fractional part
            let exp = -exp as usize;
            let (int, fract) = signif_str.split_at(signif_str.len().saturating_sub(exp));

            let frac_digits = fract.len();
            debug_assert!(frac_digits <= exp);

            // print the integral part, at least print a zero.
            if int.is_empty() {
                f.write_char('0')?;
            } else {
                f.write_str(int)?;
            }

            // print the fractional part, it has exactly `exp` digits (with left zero padding)
            if let Some(prec) = f.precision() {
                // don't print any fractional part if precision is zero
                if prec != 0 {
                    f.write_char('.')?;
                    if exp >= prec {
                        // the fractional part should be already rounded at the beginning
                        debug_assert!(exp == prec);

                        // print padding zeros
                        if prec > frac_digits {
                            for _ in 0..prec - frac_digits {
                                f.write_char('0')?;
                            }
                        }
                        if frac_digits > 0 {
                            f.write_str(fract)?;
                        }
                    } else {
                        // append zeros if the required precision is larger
                        for _ in 0..exp - frac_digits {
                            f.write_char('0')?;
                        }
                        f.write_str(fract)?;
                        for _ in 0..prec - exp {
                            f.write_char('0')?;
                        }
                    }
                }
            } else if frac_digits > 0 {
                f.write_char('.')?;
                for _ in 0..(exp - frac_digits) {
                    f.write_char('0')?;
                }
                f.write_str(fract)?;
            }
        } else {
            // In this case, the number is actually an integer and it can be trivially formatted.
            // However, when the precision option is set, we need to append zeros.

            // print the significand and append zeros if needed
            if signif_str.is_empty() {
                // this branch can happend when a negative float is rounded to zero.
                f.write_char('0')?;
            } else {
                f.write_str(signif_str)?;
            }
            for _ in 0..exp {
                f.write_char('0')?;
            }

            // print trailing zeros after the float point if the precision is set to be nonzero
            if let Some(prec) = f.precision() {
                if prec > 0 {
                    f.write_char('.')?;
                    for _ in 0..prec {
                        f.write_char('0')?;
                    }
                }
            }
        };

        // print right padding
        for _ in 0..right_pad {
            f.write_char(f.fill())?;
        }

        Ok(())
    }
