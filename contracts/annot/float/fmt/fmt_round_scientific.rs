//@ item: float/src/fmt.rs :: impl<const B: Word> Repr<B> :: fmt_round_scientific
fn fmt_round_scientific<R: Round>(
        &self,
        f: &mut Formatter<'_>,
        upper: bool,
        use_hexadecimal: bool,
        exp_marker: Option<char>,
    ) -> fmt::Result
/*@
    requires
        B >= 2,
        // call sites (impl_fmt_with_base!): hexadecimal output is requested for base 2 only
        use_hexadecimal ==> B == 2,
        // a precision option of more than 2^32 digits is outside this contract (core stores it in a u16 since 1.87)
        old(f).prec() is Some ==> old(f).prec().unwrap() <= 0xffff_ffff,
        // exponent / digit-count range: isize overflow of the printed exponent is outside this contract
        ndigits(B as int, self.significand.v()) <= isize::MAX,
        self.exponent as int + ndigits(B as int, self.significand.v()) <= isize::MAX,
        // resource limit: exponent overflow is a documented panic (C16), not modelled: the rounding drops at most
        // `digits` digits (`split_digits_ref`: bit position `pos * log2(B)` in usize)
        pos_room(ndigits(B as int, self.significand.v()) as int),
    ensures
        // infinities are printed as `inf` / `-inf` and nothing else
        (self.significand.v() == 0 && self.exponent != 0 && ret is Ok) ==>
            final(f)@ == old(f)@ + (if self.exponent >= 0 { "inf"@ } else { "-inf"@ }),
@*/
{
        /*@ broadcast use round_int_axioms, ax_ndigits; @*/
        /*@ let ghost fprec = f.prec(); @*/
        assert!(!(B != 2 && use_hexadecimal), "hexadecimal is only relevant for base 2");

        // shortcut for infinities
        if self.is_infinite() {
            return match self.sign() {
                Sign::Positive => f.write_str("inf"),
                Sign::Negative => f.write_str("-inf"),
            };
        }

        // first perform rounding before actual printing if necessary
        let negative = self.significand.sign() == Sign::Negative;
        let rounded_signif;
        let (signif, exp) = if let Some(prec) = f.precision() {
            // add one because always have one extra digit before the radix point
            let prec = if use_hexadecimal {
                (prec * 4 + 4) as isize
            } else {
                (prec + 1) as isize
            };
            let diff = prec - self.digits() as isize;
            if diff < 0 {
                let shift = -diff as usize;
                let (signif, rem) = split_digits_ref::<B>(&self.significand, shift);
                /*@ proof {
                    let u = ipow(B as int, shift as nat);
                    lemma_ipow_pos(B as int, shift as nat);
                    lemma_divrem_facts(self.significand.v(), u, signif.v(), rem.v());
                } @*/
                let adjust = R::round_fract::<B>(&signif, rem, shift);
                rounded_signif = signif + adjust;
                (&rounded_signif, self.exponent - diff)
            } else {
                (&self.significand, self.exponent)
            }
        } else {
            (&self.significand, self.exponent)
        };
        /*@ proof {
            // C08: the number of dropped digits comes from the EXACT digit count and the significand handed to the
            // digit printer is the rounding, under the mode R, of the value to the requested number of digits
            assert(fmt_sci_rounded(R::md(), B as int, self.significand.v(), self.exponent as int, fprec, use_hexadecimal,
                                   signif.v(), exp as int));
            assert(negative == (self.significand.v() < 0));
        } @*/
        /*@ #[cut_tail] @*/

        // then print the digits to a buffer, without the prefix or sign
        let (mut signif_str, mut exp_str) = (String::new(), String::new());
        match (upper, use_hexadecimal) {
            (false, false) => write!(&mut signif_str, "{}", signif.in_radix(B as _)),
            (true, false) => write!(&mut signif_str, "{:#}", signif.in_radix(B as _)),
            (false, true) => write!(&mut signif_str, "{:}", signif.in_radix(16)),
            (true, true) => write!(&mut signif_str, "{:#}", signif.in_radix(16)),
        }?;
        let signif_str = if negative {
            &signif_str[1..]
        } else {
            signif_str.as_str()
        };
        // adjust exp because the radix point is put after the first digit
        let exp_adjust = if use_hexadecimal {
            exp + (signif_str.len() as isize - 1) * 4
        } else {
            exp + signif_str.len() as isize - 1
        };
        write!(&mut exp_str, "{}", exp_adjust)?;
        let exp_str = exp_str.as_str();

        // calculate padding if necessary
        let (left_pad, right_pad) = if let Some(min_width) = f.width() {
            let prec = f.precision().unwrap_or(0);
            let has_point = signif_str.len() > 1 || prec > 0; // whether print the radix point
            let has_sign = negative || f.sign_plus();

            // if the precision option is set, there might be extra trailing zeros
            let trailing_zeros = if prec > signif_str.len() - 1 {
                prec - (signif_str.len() - 1)
            } else {
                0
            };

            let width = signif_str.len() + exp_str.len()
                + /* exponent marker */ 1
                + has_sign as usize
                + has_point as usize
                + use_hexadecimal as usize * 2
                + trailing_zeros;

            if width >= min_width {
                (0, 0)
            } else {
                match f.align() {
                    Some(Alignment::Left) => (0, min_width - width),
                    Some(Alignment::Right) | None => (min_width - width, 0),
                    Some(Alignment::Center) => {
                        let diff = min_width - width;
                        (diff / 2, diff - diff / 2)
                    }
                }
            }
        } else {
            (0, 0)
        };

        // print sign and left padding
        if !f.sign_aware_zero_pad() {
            for _ in 0..left_pad {
                f.write_char(f.fill())?;
            }
        }
        if negative {
            f.write_char('-')?;
        } else if f.sign_plus() {
            f.write_char('+')?;
        }
        if use_hexadecimal {
            f.write_str("0x")?;
        }
        if f.sign_aware_zero_pad() {
            for _ in 0..left_pad {
                f.write_char('0')?;
            }
        }

        // print the body
        let (int, fract) = signif_str.split_at(1);
        f.write_str(int)?;
        if !fract.is_empty() {
            f.write_char('.')?;
            f.write_str(fract)?;
        }
        let prec = f.precision().unwrap_or(0);
        if prec > 0 {
            if fract.is_empty() {
                f.write_char('.')?
            }
            for _ in fract.len()..prec {
                f.write_char('0')?;
            }
        }

        f.write_char(exp_marker.unwrap_or('@'))?;
        f.write_str(exp_str)?;

        // print right padding
        for _ in 0..right_pad {
            f.write_char(f.fill())?;
        }

        Ok(())
    }
