//@ item: float/src/third_party/num_order.rs :: macro impl_num_ord_with_method#0 :: impl<const B: Word> NumOrd<Repr<B>> for $T :: num_partial_cmp
fn num_partial_cmp(&self, other: &Repr<B>) -> Option<Ordering>
/*@[UBig] #[hoist(Self = UBig, Name = t_num_partial_cmp_repr, Generics = [const B: Word])] @*/
/*@[IBig] #[hoist(Self = IBig, Name = t_num_partial_cmp_repr, Generics = [const B: Word])] @*/
/*@
    requires fi_pre(B as int, other.exponent as int),
    ensures // C14: the ordering of the exact values, the integer on the left
        ret == Some(cmp_int_repr(self.v(), other.significand.v(), B as int, other.exponent as int, false)),
@*/
{
                Some($method::<B, false>(other, self).reverse())
            }
