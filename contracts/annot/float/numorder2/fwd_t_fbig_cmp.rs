//@ item: float/src/third_party/num_order.rs :: macro forward_num_ord_to_repr#0 :: impl<R: Round, const B: Word> NumOrd<FBig<R, B>> for $t :: num_cmp
fn num_cmp(&self, other: &FBig<R, B>) -> Ordering
/*@[UBig] #[hoist(Self = UBig, Name = t_num_cmp_fbig, Generics = [R: Round, const B: Word])] @*/
/*@[IBig] #[hoist(Self = IBig, Name = t_num_cmp_fbig, Generics = [R: Round, const B: Word])] @*/
/*@[f32] #[hoist(Self = f32, Name = t_num_cmp_fbig, Generics = [R: Round, const B: Word])] @*/
/*@[f64] #[hoist(Self = f64, Name = t_num_cmp_fbig, Generics = [R: Round, const B: Word])] @*/
/*@
    requires self.npc_req(&other.repr), self.npc_spec(&other.repr).is_some(),
    ensures // npc_spec is the C14 sentence for ($t, Repr<B>)
        Some(ret) == self.npc_spec(&other.repr),
@*/
{
                self.num_cmp(&other.repr)
            }
