//@ item: float/src/third_party/num_order.rs :: impl<R1: Round, R2: Round, const B1: Word, const B2: Word> NumOrd<FBig<R2, B2>> for FBig<R1, B1> :: num_cmp
fn num_cmp(&self, other: &FBig<R2, B2>) -> Ordering
/*@ #[hoist(Self = (FBig<R1, B1>), Name = fbig_num_cmp_fbig, Generics = [R1: Round, R2: Round, const B1: Word, const B2: Word])]
    requires self.repr.npc_req(&other.repr),
    ensures // FBig numbers of different bases, precisions and rounding modes compare as their exact values
        Some(ret) == self.repr.npc_spec(&other.repr),
@*/
{
        self.repr.num_cmp(&other.repr)
    }
