//@ item: float/src/cmp.rs :: macro impl_abs_ord_with_method#0 :: impl<R: Round, const B: Word> AbsOrd<FBig<R, B>> for $T :: abs_cmp
fn abs_cmp(&self, other: &FBig<R, B>) -> Ordering
/*@[UBig] #[hoist(Self = UBig, Name = t_abs_cmp_fbig, Generics = [R: Round, const B: Word])] @*/
/*@[IBig] #[hoist(Self = IBig, Name = t_abs_cmp_fbig, Generics = [R: Round, const B: Word])] @*/
/*@
    requires fi_pre(B as int, other.repr.exponent as int),
    ensures // C14 (AbsOrd): the ordering of the magnitudes, the integer on the left
        ret == cmp_int_repr(self.v(), other.repr.significand.v(), B as int, other.repr.exponent as int, true),
@*/
{
                $method::<B, true>(&other.repr, self).reverse()
            }
