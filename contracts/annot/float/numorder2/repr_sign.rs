//@ item: float/src/repr.rs :: impl<const B: Word> Repr<B> :: sign
pub const fn sign(&self) -> Sign
/*@
    ensures // the sign of the value; zero is Positive, -inf (0, e < 0) Negative
        ret == (if self.significand.v() < 0 || (self.significand.v() == 0 && self.exponent < 0) { Sign::Negative } else { Sign::Positive }),
@*/
{
        if self.significand.is_zero() {
            if self.exponent >= 0 {
                Sign::Positive
            } else {
                Sign::Negative
            }
        } else {
            self.significand.sign()
        }
}
