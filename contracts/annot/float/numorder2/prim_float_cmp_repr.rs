//@ item: float/src/third_party/num_order.rs :: macro impl_num_ord_with_float#0 :: impl<const B: Word> NumOrd<Repr<B>> for $t :: num_partial_cmp
fn num_partial_cmp(&self, other: &Repr<B>) -> Option<Ordering>
/*@[f32] #[hoist(Self = f32, Name = prim_float_cmp_repr, Generics = [const B: Word])]
    requires other.npc_req(self),
    ensures // C14: the ordering of the exact real values, the float on the left; NaN is incomparable
        ret == cmp_prim_repr(f32_nan(*self), f32_inf(*self), f32_neg(*self), f32_man(*self), f32_exp(*self),
            other.significand.v(), B as int, other.exponent as int),
@*/
/*@[f64] #[hoist(Self = f64, Name = prim_float_cmp_repr, Generics = [const B: Word])]
    requires other.npc_req(self),
    ensures // C14: the ordering of the exact real values, the float on the left; NaN is incomparable
        ret == cmp_prim_repr(f64_nan(*self), f64_inf(*self), f64_neg(*self), f64_man(*self), f64_exp(*self),
            other.significand.v(), B as int, other.exponent as int),
@*/
{
                other.num_partial_cmp(self).map(|ord| /*@ -> (r: Ordering) ensures r == ord_rev(ord) @*/ ord.reverse())
            }
