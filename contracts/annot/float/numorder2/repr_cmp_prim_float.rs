//@ item: float/src/third_party/num_order.rs :: macro impl_num_ord_with_float#0 :: impl<const B: Word> NumOrd<$t> for Repr<B> :: num_partial_cmp
fn num_partial_cmp(&self, other: &$t) -> Option<Ordering>
/*@ #[hoist(Self = (Repr<B>), Name = repr_cmp_prim_float, Generics = [const B: Word])] @*/
/*@[f32]
    requires B >= 2,
        // resource: `B.bit_len() * exponent` in isize, |exponent| digits of scaling in the exact step
        -0x0100_0000_0000_0000 <= self.exponent <= 0x0100_0000_0000_0000,
    ensures // C14: the ordering of the exact real values; NaN is incomparable
        ret == cmp_repr_prim(self.significand.v(), B as int, self.exponent as int,
            f32_nan(*other), f32_inf(*other), f32_neg(*other), f32_man(*other), f32_exp(*other)),
@*/
/*@[f64]
    requires B >= 2,
        -0x0100_0000_0000_0000 <= self.exponent <= 0x0100_0000_0000_0000,
    ensures // C14: the ordering of the exact real values; NaN is incomparable
        ret == cmp_repr_prim(self.significand.v(), B as int, self.exponent as int,
            f64_nan(*other), f64_inf(*other), f64_neg(*other), f64_man(*other), f64_exp(*other)),
@*/
{
                /*@[f32]
                let ghost m = f32_man(*other); let ghost ex = f32_exp(*other);
                let ghost digits = 24int; let ghost maxe = 128int;
                proof { ax_f32_model(*other); }
                @*/
                /*@[f64]
                let ghost m = f64_man(*other); let ghost ex = f64_exp(*other);
                let ghost digits = 53int; let ghost maxe = 1024int;
                proof { ax_f64_model(*other); }
                @*/
                /*@
                let ghost s = self.significand.v(); let ghost e = self.exponent as int; let ghost b = B as int;
                let ghost sb = blen(rabs(s)); let ghost t = blen(b); let ghost mb = blen(rabs(m));
                let ghost ae: nat = (if e >= 0 { e } else { -e }) as nat;
                proof {
                    ax_blen(rabs(s)); ax_blen(b); ax_blen(rabs(m));
                    lemma_ipw_pos(b, ae); lemma_tntd_pos(ex);
                    vstd::arithmetic::power2::lemma2_to64();
                    lemma_scale_sign(s, pn(b, e)); lemma_scale_sign(s * pn(b, e), td(ex));
                    lemma_scale_sign(m, pd(b, e)); lemma_scale_sign(m * pd(b, e), tn(ex));
                }
                @*/
                // step0: compare with nan and 0
                if other.is_nan() {
                    return None;
                } else if *other == 0. {
                    /*@[f32] proof { ax_f32_eq_zero(*other, true); } @*/
                    /*@[f64] proof { ax_f64_eq_zero(*other, true); } @*/
                    return match self.is_zero() {
                        true => Some(Ordering::Equal),
                        false => Some(self.sign() * Ordering::Greater)
                    };
                }
                /*@[f32] proof { ax_f32_eq_zero(*other, false); } @*/
                /*@[f64] proof { ax_f64_eq_zero(*other, false); } @*/

                // step1: compare sign
                let sign = match (self.sign(), other.sign()) {
                    (Sign::Positive, Sign::Positive) => Sign::Positive,
                    (Sign::Positive, Sign::Negative) => return Some(Ordering::Greater),
                    (Sign::Negative, Sign::Positive) => return Some(Ordering::Less),
                    (Sign::Negative, Sign::Negative) => Sign::Negative,
                };

                // step2: compare with inf
                match (self.is_infinite(), other.is_infinite()) {
                    (true, true) => return Some(Ordering::Equal),
                    (false, true) => return Some(sign * Ordering::Less),
                    (true, false) => return Some(sign * Ordering::Greater),
                    _ => {}
                };
                /*@ proof {
                    if s == 0 { assert((0 * pn(b, e)) * td(ex) == 0) by (nonlinear_arith); }
                } @*/
                if self.is_zero() {
                    // other is non-zero and has the sign of zero (positive)
                    return Some(Ordering::Less);
                }
                /*@ proof {
                    // both finite and non-zero, both of the sign `sign`
                    assert(m != 0 && s != 0);
                    assert(sign == Sign::Negative ==> s < 0 && m < 0);
                    assert(sign == Sign::Positive ==> s > 0 && m > 0);
                    assert(t >= 2 && t <= 64) by {
                        if t <= 1 { assert(b < pow2(1)); }
                        if t > 64 { lemma_q2_mono(64, (t - 1) as nat); }
                    }
                    assert(-0x4000_0000_0000_0000 <= t * e <= 0x4000_0000_0000_0000 && (e < 0 ==> t * e < 0) && (e >= 0 ==> t * e >= 0)) by (nonlinear_arith)
                        requires 2 <= t <= 64, -0x0100_0000_0000_0000 <= e <= 0x0100_0000_0000_0000;
                } @*/

                // step3: test if the number is bigger than the max float value
                // Here we don't use EstimatedLog2, since a direct comparison is not that expensive.
                // We just need a quick way to determine if one number is much larger than the other.
                // The bit length (essentially ⌊log2(x)⌋ + 1) is used instead here.
                let self_signif_log2 = self.significand.bit_len() as isize;
                let self_log2 = self_signif_log2 + B.bit_len() as isize * self.exponent;
                let (self_log2_lb, self_log2_ub) = if self.exponent >= 0 {
                    (self_log2 - self.exponent, self_log2)
                } else {
                    (self_log2, self_log2 - self.exponent)
                };
                /*@
                let ghost lb = self_log2_lb as int; let ghost ub = self_log2_ub as int;
                let ghost neg = sign == Sign::Negative;
                proof {
                    // 2^(lb-1) <= |self| (self != 0),  |self| < 2^ub;   2^(mb+ex-1) <= |other| < 2^(mb+ex),  mb + ex <= MAX_EXP
                    lemma_blen_le(rabs(m), digits as nat);
                    lemma_prim_encl(m, mb, ex);
                    {
                        lemma_float_encl(s, sb, b, t, e);
                        assert(e >= 0 ==> lb - 1 == sb - 1 + (t - 1) * e && ub == sb + t * e) by (nonlinear_arith)
                            requires e >= 0 ==> lb == sb + t * e - e && ub == sb + t * e;
                        assert(e < 0 ==> lb - 1 == sb - 1 + t * e && ub == sb + (t - 1) * e) by (nonlinear_arith)
                            requires e < 0 ==> lb == sb + t * e && ub == sb + t * e - e;
                        if lb - 1 >= mb + ex {
                            lemma_chain_gt(rabs(s) * pn(b, e), pd(b, e), rabs(m) * tn(ex), td(ex), lb - 1, mb + ex);
                            lemma_fp_swap(rabs(m), tn(ex), pd(b, e));
                            lemma_fp_decide(s, pn(b, e), td(ex), m, pd(b, e), tn(ex), neg, true);
                        }
                        if ub <= mb + ex - 1 {
                            lemma_chain_lt(rabs(s) * pn(b, e), pd(b, e), rabs(m) * tn(ex), td(ex), ub, mb + ex - 1);
                            lemma_fp_swap(rabs(m), tn(ex), pd(b, e));
                            lemma_fp_decide(s, pn(b, e), td(ex), m, pd(b, e), tn(ex), neg, false);
                        }
                    }
                } @*/
                if self_log2_lb > (<$t>::MANTISSA_DIGITS as isize + <$t>::MAX_EXP as isize) {
                    return Some(sign * Ordering::Greater);
                }

                // step4: decode the float and compare the bits
                let (other_signif, other_exp) = other.decode().unwrap();
                let other_log2 = other_signif.bit_len() as isize + other_exp as isize;
                if self_log2_lb > other_log2 {
                    return Some(sign * Ordering::Greater);
                } else if self_log2_ub < other_log2 {
                    return Some(sign * Ordering::Less);
                }

                // step5: do the final comparison
                let (mut lhs, mut rhs) = (self.significand.clone(), IBig::from(other_signif));
                if self.exponent < 0 {
                    shl_digits_in_place::<B>(&mut rhs, (-self.exponent) as usize);
                } else {
                    shl_digits_in_place::<B>(&mut lhs, self.exponent as usize);
                }
                /*@ proof { assert(lhs.v() == s * pn(b, e) && rhs.v() == m * pd(b, e)); } @*/
                if other_exp < 0 {
                    lhs <<= (-other_exp) as usize;
                } else {
                    rhs <<= other_exp as usize;
                }
                /*@ proof { assert(lhs.v() == (s * pn(b, e)) * td(ex) && rhs.v() == (m * pd(b, e)) * tn(ex)); } @*/
                Some(lhs.cmp(&rhs))
            }
