//@ item: float/src/cmp.rs :: macro impl_abs_ord_with_method#0 :: impl<const B: Word> AbsOrd<Repr<B>> for $T :: abs_cmp
fn abs_cmp(&self, other: &Repr<B>) -> Ordering
/*@[UBig] #[hoist(Self = UBig, Name = t_abs_cmp_repr, Generics = [const B: Word])] @*/
/*@[IBig] #[hoist(Self = IBig, Name = t_abs_cmp_repr, Generics = [const B: Word])] @*/
/*@
    requires fi_pre(B as int, other.exponent as int),
    ensures // C14 (AbsOrd): the ordering of the magnitudes, the integer on the left
        ret == cmp_int_repr(self.v(), other.significand.v(), B as int, other.exponent as int, true),
@*/
{
                $method::<B, true>(other, self).reverse()
            }
