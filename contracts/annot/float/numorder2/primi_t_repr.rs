//@ item: float/src/third_party/num_order.rs :: macro impl_num_ord_with_signed#0 :: impl<const B: Word> NumOrd<Repr<B>> for $t :: num_partial_cmp
fn num_partial_cmp(&self, other: &Repr<B>) -> Option<Ordering>
/*@[i8] #[hoist(Self = i8, Name = prim_num_partial_cmp_repr, Generics = [const B: Word])] @*/
/*@[i16] #[hoist(Self = i16, Name = prim_num_partial_cmp_repr, Generics = [const B: Word])] @*/
/*@[i32] #[hoist(Self = i32, Name = prim_num_partial_cmp_repr, Generics = [const B: Word])] @*/
/*@[i64] #[hoist(Self = i64, Name = prim_num_partial_cmp_repr, Generics = [const B: Word])] @*/
/*@[i128] #[hoist(Self = i128, Name = prim_num_partial_cmp_repr, Generics = [const B: Word])] @*/
/*@[isize] #[hoist(Self = isize, Name = prim_num_partial_cmp_repr, Generics = [const B: Word])] @*/
/*@
    requires fi_pre(B as int, other.exponent as int),
    ensures // C14: the ordering of the exact values, the integer on the left
        ret == Some(cmp_int_repr(*self as int, other.significand.v(), B as int, other.exponent as int, false)),
@*/
{
                Some(repr_cmp_ibig::<B, false>(other, &IBig::from(*self)).reverse())
            }
