//@ item: float/src/third_party/num_order.rs :: macro impl_num_ord_with_signed#0 :: impl<R: Round, const B: Word> NumOrd<$t> for FBig<R, B> :: num_partial_cmp
fn num_partial_cmp(&self, other: &$t) -> Option<Ordering>
/*@ #[hoist(Self = (FBig<R, B>), Name = fbig_num_partial_cmp_prim, Generics = [R: Round, const B: Word])]
    requires fi_pre(B as int, self.repr.exponent as int),
    ensures // C14: the ordering of the exact values
        ret == Some(cmp_repr_int(self.repr.significand.v(), B as int, self.repr.exponent as int, *other as int, false)),
@*/
{
                Some(repr_cmp_ibig::<B, false>(&self.repr, &IBig::from(*other)))
            }
