//@ item: float/src/third_party/num_order.rs :: macro forward_num_ord_to_repr#0 :: impl<R: Round, const B: Word> NumOrd<$t> for FBig<R, B> :: num_partial_cmp
fn num_partial_cmp(&self, other: &$t) -> Option<Ordering>
/*@ #[hoist(Self = (FBig<R, B>), Name = fbig_num_partial_cmp, Generics = [R: Round, const B: Word])]
    requires self.repr.npc_req(other),
    ensures // an FBig compares as its value (the Repr; the context does not count): npc_spec is the C14 sentence for (Repr<B>, $t)
        ret == self.repr.npc_spec(other),
@*/
{
                self.repr.num_partial_cmp(other)
            }
