//@ item: float/src/cmp.rs :: macro impl_abs_ord_with_method#0 :: impl<R: Round, const B: Word> AbsOrd<$T> for FBig<R, B> :: abs_cmp
fn abs_cmp(&self, other: &$T) -> Ordering
/*@ #[hoist(Self = (FBig<R, B>), Name = fbig_abs_cmp_t, Generics = [R: Round, const B: Word])]
    requires fi_pre(B as int, self.repr.exponent as int),
    ensures // C14 (AbsOrd): the ordering of the magnitudes (the precision does not count)
        ret == cmp_repr_int(self.repr.significand.v(), B as int, self.repr.exponent as int, other.v(), true),
@*/
{
                $method::<B, true>(&self.repr, other)
            }
