//@ item: float/src/cmp.rs :: macro impl_abs_ord_with_method#0 :: impl<const B: Word> AbsOrd<$T> for Repr<B> :: abs_cmp
fn abs_cmp(&self, other: &$T) -> Ordering
/*@ #[hoist(Self = (Repr<B>), Name = repr_abs_cmp_t, Generics = [const B: Word])]
    requires fi_pre(B as int, self.exponent as int),
    ensures // C14 (AbsOrd): the ordering of the magnitudes
        ret == cmp_repr_int(self.significand.v(), B as int, self.exponent as int, other.v(), true),
@*/
{
                $method::<B, true>(self, other)
            }
