//@ item: float/src/third_party/num_order.rs :: macro impl_num_ord_fbig_unsigned#0 :: impl<const B: Word> NumOrd<Repr<B>> for $t :: num_partial_cmp
fn num_partial_cmp(&self, other: &Repr<B>) -> Option<Ordering>
/*@[u8] #[hoist(Self = u8, Name = prim_num_partial_cmp_repr, Generics = [const B: Word])] @*/
/*@[u16] #[hoist(Self = u16, Name = prim_num_partial_cmp_repr, Generics = [const B: Word])] @*/
/*@[u32] #[hoist(Self = u32, Name = prim_num_partial_cmp_repr, Generics = [const B: Word])] @*/
/*@[u64] #[hoist(Self = u64, Name = prim_num_partial_cmp_repr, Generics = [const B: Word])] @*/
/*@[u128] #[hoist(Self = u128, Name = prim_num_partial_cmp_repr, Generics = [const B: Word])] @*/
/*@[usize] #[hoist(Self = usize, Name = prim_num_partial_cmp_repr, Generics = [const B: Word])] @*/
/*@
    requires fi_pre(B as int, other.exponent as int),
    ensures // C14: the ordering of the exact values, the integer on the left
        ret == Some(cmp_int_repr(*self as int, other.significand.v(), B as int, other.exponent as int, false)),
@*/
{
                Some(repr_cmp_ubig::<B, false>(other, &UBig::from(*self)).reverse())
            }
