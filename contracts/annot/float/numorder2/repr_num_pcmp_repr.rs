//@ item: float/src/third_party/num_order.rs :: impl<const B1: Word, const B2: Word> NumOrd<Repr<B2>> for Repr<B1> :: num_partial_cmp
fn num_partial_cmp(&self, other: &Repr<B2>) -> Option<Ordering>
/*@ #[hoist(Self = (Repr<B1>), Name = repr_num_partial_cmp_repr, Generics = [const B1: Word, const B2: Word])]
    requires self.npc_req(other),
    ensures ret == self.npc_spec(other),
@*/
{
        Some(self.num_cmp(other))
    }
