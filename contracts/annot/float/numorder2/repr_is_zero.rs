//@ item: float/src/repr.rs :: impl<const B: Word> Repr<B> :: is_zero
pub const fn is_zero(&self) -> bool
/*@
    ensures ret == (self.significand.v() == 0 && self.exponent == 0),
@*/
{
        self.significand.is_zero() && self.exponent == 0
}
