//@ item: float/src/third_party/num_order.rs :: macro impl_num_ord_with_signed#0 :: impl<const B: Word> NumOrd<$t> for Repr<B> :: num_partial_cmp
fn num_partial_cmp(&self, other: &$t) -> Option<Ordering>
/*@ #[hoist(Self = (Repr<B>), Name = repr_num_partial_cmp_prim, Generics = [const B: Word])]
    requires fi_pre(B as int, self.exponent as int),
    ensures // C14: the ordering of the exact values
        ret == Some(cmp_repr_int(self.significand.v(), B as int, self.exponent as int, *other as int, false)),
@*/
{
                Some(repr_cmp_ibig::<B, false>(self, &IBig::from(*other)))
            }
