//@ item: float/src/cmp.rs :: repr_cmp_ubig
pub(crate) fn repr_cmp_ubig<const B: Word, const ABS: bool>(lhs: &Repr<B>, rhs: &UBig) -> Ordering
/*@
    requires B >= 2,
        // resource: an exact comparison with |exponent| digits of scaling must exist in memory (`-lhs.exponent`, and the shift
        // amount `exp * log2(B)` of shl_digits is computed in usize)
        -0x0100_0000_0000_0000 <= lhs.exponent <= 0x0100_0000_0000_0000,
    ensures
        // C14: the ordering of the exact values (of the magnitudes through AbsOrd); |+-inf| is beyond every integer
        ret == cmp_repr_int(lhs.significand.v(), B as int, lhs.exponent as int, rhs.v(), ABS),
@*/
{
    /*@
    let ghost s = lhs.significand.v(); let ghost e = lhs.exponent as int; let ghost x = rhs.v(); let ghost b = B as int;
    let ghost ae: nat = (if e >= 0 { e } else { -e }) as nat;
    let ghost p = ipw(b, ae);
    proof { lemma_ipw_pos(b, ae); lemma_scale_sign(s, p); lemma_scale_sign(x, p); }
    @*/
    // case 1: compare with inf
    if lhs.is_infinite() {
        return if lhs.exponent > 0 || ABS {
            Ordering::Greater
        } else {
            Ordering::Less
        };
    }

    // case 2: compare sign
    if !ABS && lhs.significand.sign() == Sign::Negative {
        return Ordering::Less;
    }

    // case 3: compare log2 estimations
    let (lhs_lo, lhs_hi) = lhs.log2_bounds();
    let (rhs_lo, rhs_hi) = rhs.log2_bounds();
    if lhs_lo > rhs_hi {
        /*@ proof {
            ax_est_gt(lhs_lo, rhs_hi, fl_num(s, b, e), fl_den(b, e), x, 1);
            lemma_fi_filter(s, b, e, x, ABS, true);
        } @*/
        return Ordering::Greater;
    }
    if lhs_hi < rhs_lo {
        /*@ proof {
            ax_est_lt(lhs_hi, rhs_lo, fl_num(s, b, e), fl_den(b, e), x, 1);
            lemma_fi_filter(s, b, e, x, ABS, false);
        } @*/
        return Ordering::Less;
    }

    // case 4: compare the exact values
    let mut rhs: IBig = rhs.clone().into();
    if lhs.exponent < 0 {
        shl_digits_in_place::<B>(&mut rhs, (-lhs.exponent) as usize);
        if ABS {
            lhs.significand.abs_cmp(&rhs)
        } else {
            lhs.significand.cmp(&rhs)
        }
    } else {
        let lhs = shl_digits::<B>(&lhs.significand, lhs.exponent as usize);
        if ABS {
            lhs.abs_cmp(&rhs)
        } else {
            lhs.cmp(&rhs)
        }
    }
}
