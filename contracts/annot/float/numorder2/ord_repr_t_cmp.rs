//@ item: float/src/third_party/num_order.rs :: macro impl_num_ord_with_method#0 :: impl<const B: Word> NumOrd<$T> for Repr<B> :: num_cmp
fn num_cmp(&self, other: &$T) -> Ordering
/*@ #[hoist(Self = (Repr<B>), Name = repr_num_cmp_t, Generics = [const B: Word])]
    requires fi_pre(B as int, self.exponent as int),
    ensures // C14: the ordering of the exact values
        ret == cmp_repr_int(self.significand.v(), B as int, self.exponent as int, other.v(), false),
@*/
{
                $method::<B, false>(self, other)
            }
