//@ item: float/src/third_party/num_order.rs :: impl<const B1: Word, const B2: Word> NumOrd<Repr<B2>> for Repr<B1> :: num_cmp
fn num_cmp(&self, other: &Repr<B2>) -> Ordering
/*@ #[hoist(Self = (Repr<B1>), Name = repr_num_cmp_repr, Generics = [const B1: Word, const B2: Word])]
    requires B1 >= 2, B2 >= 2,
        canon_inf(self.significand.v(), self.exponent as int), canon_inf(other.significand.v(), other.exponent as int),
        // resource: |exponent| digits of scaling in the exact step (`-exponent`, shift amounts of shl_digits in usize)
        -0x0100_0000_0000_0000 <= self.exponent <= 0x0100_0000_0000_0000,
        -0x0100_0000_0000_0000 <= other.exponent <= 0x0100_0000_0000_0000,
    ensures // C14: floats in different bases compare as their exact real values
        ret == cmp_repr_repr(self.significand.v(), B1 as int, self.exponent as int, other.significand.v(), B2 as int, other.exponent as int),
@*/
{
        /*@
        let ghost s1 = self.significand.v(); let ghost e1 = self.exponent as int; let ghost b1 = B1 as int;
        let ghost s2 = other.significand.v(); let ghost e2 = other.exponent as int; let ghost b2 = B2 as int;
        let ghost a1: nat = (if e1 >= 0 { e1 } else { -e1 }) as nat;
        let ghost a2: nat = (if e2 >= 0 { e2 } else { -e2 }) as nat;
        proof {
            lemma_ipw_pos(b1, a1); lemma_ipw_pos(b2, a2);
            lemma_scale_sign(s1, pn(b1, e1)); lemma_scale_sign(s1 * pn(b1, e1), pd(b2, e2));
            lemma_scale_sign(s2, pd(b1, e1)); lemma_scale_sign(s2 * pd(b1, e1), pn(b2, e2));
        }
        @*/
        // case 1: compare with inf
        match (self.is_infinite(), other.is_infinite()) {
            (true, true) => return self.exponent.cmp(&other.exponent),
            (false, true) => {
                return match other.exponent >= 0 {
                    true => Ordering::Less,
                    false => Ordering::Greater,
                }
            }
            (true, false) => {
                return match self.exponent >= 0 {
                    true => Ordering::Greater,
                    false => Ordering::Less,
                }
            }
            _ => {}
        };

        // case 2: compare sign
        let sign = match (self.significand.sign(), other.significand.sign()) {
            (Sign::Positive, Sign::Positive) => Sign::Positive,
            (Sign::Positive, Sign::Negative) => return Ordering::Greater,
            (Sign::Negative, Sign::Positive) => return Ordering::Less,
            (Sign::Negative, Sign::Negative) => Sign::Negative,
        };

        // case 3: compare log2 estimations
        let (self_lo, self_hi) = self.log2_bounds();
        let (other_lo, other_hi) = other.log2_bounds();
        /*@ proof {
            assert(fl_num(s1, b1, e1) == rabs(s1) * pn(b1, e1) && fl_den(b1, e1) == pd(b1, e1));
            assert(fl_num(s2, b2, e2) == rabs(s2) * pn(b2, e2) && fl_den(b2, e2) == pd(b2, e2));
            lemma_fp_swap(rabs(s2), pn(b2, e2), pd(b1, e1));
        } @*/
        if self_lo > other_hi {
            /*@ proof {
                ax_est_gt(self_lo, other_hi, fl_num(s1, b1, e1), fl_den(b1, e1), fl_num(s2, b2, e2), fl_den(b2, e2));
                lemma_fp_decide(s1, pn(b1, e1), pd(b2, e2), s2, pd(b1, e1), pn(b2, e2), sign == Sign::Negative, true);
            } @*/
            return sign * Ordering::Greater;
        }
        if self_hi < other_lo {
            /*@ proof {
                ax_est_lt(self_hi, other_lo, fl_num(s1, b1, e1), fl_den(b1, e1), fl_num(s2, b2, e2), fl_den(b2, e2));
                lemma_fp_decide(s1, pn(b1, e1), pd(b2, e2), s2, pd(b1, e1), pn(b2, e2), sign == Sign::Negative, false);
            } @*/
            return sign * Ordering::Less;
        }

        // case 4: compare the exact values
        let (mut lhs, mut rhs) = (self.significand.clone(), other.significand.clone());
        if self.exponent < 0 {
            shl_digits_in_place::<B1>(&mut rhs, (-self.exponent) as usize);
        } else {
            shl_digits_in_place::<B1>(&mut lhs, self.exponent as usize);
        }
        /*@ proof { assert(lhs.v() == s1 * pn(b1, e1) && rhs.v() == s2 * pd(b1, e1)); } @*/
        if other.exponent < 0 {
            shl_digits_in_place::<B2>(&mut lhs, (-other.exponent) as usize);
        } else {
            shl_digits_in_place::<B2>(&mut rhs, other.exponent as usize);
        }
        lhs.cmp(&rhs)
    }
