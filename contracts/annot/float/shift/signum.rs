//@ item: float/src/sign.rs :: impl<R: Round, const B: Word> FBig<R, B> :: signum
pub const fn signum(&self) -> Self
/*@
    ensures
        // ONE / ZERO / NEG_ONE (significand 1 / 0 / -1, exponent 0) by the sign of the VALUE, infinities included (doc)
        ret.repr.significand.v() == fs_signum_of(self.repr),
        ret.repr.exponent == 0,
        ret.context.precision == 1,
@*/
{
        /*@ broadcast use round_int_axioms; broadcast use ibig_neg_one_const; @*/
        let significand = if self.repr.significand.is_zero() && self.repr.exponent != 0 {
            if self.repr.exponent > 0 {
                IBig::ONE
            } else {
                IBig::NEG_ONE
            }
        } else {
            self.repr.significand.signum()
        };
        let repr = Repr {
            significand,
            exponent: 0,
        };
        Self::new(repr, Context::new(1))
    }
