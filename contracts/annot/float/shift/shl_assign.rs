//@ item: float/src/shift.rs :: impl<R: Round, const B: Word> ShlAssign<isize> for FBig<R, B> :: shl_assign
fn shl_assign(&mut self, rhs: isize)
/*@ #[hoist(Self = (FBig<R, B>), Name = fbig_shl_assign, Generics = [R: Round, const B: Word])] @*/
/*@[!must_panic]
    requires
        fs_shift_req(*old(self), rhs as int),
    ensures
        // the value left in place is the one `<<` returns
        fs_shift_post(*old(self), rhs as int, *final(self)),
@*/
/*@[must_panic]
    // C15 "or every form panics" / C16 "arithmetic on infinities panics": an infinite operand ==> no normal return in ANY form
    requires !fs_finite(*old(self)),
    ensures false,
@*/
{
        assert_finite(&self.repr);
        if !self.repr.is_zero() {
            self.repr.exponent += rhs;
        }
    }
