//@ item: float/src/sign.rs :: impl<R: Round, const B: Word> Neg for FBig<R, B> :: neg
fn neg(mut self) -> Self::Output
/*@ #[hoist(Self = (FBig<R, B>), Output = (FBig<R, B>), Name = fbig_neg, Generics = [R: Round, const B: Word])] @*/
/*@
    ensures
        // -x: significand negated, exponent and context kept
        fs_sign_post(self, Sign::Negative, ret),
        // the form in which the borrowed variant `-&x` sees this method at its call site (lib/fs_stubs.rs)
        ret == fs_neg_spec(self),
@*/
{
        /*@ broadcast use round_int_axioms; @*/
        self.repr.significand = -self.repr.significand;
        self
    }
