//@ item: float/src/sign.rs :: impl<R: Round, const B: Word> Abs for FBig<R, B> :: abs
fn abs(mut self) -> Self::Output
/*@ #[hoist(Self = (FBig<R, B>), Output = (FBig<R, B>), Name = fbig_abs, Generics = [R: Round, const B: Word])] @*/
/*@
    ensures
        fs_abs_post(self, ret),
@*/
{
        self.repr.significand = self.repr.significand.abs();
        self
    }
