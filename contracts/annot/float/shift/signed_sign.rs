//@ item: float/src/sign.rs :: impl<R: Round, const B: Word> Signed for FBig<R, B> :: sign
fn sign(&self) -> Sign
/*@ #[hoist(Self = (FBig<R, B>), Name = fbig_signed_sign, Generics = [R: Round, const B: Word])] @*/
/*@
    ensures
        // the trait-method form returns what the inherent method returns (C15)
        ret == fs_sign_of(self.repr),
@*/
{
        self.repr.sign()
    }
