//@ item: float/src/sign.rs :: impl<R: Round, const B: Word> Neg for &FBig<R, B> :: neg
fn neg(self) -> Self::Output
/*@ #[hoist(Self = (&FBig<R, B>), Output = (FBig<R, B>), Name = fbig_neg_ref, Generics = [R: Round, const B: Word])] @*/
/*@
    ensures
        // the borrowed form returns the value of the owned form (C15)
        fs_sign_post(*self, Sign::Negative, ret),
@*/
{
        /*@ broadcast use round_int_axioms; @*/
        self.clone().neg()
    }
