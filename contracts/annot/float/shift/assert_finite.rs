//@ item: float/src/error.rs :: assert_finite
// Default ("total") variant: the operand is finite, the panic is proved unreachable.  `must_panic` variant (rule D4):
// with an infinite operand there is no normal return.
pub const fn assert_finite<const B: Word>(repr: &Repr<B>)
/*@[!must_panic]
    requires !(repr.significand.v() == 0 && repr.exponent != 0),      // finite operand (documented panic otherwise)
@*/
/*@[must_panic]
    requires repr.significand.v() == 0 && repr.exponent != 0,
    ensures false,
@*/
{
    if repr.is_infinite() {
        panic_operate_with_inf()
    }
}
