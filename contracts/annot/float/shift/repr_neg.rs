//@ item: float/src/sign.rs :: impl<const B: Word> Neg for Repr<B> :: neg
fn neg(mut self) -> Self::Output
/*@ #[hoist(Self = (Repr<B>), Output = (Repr<B>), Name = repr_neg, Generics = [const B: Word])] @*/
/*@
    ensures
        ret.significand.v() == -self.significand.v(),
        ret.exponent == self.exponent,
@*/
{
        /*@ broadcast use round_int_axioms; @*/
        self.significand = -self.significand;
        self
    }
