//@ item: float/src/sign.rs :: impl<R: Round, const B: Word> Mul<Sign> for FBig<R, B> :: mul
fn mul(mut self, rhs: Sign) -> Self::Output
/*@ #[hoist(Self = (FBig<R, B>), Output = (FBig<R, B>), Name = fbig_mul_sign, Generics = [R: Round, const B: Word])] @*/
/*@
    ensures
        // x * s: the same statement as s * x and x *= s (C15)
        fs_sign_post(self, rhs, ret),
@*/
{
        /*@ broadcast use round_int_axioms; @*/
        self.repr.significand *= rhs;
        self
    }
