//@ item: float/src/sign.rs :: impl<R: Round, const B: Word> MulAssign<Sign> for FBig<R, B> :: mul_assign
fn mul_assign(&mut self, rhs: Sign)
/*@ #[hoist(Self = (FBig<R, B>), Name = fbig_mul_assign_sign, Generics = [R: Round, const B: Word])] @*/
/*@
    ensures
        fs_sign_post(*old(self), rhs, *final(self)),
@*/
{
        /*@ broadcast use round_int_axioms; @*/
        self.repr.significand *= rhs;
    }
