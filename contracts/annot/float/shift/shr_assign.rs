//@ item: float/src/shift.rs :: impl<R: Round, const B: Word> ShrAssign<isize> for FBig<R, B> :: shr_assign
fn shr_assign(&mut self, rhs: isize)
/*@ #[hoist(Self = (FBig<R, B>), Name = fbig_shr_assign, Generics = [R: Round, const B: Word])] @*/
/*@[!must_panic]
    requires
        fs_shift_req(*old(self), -(rhs as int)),
    ensures
        fs_shift_post(*old(self), -(rhs as int), *final(self)),
@*/
/*@[must_panic]
    // C15 "or every form panics" / C16 "arithmetic on infinities panics": an infinite operand ==> no normal return in ANY form
    requires !fs_finite(*old(self)),
    ensures false,
@*/
{
        assert_finite(&self.repr);
        if !self.repr.is_zero() {
            self.repr.exponent -= rhs;
        }
    }
