//@ item: float/src/sign.rs :: impl<R: Round, const B: Word> FBig<R, B> :: sign
pub const fn sign(&self) -> Sign
/*@ #[hoist(Self = (FBig<R, B>), Name = fbig_sign, Generics = [R: Round, const B: Word])] @*/
/*@
    ensures
        // "Get the sign of the number. Zero value has a positive sign."  (+inf Positive, -inf Negative)
        ret == fs_sign_of(self.repr),
@*/
{
        self.repr.sign()
    }
