//@ item: float/src/sign.rs :: impl<R: Round, const B: Word> Mul<FBig<R, B>> for Sign :: mul
fn mul(self, mut rhs: FBig<R, B>) -> Self::Output
/*@ #[hoist(Self = Sign, Output = (FBig<R, B>), Name = sign_mul_fbig, Generics = [R: Round, const B: Word])] @*/
/*@
    ensures
        // s * x
        fs_sign_post(rhs, self, ret),
@*/
{
        /*@ broadcast use round_int_axioms; @*/
        rhs.repr.significand *= self;
        rhs
    }
