//@ item: float/src/shift.rs :: impl<R: Round, const B: Word> Shl<isize> for FBig<R, B> :: shl
fn shl(mut self, rhs: isize) -> Self::Output
/*@ #[hoist(Self = (FBig<R, B>), Output = (FBig<R, B>), Name = fbig_shl, Generics = [R: Round, const B: Word])] @*/
/*@[!must_panic]
    requires
        // finite operand (documented panic otherwise); exponent overflow of isize is outside this contract (C16)
        fs_shift_req(self, rhs as int),
    ensures
        // x * B^rhs exactly; the SAME statement as for `<<=`, and with -rhs for `>>` / `>>=` (C15)
        fs_shift_post(self, rhs as int, ret),
@*/
/*@[must_panic]
    // C15 "or every form panics" / C16 "arithmetic on infinities panics": an infinite operand ==> no normal return in ANY form
    requires !fs_finite(self),
    ensures false,
@*/
{
        assert_finite(&self.repr);
        if !self.repr.is_zero() {
            self.repr.exponent += rhs;
        }
        self
    }
