//@ item: float/src/shift.rs :: impl<R: Round, const B: Word> Shr<isize> for FBig<R, B> :: shr
fn shr(mut self, rhs: isize) -> Self::Output
/*@ #[hoist(Self = (FBig<R, B>), Output = (FBig<R, B>), Name = fbig_shr2, Generics = [R: Round, const B: Word])] @*/
/*@[!must_panic]
    requires
        fs_shift_req(self, -(rhs as int)),
    ensures
        // x * B^(-rhs) exactly
        fs_shift_post(self, -(rhs as int), ret),
@*/
/*@[must_panic]
    // C15 "or every form panics" / C16 "arithmetic on infinities panics": an infinite operand ==> no normal return in ANY form
    requires !fs_finite(self),
    ensures false,
@*/
{
        assert_finite(&self.repr);
        if !self.repr.is_zero() {
            self.repr.exponent -= rhs;
        }
        self
    }
