//@ item: float/src/mul.rs :: impl<R: Round, const B: Word> FBig<R, B> :: cubic
pub fn cubic(&self) -> Self
/*@[!must_panic]
    requires
        // the preconditions of Context::cubic (unit float_mul) for the operand self.repr under self.context
        B >= 2,
        finite(self.repr),                                       // finite operand (documented panic otherwise)
        self.context.precision != 0 ==> ndigits(B as int, self.repr.significand.v()) <= 3 * self.context.precision,
        3 * self.context.precision <= usize::MAX,
        isize::MIN <= 3 * self.repr.exponent <= isize::MAX,
        3 * self.repr.exponent + ndigits(B as int, self.repr.significand.v() * self.repr.significand.v() * self.repr.significand.v()) <= isize::MAX,
        ndigits(B as int, self.repr.significand.v() * self.repr.significand.v() * self.repr.significand.v()) <= isize::MAX,
        pos_room(ndigits(B as int, self.repr.significand.v() * self.repr.significand.v() * self.repr.significand.v()) as int),
    ensures
        // C03 (FBig operator level): the value of ONE correct rounding, by the mode R of the type and at the precision
        // of self, of the exact SIGNED cube sig^3 * B^(3 exp): for a negative operand and the directed modes Up / Down
        // the side is the one of the signed value (rounding |x|^3 and re-applying the sign is NOT this)
        round_val_of(R::md(), B as int, self.context.precision,
            self.repr.significand.v() * self.repr.significand.v() * self.repr.significand.v(), 3 * self.repr.exponent, ret.repr),
        ret.context == self.context,
@*/
/*@[must_panic] requires B >= 2, !finite(self.repr), ensures false,   // C16: an infinite operand ==> no normal return
@*/
{
        /*@ proof {
            assert forall|r: Rounded<FBig<R, B>>| true implies rd_val0(#[trigger] map_repr(r)) == rd_val0(r).repr by {}
        } @*/
        self.context.cubic(&self.repr).value()
    }
