//@ item: float/src/convert.rs :: impl<R: Round, const B: Word> FBig<R, B> :: to_binary
pub fn to_binary(&self) -> Rounded<FBig<Zero, 2>>
/*@
    requires
        forall|q: usize| cb_pre::<B, 2>(q, self.repr),
        self.context.precision < 0x100_0000_0000_0000,
    ensures
        // C08: "equivalent to self.with_rounding::<Zero>().with_base::<2>()": the with_base statement for the target
        // base 2 under the mode Zero (NOT the mode R of self)
        fm_wb_prec(B as int, 2, self.context.precision as nat, rd_val0(ret).context.precision as nat),
        cb_post::<Zero, B, 2>(rd_val0(ret).context.precision, self.repr, map_repr(ret)),
@*/
{
        /*@ proof { assert forall|q: usize, r: Repr<B>| r.significand.v() == self.repr.significand.v() && r.exponent == self.repr.exponent
                implies #[trigger] cb_pre::<B, 2>(q, r) by { assert(cb_pre::<B, 2>(q, self.repr)); } } @*/
        self.clone().with_rounding().with_base::<2>()
    }
