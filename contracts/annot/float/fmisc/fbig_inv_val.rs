//@ item: float/src/div.rs :: impl<R: Round, const B: Word> Inverse for FBig<R, B> :: inv
fn inv(self) -> Self::Output
/*@ #[hoist(Self = (FBig<R, B>), Output = (FBig<R, B>), Name = fbig_inv_val, Generics = [R: Round, const B: Word])] @*/
/*@
    requires
        // the preconditions of Context::inv (unit float_div) for self.repr under self.context
        B >= 2,
        finite(self.repr), self.context.precision != 0, self.repr.significand.v() != 0,    // documented panics otherwise
        self.context.precision < 0x100_0000_0000_0000, ndigits(B as int, self.repr.significand.v()) < 0x100_0000_0000_0000,
        -0x1000_0000_0000_0000 < self.repr.exponent < 0x1000_0000_0000_0000,
    ensures
        // C03: the value of ONE mode-correct rounding of the exact reciprocal 1 / (sig * B^exp) at the precision of self
        fm_div_val_of(R::md(), B as int, self.context.precision as nat, 1, self.repr.significand.v(), -self.repr.exponent, ret.repr),
        ret.context == self.context,
@*/
{
        /*@ proof {
            assert forall|r: Rounded<FBig<R, B>>| true implies rd_val0(#[trigger] map_repr(r)) == rd_val0(r).repr by {}
        } @*/
        self.context.inv(&self.repr).value()
    }
