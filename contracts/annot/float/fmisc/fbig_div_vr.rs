//@ item: float/src/div.rs :: macro impl_div_or_rem_for_fbig#0 :: impl<'r, R: Round, const B: Word> $op<&'r FBig<R, B>> for FBig<R, B> :: $method
fn $method(self, rhs: &FBig<R, B>) -> Self::Output
/*@ #[hoist(Self = (FBig<R, B>), Output = (FBig<R, B>), Name = fbig_div_vr, Generics = ['r, R: Round, const B: Word])] @*/
/*@
    requires
        // the preconditions of Context::repr_div (unit float_div) under the larger of the two precisions
        B >= 2,
        finite(self.repr), finite(rhs.repr),                        // documented panic otherwise
        umax(self.context.precision, rhs.context.precision) != 0,   // documented panic otherwise (both unlimited)
        rhs.repr.significand.v() != 0,                              // division by zero panics inside dashu-int
        // C03 domain "operands that fit the precision": the dividend is not longer than precision + divisor digits
        ndigits(B as int, self.repr.significand.v()) <= umax(self.context.precision, rhs.context.precision) + ndigits(B as int, rhs.repr.significand.v()),
        // resource limits as in repr_div
        umax(self.context.precision, rhs.context.precision) < 0x100_0000_0000_0000, ndigits(B as int, rhs.repr.significand.v()) < 0x100_0000_0000_0000,
        -0x1000_0000_0000_0000 < self.repr.exponent < 0x1000_0000_0000_0000, -0x1000_0000_0000_0000 < rhs.repr.exponent < 0x1000_0000_0000_0000,
    ensures
        // C03 / C15 (the same statement for the four operand forms): the value of ONE mode-correct rounding of the exact
        // quotient at the larger of the two precisions
        fm_div_val_of(R::md(), B as int, umax(self.context.precision, rhs.context.precision) as nat,
            self.repr.significand.v(), rhs.repr.significand.v(), self.repr.exponent - rhs.repr.exponent, ret.repr),
        ret.context.precision == umax(self.context.precision, rhs.context.precision),
@*/
{
                let context = Context::max(self.context, rhs.context);
                FBig::new(context.$repr_method(self.repr, rhs.repr.clone()).value(), context)
            }
