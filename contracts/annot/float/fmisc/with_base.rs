//@ item: float/src/convert.rs :: impl<R: Round, const B: Word> FBig<R, B> :: with_base
pub fn with_base<const NewB: Word>(self) -> Rounded<FBig<R, NewB>>
/*@ #[float_est(precision)]
    requires
        // domain of the proved part of convert_base (unit float_convert_base); it does not depend on the precision
        forall|q: usize| cb_pre::<B, NewB>(q, self.repr),
        // resource limit: B^precision is materialised as a UBig; 2^56 digits keep `precision + 1` far from usize::MAX
        self.context.precision < 0x100_0000_0000_0000,
    ensures
        // C08 / documentation of with_base: "the new precision will be the max integer such that
        // NewB ^ new_precision <= B ^ old_precision" (0 = unlimited stays unlimited) ...
        fm_wb_prec(B as int, NewB as int, self.context.precision as nat, rd_val0(ret).context.precision as nat),
        // ... and the value is converted by ONE correct rounding to that precision (exact whenever representable,
        // truthful flag): the contract of convert_base / with_base_and_precision at the precision chosen
        cb_post::<R, B, NewB>(rd_val0(ret).context.precision, self.repr, map_repr(ret)),
@*/
{
        /*@ broadcast use fm_ax_repr_base; @*/
        /*@ let ghost (b, nb, p) = (B as int, NewB as int, self.context.precision as nat); @*/
        // if self.context.precision is zero, then precision is also zero
        /*@ proof {
            assert(cb_pre::<B, NewB>(0usize, self.repr));
            lemma_ipow_pos(b, p);
        } @*/
        let limit = Repr::<B>::BASE.pow(self.context.precision);
        let mut precision = (limit.log2_bounds().0 / NewB.log2_bounds().1) as usize;
        /*@ proof {
            lemma_fm_prec_bound(b, nb, p, precision as nat);
        } @*/
        // the estimate is a lower bound: it falls short when NewB ^ (precision + 1) is (almost) the limit itself
        if self.context.precision > 0 {
            while Repr::<NewB>::BASE.pow(precision + 1) <= limit
            /*@ invariant
                    2 <= b < 0x1_0000_0000_0000_0000, nb >= 2, nb == NewB as int, p < 0x100_0000_0000_0000,
                    limit.v() == ipow(b, p),
                    // what the estimate must give (TRUSTED: a lower bound) and every step keeps
                    ipow(nb, precision as nat) <= limit.v(),
                    precision <= 64 * p,
                decreases 64 * p - precision
            @*/
            {
                /*@ broadcast use fm_ax_repr_base; @*/
                precision += 1;
                /*@ proof { lemma_fm_prec_bound(b, nb, p, precision as nat); } @*/
            }
            // what the loop must establish on exit: B^p < NewB^(precision + 1)
        }
        /*@ proof {
            if p == 0 {
                assert(ipow(b, 0) == 1);
                if precision > 0 { lemma_ipow_strict(nb, 0, precision as nat); assert(ipow(nb, 0) == 1); }
            }
            assert(cb_pre::<B, NewB>(precision, self.repr));
        } @*/
        self.with_base_and_precision(precision)
    }
