//@ item: float/src/convert.rs :: impl<R: Round, const B: Word> FBig<R, B> :: to_decimal
pub fn to_decimal(&self) -> Rounded<FBig<HalfAway, 10>>
/*@
    requires
        forall|q: usize| cb_pre::<B, 10>(q, self.repr),
        self.context.precision < 0x100_0000_0000_0000,
    ensures
        // C08: "equivalent to self.with_rounding::<HalfAway>().with_base::<10>()": the with_base statement for the
        // target base 10 under the mode HalfAway (NOT the mode R of self)
        fm_wb_prec(B as int, 10, self.context.precision as nat, rd_val0(ret).context.precision as nat),
        cb_post::<HalfAway, B, 10>(rd_val0(ret).context.precision, self.repr, map_repr(ret)),
@*/
{
        /*@ proof { assert forall|q: usize, r: Repr<B>| r.significand.v() == self.repr.significand.v() && r.exponent == self.repr.exponent
                implies #[trigger] cb_pre::<B, 10>(q, r) by { assert(cb_pre::<B, 10>(q, self.repr)); } } @*/
        self.clone().with_rounding().with_base::<10>()
    }
