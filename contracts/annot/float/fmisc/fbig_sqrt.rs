//@ item: float/src/root.rs :: impl<R: Round, const B: Word> SquareRoot for FBig<R, B> :: sqrt
fn sqrt(&self) -> Self
/*@ #[hoist(Self = (FBig<R, B>), Output = (FBig<R, B>), Name = fbig_sqrt, Generics = [R: Round, const B: Word])] @*/
/*@
    requires
        // the preconditions of Context::sqrt (unit float_sqrt) for self.repr under self.context
        B >= 2,
        finite(self.repr), self.context.precision != 0, self.repr.significand.v() >= 0,    // documented panics otherwise
        ndigits(B as int, self.repr.significand.v()) <= self.context.precision,            // C03 domain (FBig invariant)
        self.context.precision < 0x100_0000_0000_0000, -0x1000_0000_0000_0000 < self.repr.exponent < 0x1000_0000_0000_0000,
    ensures
        // C03: sqrt(0) == 0 exactly, otherwise the value of ONE correct rounding of the real square root to p digits
        self.repr.significand.v() == 0 ==> ret.repr.significand.v() == 0 && ret.repr.exponent == 0,
        self.repr.significand.v() > 0 ==> exists|rr: Rounded<Repr<B>>| #[trigger] rd_val0(rr) == ret.repr
            && sqrt_post(R::md(), B as int, self.context.precision as nat, self.repr.significand.v(), self.repr.exponent as int, rr),
        ret.context == self.context,
@*/
{
        /*@ proof {
            assert forall|r: Rounded<FBig<R, B>>| true implies rd_val0(#[trigger] map_repr(r)) == rd_val0(r).repr by {}
        } @*/
        self.context.sqrt(self.repr()).value()
    }
