//@ item: float/src/convert.rs :: impl<R: Round, const B: Word> FBig<R, B> :: with_rounding
pub fn with_rounding<NewR: Round>(self) -> FBig<NewR, B>
/*@
    ensures
        // "This operation doesn't modify the underlying representation, it only changes the rounding mode in the context."
        ret.repr == self.repr, ret.context.precision == self.context.precision,
@*/
{
        FBig {
            repr: self.repr,
            context: Context::new(self.context.precision),
        }
    }
