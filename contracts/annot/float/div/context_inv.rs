//@ item: float/src/div.rs :: impl<R: Round> Context<R> :: inv
pub fn inv<const B: Word>(&self, f: &Repr<B>) -> Rounded<FBig<R, B>>
/*@
    requires
        B >= 2,
        finite(*f), self.precision != 0, f.significand.v() != 0,    // documented panics otherwise
        // resource limit: exponent overflow is a documented panic (C16), not modelled: precision and digit counts below
        // 2^56 keep the digit shifts (<= digits + precision) within `pos_room` (bit position `pos * log2(B)` in usize)
        // and leave `Repr::new` room for the exponent
        self.precision < 0x100_0000_0000_0000, ndigits(B as int, f.significand.v()) < 0x100_0000_0000_0000,
        -0x1000_0000_0000_0000 < f.exponent < 0x1000_0000_0000_0000,
    ensures
        div_post(R::md(), B as int, self.precision as nat, 1, f.significand.v(), -f.exponent, map_repr(ret)),
        rd_val(ret).context == *self,
@*/
{
        /*@ broadcast use round_int_axioms, ax_ndigits; @*/
        /*@ proof {
            assert(ipow(B as int, 0) == 1);
            lemma_ipow_strict(B as int, 0, 1);
            lemma_ndigits_le(B as int, 1, 1);
        } @*/
        self.repr_div(Repr::one(), f.clone())
            .map(|v| /*@ -> (r: FBig<R, B>) ensures r.repr == v, r.context == *self @*/ FBig::new(v, *self))
    }
