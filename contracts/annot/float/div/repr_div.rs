//@ item: float/src/div.rs :: impl<R: Round> Context<R> :: repr_div
pub(crate) fn repr_div<const B: Word>(&self, lhs: Repr<B>, rhs: Repr<B>) -> Rounded<Repr<B>>
/*@
    requires
        B >= 2,
        finite(lhs), finite(rhs),                                   // documented panic otherwise
        self.precision != 0,                                        // documented panic otherwise
        rhs.significand.v() != 0,                                   // division by zero panics inside dashu-int (not contracted here)
        // "this method don't deal with the case where lhs significand is too large" (debug_assert #0, dropped as an exec
        // call; all callers establish it: Context::div shrinks lhs first, the operators pass operands that fit)
        ndigits(B as int, lhs.significand.v()) <= self.precision + ndigits(B as int, rhs.significand.v()),
        // machine ranges (overflow of usize/isize is outside this contract)
        // resource limit: exponent overflow is a documented panic (C16), not modelled: precision and digit counts below
        // 2^56 keep the digit shifts (<= digits + precision) within `pos_room` (bit position `pos * log2(B)` in usize)
        // and leave `Repr::new` room for the exponent
        self.precision < 0x100_0000_0000_0000, ndigits(B as int, rhs.significand.v()) < 0x100_0000_0000_0000,
        -0x1000_0000_0000_0000 < lhs.exponent < 0x1000_0000_0000_0000, -0x1000_0000_0000_0000 < rhs.exponent < 0x1000_0000_0000_0000,
    ensures
        // C03 for division
        div_post(R::md(), B as int, self.precision as nat, lhs.significand.v(), rhs.significand.v(), lhs.exponent - rhs.exponent, ret),
@*/
{
        /*@ broadcast use round_int_axioms, ax_ndigits; @*/
        assert_finite_operands(&lhs, &rhs);
        assert_limited_precision(self.precision);

        // this method don't deal with the case where lhs significand is too large
        debug_assert!(lhs.digits() <= self.precision + rhs.digits());
        /*@ let ghost b = B as int;
            let ghost (N, D, p) = (lhs.significand.v(), rhs.significand.v(), self.precision as nat);
            let ghost dd = ndigits(b, D);
            let ghost e0 = lhs.exponent - rhs.exponent;
            let ghost mut j: nat = 0;
            proof {
                assert(ipow(b, 0) == 1);
                assert(N * 1 == N);
                lemma_ipow_mono(b, ndigits(b, N), p + dd);
            } @*/

        let (mut q, mut r) = lhs.significand.div_rem(&rhs.significand);
        let mut e = lhs.exponent - rhs.exponent;
        /*@ proof { lemma_quot_size(b, N, D, q.v(), r.v(), p + dd, dd); assert(((p + dd) - dd + 1) as nat == p + 1);
                    lemma_ndigits_le(b, q.v(), p + 1); } @*/
        if r.is_zero() {
            return Approximation::Exact(Repr::new(q, e));
        }

        let ddigits = digit_len::<B>(&rhs.significand);
        if q.is_zero() {
            // lhs.significand < rhs.significand
            let rdigits = digit_len::<B>(&r); // rdigits <= ddigits
            /*@ let ghost (qa, ra) = (q.v(), r.v());
                proof {
                    let qd = qa * D;
                    assert(qd == 0) by (nonlinear_arith) requires qd == qa * D, qa == 0;
                    assert(ra == N && N != 0);
                    lemma_ndigits_lt(b, ra, D);
                } @*/
            let shift = ddigits + self.precision - rdigits;
            shl_digits_in_place::<B>(&mut r, shift);
            e -= shift as isize;
            let (q0, r0) = r.div_rem(&rhs.significand);
            /*@ proof {
                j = shift as nat;
                lemma_ndigits_shift(b, N, j);
                assert(r.v() == N * ipow(b, j));
                assert(ndigits(b, N) + j == dd + p);
                assert(ndigits(b, r.v()) == dd + p);
                lemma_quot_size(b, r.v(), D, q0.v(), r0.v(), dd + p, dd);
                assert(((dd + p) - dd + 1) as nat == p + 1);
                assert(((dd + p) - dd - 1) as nat == (p - 1) as nat);
            } @*/
            q = q0;
            r = r0;
        } else {
            /*@ let ghost nq = ndigits(b, q.v());
                proof {
                    lemma_ndigits_le(b, q.v(), p + 1);
                    if nq >= p { lemma_ipow_mono(b, (p - 1) as nat, (nq - 1) as nat); }
                } @*/
            let ndigits = digit_len::<B>(&q) + ddigits;
            if ndigits < ddigits + self.precision {
                // TODO: here the operations can be optimized: 1. prevent double power, 2. q += q0 can be |= if B is power of 2
                let shift = ddigits + self.precision - ndigits;
                /*@ let ghost (q1, r1) = (q.v(), r.v()); @*/
                shl_digits_in_place::<B>(&mut q, shift);
                shl_digits_in_place::<B>(&mut r, shift);
                e -= shift as isize;

                let (q0, r0) = r.div_rem(&rhs.significand);
                /*@ proof {
                    j = shift as nat;
                    let bs = ipow(b, j);
                    lemma_ipow_pos(b, j);
                    lemma_div_scale(N, D, q1, r1, bs, q0.v(), r0.v());
                    // |q1| bs has exactly p digits
                    assert(nq + j == p);
                    lemma_ipow_add(b, (nq - 1) as nat, j);
                    lemma_ipow_add(b, nq, j);
                    assert(((nq - 1) as nat + j) as nat == (p - 1) as nat);
                    let (aq, lo, hi) = (iabs(q1), ipow(b, (nq - 1) as nat), ipow(b, nq));
                    assert(aq * bs >= lo * bs) by (nonlinear_arith) requires aq >= lo, bs >= 1;
                    assert((aq + 1) * bs <= hi * bs) by (nonlinear_arith) requires aq + 1 <= hi, bs >= 1;
                    lemma_ipow_mono(b, p, p + 1);
                } @*/
                q += q0;
                r = r0;
            }
        }
        /*@ proof {
            assert(is_trunc_divrem(N * ipow(b, j), D, q.v(), r.v()));
            assert(e == e0 - j);
            assert(ipow(b, (p - 1) as nat) <= iabs(q.v()) && iabs(q.v()) < ipow(b, p + 1));
            // room for the exponent of the result (Repr::new below): q, q +- 1 have at most p + 2 digits
            lemma_ndigits_le_pow(b, q.v(), p + 1);
            lemma_ndigits_le_pow(b, q.v() + 1, p + 1);
            lemma_ndigits_le_pow(b, q.v() - 1, p + 1);
        } @*/

        if r.is_zero() {
            Approximation::Exact(Repr::new(q, e))
        } else {
            let adjust = R::round_ratio(&q, r, &rhs.significand);
            /*@ proof {
                let Nj = N * ipow(b, j);
                let ad = iabs(D);
                let qad = q.v() * ad;
                assert(qad + (if D > 0 { r.v() } else { -r.v() }) == over_pos(Nj, D)) by (nonlinear_arith)
                    requires Nj == q.v() * D + r.v(), qad == q.v() * ad, ad == (if D < 0 { -D } else { D });
            } @*/
            Approximation::Inexact(Repr::new(q + adjust, e), adjust)
        }
    }
