//@ item: float/src/div.rs :: impl<R: Round> Context<R> :: div
pub fn div<const B: Word>(&self, lhs: &Repr<B>, rhs: &Repr<B>) -> Rounded<FBig<R, B>>
/*@
    requires
        B >= 2,
        finite(*lhs), finite(*rhs),                                 // documented panic otherwise
        self.precision != 0,                                        // documented panic otherwise
        rhs.significand.v() != 0,                                   // division by zero panics inside dashu-int
        // C03 domain: the dividend fits the context precision (longer dividends are first rounded to
        // digits(rhs) + p digits: a double rounding outside the property's domain)
        ndigits(B as int, lhs.significand.v()) <= self.precision,
        // machine ranges (overflow of usize/isize is outside this contract)
        // resource limit: exponent overflow is a documented panic (C16), not modelled: precision and digit counts below
        // 2^56 keep the digit shifts (<= digits + precision) within `pos_room` (bit position `pos * log2(B)` in usize)
        // and leave `Repr::new` room for the exponent
        self.precision < 0x100_0000_0000_0000, ndigits(B as int, rhs.significand.v()) < 0x100_0000_0000_0000,
        -0x1000_0000_0000_0000 < lhs.exponent < 0x1000_0000_0000_0000, -0x1000_0000_0000_0000 < rhs.exponent < 0x1000_0000_0000_0000,
    ensures
        div_post(R::md(), B as int, self.precision as nat, lhs.significand.v(), rhs.significand.v(), lhs.exponent - rhs.exponent, map_repr(ret)),
        rd_val(ret).context == *self,
@*/
{
        /*@ broadcast use round_int_axioms, ax_ndigits; @*/
        assert_finite_operands(lhs, rhs);

        let lhs_repr = if !lhs.is_zero() && lhs.digits_ub() > rhs.digits_lb() + self.precision {
            // shrink lhs if it's larger than necessary
            Self::new(rhs.digits() + self.precision)
                .repr_round_ref(lhs)
                .value()
        } else {
            lhs.clone()
        };
        /*@ proof { assert(lhs_repr.significand.v() == lhs.significand.v() && lhs_repr.exponent == lhs.exponent); } @*/
        self.repr_div(lhs_repr, rhs.clone())
            .map(|v| /*@ -> (r: FBig<R, B>) ensures r.repr == v, r.context == *self @*/ FBig::new(v, *self))
    }
