//@ item: float/src/error.rs :: assert_finite
pub const fn assert_finite<const B: Word>(repr: &Repr<B>)
/*@
    requires !(repr.significand.v() == 0 && repr.exponent != 0),      // finite operand (documented panic otherwise)
@*/
{
    if repr.is_infinite() {
        panic_operate_with_inf()
    }
}
