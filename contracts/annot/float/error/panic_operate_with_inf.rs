//@ item: float/src/error.rs :: panic_operate_with_inf
pub const fn panic_operate_with_inf() -> !
/*@
    requires false,     // "total" reading: callers must prove this call unreachable
@*/
{
    panic!("arithmetic operations with the infinity are not allowed!")
}
