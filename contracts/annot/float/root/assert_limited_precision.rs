//@ item: float/src/error.rs :: assert_limited_precision
pub const fn assert_limited_precision(precision: usize)
/*@[!must_panic]
    requires precision != 0,        // documented: "Panics if the precision is unlimited"
@*/
/*@[must_panic] requires precision == 0, ensures false, @*/
{
    if precision == 0 {
        panic_unlimited_precision()
    }
}
