//@ item: float/src/error.rs :: assert_limited_precision
// "guard" reading: returns normally only for a limited precision (panic_unlimited_precision never returns)
pub const fn assert_limited_precision(precision: usize)
/*@
    ensures precision != 0,
@*/
{
    if precision == 0 {
        panic_unlimited_precision()
    }
}
