//@ item: float/src/error.rs :: panic_unlimited_precision
pub const fn panic_unlimited_precision() -> !
/*@[!must_panic] requires false, @*/
/*@[must_panic] ensures false, @*/
{
    panic!("precision cannot be 0 (unlimited) for this operation!")
}
