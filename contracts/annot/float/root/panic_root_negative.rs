//@ item: float/src/error.rs :: panic_root_negative
pub(crate) fn panic_root_negative() -> !
/*@[!must_panic] requires false, @*/
/*@[must_panic] ensures false, @*/
{
    panic!("the root is a complex number!")
}
