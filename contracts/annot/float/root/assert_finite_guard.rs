//@ item: float/src/error.rs :: assert_finite
// "guard" reading (used by the must_panic variant of Context::sqrt, which has three different panic conditions): the
// function returns normally only for a finite operand (panic_operate_with_inf never returns)
pub const fn assert_finite<const B: Word>(repr: &Repr<B>)
/*@
    ensures finite(*repr),
@*/
{
    if repr.is_infinite() {
        panic_operate_with_inf()
    }
}
