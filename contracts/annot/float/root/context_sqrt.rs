//@ item: float/src/root.rs :: impl<R: Round> Context<R> :: sqrt
pub fn sqrt<const B: Word>(&self, x: &Repr<B>) -> Rounded<FBig<R, B>>
/*@[!must_panic]
    requires
        B >= 2,
        finite(*x),                                                  // documented panics otherwise
        self.precision != 0,
        x.significand.v() >= 0,
        // C03 domain: the operand fits the context precision
        ndigits(B as int, x.significand.v()) <= self.precision,
        // machine ranges (overflow of isize is outside this contract)
        // resource limit: exponent overflow is a documented panic (C16), not modelled: precision below 2^56 keeps the
        // digit shift (<= 2 * precision) and the split of repr_round within `pos_room` (bit position `pos * log2(B)`
        // in usize); with the exponent range `Repr::new` has room for the exponent
        self.precision < 0x100_0000_0000_0000, -0x1000_0000_0000_0000 < x.exponent < 0x1000_0000_0000_0000,
    ensures
        x.significand.v() == 0 ==> (map_repr(ret) matches Approximation::Exact(r) && r.significand.v() == 0 && r.exponent == 0),
        x.significand.v() > 0 ==> sqrt_post(R::md(), B as int, self.precision as nat, x.significand.v(), x.exponent as int, map_repr(ret)),
        rd_val(ret).context == *self,
@*/
/*@[must_panic]
    // C16: documented panics -- infinite operand, unlimited precision, negative operand: no normal return
    requires B >= 2, !finite(*x) || self.precision == 0 || x.significand.v() < 0,
    ensures false,
@*/
{
        /*@ broadcast use round_int_axioms, ax_ndigits, ax_repr_base; @*/
        assert_finite(x);
        assert_limited_precision(self.precision);
        if x.sign() == Sign::Negative {
            panic_root_negative()
        }
        /*@ let ghost b = B as int;
            let ghost (S, E, p) = (x.significand.v(), x.exponent as int, self.precision as nat); @*/

        // adjust the signifcand so that the exponent is even
        let digits = x.digits() as isize;
        /*@ proof { lemma_xor1(digits, x.exponent); } @*/
        let shift = self.precision as isize * 2 - ((digits ^ x.exponent) & 1) - digits;
        /*@ let ghost sh = shift as int;
            proof { assert(sh >= 0); assert((E - sh) % 2 == 0); } @*/
        let (signif, low, low_digits) = if shift > 0 {
            (shl_digits::<B>(&x.significand, shift as usize), IBig::ZERO, 0)
        } else {
            let shift = (-shift) as usize;
            let (hi, lo) = split_digits_ref::<B>(&x.significand, shift);
            /*@ proof { assert(ipow(b, 0) == 1); assert(hi.v() * 1 == hi.v()); } @*/
            (hi, lo, shift)
        };
        /*@ let ghost V = signif.v();
            proof {
                assert(ipow(b, 0) == 1);
                assert(S * 1 == S);
                assert(V == S * ipow(b, sh as nat));
                assert(low.v() == 0 && low_digits == 0);
                lemma_ipow_pos(b, sh as nat);
                let u = ipow(b, sh as nat);
                assert(V >= 0) by (nonlinear_arith) requires V == S * u, S >= 0, u >= 1;
                if S > 0 {
                    lemma_ndigits_shift(b, S, sh as nat);
                    let nv = ndigits(b, V);
                    assert(nv == 2 * p - 1 || nv == 2 * p);
                    lemma_ipow_mono(b, (2 * p - 2) as nat, (nv - 1) as nat);
                    lemma_ipow_mono(b, nv, 2 * p);
                } else {
                    assert(0 * u == 0);
                }
            } @*/

        let (root, rem) = signif.unsigned_abs().sqrt_rem();
        let root = Sign::Positive * root;
        let exp = (x.exponent - shift) / 2;
        /*@ proof {
            assert(2 * exp == E - sh);
            if S > 0 {
                assert(same_value(b, V, 2 * exp, S, E));
                assert(sqrt_frame(b, p, S, E, V, exp as int));
                let r1 = root.v() + 1;
                assert(r1 * r1 == root.v() * root.v() + 2 * root.v() + 1) by (nonlinear_arith) requires r1 == root.v() + 1;
                lemma_root_digits(b, p, V, root.v());
            } else {
                assert(root.v() == 0 && rem.v() == 0) by (nonlinear_arith)
                    requires root.v() * root.v() + rem.v() == 0, rem.v() >= 0, root.v() >= 0;
                lemma_ipow_pos(b, p);
            }
            lemma_new_fits(b, p, root.v(), exp as int);
            lemma_new_fits(b, p, root.v() + 1, exp as int);
        } @*/

        let res = if rem.is_zero() {
            /*@ proof {
                if S > 0 {
                    lemma_ipow_pos(b, (p - 1) as nat);
                    lemma_sqrt_exact(R::md(), root.v());
                }
            } @*/
            Approximation::Exact(root)
        } else {
            /*@ let ghost (rt, rm) = (root.v(), rem.v()); @*/
            let adjust = R::round_low_part(&root, Sign::Positive, || /*@ -> (o: Ordering)
                    ensures o == (if rm <= rt { Ordering::Less } else { Ordering::Greater }) @*/ {
                (Sign::Positive * rem)
                    .cmp(&root)
                    .then_with(|| /*@ -> (o2: Ordering) ensures o2 == Ordering::Less @*/ (low * 4u8).cmp(&Repr::<B>::BASE.pow(low_digits).into()))
            });
            /*@ proof {
                let o = if rm <= rt { Ordering::Less } else { Ordering::Greater };
                assert(mode_ok(R::md(), rt, Sign::Positive, o, adjust));
                lemma_sqrt_stage(R::md(), rt, rm, o, adjust);
                assert(V == rt * rt + rm);
            } @*/
            Approximation::Inexact(root + adjust, adjust)
        };
        /*@ let ghost mm = rd_val0(res).v();
            proof {
                if S > 0 {
                    assert(sqrt_round_def(R::md(), V, mm));
                }
            } @*/
        res.map(|signif| /*@ -> (r: Repr<B>) requires exp_room(exp as int, ndigits(b, signif.v()) as int), ensures same_value(b, r.significand.v(), r.exponent as int, signif.v(), exp as int),
                    r.significand.v() == 0 || r.significand.v() % b != 0, signif.v() == 0 ==> r.significand.v() == 0 && r.exponent == 0 @*/
                Repr::new(signif, exp))
            .and_then(|v| /*@ -> (o: Rounded<Repr<B>>)
                    requires !(v.significand.v() == 0 && v.exponent != 0),
                        v.exponent as int + ndigits(b, v.significand.v()) <= isize::MAX, ndigits(b, v.significand.v()) <= isize::MAX,
                        pos_room(ndigits(b, v.significand.v()) as int),
                    ensures round_once(R::md(), b, self.precision, v.significand.v(), v.exponent as int, o) @*/
                self.repr_round(v))
            .map(|v| /*@ -> (r: FBig<R, B>) ensures r.repr == v, r.context == *self @*/ FBig::new(v, *self))
        /*@ proof {
            if S > 0 {
                assert(sqrt_post(R::md(), b, p, S, E, map_repr(ret)));
            }
        } @*/
    }
