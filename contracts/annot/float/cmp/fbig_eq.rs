//@ item: float/src/cmp.rs :: impl<R1: Round, R2: Round, const B: Word> PartialEq<FBig<R2, B>> for FBig<R1, B> :: eq
fn eq(&self, other: &FBig<R2, B>) -> bool
/*@ #[hoist(Self = (FBig<R1, B>), Name = fbig_eq, Generics = [R1: Round, R2: Round, const B: Word])]
    requires B >= 2,
        // "the representation is normalized so direct comparing is okay": invariant of Repr (normalize() in every constructor)
        repr_normalized(self.repr), repr_normalized(other.repr),
    ensures
        // C05: == follows the mathematical value regardless of precision or rounding mode
        ret == (float_cmp_spec(B as int, false, self.repr.significand.v(), self.repr.exponent as int,
            other.repr.significand.v(), other.repr.exponent as int) == Ordering::Equal),
@*/
{
        /*@ proof {
            if !is_inf(self.repr.significand.v(), self.repr.exponent as int) && !is_inf(other.repr.significand.v(), other.repr.exponent as int) {
                lemma_eq_fields(B as int, self.repr.significand.v(), self.repr.exponent as int, other.repr.significand.v(), other.repr.exponent as int);
            }
        } @*/
        match (self.repr.is_infinite(), other.repr.is_infinite()) {
            // +inf == +inf, -inf == -inf
            (true, true) => !((self.repr.exponent >= 0) ^ (other.repr.exponent >= 0)),

            // the representation is normalized so direct comparing is okay,
            // and the context doesn't count in comparison
            (false, false) => self.repr == other.repr,

            // inf != any exact numbers
            (_, _) => false,
        }
    }
