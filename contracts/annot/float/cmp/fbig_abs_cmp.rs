//@ item: float/src/cmp.rs :: impl<R: Round, const B: Word> AbsOrd for FBig<R, B> :: abs_cmp
fn abs_cmp(&self, other: &Self) -> Ordering
/*@ #[hoist(Self = (FBig<R, B>), Name = fbig_abs_cmp, Generics = [R: Round, const B: Word])]
    requires B >= 2, fbig_cmp_pre(*self), fbig_cmp_pre(*other),
    ensures
        // the order of the absolute values
        ret == float_cmp_spec(B as int, true, self.repr.significand.v(), self.repr.exponent as int,
            other.repr.significand.v(), other.repr.exponent as int),
@*/
{
        repr_cmp_same_base::<B, true>(
            &self.repr,
            &other.repr,
            Some((self.context.precision, other.context.precision)),
        )
    }
