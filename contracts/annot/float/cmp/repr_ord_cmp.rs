//@ item: float/src/cmp.rs :: impl<const B: Word> Ord for Repr<B> :: cmp
fn cmp(&self, other: &Self) -> Ordering
/*@ #[hoist(Self = Repr<B>, Name = repr_ord_cmp, Generics = [const B: Word])]
    requires B >= 2, repr_cmp_pre(*self), repr_cmp_pre(*other),
    ensures
        // C05: cmp follows the mathematical value
        ret == float_cmp_spec(B as int, false, self.significand.v(), self.exponent as int, other.significand.v(), other.exponent as int),
@*/
{
        repr_cmp_same_base::<B, false>(self, other, None)
    }
