//@ item: float/src/cmp.rs :: impl<R: Round, const B: Word> Ord for FBig<R, B> :: cmp
fn cmp(&self, other: &Self) -> Ordering
/*@ #[hoist(Self = (FBig<R, B>), Name = fbig_ord_cmp, Generics = [R: Round, const B: Word])]
    requires B >= 2, fbig_cmp_pre(*self), fbig_cmp_pre(*other),
    ensures
        // C05: cmp follows the mathematical value regardless of precision or rounding mode
        ret == float_cmp_spec(B as int, false, self.repr.significand.v(), self.repr.exponent as int,
            other.repr.significand.v(), other.repr.exponent as int),
@*/
{
        repr_cmp_same_base::<B, false>(
            &self.repr,
            &other.repr,
            Some((self.context.precision, other.context.precision)),
        )
    }
