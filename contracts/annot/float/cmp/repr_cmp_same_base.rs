//@ item: float/src/cmp.rs :: repr_cmp_same_base
fn repr_cmp_same_base<const B: Word, const ABS: bool>(
    lhs: &Repr<B>,
    rhs: &Repr<B>,
    precision: Option<(usize, usize)>,
) -> Ordering
/*@
    requires
        B >= 2,
        canonical_inf(lhs.significand.v(), lhs.exponent as int), canonical_inf(rhs.significand.v(), rhs.exponent as int),
        // the precisions, when given, are those of the FBig values the reprs come from: a value of limited precision p
        // carries at most p + 1 digits (C03: "no result carries more than p+1 significant digits").  The precision
        // shortcut (case 4) is UNSOUND without this.  Every public producer guarantees it: constructors set the precision
        // from the digit count, arithmetic results have at most p + 1 digits (units float_mul/add/sqrt/div), and
        // `with_precision` rounds a source of unlimited precision since /repo commit 73390f4 (before it, values with
        // more digits were reachable and `cmp` disagreed with the mathematical order).  The only remaining door is
        // `FBig::from_repr`, whose documented requirement (a debug_assert!) is digits <= precision.
        precision matches Some(pp) ==>
            (pp.0 != 0 && pp.1 != 0 && !is_inf(lhs.significand.v(), lhs.exponent as int) && !is_inf(rhs.significand.v(), rhs.exponent as int)
                ==> ndigits(B as int, lhs.significand.v()) <= pp.0 + 1 && ndigits(B as int, rhs.significand.v()) <= pp.1 + 1)
            && pp.0 < 0x1000_0000_0000_0000 && pp.1 < 0x1000_0000_0000_0000,
        // machine ranges (overflow of isize in `exp + digits` is outside this contract)
        -0x1000_0000_0000_0000 < lhs.exponent < 0x1000_0000_0000_0000, -0x1000_0000_0000_0000 < rhs.exponent < 0x1000_0000_0000_0000,
        // resource limit: exponent overflow is a documented panic (C16), not modelled: case 6 shifts by an exponent
        // difference of up to digits_ub <= 2 * digits + 2 digits (`shl_digits`: bit position `pos * log2(B)` in usize)
        ndigits(B as int, lhs.significand.v()) < 0x100_0000_0000_0000, ndigits(B as int, rhs.significand.v()) < 0x100_0000_0000_0000,
    ensures
        // C05: "== / cmp follow the mathematical value regardless of precision or rounding mode"
        ret == float_cmp_spec(B as int, ABS, lhs.significand.v(), lhs.exponent as int, rhs.significand.v(), rhs.exponent as int),
@*/
{
    /*@ broadcast use round_int_axioms; @*/
    /*@ let ghost b = B as int;
        let ghost (Sl, El, Sr, Er) = (lhs.significand.v(), lhs.exponent as int, rhs.significand.v(), rhs.exponent as int);
        proof { lemma_ndigits_ub(b, Sl); lemma_ndigits_ub(b, Sr); assert(ipow(b, 0) == 1); } @*/
    // case 1: compare with inf
    match (lhs.is_infinite(), rhs.is_infinite()) {
        (true, true) => {
            return if ABS {
                Ordering::Equal
            } else {
                lhs.exponent.cmp(&rhs.exponent)
            }
        }
        (false, true) => {
            return match ABS || rhs.exponent >= 0 {
                true => Ordering::Less,
                false => Ordering::Greater,
            }
        }
        (true, false) => {
            return match ABS || lhs.exponent >= 0 {
                true => Ordering::Greater,
                false => Ordering::Less,
            }
        }
        _ => {}
    };

    /*@ proof {
        // the sign of a scaled operand is the sign of its significand
        let F = imin(El, Er);
        let (ul, ur) = (ipow(b, (El - F) as nat), ipow(b, (Er - F) as nat));
        lemma_ipow_pos(b, (El - F) as nat); lemma_ipow_pos(b, (Er - F) as nat);
        let (x, y) = (Sl * ul, Sr * ur);
        assert((Sl > 0 ==> x > 0) && (Sl < 0 ==> x < 0) && (Sl == 0 ==> x == 0)) by (nonlinear_arith) requires x == Sl * ul, ul >= 1;
        assert((Sr > 0 ==> y > 0) && (Sr < 0 ==> y < 0) && (Sr == 0 ==> y == 0)) by (nonlinear_arith) requires y == Sr * ur, ur >= 1;
    } @*/
    // case 2: compare sign
    let sign = if ABS {
        Sign::Positive
    } else {
        match (lhs.significand.sign(), rhs.significand.sign()) {
            (Sign::Positive, Sign::Positive) => Sign::Positive,
            (Sign::Positive, Sign::Negative) => return Ordering::Greater,
            (Sign::Negative, Sign::Positive) => return Ordering::Less,
            (Sign::Negative, Sign::Negative) => Sign::Negative,
        }
    };

    // case 3: compare with 0
    match (lhs.is_zero(), rhs.is_zero()) {
        (true, true) => return Ordering::Equal,
        (true, false) => {
            // rhs must be positive, otherwise case 2 will return
            return Ordering::Less;
        }
        (false, true) => {
            // lhs must be positive, otherwise case 2 will return
            return Ordering::Greater;
        }
        _ => {}
    }
    /*@ proof {
        // from here on: both finite and non-zero; without ABS both of the sign `sign`
        assert(Sl != 0 && Sr != 0);
        assert(!ABS ==> (sign == Sign::Positive ==> Sl > 0 && Sr > 0) && (sign == Sign::Negative ==> Sl < 0 && Sr < 0));
    } @*/

    // case 4: compare exponent and precision
    let (lhs_exp, rhs_exp) = (lhs.exponent, rhs.exponent);
    if let Some((lhs_prec, rhs_prec)) = precision {
        // only compare when both number are not having arbitrary precision
        if lhs_prec != 0 && rhs_prec != 0 {
            if lhs_exp > rhs_exp + rhs_prec as isize {
                /*@ proof {
                    lemma_ipow_mono(b, ndigits(b, Sr), (rhs_prec + 1) as nat);
                    lemma_cmp_far(b, Sl, El, Sr, Er, (rhs_prec + 1) as nat);
                    assert(Sr * 1 == Sr);
                } @*/
                return sign * Ordering::Greater;
            }
            if rhs_exp > lhs_exp + lhs_prec as isize {
                /*@ proof {
                    lemma_ipow_mono(b, ndigits(b, Sl), (lhs_prec + 1) as nat);
                    lemma_cmp_far(b, Sr, Er, Sl, El, (lhs_prec + 1) as nat);
                    assert(Sl * 1 == Sl);
                } @*/
                return sign * Ordering::Less;
            }
        }
    }

    // case 5: compare exponent and digits
    let (lhs_digits, rhs_digits) = (lhs.digits_ub(), rhs.digits_ub());
    if lhs_exp > rhs_exp + rhs_digits as isize {
        /*@ proof {
            lemma_ipow_mono(b, ndigits(b, Sr), rhs_digits as nat);
            lemma_cmp_far(b, Sl, El, Sr, Er, rhs_digits as nat);
            assert(Sr * 1 == Sr);
        } @*/
        return sign * Ordering::Greater;
    }
    if rhs_exp > lhs_exp + lhs_digits as isize {
        /*@ proof {
            lemma_ipow_mono(b, ndigits(b, Sl), lhs_digits as nat);
            lemma_cmp_far(b, Sr, Er, Sl, El, lhs_digits as nat);
            assert(Sl * 1 == Sl);
        } @*/
        return sign * Ordering::Less;
    }

    // case 6: compare exact values by shifting
    let (lhs_signif, rhs_signif) = (&lhs.significand, &rhs.significand);
    /*@ proof {
        assert(Sl * 1 == Sl && Sr * 1 == Sr);
        if El >= Er { lemma_abs_shift(b, Sl, (El - Er) as nat); } else { lemma_abs_shift(b, Sr, (Er - El) as nat); }
    } @*/
    if ABS {
        match lhs_exp.cmp(&rhs_exp) {
            Ordering::Equal => lhs_signif.abs_cmp(rhs_signif),
            Ordering::Greater => {
                shl_digits::<B>(lhs_signif, (lhs_exp - rhs_exp) as usize).abs_cmp(rhs_signif)
            }
            Ordering::Less => {
                lhs_signif.abs_cmp(&shl_digits::<B>(rhs_signif, (rhs_exp - lhs_exp) as usize))
            }
        }
    } else {
        match lhs_exp.cmp(&rhs_exp) {
            Ordering::Equal => lhs_signif.cmp(rhs_signif),
            Ordering::Greater => {
                shl_digits::<B>(lhs_signif, (lhs_exp - rhs_exp) as usize).cmp(rhs_signif)
            }
            Ordering::Less => {
                lhs_signif.cmp(&shl_digits::<B>(rhs_signif, (rhs_exp - lhs_exp) as usize))
            }
        }
    }
}
