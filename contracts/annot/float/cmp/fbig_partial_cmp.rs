//@ item: float/src/cmp.rs :: impl<R1: Round, R2: Round, const B: Word> PartialOrd<FBig<R2, B>> for FBig<R1, B> :: partial_cmp
fn partial_cmp(&self, other: &FBig<R2, B>) -> Option<Ordering>
/*@ #[hoist(Self = (FBig<R1, B>), Name = fbig_partial_cmp, Generics = [R1: Round, R2: Round, const B: Word])]
    requires B >= 2, fbig_cmp_pre(*self), fbig_cmp_pre(*other),
    ensures
        // C05: the order follows the mathematical value regardless of precision or rounding mode
        ret == Some(float_cmp_spec(B as int, false, self.repr.significand.v(), self.repr.exponent as int,
            other.repr.significand.v(), other.repr.exponent as int)),
@*/
{
        Some(repr_cmp_same_base::<B, false>(
            &self.repr,
            &other.repr,
            Some((self.context.precision, other.context.precision)),
        ))
    }
