//@ item: float/src/add.rs :: impl<R: Round> Context<R> :: repr_round_sum
fn repr_round_sum<const B: Word>(
        &self,
        mut significand: IBig,
        mut exponent: isize,
        mut low: (IBig, usize),
        is_sub: bool,
    ) -> Rounded<Repr<B>>
/*@
    requires
        B >= 2,
        // the low part is a proper fraction of one unit of the high part: |L| < B^k
        iabs(low.0.v()) < ipow(B as int, low.1 as nat),
        // unlimited precision: callers align exactly and pass no low part
        self.precision == 0 ==> low.0.v() == 0,
        // "If the sum is actually from a subtraction and the low part is not zero, `is_sub` should be true"
        low.0.v() != 0 && opposite(significand.v(), low.0.v()) ==> is_sub,
        // machine ranges (overflow of usize/isize is outside this contract)
        self.precision < usize::MAX,
        ndigits(B as int, significand.v()) <= isize::MAX, low.1 <= isize::MAX,
        exponent + ndigits(B as int, significand.v()) + 1 <= isize::MAX,
        exponent - low.1 >= isize::MIN,
        // resource limit: exponent overflow is a documented panic (C16), not modelled: digit positions of the splits /
        // shifts (bit position within usize); the "+ 1" above is the room `Repr::new` needs for the rounded significand
        // (crude bound: the exact need is `exponent + digits <= isize::MAX`; the callers have 2^56 ranges)
        pos_room(ndigits(B as int, significand.v()) as int), pos_room(low.1 as int),
    ensures
        sum_post(R::md(), B as int, self.precision, is_sub, significand.v(), exponent as int, low.0.v(), low.1 as int, ret),
@*/
{
        /*@ broadcast use round_int_axioms, ax_ndigits; @*/
        /*@ let ghost (S0, E0, L0, k0) = (significand.v(), exponent as int, low.0.v(), low.1 as nat);
            let ghost N = S0 * ipow(B as int, k0) + L0; @*/
        if !self.is_limited() {
            // short cut for unlimited precision
            return Rounded::Exact(Repr::new(significand, exponent));
        }

        // use one extra digit to prevent cancellation in rounding
        let rnd_precision = self.precision + is_sub as usize;

        // align to precision again
        let digits = digit_len::<B>(&significand);
        match digits.cmp(&rnd_precision) {
            Ordering::Equal => {}
            Ordering::Greater => {
                // Shrink if the result has more digits than desired precision
                /*
                 * lhs:         |=========0000|
                 * rhs:              |========|xxxxx|
                 * sum:        |==============|xxxxx|
                 * precision:  |<----->|
                 * shrink:     |=======|xxxxxxxxxxxx|
                 */
                let shift = digits - rnd_precision;
                let (signif_hi, mut signif_lo) = split_digits::<B>(significand, shift);
                /*@ proof { lemma_sum_shrink(B as int, S0, L0, k0, shift as nat, signif_hi.v(), signif_lo.v()); } @*/
                significand = signif_hi;
                exponent += shift as isize;
                shl_digits_in_place::<B>(&mut signif_lo, low.1);
                low.0 += signif_lo;
                low.1 += shift;
            }
            Ordering::Less => {
                // Expand to low parts if the result has less digits than desired precision.
                /*
                 * A possible case when lhs and rhs have different sign:
                 * lhs:  |=========0000|
                 * rhs:  |=============|xxxxx|
                 * sum:          |=====|xxxxx|
                 * precision+1:  |<------>|
                 * shift:              |<>|
                 * expanded:     |========|xx|
                 */
                if !low.0.is_zero() {
                    let (low_val, low_prec) = low;
                    let shift = low_prec.min(rnd_precision - digits);
                    let (pad, low_val) = split_digits::<B>(low_val, low_prec - shift);
                    /*@ proof { lemma_sum_expand(B as int, S0, L0, k0, shift as nat, pad.v(), low_val.v()); } @*/
                    shl_digits_in_place::<B>(&mut significand, shift);
                    exponent -= shift as isize;
                    significand += pad;
                    low = (low_val, low_prec - shift);
                }
            }
        };
        /*@ proof {
            let rp = self.precision + (if is_sub { 1int } else { 0int });
            let j = k0 + unit_shift(rp, ndigits(B as int, S0) as int, k0 as int, L0 == 0);
            assert(low.1 == j);
            assert(exponent - low.1 == E0 - k0);
            assert(unit_split(N, ipow(B as int, low.1 as nat), significand.v(), low.0.v()));
            // room for the exponent of the result (Repr::new below)
            lemma_sum_top(B as int, S0, L0, k0, low.1 as nat, significand.v(), low.0.v(), 0);
            lemma_sum_top(B as int, S0, L0, k0, low.1 as nat, significand.v(), low.0.v(), 1);
            lemma_sum_top(B as int, S0, L0, k0, low.1 as nat, significand.v(), low.0.v(), -1);
        } @*/

        // perform rounding
        if low.0.is_zero() {
            Rounded::Exact(Repr::new(significand, exponent))
        } else {
            // By now significand should have at least full precision. After adjustment, the digits length
            // could be one more than the precision. We don't shrink the extra digit.
            let adjust = R::round_fract::<B>(&significand, low.0, low.1);
            Rounded::Inexact(Repr::new(significand + adjust, exponent), adjust)
        }
    }
