//@ item: float/src/add.rs :: impl<R: Round> Context<R> :: repr_add_small_large
fn repr_add_small_large<const B: Word>(
        &self,
        lhs: Repr<B>,
        rhs: &Repr<B>,
        rhs_sign: Sign,
    ) -> Rounded<Repr<B>>
/*@
    requires
        B >= 2,
        // both operands finite and non-zero (all callers take the zero / infinity shortcuts first)
        lhs.significand.v() != 0, rhs.significand.v() != 0,
        lhs.exponent <= rhs.exponent,
        add_fits(B as int, self.precision, lhs.significand.v(), rhs.significand.v()),
        add_ranges(B as int, self.precision, lhs.significand.v(), lhs.exponent as int, rhs.significand.v(), rhs.exponent as int),
    ensures
        // the SAME statement as for repr_add_large_small: the mirror helpers treat `rhs_sign` identically
        add_post(R::md(), B as int, self.precision, lhs.significand.v(), lhs.exponent as int, rhs_sign,
            rhs.significand.v(), rhs.exponent as int, ret),
@*/
{
        /*@ broadcast use round_int_axioms; @*/
        debug_assert!(lhs.exponent <= rhs.exponent);
        /*@ let ghost b = B as int;
            let ghost (Sl, El, Sr, Er) = (lhs.significand.v(), lhs.exponent as int, rhs.significand.v(), rhs.exponent as int);
            let ghost sr = sgn_apply(rhs_sign, Sr);
            let ghost N = exact_sum(b, Sl, El, rhs_sign, Sr, Er);
            let ghost mut far = false;
            proof {
                lemma_ndigits_ub(b, Sl); lemma_ndigits_ub(b, Sr);
                assert(ipow(b, 0) == 1);
                assert(Sl * 1 == Sl);
                assert(N == Sl + sr * ipow(b, (Er - El) as nat));
            } @*/

        // the following implementation should be exactly the same as `repr_add_large_small`
        // other than lhs and rhs are swapped. See `repr_add_large_small` for full documentation
        let is_sub = lhs.significand.sign() != rhs_sign * rhs.significand.sign();
        /*@ proof { assert(is_sub == true_sub(Sl, rhs_sign, Sr)); } @*/
        let rnd_precision = self.precision + is_sub as usize;

        let ediff = (rhs.exponent - lhs.exponent) as usize;
        let rdigits = rhs.digits();
        let ldigits_est = lhs.digits_ub();

        // align the exponent
        let low: (IBig, usize);
        let (significand, exponent) = if self.is_limited()
            && ldigits_est + 1 < ediff
            && ldigits_est + 1 + rnd_precision < rdigits + ediff
        {
            // if lhs is much smaller than rhs, direct round on the lhs
            let low_prec = if rdigits >= rnd_precision {
                2
            } else {
                (rnd_precision - rdigits) + 2
            };
            low = (lhs.significand.signum(), low_prec);
            /*@ proof {
                far = true;
                lemma_ipow_strict(b, 0, low_prec as nat);
                lemma_ndigits_neg(b, Sr);
            } @*/
            (rhs_sign * rhs.significand.clone(), rhs.exponent)
        } else if self.is_limited() && rdigits >= self.precision {
            // if the rhs already exceeds the desired precision, just align lhs
            let (lhs_signif, r) = split_digits::<B>(lhs.significand, ediff);
            low = (r, ediff);
            /*@ proof {
                lemma_ipow_mono(b, ndigits(b, Sl), self.precision as nat);
                lemma_ipow_mono(b, ndigits(b, Sr), self.precision as nat);
                lemma_align_split(b, Sr, rhs_sign, Sl, Sign::Positive, ediff as nat, lhs_signif.v(), r.v(), self.precision as nat);
            } @*/
            match rhs_sign {
                Positive => (lhs_signif + &rhs.significand, rhs.exponent),
                Negative => (lhs_signif - &rhs.significand, rhs.exponent),
            }
        } else if self.is_limited() && ediff + rdigits > self.precision {
            // if the shifted rhs exceeds the desired precision, align lhs and rhs to precision
            let lshift = self.precision - rdigits;
            let rshift = ediff - lshift;
            let (lhs_signif, r) = split_digits::<B>(lhs.significand, rshift);
            let rhs_signif = shl_digits::<B>(&rhs.significand, lshift);

            low = (r, rshift);
            /*@ proof {
                let (ul, ur, u) = (ipow(b, lshift as nat), ipow(b, rshift as nat), ipow(b, ediff as nat));
                lemma_ipow_pos(b, lshift as nat);
                lemma_ipow_add(b, lshift as nat, rshift as nat);
                assert(lshift + rshift == ediff);
                let s2 = rhs_signif.v();
                let ss2 = sgn_apply(rhs_sign, s2);
                assert(ss2 * ur == sr * u) by (nonlinear_arith)
                    requires s2 == Sr * ul, u == ul * ur, (ss2 == s2 && sr == Sr) || (ss2 == -s2 && sr == -Sr);
                assert(s2 != 0) by (nonlinear_arith) requires s2 == Sr * ul, ul >= 1, Sr != 0;
                assert((s2 > 0) == (Sr > 0)) by (nonlinear_arith) requires s2 == Sr * ul, ul >= 1;
                lemma_shift_bound(b, Sr, ndigits(b, Sr), lshift as nat);
                assert(ndigits(b, Sr) + lshift == self.precision);
                lemma_ipow_mono(b, ndigits(b, Sl), self.precision as nat);
                lemma_align_split(b, s2, rhs_sign, Sl, Sign::Positive, rshift as nat, lhs_signif.v(), r.v(), self.precision as nat);
            } @*/
            (rhs_sign * rhs_signif + lhs_signif, rhs.exponent - lshift as isize)
        } else {
            // otherwise directly shift rhs to required position
            let rhs_signif = shl_digits::<B>(&rhs.significand, ediff);
            low = (IBig::ZERO, 0);
            /*@ proof {
                assert(ipow(b, 0) == 1);
                let s2 = rhs_signif.v();
                let ss2 = sgn_apply(rhs_sign, s2);
                let u = ipow(b, ediff as nat);
                assert(ss2 == sr * u) by (nonlinear_arith)
                    requires s2 == Sr * u, (ss2 == s2 && sr == Sr) || (ss2 == -s2 && sr == -Sr);
                assert((ss2 + Sl) * 1 + 0 == ss2 + Sl);
                lemma_shift_bound(b, Sr, ndigits(b, Sr), ediff as nat);
                let nr = (ndigits(b, Sr) + ediff) as nat;
                let n = if nr >= ndigits(b, Sl) { nr } else { ndigits(b, Sl) };
                lemma_ipow_mono(b, nr, n);
                lemma_ipow_mono(b, ndigits(b, Sl), n);
                lemma_ndigits_sum(b, ss2, Sl, n);
            } @*/
            (rhs_sign * rhs_signif + lhs.significand, lhs.exponent)
        };
        /*@ proof {
            if !far {
                assert(significand.v() * ipow(b, low.1 as nat) + low.0.v() == N);
                assert(exponent - low.1 == El);
            }
        } @*/

        self.repr_round_sum(significand, exponent, low, is_sub)
        /*@ proof {
            if self.precision != 0 {
                let rp = self.precision + (if is_sub { 1int } else { 0int });
                let k = low.1 as int;
                let j1 = k + unit_shift(rp, ndigits(b, significand.v()) as int, k, low.0.v() == 0);
                assert(rounded_at(R::md(), b, significand.v() * ipow(b, k as nat) + low.0.v(), exponent - k, j1 as nat, ret));
                if !far {
                    assert(rounded_at(R::md(), b, N, imin(El, Er), j1 as nat, ret));
                } else {
                    // the sentinel rounds like the true sum
                    let rd = ndigits(b, Sr) as int;
                    assert(ndigits(b, sr) == ndigits(b, Sr)) by { lemma_ndigits_neg(b, Sr); }
                    assert(j1 == 2);
                    lemma_ipow_mono(b, ndigits(b, Sl), ldigits_est as nat);
                    lemma_ipow_small(b);
                    lemma_far_result::<B>(R::md(), b, sr, low.0.v(), Sl, k as nat, j1 as nat, (Er - El) as nat, ldigits_est as nat, Er - k, ret);
                    let j = ((Er - El) - k + j1) as nat;
                    assert(rounded_at(R::md(), b, N, imin(El, Er), j, ret));
                }
            }
        } @*/
    }
