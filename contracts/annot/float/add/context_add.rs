//@ item: float/src/add.rs :: impl<R: Round> Context<R> :: add
pub fn add<const B: Word>(&self, lhs: &Repr<B>, rhs: &Repr<B>) -> Rounded<FBig<R, B>>
/*@[!must_panic]
    requires
        B >= 2,
        finite(*lhs), finite(*rhs),                                 // finite operands (documented panic otherwise)
        // C03 domain: "operands that fit the context precision p"
        add_fits(B as int, self.precision, lhs.significand.v(), rhs.significand.v()),
        add_ranges(B as int, self.precision, lhs.significand.v(), lhs.exponent as int, rhs.significand.v(), rhs.exponent as int),
    ensures
        add_post(R::md(), B as int, self.precision, lhs.significand.v(), lhs.exponent as int, Sign::Positive,
            rhs.significand.v(), rhs.exponent as int, map_repr(ret)),
        rd_val(ret).context == *self,
@*/
/*@[must_panic] requires B >= 2, !finite(*lhs) || !finite(*rhs), ensures false,   // C16: an infinite operand ==> no normal return
@*/
{
        /*@ broadcast use round_int_axioms; @*/
        assert_finite_operands(lhs, rhs);
        /*@ let ghost b = B as int;
            let ghost (Sl, El, Sr, Er) = (lhs.significand.v(), lhs.exponent as int, rhs.significand.v(), rhs.exponent as int);
            proof { lemma_ndigits_ub(b, Sl); lemma_ndigits_ub(b, Sr); } @*/

        let sum = if lhs.is_zero() {
            /*@ proof { lemma_exact_sum_zero(b, Sr, Er, Sign::Positive); } @*/
            self.repr_round_ref(rhs)
        } else if rhs.is_zero() {
            /*@ proof { lemma_exact_sum_zero(b, Sl, El, Sign::Positive); } @*/
            self.repr_round_ref(lhs)
        } else {
            match lhs.exponent.cmp(&rhs.exponent) {
                Ordering::Equal => {
                    /*@ proof {
                        let n = (if self.precision == 0 { if ndigits(b, Sl) >= ndigits(b, Sr) { ndigits(b, Sl) } else { ndigits(b, Sr) } } else { self.precision as nat });
                        lemma_ipow_mono(b, ndigits(b, Sl), n);
                        lemma_ipow_mono(b, ndigits(b, Sr), n);
                        lemma_ndigits_sum(b, Sl, Sr, n);
                        lemma_new_then_round::<B>(R::md(), b, self.precision, Sl + Sr, El);
                    } @*/
                    self.repr_round(Repr::new(&lhs.significand + &rhs.significand, lhs.exponent))
                }
                Ordering::Greater => self.repr_add_large_small(lhs.clone(), rhs, Positive),
                Ordering::Less => self.repr_add_small_large(lhs.clone(), rhs, Positive),
            }
        };
        /*@ proof {
            let N = exact_sum(b, Sl, El, Sign::Positive, Sr, Er);
            let F = imin(El, Er);
            if Sl == 0 && El == 0 {
                lemma_add_zero::<B>(R::md(), b, self.precision, Sr, Er, N, F, sum);
            } else if Sr == 0 && Er == 0 {
                lemma_add_zero::<B>(R::md(), b, self.precision, Sl, El, N, F, sum);
            } else if El == Er {
                assert(ipow(b, 0) == 1);
                assert(N == Sl + Sr) by (nonlinear_arith) requires N == Sl * 1 + Sr * 1;
                lemma_round_val_at::<B>(R::md(), b, self.precision, N, F, sum);
            }
            assert(add_post(R::md(), b, self.precision, Sl, El, Sign::Positive, Sr, Er, sum));
        } @*/
        sum.map(|v| /*@ -> (r: FBig<R, B>) ensures r.repr == v, r.context == *self @*/ FBig::new(v, *self))
    }
