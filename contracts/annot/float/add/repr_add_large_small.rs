//@ item: float/src/add.rs :: impl<R: Round> Context<R> :: repr_add_large_small
fn repr_add_large_small<const B: Word>(
        &self,
        mut lhs: Repr<B>,
        rhs: &Repr<B>,
        rhs_sign: Sign,
    ) -> Rounded<Repr<B>>
/*@
    requires
        B >= 2,
        // both operands finite and non-zero (all callers take the zero / infinity shortcuts first)
        lhs.significand.v() != 0, rhs.significand.v() != 0,
        lhs.exponent >= rhs.exponent,
        add_fits(B as int, self.precision, lhs.significand.v(), rhs.significand.v()),
        add_ranges(B as int, self.precision, lhs.significand.v(), lhs.exponent as int, rhs.significand.v(), rhs.exponent as int),
    ensures
        add_post(R::md(), B as int, self.precision, lhs.significand.v(), lhs.exponent as int, rhs_sign,
            rhs.significand.v(), rhs.exponent as int, ret),
@*/
{
        /*@ broadcast use round_int_axioms; @*/
        debug_assert!(lhs.exponent >= rhs.exponent);
        /*@ let ghost b = B as int;
            let ghost (Sl, El, Sr, Er) = (lhs.significand.v(), lhs.exponent as int, rhs.significand.v(), rhs.exponent as int);
            let ghost sr = sgn_apply(rhs_sign, Sr);
            let ghost N = exact_sum(b, Sl, El, rhs_sign, Sr, Er);
            let ghost mut far = false;
            proof {
                lemma_ndigits_ub(b, Sl); lemma_ndigits_ub(b, Sr);
                assert(ipow(b, 0) == 1);
                assert(sr * 1 == sr);
                assert(N == Sl * ipow(b, (El - Er) as nat) + sr);
            } @*/

        // use one extra digit when subtracting to prevent cancellation in rounding
        let is_sub = lhs.significand.sign() != rhs_sign * rhs.significand.sign();
        /*@ proof { assert(is_sub == true_sub(Sl, rhs_sign, Sr)); } @*/
        let rnd_precision = self.precision + is_sub as usize;

        let ediff = (lhs.exponent - rhs.exponent) as usize;
        let ldigits = lhs.digits();
        let rdigits_est = rhs.digits_ub(); // overestimate

        // align the exponent
        let low: (IBig, usize); // (value of low part, precision of the low part)
        let (significand, exponent) = if self.is_limited()
            && rdigits_est + 1 < ediff
            && rdigits_est + 1 + rnd_precision < ldigits + ediff
        {
            // if rhs is much smaller than lhs, direct round on the rhs
            /*
             * lhs: |=========|
             * rhs:                  |========|
             *                |<--- ediff --->|
             *      |< precision >|
             */

            // In this case, the actual significand of rhs doesn't matter,
            // we can just replace it with 1 for correct rounding
            let low_prec = if ldigits >= rnd_precision {
                2
            } else {
                (rnd_precision - ldigits) + 2
            }; // low_prec >= 2
            low = (rhs_sign * rhs.significand.signum(), low_prec);
            /*@ proof {
                far = true;
                lemma_ipow_strict(b, 0, low_prec as nat);
            } @*/
            (lhs.significand, lhs.exponent)
        } else if self.is_limited() && ldigits >= self.precision {
            // if the lhs already exceeds the desired precision, just align rhs
            /* Before:
             * lhs: |==============|
             * rhs:      |==============|
             *              ediff  |<-->|
             *    precision  |<--->|
             *
             * After:
             * lhs: |==============|
             * rhs:      |=========|xxxx|
             */
            let (rhs_signif, r) = split_digits_ref::<B>(&rhs.significand, ediff);
            low = (rhs_sign * r, ediff);
            /*@ proof {
                lemma_ipow_mono(b, ndigits(b, Sl), self.precision as nat);
                lemma_ipow_mono(b, ndigits(b, Sr), self.precision as nat);
                lemma_align_split(b, Sl, Sign::Positive, Sr, rhs_sign, ediff as nat, rhs_signif.v(), r.v(), self.precision as nat);
            } @*/
            (lhs.significand + rhs_sign * rhs_signif, lhs.exponent)
        } else if self.is_limited() && ediff + ldigits > self.precision {
            // if the shifted lhs exceeds the desired precision, align lhs and rhs to precision
            /* Before:
             * lhs: |=========|
             * rhs:      |==============|
             *                |< ediff >|
             *      |< precision >|
             *
             * After:
             * lhs: |=========0000|
             * rhs:      |========|xxxxx|
             *        lshift  |<->|
             *            rshift  |<--->|
             */
            let lshift = self.precision - ldigits;
            let rshift = ediff - lshift;
            let (rhs_signif, r) = split_digits_ref::<B>(&rhs.significand, rshift);
            shl_digits_in_place::<B>(&mut lhs.significand, lshift);

            low = (rhs_sign * r, rshift);
            /*@ proof {
                let (ul, ur, u) = (ipow(b, lshift as nat), ipow(b, rshift as nat), ipow(b, ediff as nat));
                lemma_ipow_pos(b, lshift as nat);
                lemma_ipow_add(b, lshift as nat, rshift as nat);
                assert(lshift + rshift == ediff);
                let sl = lhs.significand.v();
                assert(sl * ur == Sl * u) by (nonlinear_arith) requires sl == Sl * ul, u == ul * ur;
                assert(sl != 0) by (nonlinear_arith) requires sl == Sl * ul, ul >= 1, Sl != 0;
                assert((sl > 0) == (Sl > 0)) by (nonlinear_arith) requires sl == Sl * ul, ul >= 1;
                lemma_shift_bound(b, Sl, ndigits(b, Sl), lshift as nat);
                assert(ndigits(b, Sl) + lshift == self.precision);
                lemma_ipow_mono(b, ndigits(b, Sr), self.precision as nat);
                lemma_align_split(b, sl, Sign::Positive, Sr, rhs_sign, rshift as nat, rhs_signif.v(), r.v(), self.precision as nat);
            } @*/
            (lhs.significand + rhs_sign * rhs_signif, lhs.exponent - lshift as isize)
        } else {
            // otherwise directly shift lhs to required position
            /* Before:
             * lhs: |==========|
             * rhs:       |==============|
             *                 |< ediff >|
             *      |<------ precision ------>|
             *
             * After:
             * lhs: |==========0000000000|
             * rhs:       |==============|
             */
            shl_digits_in_place::<B>(&mut lhs.significand, ediff);
            low = (IBig::ZERO, 0);
            /*@ proof {
                assert(ipow(b, 0) == 1);
                let sl = lhs.significand.v();
                assert((sl + sr) * 1 + 0 == sl + sr);
                lemma_shift_bound(b, Sl, ndigits(b, Sl), ediff as nat);
                let nl = (ndigits(b, Sl) + ediff) as nat;
                let n = if nl >= ndigits(b, Sr) { nl } else { ndigits(b, Sr) };
                lemma_ipow_mono(b, nl, n);
                lemma_ipow_mono(b, ndigits(b, Sr), n);
                lemma_ndigits_sum(b, sl, sr, n);
            } @*/
            match rhs_sign {
                Positive => (lhs.significand + &rhs.significand, rhs.exponent),
                Negative => (lhs.significand - &rhs.significand, rhs.exponent),
            }
        };
        /*@ proof {
            if !far {
                assert(significand.v() * ipow(b, low.1 as nat) + low.0.v() == N);
                assert(exponent - low.1 == Er);
            }
        } @*/

        self.repr_round_sum(significand, exponent, low, is_sub)
        /*@ proof {
            if self.precision != 0 {
                let rp = self.precision + (if is_sub { 1int } else { 0int });
                let k = low.1 as int;
                let j1 = k + unit_shift(rp, ndigits(b, significand.v()) as int, k, low.0.v() == 0);
                assert(rounded_at(R::md(), b, significand.v() * ipow(b, k as nat) + low.0.v(), exponent - k, j1 as nat, ret));
                if !far {
                    assert(rounded_at(R::md(), b, N, imin(El, Er), j1 as nat, ret));
                } else {
                    // the sentinel rounds like the true sum
                    let ld = ndigits(b, Sl) as int;
                    assert(j1 == 2);
                    lemma_ipow_mono(b, ndigits(b, Sr), rdigits_est as nat);
                    lemma_ipow_small(b);
                    lemma_far_result::<B>(R::md(), b, Sl, low.0.v(), sr, k as nat, j1 as nat, (El - Er) as nat, rdigits_est as nat, El - k, ret);
                    let j = ((El - Er) - k + j1) as nat;
                    assert(rounded_at(R::md(), b, N, imin(El, Er), j, ret));
                }
            }
        } @*/
    }
