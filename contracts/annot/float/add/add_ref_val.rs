//@ item: float/src/add.rs :: add_ref_val
fn add_ref_val<R: Round, const B: Word>(
    lhs: &FBig<R, B>,
    mut rhs: FBig<R, B>,
    rhs_sign: Sign,
) -> FBig<R, B>
/*@[!must_panic]
    requires
        B >= 2,
        finite(lhs.repr), finite(rhs.repr),                        // finite operands (documented panic otherwise)
        // C03 domain: operands that fit the (larger) precision
        add_fits(B as int, umax(lhs.context.precision, rhs.context.precision), lhs.repr.significand.v(), rhs.repr.significand.v()),
        add_ranges(B as int, umax(lhs.context.precision, rhs.context.precision), lhs.repr.significand.v(), lhs.repr.exponent as int,
            rhs.repr.significand.v(), rhs.repr.exponent as int),
    ensures
        // C03 / C15: the same statement for the four operand forms (and the same as for Context::add / sub)
        add_post_of(R::md(), B as int, umax(lhs.context.precision, rhs.context.precision), lhs.repr.significand.v(),
            lhs.repr.exponent as int, rhs_sign, rhs.repr.significand.v(), rhs.repr.exponent as int, ret.repr),
        ret.context.precision == umax(lhs.context.precision, rhs.context.precision),
@*/
/*@[must_panic]
    // C16 "arithmetic on infinities panics": an infinite operand ==> no normal return (in particular the zero shortcuts
    // must not be taken before the check)
    requires B >= 2, !finite(lhs.repr) || !finite(rhs.repr),
    ensures false,
@*/
{
    /*@ broadcast use round_int_axioms; @*/
    assert_finite_operands(&lhs.repr, &rhs.repr);

    let context = Context::max(lhs.context, rhs.context);
    /*@ let ghost b = B as int;
        let ghost (Sl, El, Sr, Er) = (lhs.repr.significand.v(), lhs.repr.exponent as int, rhs.repr.significand.v(), rhs.repr.exponent as int);
        let ghost sr = sgn_apply(rhs_sign, Sr);
        proof { lemma_ndigits_ub(b, Sl); lemma_ndigits_ub(b, Sr); lemma_ndigits_neg(b, Sr); } @*/
    rhs.repr.significand *= rhs_sign;
    let sum = if lhs.repr.is_zero() {
        /*@ proof { lemma_add_zero_of::<B>(R::md(), b, context.precision, Sl, El, rhs_sign, Sr, Er); } @*/
        rhs.repr
    } else if rhs.repr.is_zero() {
        /*@ proof { lemma_add_zero_of::<B>(R::md(), b, context.precision, Sl, El, rhs_sign, Sr, Er); } @*/
        lhs.repr.clone()
    } else {
        /*@ proof {
            if El == Er {
                let n = (if context.precision == 0 { if ndigits(b, Sl) >= ndigits(b, Sr) { ndigits(b, Sl) } else { ndigits(b, Sr) } } else { context.precision as nat });
                lemma_ipow_mono(b, ndigits(b, Sl), n);
                lemma_ipow_mono(b, ndigits(b, Sr), n);
                lemma_ndigits_sum(b, Sl, sr, n);
                lemma_new_then_round::<B>(R::md(), b, context.precision, Sl + sr, El);
                assert(ipow(b, 0) == 1);
                assert(exact_sum(b, Sl, El, rhs_sign, Sr, Er) == Sl + sr) by (nonlinear_arith)
                    requires exact_sum(b, Sl, El, rhs_sign, Sr, Er) == Sl * 1 + sr * 1;
            }
        } @*/
        /*@ proof {
            // the sign has been folded into rhs: the helpers are called with (Sl, sr, Positive)
            assert(exact_sum(b, Sl, El, Sign::Positive, sr, Er) == exact_sum(b, Sl, El, rhs_sign, Sr, Er));
            assert(exact_sum(b, sr, Er, Sign::Positive, Sl, El) == exact_sum(b, Sl, El, rhs_sign, Sr, Er));
            assert(true_sub(Sl, Sign::Positive, sr) == true_sub(Sl, rhs_sign, Sr));
            assert(true_sub(sr, Sign::Positive, Sl) == true_sub(Sl, rhs_sign, Sr));
        } @*/
        match lhs.repr.exponent.cmp(&rhs.repr.exponent) {
            Ordering::Equal => context.repr_round(Repr::new(
                &lhs.repr.significand + rhs.repr.significand,
                lhs.repr.exponent,
            )),
            Ordering::Greater => context.repr_add_small_large(rhs.repr, &lhs.repr, Positive),
            Ordering::Less => context.repr_add_large_small(rhs.repr, &lhs.repr, Positive),
        }
        .value()
    };
    FBig::new(sum, context)
}
