//@ item: float/src/utils.rs :: split_bits
fn split_bits(value: IBig, n: usize) -> (IBig, IBig)
/*@
    ensures
        // "returns (hi, lo) and preserving the sign": the truncating division by 2^n
        is_trunc_divrem(value.v(), ipow(2, n as nat), ret.0.v(), ret.1.v()),
@*/
{
    /*@ broadcast use round_int_axioms; @*/
    let (sign, mag) = value.into_parts();
    /*@ proof {
        lemma_ipow_pos(2, n as nat);
        lemma_du_trunc_signed(sign, mag.v(), ipow(2, n as nat));
        lemma_du_trunc_signed(Sign::Positive, 0, ipow(2, n as nat));
    } @*/
    let (lo, hi) = mag.split_bits(n);
    (IBig::from_parts(sign, hi), IBig::from_parts(sign, lo))
}
