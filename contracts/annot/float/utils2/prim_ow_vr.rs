//@ item: float/src/helper_macros.rs :: macro impl_binop_with_primitive_one_way#0 :: impl<'r, R: Round, const B: Word> $trait<&'r $target> for FBig<R, B> :: $method
fn $method(self, rhs: &$target) -> Self::Output
/*@[u64] #[hoist(Self = (FBig<R, B>), Output = (FBig<R, B>), Name = prim_ow_vr, Generics = ['r, R: Round, const B: Word])] @*/
/*@[i32] #[hoist(Self = (FBig<R, B>), Output = (FBig<R, B>), Name = prim_ow_vr, Generics = ['r, R: Round, const B: Word])] @*/
/*@[UBig] #[hoist(Self = (FBig<R, B>), Output = (FBig<R, B>), Name = prim_ow_vr, Generics = ['r, R: Round, const B: Word])] @*/
/*@[IBig] #[hoist(Self = (FBig<R, B>), Output = (FBig<R, B>), Name = prim_ow_vr, Generics = ['r, R: Round, const B: Word])] @*/
/*@
    ensures
        // C03 "by-value, by-reference and primitive-operand forms agree": the FBig-level operator applied to the two operands
        // IN THIS ORDER, the integer operand converted exactly (FBig::from)
        ret == fop(self, fbig_from_int::<R, B>(rhs.pv())),
@*/
{
                self.$method(FBig::<R, B>::from(rhs.clone()))
}
