//@ item: float/src/utils.rs :: base_as_ibig
pub const fn base_as_ibig<const B: Word>() -> IBig
/*@ ensures ret.v() == B as int, @*/
{
    IBig::from_parts_const(Sign::Positive, B as DoubleWord)
}
