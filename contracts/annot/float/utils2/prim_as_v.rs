//@ item: float/src/helper_macros.rs :: macro impl_binop_assign_with_primitive#0 :: impl<R: Round, const B: Word> $trait<$target> for FBig<R, B> :: $method
fn $method(&mut self, rhs: $target)
/*@ #[hoist(Self = (FBig<R, B>), Name = prim_as_v, Generics = [R: Round, const B: Word])] @*/
/*@
    ensures
        // C03: `f op= n` is `f = f op FBig::from(n)`, operands in this order
        *final(self) == fop(*old(self), fbig_from_int::<R, B>(rhs.pv())),
@*/
{
                self.$method(FBig::from(rhs))
}
