//@ item: float/src/utils.rs :: split_bits_ref
fn split_bits_ref(value: &IBig, n: usize) -> (IBig, IBig)
/*@
    requires n > 0,         // debug assertion of the function; its only caller split_digits_ref passes pos * k, pos != 0, k >= 1
    ensures
        // "value == hi * 2^n + lo, |lo| < 2^n, the sign is applied to both parts": the truncating division by 2^n
        is_trunc_divrem(value.v(), ipow(2, n as nat), ret.0.v(), ret.1.v()),
@*/
{
    /*@ broadcast use round_int_axioms; @*/
    /*@ proof { lemma_ipow_pos(2, n as nat); } @*/
    debug_assert!(n > 0);
    if value.is_zero() {
        return (IBig::ZERO, IBig::ZERO);
    }

    let (sign, words) = value.as_sign_words();
    let n_words = n / Word::BITS as usize;
    if n_words >= words.len() {
        // shortcut if n is very large
        /*@ proof { lemma_du_small(words@, n as nat); } @*/
        return (IBig::ZERO, value.clone());
    }

    /*@ proof {
        lemma_du_split_words(words@, n as int, n_words as int, (n % 64) as int);
        lemma_du_trunc_signed(sign, wl::val(words@), ipow(2, n as nat));
    } @*/
    let mut hi = UBig::from_words(&words[n_words..]);
    hi >>= n % Word::BITS as usize;
    let mut lo = UBig::from_words(&words[..n_words + 1]);
    lo.clear_high_bits(n);

    (IBig::from_parts(sign, hi), IBig::from_parts(sign, lo))
}
