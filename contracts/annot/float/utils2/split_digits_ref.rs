//@ item: float/src/utils.rs :: split_digits_ref
pub fn split_digits_ref<const B: Word>(value: &IBig, pos: usize) -> (IBig, IBig)
/*@
    requires B >= 2,
        pos * 64 <= usize::MAX,     // resource: the bit count pos * log2(B) of the power-of-two branch fits usize
    ensures
        // "Split the integer at given digit position. Return the high part and low part, and the sign is applied to both
        // parts": value == hi * B^pos + lo, |lo| < B^pos, lo == 0 or sign(lo) == sign(value)
        is_trunc_divrem(value.v(), ipow(B as int, pos as nat), ret.0.v(), ret.1.v()),
@*/
{
    /*@ broadcast use round_int_axioms; @*/
    /*@ proof { lemma_ipow_pos(B as int, pos as nat); } @*/
    if pos != 0 {
        /*@ proof { if B != 0 && (B & ((B - 1) as u64)) == 0 { lemma_du_pow2_base(B, pos as nat); } } @*/
        match B {
            10 => {
                let (q, rem1) = split_bits_ref(value, pos);
                /*@ let ghost q1 = q.v(); proof { lemma_ipow_pos(5, pos as nat); } @*/
                let (q, rem2) = q.div_rem(IBig::from(5).pow(pos));
                /*@ proof { lemma_du_split10(value.v(), pos as nat, q1, rem1.v(), q.v(), rem2.v()); } @*/
                let rem = (rem2 << pos) + rem1;
                (q, rem)
            }
            i if i.is_power_of_two() => split_bits_ref(value, pos * i.trailing_zeros() as usize),
            _ => value.div_rem(base_as_ibig::<B>().pow(pos)),
        }
    } else {
        /*@ proof { assert(ipow(B as int, 0) == 1); } @*/
        (value.clone(), IBig::ZERO)
    }
}
