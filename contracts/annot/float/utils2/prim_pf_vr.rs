//@ item: float/src/helper_macros.rs :: macro impl_binop_with_primitive#0 :: impl<'r, R: Round, const B: Word> $trait<&'r FBig<R, B>> for $target :: $method
fn $method(self, rhs: &FBig<R, B>) -> Self::Output
/*@[u64] #[hoist(Self = u64, Output = (FBig<R, B>), Name = prim_pf_vr, Generics = ['r, R: Round, const B: Word])] @*/
/*@[i32] #[hoist(Self = i32, Output = (FBig<R, B>), Name = prim_pf_vr, Generics = ['r, R: Round, const B: Word])] @*/
/*@[UBig] #[hoist(Self = UBig, Output = (FBig<R, B>), Name = prim_pf_vr, Generics = ['r, R: Round, const B: Word])] @*/
/*@[IBig] #[hoist(Self = IBig, Output = (FBig<R, B>), Name = prim_pf_vr, Generics = ['r, R: Round, const B: Word])] @*/
/*@
    ensures
        // C03 "by-value, by-reference and primitive-operand forms agree": the FBig-level operator applied to the two operands
        // IN THIS ORDER, the integer operand converted exactly (FBig::from)
        ret == fop(fbig_from_int::<R, B>(self.pv()), *rhs),
@*/
{
                FBig::<R, B>::from(self).$method(rhs)
}
