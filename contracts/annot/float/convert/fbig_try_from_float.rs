//@ item: float/src/convert.rs :: macro impl_from_float_for_fbig#0 :: impl<R: Round> TryFrom<$t> for FBig<R, 2> :: try_from
fn try_from(f: $t) -> Result<Self, Self::Error>
/*@ #[hoist(Self = FB2<R>, Error = ConversionError, INFINITY = fbig_infinity::<R>(), NEG_INFINITY = fbig_neg_infinity::<R>(), new = FB2::<R>::new)] @*/
/*@[f32] ensures fbig_from_float_ok(fmt32(), fields32(f), ret), @*/
/*@[f64] ensures fbig_from_float_ok(fmt64(), fields64(f), ret), @*/
{
                /*@ broadcast use round_int_axioms; @*/
                // resource limit of Repr::new (exponent overflow, C16) DISCHARGED: i32/i64 mantissa, i16 exponent
                /*@ proof { lemma_exp_room_prim(); } @*/
                match f.decode() {
                    Ok((man, exp)) => {
                        let repr = Repr::new(man.into(), exp as _);

                        // The precision is inferenced from the mantissa, because the mantissa of
                        // normal float is always normalized. This will produce correct precision
                        // for subnormal floats
                        let bits = man.unsigned_abs().bit_len();
                        let context = Context::new(bits);
                        Ok(Self::new(repr, context))
                    }
                    Err(FpCategory::Infinite) => match f.sign() {
                        Sign::Positive => Ok(Self::INFINITY),
                        Sign::Negative => Ok(Self::NEG_INFINITY),
                    },
                    _ => Err(ConversionError::OutOfBounds), // NaN
                }
            }
