//@ item: float/src/convert.rs :: impl<const B: Word> Repr<B> :: to_int
pub fn to_int(&self) -> Rounded<IBig>
/*@
    requires
        B >= 2,
        !(self.significand.v() == 0 && self.exponent != 0),           // finite (documented panic otherwise)
        self.significand.v() == 0 || self.significand.v() % (B as int) != 0,      // normalized (invariant of Repr::new)
        self.exponent > isize::MIN,                                    // `-self.exponent` (overflow of isize is outside this contract)
        // resource limit: exponent overflow is a documented panic (C16), not modelled: `shl_digits` / `shr_digits` by
        // |exponent| digits compute the bit position `|exponent| * log2(B)` in usize
        pos_room(iabs(self.exponent as int)),
    ensures
        // C10: "The fractional part is always rounded to zero": the integer is the rounding towards zero of
        // significand * B^exponent, Exact iff the value is an integer, otherwise flagged NoOp (= truncated)
        self.exponent >= 0 ==> (ret matches Approximation::Exact(i) && i.v() == self.significand.v() * ipow(B as int, self.exponent as nat)),
        self.exponent < 0 ==> (ret matches Approximation::Inexact(i, adj) && adj == Rounding::NoOp
            && round_def(Mode::Zero, self.significand.v(), ipow(B as int, (-(self.exponent as int)) as nat), i.v())
            && i.v() * ipow(B as int, (-(self.exponent as int)) as nat) != self.significand.v()),
@*/
{
        /*@ broadcast use round_int_axioms; @*/
        assert_finite(self);

        if self.exponent >= 0 {
            // the number is already an integer
            Exact(shl_digits::<B>(&self.significand, self.exponent as usize))
        } else if self.smaller_than_one() {
            /*@ proof {
                let d = ipow(B as int, (-(self.exponent as int)) as nat);
                lemma_ipow_pos(B as int, (-(self.exponent as int)) as nat);
                assert(0 * d == 0);
            } @*/
            // the number is definitely smaller than
            Inexact(IBig::ZERO, Rounding::NoOp)
        } else {
            let int = shr_digits::<B>(&self.significand, (-self.exponent) as usize);
            /*@ proof {
                let k = (-(self.exponent as int)) as nat;
                let d = ipow(B as int, k);
                lemma_ipow_pos(B as int, k);
                let lo = choose|lo: int| #[trigger] is_trunc_divrem(self.significand.v(), d, int_.v(), lo);
                lemma_divrem_facts(self.significand.v(), d, int_.v(), lo);
                lemma_normalized_lo(self.significand.v(), B as int, k, int_.v(), lo);
            } @*/
            Inexact(int, Rounding::NoOp)
        }
    }
