//@ item: float/src/convert.rs :: macro impl_from_float_for_fbig#0 :: impl TryFrom<$t> for Repr<2> :: try_from
fn try_from(f: $t) -> Result<Self, Self::Error>
/*@ #[hoist(Self = Repr2, Error = ConversionError)] @*/
/*@[f32] ensures from_float_ok(fmt32(), fields32(f), ret), @*/
/*@[f64] ensures from_float_ok(fmt64(), fields64(f), ret), @*/
{
                /*@ broadcast use round_int_axioms; @*/
                // resource limit of Repr::new (exponent overflow, C16) DISCHARGED: i32/i64 mantissa, i16 exponent
                /*@ proof { lemma_exp_room_prim(); } @*/
                match f.decode() {
                    Ok((man, exp)) => Ok(Repr::new(man.into(), exp as _)),
                    Err(FpCategory::Infinite) => match f.sign() {
                        Sign::Positive => Ok(Self::infinity()),
                        Sign::Negative => Ok(Self::neg_infinity()),
                    },
                    _ => Err(ConversionError::OutOfBounds), // NaN
                }
            }
