//@ item: float/src/convert.rs :: impl<const B: Word> Repr<B> :: into_f32_internal
fn into_f32_internal(self) -> Rounded<f32>
/*@
    requires
        B == 2,
        !(self.significand.v() == 0 && self.exponent != 0),          // finite
        blen(self.significand.v()) <= 24,                             // "already rounded to 24 binary bits"
    ensures
        // C06, value: the RNE rounding of significand * 2^exponent (+-inf at/above 2^1024, +-0 below 2^-1075), and
        // `Exact` exactly when nothing was lost
        rr32_val_ok(ret, self.significand.v() < 0, sc_num(absi(self.significand.v()), self.exponent as int), sc_den(self.exponent as int)),
        // C06, flag: the Rounding tells the true sign of the error (NoOp = towards zero, AddOne = above, SubOne = below)
        rr32_flag_ok(ret, self.significand.v() < 0, sc_num(absi(self.significand.v()), self.exponent as int), sc_den(self.exponent as int)),
@*/
{
        /*@ broadcast use round_int_axioms, ax_blen, ax_f32_neg; @*/
        /*@ let ghost sig = self.significand.v(); let ghost ex = self.exponent as int; let ghost neg = sig < 0; @*/
        assert!(B == 2);
        debug_assert!(self.is_finite());
        debug_assert!(self.significand.bit_len() <= 24);

        let sign = self.sign();
        /*@ proof {
            lemma2_to64(); lemma2_to64_rest();
            if sig != 0 { lemma_pow2_mono(blen(sig), 24); }
        } @*/
        let man24: i32 = self.significand.try_into().unwrap();
        if self.exponent >= 128 {
            /*@ proof {
                // finite and exponent != 0: significand != 0, so |x| >= 2^exponent >= 2^1024
                let a = absi(sig);
                let pe = pow2(ex as nat) as int;
                lemma_pow2_mono(128, ex as nat);
                assert(a * pe >= pe) by (nonlinear_arith) requires a >= 1, pe >= 0;
                lemma_overflow(fmt32(), neg, a * pe, 128);
            } @*/
            // max f64 = 2^1024 × (1 − 2^−53)
            match sign {
                Sign::Positive => Inexact(f32::INFINITY, Rounding::AddOne),
                Sign::Negative => Inexact(f32::NEG_INFINITY, Rounding::SubOne),
            }
        } else if self.exponent < -149 - 24 {
            /*@ proof {
                lemma_underflow(fmt32(), neg, absi(sig), ex, 24);
            } @*/
            // min f64 = 2^-1074
            Inexact(sign * 0f32, Rounding::NoOp)
        } else {
            match f32::encode(man24, self.exponent as i16) {
                Exact(v) => Exact(v),
                // this branch only happens when the result underflows or overflows:
                // tell whether encode rounded away from zero or towards zero
                Inexact(v, e) => Inexact(
                    v,
                    match (sign, e) {
                        (Sign::Positive, Sign::Positive) => Rounding::AddOne,
                        (Sign::Negative, Sign::Negative) => Rounding::SubOne,
                        _ => Rounding::NoOp,
                    },
                ),
            }
        }
    }
