//@ item: float/src/convert.rs :: impl<R: Round, const B: Word> FBig<R, B> :: with_precision
pub fn with_precision(self, precision: usize) -> Rounded<Self>
/*@
    requires
        B >= 2,
        !(self.repr.significand.v() == 0 && self.repr.exponent != 0),           // finite
        fbig_wf(self),                                                           // documented FBig invariant
        // exponent range: the new exponent must be representable (overflow of isize is outside this contract)
        self.repr.exponent as int + ndigits(B as int, self.repr.significand.v()) <= isize::MAX,
        ndigits(B as int, self.repr.significand.v()) <= isize::MAX,
        // resource limit: exponent overflow is a documented panic (C16), not modelled (digit position of the split in repr_round)
        pos_room(ndigits(B as int, self.repr.significand.v()) as int),
    ensures
        // C08/C10: ONE correct rounding (mode R) of the exact value to `precision` digits, truthful flag
        round_once(R::md(), B as int, precision, self.repr.significand.v(), self.repr.exponent as int, map_repr(ret)),
        rd_val(ret).context.precision == precision,
@*/
{
        let new_context = Context::new(precision);

        // shrink if necessary (a finite number of unlimited precision may hold any number of digits)
        let repr = if self.context.precision > precision
            || (self.context.precision == 0 && self.repr.is_finite())
        {
            // it also handles unlimited precision
            new_context.repr_round(self.repr)
        } else {
            Exact(self.repr)
        };

        repr.map(|v| /*@ -> (r: FBig<R, B>) ensures r.repr == v, r.context == new_context @*/ Self::new(v, new_context))
    }
