//@ item: float/src/repr.rs :: impl<const B: Word> Repr<B> :: sign
pub const fn sign(&self) -> Sign
/*@
    ensures
        self.significand.v() > 0 ==> ret == Sign::Positive,
        self.significand.v() < 0 ==> ret == Sign::Negative,
        self.significand.v() == 0 ==> ret == (if self.exponent >= 0 { Sign::Positive } else { Sign::Negative }),
@*/
{
        if self.significand.is_zero() {
            if self.exponent >= 0 {
                Sign::Positive
            } else {
                Sign::Negative
            }
        } else {
            self.significand.sign()
        }
    }
