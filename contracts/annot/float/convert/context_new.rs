//@ item: float/src/repr.rs :: impl<R: Round> Context<R> :: new
pub const fn new(precision: usize) -> Self
/*@
    ensures ret.precision == precision,
@*/
{
        Self {
            precision,
            _marker: PhantomData,
        }
    }
