//@ item: float/src/convert.rs :: impl<const B: Word> Repr<B> :: into_f64_internal
fn into_f64_internal(self) -> Rounded<f64>
/*@
    requires
        B == 2,
        !(self.significand.v() == 0 && self.exponent != 0),          // finite
        blen(self.significand.v()) <= 53,                             // "already rounded to 53 binary bits"
    ensures
        // C06, value: the RNE rounding of significand * 2^exponent (+-inf at/above 2^1024, +-0 below 2^-1075), and
        // `Exact` exactly when nothing was lost
        rr64_val_ok(ret, self.significand.v() < 0, sc_num(absi(self.significand.v()), self.exponent as int), sc_den(self.exponent as int)),
        // C06, flag: the Rounding tells the true sign of the error (NoOp = towards zero, AddOne = above, SubOne = below)
        rr64_flag_ok(ret, self.significand.v() < 0, sc_num(absi(self.significand.v()), self.exponent as int), sc_den(self.exponent as int)),
@*/
{
        /*@ broadcast use round_int_axioms, ax_blen, ax_f64_neg; @*/
        /*@ let ghost sig = self.significand.v(); let ghost ex = self.exponent as int; let ghost neg = sig < 0; @*/
        assert!(B == 2);
        debug_assert!(self.is_finite());
        debug_assert!(self.significand.bit_len() <= 53);

        let sign = self.sign();
        /*@ proof {
            lemma2_to64(); lemma2_to64_rest();
            if sig != 0 { lemma_pow2_mono(blen(sig), 53); }
        } @*/
        let man53: i64 = self.significand.try_into().unwrap();
        if self.exponent >= 1024 {
            /*@ proof {
                // finite and exponent != 0: significand != 0, so |x| >= 2^exponent >= 2^1024
                let a = absi(sig);
                let pe = pow2(ex as nat) as int;
                lemma_pow2_mono(1024, ex as nat);
                assert(a * pe >= pe) by (nonlinear_arith) requires a >= 1, pe >= 0;
                lemma_overflow(fmt64(), neg, a * pe, 1024);
            } @*/
            // max f64 = 2^1024 × (1 − 2^−53)
            match sign {
                Sign::Positive => Inexact(f64::INFINITY, Rounding::AddOne),
                Sign::Negative => Inexact(f64::NEG_INFINITY, Rounding::SubOne),
            }
        } else if self.exponent < -1074 - 53 {
            /*@ proof {
                lemma_underflow(fmt64(), neg, absi(sig), ex, 53);
            } @*/
            // min f64 = 2^-1074
            Inexact(sign * 0f64, Rounding::NoOp)
        } else {
            match f64::encode(man53, self.exponent as i16) {
                Exact(v) => Exact(v),
                // this branch only happens when the result underflows or overflows:
                // tell whether encode rounded away from zero or towards zero
                Inexact(v, e) => Inexact(
                    v,
                    match (sign, e) {
                        (Sign::Positive, Sign::Positive) => Rounding::AddOne,
                        (Sign::Negative, Sign::Negative) => Rounding::SubOne,
                        _ => Rounding::NoOp,
                    },
                ),
            }
        }
    }
