//@ item: float/src/repr.rs :: impl<const B: Word> Repr<B> :: is_finite
pub const fn is_finite(&self) -> bool
/*@
    ensures ret == !(self.significand.v() == 0 && self.exponent != 0),
@*/
{
        !self.is_infinite()
    }
