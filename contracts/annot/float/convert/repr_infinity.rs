//@ item: float/src/repr.rs :: impl<const B: Word> Repr<B> :: infinity
pub const fn infinity() -> Self
/*@
    ensures ret.significand.v() == 0, ret.exponent == 1,
@*/
{
        /*@ broadcast use round_int_axioms; @*/
        Self {
            significand: IBig::ZERO,
            exponent: 1,
        }
    }
