//@ item: float/src/fbig.rs :: impl<R: Round, const B: Word> FBig<R, B> :: new
pub(crate) const fn new(repr: Repr<B>, context: Context<R>) -> Self
/*@
    ensures ret.repr == repr, ret.context == context,
@*/
{
        Self { repr, context }
    }
