//@ item: float/src/utils.rs :: shr_digits
pub fn shr_digits<const B: Word>(value: &IBig, exp: usize) -> IBig
/*@
    requires B >= 2,
        exp * 64 <= usize::MAX,     // resource (pos_room): the bit count exp * log2(B) of the power-of-two branch fits usize
    ensures
        // "Right shifting in given radix, i.e. divide by a power of radix": value == ret * B^exp + lo, |lo| < B^exp,
        // lo == 0 or sign(lo) == sign(value) -- the quotient TRUNCATED TOWARDS ZERO (C10 Zero mode / C08 to_int)
        exists|lo: int| #[trigger] is_trunc_divrem(value.v(), ipow(B as int, exp as nat), ret.v(), lo),
@*/
{
    /*@ #[ref_lhs(value)] @*/     // rule D11h; placed in the body so that a `//@@ SIG` of this copy does not see it
    /*@ broadcast use round_int_axioms; @*/
    if exp == 0 {
        /*@ proof {
            assert(ipow(B as int, 0) == 1);
            assert(is_trunc_divrem(value.v(), ipow(B as int, exp as nat), value.v(), 0));
        } @*/
        return value.clone();
    }

    /*@ proof {
        lemma_ipow_pos(5, exp as nat);
        lemma_ipow_pos(B as int, exp as nat);
        if B != 0 && (B & ((B - 1) as u64)) == 0 { lemma_du_pow2_base(B, exp as nat); }
    } @*/
    match B {
        2 => shr_ref(value, exp),
        10 => shr_ref(value, exp) / IBig::from(5).pow(exp),
        b if b.is_power_of_two() => shr_ref(value, exp * b.trailing_zeros() as usize),
        _ => value / base_as_ibig::<B>().pow(exp),
    }
    /*@ proof {
        let v = value.v();
        let p = exp as nat;
        if B == 2 {
            lemma_fu_tshr(v, p);
            assert(is_trunc_divrem(v, ipow(B as int, p), ret.v(), fu_tr(v, ipow(2, p))));
        } else if B == 10 {
            lemma_fu_shr10(v, p);
            assert(is_trunc_divrem(v, ipow(B as int, p), ret.v(), fu_tr(fu_tshr(v, p), ipow(5, p)) * ipow(2, p) + fu_tr(v, ipow(2, p))));
        } else if (B & ((B - 1) as u64)) == 0 {
            let n = p * (vstd::std_specs::bits::u64_trailing_zeros(B) as nat);
            lemma_fu_tshr(v, n);
            assert(is_trunc_divrem(v, ipow(B as int, p), ret.v(), fu_tr(v, ipow(2, n))));
        } else {
            lemma_fu_tq(v, ipow(B as int, p));
            assert(is_trunc_divrem(v, ipow(B as int, p), ret.v(), fu_tr(v, ipow(B as int, p))));
        }
    } @*/
}
