//@ item: float/src/utils.rs :: shl_digits
pub fn shl_digits<const B: Word>(value: &IBig, exp: usize) -> IBig
/*@
    requires B >= 2,
        exp * 64 <= usize::MAX,     // resource (pos_room): the bit count exp * log2(B) of the power-of-two branch fits usize
    ensures
        // "Left shifting in given radix, i.e. multiply by a power of radix"
        ret.v() == value.v() * ipow(B as int, exp as nat),
@*/
{
    /*@ #[ref_lhs(value)] @*/     // rule D11h; placed in the body so that a `//@@ SIG` of this copy does not see it
    /*@ broadcast use round_int_axioms; @*/
    if exp == 0 {
        /*@ proof { assert(ipow(B as int, 0) == 1); } @*/
        return value.clone();
    }

    /*@ proof {
        if B != 0 && (B & ((B - 1) as u64)) == 0 { lemma_du_pow2_base(B, exp as nat); }
        lemma_fu_shl10(value.v(), exp as nat);
    } @*/
    match B {
        2 => value << exp,
        10 => (value * IBig::from(5).pow(exp)) << exp,
        b if b.is_power_of_two() => value << (exp * b.trailing_zeros() as usize),
        _ => value * base_as_ibig::<B>().pow(exp),
    }
}
