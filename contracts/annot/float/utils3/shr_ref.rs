//@ item: float/src/utils.rs :: shr_ref
fn shr_ref(value: &IBig, shift: usize) -> IBig
/*@
    ensures
        // "here we only want to shift the magnitude": sign(value) * floor(|value| / 2^shift), i.e. the quotient of the division
        // by 2^shift truncated TOWARDS ZERO (IBig's own >> would round a negative value towards -infinity)
        ret.v() == fu_tshr(value.v(), shift as nat),
        exists|lo: int| #[trigger] is_trunc_divrem(value.v(), ipow(2, shift as nat), ret.v(), lo),
@*/
{
    /*@ broadcast use round_int_axioms; @*/
    let (sign, words) = value.as_sign_words();
    let n_words = shift / Word::BITS as usize;

    /*@ proof {
        lemma_fu_shr_words(words@, shift as nat, (if n_words <= words@.len() { n_words as int } else { words@.len() as int }));
        lemma_ipow_pos(2, (shift % 64) as nat);
        lemma_ipow_pos(2, shift as nat);
        vstd::arithmetic::div_mod::lemma_div_pos_is_pos(wl::val(words@), ipow(2, shift as nat));
        lemma_fu_tshr_parts(value.v(), shift as nat, sign, wl::val(words@) / ipow(2, shift as nat));
        lemma_fu_tshr(value.v(), shift as nat);
    } @*/
    let hi = UBig::from_words(&words[n_words.min(words.len())..]);
    IBig::from_parts(sign, hi >> (shift % Word::BITS as usize))
}
