//@ item: float/src/utils.rs :: shl_digits_in_place
pub fn shl_digits_in_place<const B: Word>(value: &mut IBig, exp: usize)
/*@
    requires B >= 2,
        exp * 64 <= usize::MAX,     // resource (pos_room): the bit count exp * log2(B) of the power-of-two branch fits usize
    ensures
        // "*value *= B^exp" (the in-place form of shl_digits)
        final(value).v() == old(value).v() * ipow(B as int, exp as nat),
@*/
{
    /*@ broadcast use round_int_axioms; @*/
    /*@ proof {
        assert(ipow(B as int, 0) == 1);
        if exp != 0 && B != 0 && (B & ((B - 1) as u64)) == 0 { lemma_du_pow2_base(B, exp as nat); }
        lemma_fu_shl10(old(value).v(), exp as nat);
    } @*/
    if exp != 0 {
        match B {
            2 => *value <<= exp,
            10 => {
                *value *= IBig::from(5).pow(exp);
                *value <<= exp;
            }
            b if b.is_power_of_two() => *value <<= exp * b.trailing_zeros() as usize,
            _ => *value *= base_as_ibig::<B>().pow(exp),
        }
    }
}
