//@ item: float/src/utils.rs :: digit_len
pub fn digit_len<const B: Word>(value: &IBig) -> usize
/*@
    requires B >= 2,
    ensures
        // "Returns the integer k such that B^(k-1) <= value < B^k. If value is 0, then k = 0 is returned."
        // (ndigits(b, v) is DEFINED by this enclosure on |v|, lib/round_float_repr.rs ax_ndigits)
        ret == ndigits(B as int, value.v()),
        value.v() == 0 ==> ret == 0,
        value.v() != 0 ==> ret >= 1 && ipow(B as int, (ret - 1) as nat) <= iabs(value.v()) && iabs(value.v()) < ipow(B as int, ret as nat),
@*/
{
    /*@ broadcast use round_int_axioms; @*/
    /*@ proof { ax_ndigits(B as int, value.v()); } @*/
    if value.is_zero() {
        return 0;
    };
    value.ilog(&UBig::from_word(B)) + 1
    /*@ proof { lemma_fu_ilog_ndigits(B as int, value.v(), (ret - 1) as nat); } @*/
}
