//@ item: float/src/error.rs :: panic_operate_with_inf
// Rule D4: the crate's diverging panic helper.  Default ("total") variant: precondition `false`, a verified caller
// proves the panic unreachable under its own precondition.  `must_panic` variant: it never returns (`panic!`), so a
// caller with contract `requires <infinite operand> ensures false` proves that no normal return is possible.
pub const fn panic_operate_with_inf() -> !
/*@[!must_panic] requires false, @*/
/*@[must_panic] ensures false, @*/
{
    panic!("arithmetic operations with the infinity are not allowed!")
}
