//@ item: float/src/error.rs :: assert_finite
pub const fn assert_finite<const B: Word>(repr: &Repr<B>)
/*@[!must_panic]
    requires finite(*repr),      // finite operand (documented panic otherwise)
@*/
/*@[must_panic]
    // C16 "arithmetic on infinities panics": with an infinite operand there is no normal return
    requires !finite(*repr),
    ensures false,
@*/
{
    if repr.is_infinite() {
        panic_operate_with_inf()
    }
}
