//@ item: base/src/approx.rs :: impl<T, E> Approximation<T, E> :: value
pub fn value(self) -> T
/*@
    ensures ret == rd_val0(self),
@*/
{
        match self {
            Self::Exact(v) => v,
            Self::Inexact(v, _) => v,
        }
    }
