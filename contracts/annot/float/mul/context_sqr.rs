//@ item: float/src/mul.rs :: impl<R: Round> Context<R> :: sqr
pub fn sqr<const B: Word>(&self, f: &Repr<B>) -> Rounded<FBig<R, B>>
/*@[!must_panic]
    requires
        B >= 2,
        !(f.significand.v() == 0 && f.exponent != 0),           // finite operand (documented panic otherwise)
        // C03 "operands that fit the context precision p": asked only up to 2p digits (longer operands are first
        // rounded to 2p digits: double rounding outside the property's domain)
        self.precision != 0 ==> ndigits(B as int, f.significand.v()) <= 2 * self.precision,
        // machine ranges (overflow of usize/isize is outside this contract)
        2 * self.precision <= usize::MAX,
        isize::MIN <= 2 * f.exponent <= isize::MAX,
        2 * f.exponent + ndigits(B as int, f.significand.v() * f.significand.v()) <= isize::MAX,
        ndigits(B as int, f.significand.v() * f.significand.v()) <= isize::MAX,
        // resource limit: exponent overflow is a documented panic (C16), not modelled (digit position of the split in repr_round)
        pos_room(ndigits(B as int, f.significand.v() * f.significand.v()) as int),
    ensures
        // C03: ONE correct rounding of the exact square f.sig^2 * B^(2 f.exp)
        round_val(R::md(), B as int, self.precision, f.significand.v() * f.significand.v(), 2 * f.exponent, map_repr(ret)),
        rd_val(ret).context == *self,
@*/
/*@[must_panic] requires B >= 2, !finite(*f), ensures false,   // C16: an infinite operand ==> no normal return
@*/
{
        /*@ broadcast use round_int_axioms, ax_ndigits; @*/
        assert_finite(f);

        // shrink the input operands if necessary
        let max_precision = if self.is_limited() {
            self.precision * 2
        } else {
            usize::MAX
        };

        let f_shrink;
        let f_repr = if f.digits() > max_precision {
            f_shrink = Context::<R>::new(max_precision).repr_round_ref(f).value();
            &f_shrink
        } else {
            f
        };
        /*@ proof {
            assert(f_repr.significand.v() == f.significand.v() && f_repr.exponent == f.exponent);
        } @*/

        let repr = Repr::new(f_repr.significand.sqr().into(), 2 * f_repr.exponent);
        /*@ proof {
            let (X, E) = (f.significand.v() * f.significand.v(), 2 * f.exponent);
            assert(norm_of(B as int, X, E, repr.significand.v(), repr.exponent as int));
            lemma_norm_of(B as int, X, E, repr.significand.v(), repr.exponent as int);
        } @*/
        self.repr_round(repr).map(|v| /*@ -> (r: FBig<R, B>) ensures r.repr == v, r.context == *self @*/ FBig::new(v, *self))
    }
