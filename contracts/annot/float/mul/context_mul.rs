//@ item: float/src/mul.rs :: impl<R: Round> Context<R> :: mul
pub fn mul<const B: Word>(&self, lhs: &Repr<B>, rhs: &Repr<B>) -> Rounded<FBig<R, B>>
/*@[!must_panic]
    requires
        B >= 2,
        !(lhs.significand.v() == 0 && lhs.exponent != 0),           // finite operands (documented panic otherwise)
        !(rhs.significand.v() == 0 && rhs.exponent != 0),
        // C03 "operands that fit the context precision p": asked only up to 2p digits (the code first rounds longer
        // operands to 2p digits, which is a double rounding outside the property's domain)
        self.precision != 0 ==> ndigits(B as int, lhs.significand.v()) <= 2 * self.precision
            && ndigits(B as int, rhs.significand.v()) <= 2 * self.precision,
        // machine ranges (overflow of usize/isize is outside this contract)
        2 * self.precision <= usize::MAX,
        isize::MIN <= lhs.exponent + rhs.exponent <= isize::MAX,
        lhs.exponent + rhs.exponent + ndigits(B as int, lhs.significand.v() * rhs.significand.v()) <= isize::MAX,
        ndigits(B as int, lhs.significand.v() * rhs.significand.v()) <= isize::MAX,
        // resource limit: exponent overflow is a documented panic (C16), not modelled (digit position of the split in repr_round)
        pos_room(ndigits(B as int, lhs.significand.v() * rhs.significand.v()) as int),
    ensures
        // C03: ONE correct rounding of the exact product (lhs.sig * rhs.sig) * B^(lhs.exp + rhs.exp)
        round_val(R::md(), B as int, self.precision, lhs.significand.v() * rhs.significand.v(),
            lhs.exponent + rhs.exponent, map_repr(ret)),
        rd_val(ret).context == *self,
@*/
/*@[must_panic] requires B >= 2, !finite(*lhs) || !finite(*rhs), ensures false,   // C16: an infinite operand ==> no normal return
@*/
{
        /*@ broadcast use round_int_axioms, ax_ndigits; @*/
        assert_finite_operands(lhs, rhs);

        // at most double the precision is required to get a correct result
        // shrink the input operands if necessary
        let max_precision = if self.is_limited() {
            self.precision * 2
        } else {
            usize::MAX
        };

        let lhs_shrink;
        let lhs_repr = if lhs.digits() > max_precision {
            lhs_shrink = Context::<R>::new(max_precision).repr_round_ref(lhs).value();
            &lhs_shrink
        } else {
            lhs
        };

        let rhs_shrink;
        let rhs_repr = if rhs.digits() > max_precision {
            rhs_shrink = Context::<R>::new(max_precision).repr_round_ref(rhs).value();
            &rhs_shrink
        } else {
            rhs
        };
        /*@ proof {
            assert(lhs_repr.significand.v() == lhs.significand.v() && lhs_repr.exponent == lhs.exponent);
            assert(rhs_repr.significand.v() == rhs.significand.v() && rhs_repr.exponent == rhs.exponent);
        } @*/

        let repr = Repr::new(
            &lhs_repr.significand * &rhs_repr.significand,
            lhs_repr.exponent + rhs_repr.exponent,
        );
        /*@ proof {
            let (X, E) = (lhs.significand.v() * rhs.significand.v(), lhs.exponent + rhs.exponent);
            assert(norm_of(B as int, X, E, repr.significand.v(), repr.exponent as int));
            lemma_norm_of(B as int, X, E, repr.significand.v(), repr.exponent as int);
            assert(norm_of(B as int, lhs.significand.v() * rhs.significand.v(), lhs.exponent + rhs.exponent,
                repr.significand.v(), repr.exponent as int));
        } @*/
        self.repr_round(repr).map(|v| /*@ -> (r: FBig<R, B>) ensures r.repr == v, r.context == *self @*/ FBig::new(v, *self))
    }
