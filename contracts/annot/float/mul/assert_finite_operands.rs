//@ item: float/src/error.rs :: assert_finite_operands
pub const fn assert_finite_operands<const B: Word>(lhs: &Repr<B>, rhs: &Repr<B>)
/*@[!must_panic]
    requires
        // both operands finite: the call of panic_operate_with_inf is proved unreachable exactly under this precondition
        finite(*lhs), finite(*rhs),
@*/
/*@[must_panic]
    // C16 "arithmetic on infinities panics": with an infinite operand there is no normal return
    requires !finite(*lhs) || !finite(*rhs),
    ensures false,
@*/
{
    if lhs.is_infinite() || rhs.is_infinite() {
        panic_operate_with_inf()
    }
}
