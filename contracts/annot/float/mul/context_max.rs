//@ item: float/src/repr.rs :: impl<R: Round> Context<R> :: max
pub const fn max(lhs: Self, rhs: Self) -> Self
/*@
    ensures ret.precision == umax(lhs.precision, rhs.precision),
@*/
{
        Self {
            // this comparison also correctly handles ulimited precisions (precision = 0)
            precision: if lhs.precision > rhs.precision {
                lhs.precision
            } else {
                rhs.precision
            },
            _marker: PhantomData,
        }
    }
