//@ item: float/src/mul.rs :: impl<'r, R: Round, const B: Word> Mul<&'r FBig<R, B>> for FBig<R, B> :: mul
fn mul(self, rhs: &FBig<R, B>) -> Self::Output
/*@ #[hoist(Self = (FBig<R, B>), Output = (FBig<R, B>), Name = fbig_mul_val_ref, Generics = ['r, R: Round, const B: Word])] @*/
/*@[!must_panic]
    requires
        B >= 2,
        finite(self.repr), finite(rhs.repr),                    // finite operands (documented panic otherwise)
        // machine ranges (overflow of isize is outside this contract)
        isize::MIN <= self.repr.exponent + rhs.repr.exponent <= isize::MAX,
        self.repr.exponent + rhs.repr.exponent + ndigits(B as int, self.repr.significand.v() * rhs.repr.significand.v()) <= isize::MAX,
        ndigits(B as int, self.repr.significand.v() * rhs.repr.significand.v()) <= isize::MAX,
        // resource limit: exponent overflow is a documented panic (C16), not modelled (digit position of the split in repr_round)
        pos_room(ndigits(B as int, self.repr.significand.v() * rhs.repr.significand.v()) as int),
    ensures
        // C03 / C15 (the same statement for the four operand forms): the value of ONE correct rounding of the exact
        // product at the larger of the two precisions
        round_val_of(R::md(), B as int, umax(self.context.precision, rhs.context.precision),
            self.repr.significand.v() * rhs.repr.significand.v(), self.repr.exponent + rhs.repr.exponent, ret.repr),
        ret.context.precision == umax(self.context.precision, rhs.context.precision),
@*/
/*@[must_panic] requires B >= 2, !finite(self.repr) || !finite(rhs.repr), ensures false,   // C16: an infinite operand ==> no normal return
@*/
{
        /*@ broadcast use round_int_axioms, ax_ndigits; @*/
        assert_finite_operands(&self.repr, &rhs.repr);

        let context = Context::max(self.context, rhs.context);
        /*@ let ghost X = self.repr.significand.v() * rhs.repr.significand.v();
            let ghost E = self.repr.exponent + rhs.repr.exponent; @*/
        let repr = Repr::new(
            self.repr.significand * &rhs.repr.significand,
            self.repr.exponent + rhs.repr.exponent,
        );
        /*@ proof {
            assert(norm_of(B as int, X, E, repr.significand.v(), repr.exponent as int));
            lemma_norm_of(B as int, X, E, repr.significand.v(), repr.exponent as int);
        } @*/
        FBig::new(context.repr_round(repr).value(), context)
    }
