//@ item: float/src/utils.rs :: ilog_exact
pub const fn ilog_exact(n: Word, base: Word) -> u32
/*@
    requires
        base >= 2,
        // `pow *= base` must not overflow the word: true for every pair of bases below 2^32 (for larger ones the real
        // function panics in debug builds / does not terminate in release builds: outside this contract)
        (n as int - 1) * (base as int) <= Word::MAX,
    ensures
        // the exponent k >= 1 with base^k == n, or 0 if n is not such a power
        ret as nat == ilog_spec(n as int, base as int),
@*/
{
    if n < base {
        /*@ proof { lemma_ilog_spec_small(n as int, base as int); } @*/
        return 0;
    }

    let mut pow = base;
    let mut exp = 1;
    /*@ proof { reveal_with_fuel(ipow, 2); } @*/
    while pow < n
    /*@
        invariant
            base >= 2, (n as int - 1) * (base as int) <= Word::MAX,
            exp >= 1, pow as int == ipow(base as int, exp as nat),
            ipow(base as int, (exp - 1) as nat) < n,
        decreases (if pow < n { n - pow } else { 0 })
    @*/
    {
        /*@ proof {
            let (p, b, nn) = (pow as int, base as int, n as int);
            lemma_ipow_pos(b, exp as nat);
            assert(p * b <= (nn - 1) * b) by (nonlinear_arith) requires p <= nn - 1, b >= 2;
            assert(p * b >= 2 * p) by (nonlinear_arith) requires p >= 1, b >= 2;
            lemma_exp_small(b, exp as nat);
            assert(ipow(b, (exp + 1) as nat) == b * ipow(b, exp as nat));
        } @*/
        pow *= base;
        exp += 1;
    }

    if pow == n {
        /*@ proof { lemma_ilog_spec_is(n as int, base as int, exp as nat); } @*/
        exp
    } else {
        /*@ proof { lemma_ilog_spec_none(n as int, base as int, exp as nat); } @*/
        0
    }
}
