//@ item: float/src/convert.rs :: impl<R: Round, const B: Word> FBig<R, B> :: with_base_and_precision
pub fn with_base_and_precision<const NewB: Word>(
        self,
        precision: usize,
    ) -> Rounded<FBig<R, NewB>>
/*@
    // the public entry point: `convert_base` under the context of the REQUESTED precision, result tagged with it
    requires cb_pre::<B, NewB>(precision, self.repr),
    ensures cb_post::<R, B, NewB>(precision, self.repr, map_repr(ret)),
        rd_val0(ret).context.precision == precision,
@*/
{
        let context = Context::<R>::new(precision);
        context
            .convert_base(self.repr)
            .map(|repr| /*@ -> (r: FBig<R, NewB>) ensures r.repr == repr, r.context == context @*/ FBig::new(repr, context))
    }
