//@ item: float/src/convert.rs :: impl<R: Round> Context<R>#1 :: convert_base
fn convert_base<const B: Word, const NewB: Word>(&self, repr: Repr<B>) -> Rounded<Repr<NewB>>
/*@
    // the contract is spelled out in lib/fio_convbase.rs (shared with the public wrapper `with_base_and_precision`):
    //   cb_pre : B, NewB >= 2; the operand is in normal form; the case is one of the INTEGER-ONLY shortcuts (same base, an
    //            infinity, NewB a power of B, B a power of NewB); exponent ranges
    //   cb_post: the same infinity; otherwise exists (s1, e1) with s1 * NewB^e1 == sig * B^e and `ret` is ONE correct
    //            rounding of it to the target precision under R with a truthful flag (round_once); Exact results normalised
    requires cb_pre::<B, NewB>(self.precision, repr),
    ensures cb_post::<R, B, NewB>(self.precision, repr, ret),
@*/
{
        /*@ broadcast use round_int_axioms, ax_ndigits; @*/
        // shortcut if NewB is the same as B (only the rounding to the target precision is left)
        if NewB == B {
            /*@ proof {
                lemma_same_value_refl(B as int, repr.significand.v(), repr.exponent as int);
                assert(xsame(B as int, NewB as int, repr.significand.v(), repr.exponent as int, repr.significand.v(), repr.exponent as int));
            } @*/
            let repr = Repr {
                significand: repr.significand,
                exponent: repr.exponent,
            };
            return if repr.is_infinite() {
                Exact(repr)
            } else {
                self.repr_round(repr)
            };
        }

        // shortcut for infinities, no rounding happens but the result is inexact
        if repr.is_infinite() {
            return Inexact(
                Repr {
                    significand: repr.significand,
                    exponent: repr.exponent,
                },
                Rounding::NoOp,
            );
        }

        if NewB > B {
            // shortcut if NewB is a power of B
            let n = ilog_exact(NewB, B);
            if n > 1 {
                /*@ proof {
                    lemma_ilog_pow(NewB as int, B as int);
                } @*/
                let (exp, rem) = repr.exponent.div_rem_euclid(n as isize);
                /*@ proof {
                    lemma_ipow_strict(B as int, rem as nat, n as nat);
                } @*/
                let signif = repr.significand * B.pow(rem as u32);
                /*@ let ghost (sig0, e0) = (repr.significand.v(), repr.exponent as int); @*/
                /*@ proof {
                    // room for the exponent of Repr::new: (signif, exp) is one of the representations cb_pre speaks about
                    assert(e0 - n * exp == rem);
                    assert(same_value(B as int, signif.v(), n * exp, sig0, e0));
                    assert(exp_in_range(NewB as int, signif.v(), exp as int));
                } @*/
                let repr = Repr::new(signif, exp);
                /*@ proof {
                    lemma_rebase_up(B as int, NewB as int, n as nat, sig0, e0, rem as int, signif.v(), exp as int,
                                    repr.significand.v(), repr.exponent as int);
                    if repr.significand.v() == 0 {
                        lemma_same_value_zero(NewB as int, repr.significand.v(), repr.exponent as int, signif.v(), exp as int);
                    }
                    assert(xsame(B as int, NewB as int, sig0, e0, repr.significand.v(), repr.exponent as int));
                } @*/
                return self.repr_round(repr);
            }
        } else {
            // shortcut if B is a power of NewB
            let n = ilog_exact(B, NewB);
            if n > 1 {
                let exp = repr.exponent * n as isize;
                /*@ let ghost (sig0, e0) = (repr.significand.v(), repr.exponent as int); @*/
                /*@ proof {
                    // every representation Repr::new may return is the same number in the new base, inside the exponent
                    // range, and zero only if the operand is zero
                    assert forall|s1: int, e1: int| #[trigger] same_value(NewB as int, s1, e1, sig0, exp as int)
                        implies xsame(B as int, NewB as int, sig0, e0, s1, e1) && exp_in_range(NewB as int, s1, e1)
                            && (s1 == 0 ==> sig0 == 0) by {
                        if s1 == 0 { lemma_same_value_zero(NewB as int, s1, e1, sig0, exp as int); }
                    }
                    // room for the exponent of Repr::new: (sig0, exp) itself is one of these representations
                    lemma_same_value_refl(NewB as int, sig0, exp as int);
                    assert(exp_in_range(NewB as int, sig0, exp as int));
                } @*/
                return self.repr_round(Repr::new(repr.significand, exp));
            }
        }

        /*@ proof { assert(false); } @*/     // the shortcut region never gets past this point
        /*@ #[cut_tail] @*/
        // if the base cannot be converted losslessly, the precision must be set
        if self.precision == 0 {
            panic_unlimited_precision();
        }

        // XXX: there's a potential optimization: if B is a multiple of NewB, then the factor B
        // should be trivially removed first, but this requires full support of const generics.

        // choose a exponent threshold such that number with exponent smaller than this value
        // will be converted by directly evaluating the power. The threshold here is chosen such
        // that the power under base 10 will fit in a double word.
        const THRESHOLD_SMALL_EXP: isize = (Word::BITS as f32 * 0.60206) as isize; // word bits * 2 / log2(10)
        if repr.exponent.abs() <= THRESHOLD_SMALL_EXP {
            // if the exponent is small enough, directly evaluate the exponent
            if repr.exponent >= 0 {
                let signif = repr.significand * Repr::<B>::BASE.pow(repr.exponent as usize);
                self.repr_round(Repr::new(signif, 0))
            } else {
                let num = Repr::new(repr.significand, 0);
                let den = Repr::new(Repr::<B>::BASE.pow(-repr.exponent as usize).into(), 0);
                self.repr_div(num, den)
            }
        } else {
            // if the exponent is large, then we first estimate the result exponent as floor(exponent * log(B) / log(NewB)),
            // then the fractional part is multiplied with the original significand
            let work_context = Context::<R>::new(2 * self.precision); // double the precision to get the precise logarithm
            let new_exp = repr.exponent
                * work_context
                    .ln(&Repr::new(Repr::<B>::BASE.into(), 0))
                    .value();
            let (exponent, rem) = new_exp.div_rem_euclid(work_context.ln_base::<NewB>());
            let exponent: isize = exponent.try_into().unwrap();
            let exp_rem = rem.exp();
            let significand = repr.significand * exp_rem.repr.significand;
            let repr = Repr::new(significand, exponent + exp_rem.repr.exponent);
            self.repr_round(repr)
        }
    }
