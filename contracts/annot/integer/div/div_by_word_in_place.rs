//@ item: integer/src/div/mod.rs :: div_by_word_in_place
pub fn div_by_word_in_place(words: &mut [Word], rhs: Word) -> Word
/*@
    requires rhs != 0, 1 <= old(words)@.len() <= usize::MAX,
    ensures final(words)@.len() == old(words)@.len(),
        // division identity: words = words / rhs, returns words % rhs
        val(old(words)@) == val(final(words)@) * (rhs as int) + ret as int,
        (ret as int) < rhs as int,
@*/
{
    debug_assert!(rhs != 0 && !words.is_empty());

    if rhs == 1 {
        /*@ proof { assert(val(words@) * 1 == val(words@)); } @*/
        return 0;
    } else if rhs.is_power_of_two() {
        let shift = rhs.trailing_zeros();
        /*@ proof { lemma_dw_pow2_word(rhs); assert(pow2(0) == 1); } @*/
        let rem = shift::shr_in_place(words, shift);
        /*@ proof {
            let k = (WORD_BITS - shift) as u32;
            let v = val(old(words)@);
            let p = pow2(shift as int);
            let c = pow2(k as int);
            lemma_sh_shr_div_w(rem, k);
            lemma_sh_pow2_pos(k as int);
            vstd::arithmetic::div_mod::lemma_div_multiples_vanish(v % p, c);
            assert((v % p) * c == c * (v % p)) by (nonlinear_arith);
            vstd::arithmetic::div_mod::lemma_fundamental_div_mod(v, p);
            assert(p * (v / p) == (v / p) * p) by (nonlinear_arith);
            vstd::arithmetic::div_mod::lemma_mod_bound(v, p);
        } @*/
        return rem >> (WORD_BITS - shift);
    }

    let shift = rhs.leading_zeros();
    /*@ proof { lemma_dw_normalize(rhs); } @*/
    let fast_div_rhs = FastDivideNormalized::new(rhs << shift);
    /*@ proof {
        let p = pow2(shift as int);
        lemma_sh_pow2_pos(shift as int);
        vstd::arithmetic::div_mod::lemma_mod_multiples_basic(rhs as int, p);
        vstd::arithmetic::div_mod::lemma_div_multiples_vanish(rhs as int, p);
        assert((rhs as int) * p == p * (rhs as int)) by (nonlinear_arith);
    } @*/
    fast_div_by_word_in_place(words, shift, fast_div_rhs)
}
