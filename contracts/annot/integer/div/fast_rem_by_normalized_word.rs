//@ item: integer/src/div/mod.rs :: fast_rem_by_normalized_word
pub(crate) const fn fast_rem_by_normalized_word(
    words: &[Word],
    fast_div_rhs: FastDivideNormalized,
) -> Word
/*@
    requires 2 <= words@.len() <= usize::MAX,      // split_hi_word's debug assertion asks for two words
        fast_div_rhs.wf(),
    ensures ret as int == val(words@) % fast_div_rhs.divisor(),
@*/
{
    debug_assert!(!words.is_empty());

    // first calculate the highest remainder
    let (last, words_lo) = split_hi_word(words);
    let mut rem = fast_div_rhs.div_rem_1by1(last).1;
    /*@
    let ghost d = fast_div_rhs.divisor();
    let ghost n = words@.len() as int;
    let ghost mut qacc: int = (last as int) / d;
    proof {
        vstd::arithmetic::div_mod::lemma_fundamental_div_mod(last as int, d);
        vstd::arithmetic::div_mod::lemma_mod_bound(last as int, d);
        assert(d * qacc == qacc * d) by (nonlinear_arith);
        assert(valn(words@, n) == valn(words@, n - 1) + (last as int) * pw(n - 1));
    }
    @*/

    // then iterate through the words. Use a manual loop because for loop is not yet const.
    let mut i = words_lo.len();
    while i > 0
    /*@
        invariant i <= n - 1, n == words@.len(), words_lo@ == words@.subrange(0, n - 1),
            d == fast_div_rhs.divisor(), fast_div_rhs.wf(), 0 <= (rem as int) < d,
            valn(words@, n) - valn(words@, i as int) == (qacc * d + rem as int) * pw(i as int),
        decreases i
    @*/
    {
        i -= 1;
        /*@ let ghost r0 = rem as int; let ghost q0 = qacc; @*/
        /*@ proof { lemma_dw_2by1_pre(words@[i as int] as int, r0, d); } @*/
        let a = double_word(words_lo[i], rem);
        rem = fast_div_rhs.div_rem_2by1(a).1;
        /*@ proof {
            let wv = words@[i as int] as int;
            let h = q0 * d + r0;
            lemma_dw_rem_step(h, q0, d, r0, wv, a as int);
            qacc = q0 * B() + (a as int) / d;
            vstd::arithmetic::div_mod::lemma_mod_bound(a as int, d);
            assert(pw(i as int + 1) == B() * pw(i as int));
            assert(valn(words@, i as int + 1) == valn(words@, i as int) + wv * pw(i as int));
            assert(h * (B() * pw(i as int)) + wv * pw(i as int) == (h * B() + wv) * pw(i as int)) by (nonlinear_arith);
        } @*/
    }

    /*@ proof {
        assert(valn(words@, 0) == 0 && pw(0) == 1);
        assert((qacc * d + rem as int) * 1 == qacc * d + rem as int);
        vstd::arithmetic::div_mod::lemma_fundamental_div_mod_converse(val(words@), d, qacc, rem as int);
    } @*/
    rem
}
