//@ item: integer/src/div/mod.rs :: fast_div_by_dword_in_place
pub(crate) fn fast_div_by_dword_in_place(
    words: &mut [Word],
    shift: u32,
    fast_div_rhs: FastDivideNormalized2,
) -> DoubleWord
/*@
    requires 2 <= old(words)@.len() <= usize::MAX, shift < WORD_BITS, fast_div_rhs.wf(),
        // the prepared divisor is rhs << shift
        fast_div_rhs.divisor() % pow2(shift as int) == 0,
    ensures final(words)@.len() == old(words)@.len(),
        // words = words / rhs, returns words % rhs, with rhs = divisor >> shift
        val(old(words)@) == val(final(words)@) * (fast_div_rhs.divisor() / pow2(shift as int)) + ret as int,
        0 <= (ret as int) < fast_div_rhs.divisor() / pow2(shift as int),
@*/
{
    debug_assert!(words.len() >= 2 && shift < WORD_BITS);
    let hi = shift::shl_in_place(words, shift);

    // first div [hi, last word, second last word] by rhs
    let (top_hi, words_lo) = words.split_last_mut().unwrap();
    let (top_lo, words_lo) = words_lo.split_last_mut().unwrap();
    let (q, mut rem) = fast_div_rhs.div_rem_3by2(*top_lo, double_word(*top_hi, hi));
    *top_hi = 0;
    *top_lo = q;

    // chunk the words into double words, and do 4by2 divisions
    let mut dwords = words_lo.rchunks_exact_mut(2);
    for chunk in &mut dwords {
        let dword = lowest_dword(chunk);
        let (q, new_rem) = fast_div_rhs.div_rem_4by2(dword, rem);
        let (new_lo, new_hi) = split_dword(q);
        *chunk.first_mut().unwrap() = new_lo;
        *chunk.last_mut().unwrap() = new_hi;
        rem = new_rem;
    }

    // there might be a single word left, do a 3by2 division
    let r = dwords.into_remainder();
    if !r.is_empty() {
        debug_assert!(r.len() == 1);
        let r0 = r.first_mut().unwrap();
        let (q, new_rem) = fast_div_rhs.div_rem_3by2(*r0, rem);
        *r0 = q;
        rem = new_rem;
    }

    rem >> shift
}
