//@ item: integer/src/div/mod.rs :: div_by_dword_in_place
pub fn div_by_dword_in_place(words: &mut [Word], rhs: DoubleWord) -> DoubleWord
/*@
    requires rhs > Word::MAX, 2 <= old(words)@.len() <= usize::MAX,
    ensures final(words)@.len() == old(words)@.len(),
        // division identity: words = words / rhs, returns words % rhs
        val(old(words)@) == val(final(words)@) * (rhs as int) + ret as int,
        (ret as int) < rhs as int,
@*/
{
    debug_assert!(rhs > Word::MAX as DoubleWord, "call div_by_word_in_place when rhs is small");
    debug_assert!(words.len() >= 2);

    if rhs.is_power_of_two() {
        let first = shift::shr_in_place_one_word(words);
        /*@ let ghost w1 = words@; @*/
        /*@ proof { axiom_dd_tz(rhs); lemma_dd_pow2_big(rhs, dd_tz(rhs)); } @*/
        let shift = rhs.trailing_zeros() - WORD_BITS;
        if shift == 0 {
            /*@ proof { assert(pow2(0) == 1); } @*/
            return extend_word(first);
        } else {
            let n2 = shift::shr_in_place(words, shift);
            let (n1, n0) = shr_word(first, shift);
            /*@ proof {
                let k = (WORD_BITS - shift) as u32;
                let pk = pow2(k as int);
                let ps = pow2(shift as int);
                let v1 = val(w1);
                let m = v1 % ps;
                lemma_sh_pow2_pos(k as int);
                lemma_sh_pow2_pos(shift as int);
                lemma_sh_pow2_add(k as int, shift as int);
                lemma_sh_pow2_bits();
                vstd::arithmetic::div_mod::lemma_mod_bound(v1, ps);
                vstd::arithmetic::div_mod::lemma_mod_multiples_basic(m, pk);
                lemma_sh_or_disjoint(n1, n2, k);
                lemma_dd_pow2_rem(first as int, m, n0 as int, n1 as int, n2 as int, pk, ps);
                let r = first as int + m * B();
                let x = (n0 as int + ((n1 | n2) as int) * B()) as DoubleWord;
                lemma_dd_shr_div(x, k);
                vstd::arithmetic::div_mod::lemma_div_multiples_vanish(r, pk);
                assert(r * pk == pk * r) by (nonlinear_arith);
                vstd::arithmetic::div_mod::lemma_fundamental_div_mod(v1, ps);
                assert(ps * (v1 / ps) == (v1 / ps) * ps) by (nonlinear_arith);
                lemma_dd_pow2_ident(val(old(words)@), v1, first as int, v1 / ps, m, ps);
            } @*/
            return double_word(n0, n1 | n2) >> (WORD_BITS - shift);
        }
    }

    let shift = rhs.leading_zeros();
    /*@ proof { axiom_dd_lz(rhs); lemma_dd_normalize(rhs, shift); } @*/
    debug_assert!(shift < WORD_BITS); // high word of rhs must not be zero
    let fast_div_rhs = FastDivideNormalized2::new(rhs << shift);
    /*@ proof {
        let p = pow2(shift as int);
        lemma_sh_pow2_pos(shift as int);
        vstd::arithmetic::div_mod::lemma_mod_multiples_basic(rhs as int, p);
        vstd::arithmetic::div_mod::lemma_div_multiples_vanish(rhs as int, p);
        assert((rhs as int) * p == p * (rhs as int)) by (nonlinear_arith);
    } @*/
    fast_div_by_dword_in_place(words, shift, fast_div_rhs)
}
