//@ item: integer/src/div/mod.rs :: fast_rem_by_normalized_dword
pub(crate) const fn fast_rem_by_normalized_dword(
    words: &[Word],
    fast_div_rhs: FastDivideNormalized2,
) -> DoubleWord
/*@
    requires 2 <= words@.len() <= usize::MAX, fast_div_rhs.wf(),
    ensures ret as int == val(words@) % fast_div_rhs.divisor(),
@*/
{
    debug_assert!(words.len() >= 2);

    // first calculate the highest remainder
    let mut i = words.len() - 1;
    let top_dword = double_word(words[i - 1], words[i]);
    let mut rem = fast_div_rhs.div_rem_2by2(top_dword).1;
    /*@
    let ghost d = fast_div_rhs.divisor();
    let ghost n = words@.len() as int;
    let ghost mut qacc: int = (top_dword as int) / d;
    proof {
        vstd::arithmetic::div_mod::lemma_fundamental_div_mod(top_dword as int, d);
        vstd::arithmetic::div_mod::lemma_mod_bound(top_dword as int, d);
        assert(d * qacc == qacc * d) by (nonlinear_arith);
        assert(valn(words@, n) == valn(words@, n - 1) + (words@[n - 1] as int) * pw(n - 1));
        assert(valn(words@, n - 1) == valn(words@, n - 2) + (words@[n - 2] as int) * pw(n - 2));
        assert(pw(n - 1) == B() * pw(n - 2));
        assert((words@[n - 1] as int) * (B() * pw(n - 2)) + (words@[n - 2] as int) * pw(n - 2)
            == ((words@[n - 1] as int) * B() + (words@[n - 2] as int)) * pw(n - 2)) by (nonlinear_arith);
    }
    @*/

    // then iterate through the words
    // chunk the words into double words, and do 4by2 divisions
    while i > 2
    /*@
        invariant 1 <= i <= n - 1, n == words@.len(),
            d == fast_div_rhs.divisor(), fast_div_rhs.wf(), 0 <= (rem as int) < d,
            valn(words@, n) - valn(words@, i as int - 1) == (qacc * d + rem as int) * pw(i as int - 1),
        decreases i
    @*/
    {
        i -= 2;
        let top_dword = double_word(words[i - 1], words[i]);
        /*@ let ghost r0 = rem as int; let ghost q0 = qacc; @*/
        rem = fast_div_rhs.div_rem_4by2(top_dword, rem).1;
        /*@ proof {
            let k = i as int - 1;
            let t = top_dword as int;
            let h = q0 * d + r0;
            let a = t + r0 * (B() * B());
            lemma_dd_rem_step(h, q0, d, r0, t, a, B() * B());
            qacc = q0 * (B() * B()) + a / d;
            vstd::arithmetic::div_mod::lemma_mod_bound(a, d);
            assert(pw(k + 2) == B() * pw(k + 1));
            assert(pw(k + 1) == B() * pw(k));
            assert(B() * (B() * pw(k)) == (B() * B()) * pw(k)) by (nonlinear_arith);
            assert(valn(words@, k + 2) == valn(words@, k + 1) + (words@[k + 1] as int) * pw(k + 1));
            assert(valn(words@, k + 1) == valn(words@, k) + (words@[k] as int) * pw(k));
            assert((words@[k + 1] as int) * (B() * pw(k)) + (words@[k] as int) * pw(k) == t * pw(k)) by (nonlinear_arith)
                requires t == (words@[k] as int) + (words@[k + 1] as int) * B();
            lemma_dd_weight(h, t, B() * B(), pw(k));
        } @*/
    }

    // there might be a single word left, do a 3by2 division
    /*@ let ghost r0 = rem as int; let ghost q0 = qacc; @*/
    if i == 2 {
        rem = fast_div_rhs.div_rem_3by2(words[0], rem).1
    }
    /*@ proof {
        assert(valn(words@, 0) == 0 && pw(0) == 1);
        assert(val(words@) == valn(words@, n));
        let h = q0 * d + r0;
        if i == 2 {
            let t = words@[0] as int;
            let a = t + r0 * B();
            lemma_dd_rem_step(h, q0, d, r0, t, a, B());
            qacc = q0 * B() + a / d;
            vstd::arithmetic::div_mod::lemma_mod_bound(a, d);
            assert(pw(1) == B() * pw(0));
            assert(pw(1) == B());
            assert(valn(words@, 1) == valn(words@, 0) + t * pw(0));
            assert(t * pw(0) == t) by (nonlinear_arith) requires pw(0) == 1;
            assert(valn(words@, 1) == t);
            assert(h * pw(1) == h * B()) by (nonlinear_arith) requires pw(1) == B();
            assert(valn(words@, n) - valn(words@, 1) == h * pw(1));
            assert(valn(words@, n) == h * B() + t);
            assert(rem as int == a % d);
            assert(val(words@) == qacc * d + rem as int);
        } else {
            assert(i == 1);
            assert(h * pw(0) == h) by (nonlinear_arith) requires pw(0) == 1;
            assert(valn(words@, n) - valn(words@, 0) == h * pw(0));
            assert(rem as int == r0 && qacc == q0);
            assert(val(words@) == qacc * d + rem as int);
        }
        assert(0 <= (rem as int) < d);
        vstd::arithmetic::div_mod::lemma_fundamental_div_mod_converse(val(words@), d, qacc, rem as int);
    } @*/

    rem
}
