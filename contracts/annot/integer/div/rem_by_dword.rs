//@ item: integer/src/div/mod.rs :: rem_by_dword
pub const fn rem_by_dword(words: &[Word], rhs: DoubleWord) -> DoubleWord
/*@
    requires rhs > Word::MAX, 2 <= words@.len() <= usize::MAX,
    ensures ret as int == val(words@) % (rhs as int),
@*/
{
    debug_assert!(rhs > Word::MAX as DoubleWord, "call div_by_word_in_place when rhs is small");
    debug_assert!(words.len() >= 2);

    if rhs.is_power_of_two() {
        /*@ proof {
            let t = lemma_dd_pow2_exp(rhs);
            lemma_dd_low_dword_mod(words@, rhs as int, t as int);
            let low = (words@[0] as int + (words@[1] as int) * B()) as DoubleWord;
            lemma_dd_mask_mod(low, rhs, t);
        } @*/
        return double_word(words[0], words[1]) & (rhs - 1);
    }

    // calculate remainder without normalizing the words
    let shift = rhs.leading_zeros();
    /*@ proof { axiom_dd_lz(rhs); lemma_dd_normalize(rhs, shift); } @*/
    debug_assert!(shift < WORD_BITS);
    let fast_div_rhs = FastDivideNormalized2::new(rhs << shift);
    let rem = fast_rem_by_normalized_dword(words, fast_div_rhs);

    // normalize the remainder
    let (a0, a1, a2) = shl_dword(rem, shift);
    /*@
    let ghost d = fast_div_rhs.divisor();
    let ghost p = pow2(shift as int);
    let ghost r1 = rem as int;
    proof {
        lemma_sh_pow2_mono(shift as int, WORD_BITS as int);
        lemma_sh_pow2_bits();
        vstd::arithmetic::div_mod::lemma_mod_bound(val(words@), d);
        assert(r1 * p < d * B()) by (nonlinear_arith) requires 0 <= r1 < d, 1 <= p <= B();
        assert((a1 as int + (a2 as int) * B()) * B() == (a1 as int) * B() + (a2 as int) * (B() * B())) by (nonlinear_arith);
        lemma_dd_3by2_pre(a0 as int, a1 as int + (a2 as int) * B(), d, r1 * p);
    }
    @*/
    let (_, rem) = fast_div_rhs.div_rem_3by2(a0, double_word(a1, a2));
    /*@ proof {
        let v = val(words@);
        let a = r1 * p;
        vstd::arithmetic::div_mod::lemma_fundamental_div_mod(v, d);
        vstd::arithmetic::div_mod::lemma_fundamental_div_mod(a, d);
        vstd::arithmetic::div_mod::lemma_mod_bound(a, d);
        assert(d * (v / d) == (v / d) * d) by (nonlinear_arith);
        assert(d * (a / d) == (a / d) * d) by (nonlinear_arith);
        lemma_dw_rem_unshift(v, v / d, r1, a / d, rem as int, d, p, rhs as int);
        lemma_dd_shr_div(rem, shift);
    } @*/
    rem >> shift
}
