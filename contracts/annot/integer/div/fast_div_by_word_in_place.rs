//@ item: integer/src/div/mod.rs :: fast_div_by_word_in_place
pub(crate) fn fast_div_by_word_in_place(
    words: &mut [Word],
    shift: u32,
    fast_div_rhs: FastDivideNormalized,
) -> Word
/*@
    requires old(words)@.len() <= usize::MAX, shift < WORD_BITS, fast_div_rhs.wf(),
        // the prepared divisor is rhs << shift
        fast_div_rhs.divisor() % pow2(shift as int) == 0,
    ensures final(words)@.len() == old(words)@.len(),
        // words = words / rhs, returns words % rhs, with rhs = divisor >> shift
        val(old(words)@) == val(final(words)@) * (fast_div_rhs.divisor() / pow2(shift as int)) + ret as int,
        0 <= (ret as int) < fast_div_rhs.divisor() / pow2(shift as int),
@*/
{
    let mut rem = shift::shl_in_place(words, shift);
    /*@
    let ghost w1 = words@;
    let ghost c = rem as int;
    let ghost d = fast_div_rhs.divisor();
    let ghost n = words@.len() as int;
    proof {
        lemma_sh_pow2_mono(shift as int, WORD_BITS as int - 1);
        lemma_sh_pow2_bits();
        assert(pow2(WORD_BITS as int) == 2 * pow2(WORD_BITS as int - 1));
        assert(c < d);
        assert(0 * d == 0);
    }
    @*/
    for word in words.iter_mut().rev()
    /*@
        invariant
            __n0 == words@.len(), words@.len() == n, w1.len() == n, __i0 <= __n0,
            d == fast_div_rhs.divisor(), fast_div_rhs.wf(),
            (valn(w1, n) - valn(w1, n - __i0)) + c * pw(n)
                == (valn(words@, n) - valn(words@, n - __i0)) * d + (rem as int) * pw(n - __i0),
            (rem as int) < d,
            forall|j: int| 0 <= j < n - __i0 ==> words@[j] == w1[j],
        decreases __n0 - __i0
    @*/
    {
        /*@ let ghost r0 = rem as int; let ghost wv = *word as int; @*/
        /*@ proof { lemma_dw_2by1_pre(wv, r0, d); } @*/
        let a = double_word(*word, rem);
        let (q, r) = fast_div_rhs.div_rem_2by1(a);
        *word = q;
        rem = r;
        /*@ proof {
            let j = n - __i0 as int;
            vstd::arithmetic::div_mod::lemma_fundamental_div_mod(a as int, d);
            assert(d * (q as int) == (q as int) * d) by (nonlinear_arith);
            lemma_valn_tail(__w0, words@, j + 1, n);
            lemma_valn_ext(__w0, words@, j);
            assert(pw(j + 1) == B() * pw(j));
            lemma_dw_div_acc(valn(w1, n) - valn(w1, j + 1), valn(__w0, n) - valn(__w0, j + 1), c * pw(n), d, r0,
                wv, q as int, r as int, pw(j));
        } @*/
    }
    rem >> shift
    /*@ proof {
        assert(valn(words@, 0) == 0 && valn(w1, 0) == 0 && pw(0) == 1);
        assert(val(words@) == valn(words@, n) && val(w1) == valn(w1, n));
        assert((rem as int) * pw(0) == rem as int);
        lemma_sh_pow2_pos(shift as int);
        lemma_dw_unshift(val(old(words)@), val(words@), rem as int, d, pow2(shift as int));
        lemma_sh_shr_div_w(rem, shift);
    } @*/
}
