//@ item: integer/src/div/mod.rs :: rem_by_word
pub const fn rem_by_word(words: &[Word], rhs: Word) -> Word
/*@
    requires rhs != 0, 2 <= words@.len() <= usize::MAX,
    ensures ret as int == val(words@) % (rhs as int),
@*/
{
    debug_assert!(rhs != 0 && !words.is_empty());

    // shortcut
    if rhs.is_power_of_two() {
        /*@ proof {
            lemma_dw_pow2_word(rhs);
            let t = dw_tz(rhs);
            lemma_dw_mask_mod(words@[0], rhs, t);
            lemma_dw_low_word_mod(words@, rhs as int, t as int);
        } @*/
        return words[0] & (rhs - 1);
    }

    // calculate remainder without normalizing the words
    let shift = rhs.leading_zeros();
    /*@ proof { lemma_dw_normalize(rhs); } @*/
    let fast_div_rhs = FastDivideNormalized::new(rhs << shift);
    let rem = fast_rem_by_normalized_word(words, fast_div_rhs);

    // normalize the remainder
    let a = extend_word(rem) << shift;
    /*@
    let ghost d = fast_div_rhs.divisor();
    let ghost p = pow2(shift as int);
    let ghost r1 = rem as int;
    proof {
        lemma_sh_pow2_mono(shift as int, WORD_BITS as int);
        lemma_sh_pow2_bits();
        vstd::arithmetic::div_mod::lemma_mod_bound(val(words@), d);
        assert(r1 * p < d * B()) by (nonlinear_arith) requires 0 <= r1 < d, 1 <= p <= B();
        assert(d * B() <= B() * B()) by (nonlinear_arith) requires d <= B();
        lemma_sh_shl_mul_d(rem as DoubleWord, shift);
    }
    @*/
    let (_, rem) = fast_div_rhs.div_rem_2by1(a);
    /*@ proof {
        let v = val(words@);
        vstd::arithmetic::div_mod::lemma_fundamental_div_mod(v, d);
        vstd::arithmetic::div_mod::lemma_fundamental_div_mod(a as int, d);
        vstd::arithmetic::div_mod::lemma_mod_bound(a as int, d);
        assert(d * (v / d) == (v / d) * d) by (nonlinear_arith);
        assert(d * ((a as int) / d) == ((a as int) / d) * d) by (nonlinear_arith);
        lemma_dw_rem_unshift(v, v / d, r1, (a as int) / d, rem as int, d, p, rhs as int);
        lemma_sh_shr_div_w(rem, shift);
    } @*/
    rem >> shift
}
