//@ item: integer/src/pow.rs :: mod repr :: pow_large_base
pub(crate) fn pow_large_base(base: &[Word], exp: usize) -> Repr
/*@
    requires exp > 1,                                  // the function's own debug assertion
        base@.len() >= 2, normalized(base@),           // call sites: a `Large` magnitude (debug assertions of the callees)
        2 * (base@.len() * exp) <= max_capacity(),     // resource: the result has up to len * exp words (twice: squaring buffer)
    ensures ret.v() == ipow(val(base@), exp as int),
@*/
{
    debug_assert!(exp > 1);
    /*@ let ghost n = base@.len() as int; let ghost b = val(base@);
        proof {
        assert forall|r: u32| 1 <= r <= usize::BITS && #[trigger] (exp >> ((r - 1) as u32)) == 1 implies r >= 2 by {
            lemma_bit_len_ge2(exp, r);
        }
        lemma_mul_mono(n, 1, exp as int);
        lemma_normalized_lower(base@); lemma_pw_pos(n - 1);
    } @*/
    let mut p = bit_len(exp) - 2;
    let mut res = mul_ops::repr::square_large(base);
    /*@ proof { lemma_ipow_2(b); } @*/
    loop
    /*@
        invariant_except_break
            p + 1 < usize::BITS, (exp >> ((p + 1) as u32)) >= 1,
            res.v() == ipow(b, 2 * ((exp >> ((p + 1) as u32)) as int)),
        invariant
            exp > 1, n == base@.len(), n >= 2, normalized(base@), b == val(base@), b >= 1, 2 * (n * exp) <= max_capacity(),
        ensures
            res.v() == ipow(b, exp as int),
        decreases p
    @*/
    {
        /*@ let ghost k = (exp >> ((p + 1) as u32)) as int;
            proof {
                lemma_pow_bits(exp, p);
                lemma_ipow_pos(b, 2 * k);
                lemma_mul_mono(n, (exp >> p) as int, exp as int);
                lemma_mul_mono(n, 2 * k, (exp >> p) as int);
                assert(n * (2 * k) + n == n * (2 * k + 1)) by (nonlinear_arith);
                assert forall|s: Seq<Word>| #[trigger] normalized(s) && val(s) == ipow(b, 2 * k)
                    implies 2 <= s.len() <= n * (2 * k) by { lemma_pow_len(base@, s, 2 * k); }
            } @*/
        if exp & (1 << p) != 0 {
            res = mul_ops::repr::mul_large(res.as_slice(), base);
            /*@ proof { lemma_ipow_succ(b, 2 * k); } @*/
        }
        /*@ proof { assert(res.v() == ipow(b, (exp >> p) as int)); } @*/
        if p == 0 {
            /*@ proof { lemma_shr0(exp); } @*/
            break;
        }
        /*@ let ghost j = (exp >> p) as int;
            proof {
                lemma_ipow_pos(b, j);
                lemma_mul_mono(n, 2 * j, exp as int);
                assert(2 * (n * j) == n * (2 * j)) by (nonlinear_arith);
                assert forall|s: Seq<Word>| #[trigger] normalized(s) && val(s) == ipow(b, j)
                    implies 2 <= s.len() <= n * j by { lemma_pow_len(base@, s, j); }
            } @*/
        p -= 1;
        res = mul_ops::repr::square_large(res.as_slice());
        /*@ proof { lemma_ipow_double(b, j); } @*/
    }
    res
}
