//@ item: integer/src/pow.rs :: mod repr :: pow_dword_base
pub(crate) fn pow_dword_base(base: DoubleWord, exp: usize) -> Repr
/*@
    requires exp > 1, base as int >= B(),             // the function's own debug assertions
        2 * exp <= max_capacity(),                    // resource: "result is at most 2 * exp words"
    ensures ret.v() == ipow(base as int, exp as int),
@*/
{
    debug_assert!(exp > 1);
    debug_assert!(base > Word::MAX as DoubleWord);

    let mut res = Buffer::allocate(2 * exp); // result is at most 2 * exp words
    let mut allocation = MemoryAllocation::new(
        memory::add_layout(
            memory::array_layout::<Word>(exp), // store res before squaring
            sqr::memory_requirement_exact(exp),
        ), // memory for squaring
    );
    let mut memory = allocation.memory();

    // res = base * base
    /*@ proof {
        assert forall|r: u32| 1 <= r <= usize::BITS && #[trigger] (exp >> ((r - 1) as u32)) == 1 implies r >= 2 by {
            lemma_bit_len_ge2(exp, r);
        }
    } @*/
    let mut p = bit_len(exp) - 2;
    let (lo, hi) = math::mul_add_carry_dword(base, base, 0);
    let (n0, n1) = split_dword(lo);
    res.push(n0);
    res.push(n1);
    let (n2, n3) = split_dword(hi);
    res.push(n2);
    res.push(n3);
    /*@ proof { lemma_val4(res@); lemma_ipow_2(base as int); } @*/

    loop
    /*@
        invariant_except_break
            p + 1 < usize::BITS, (exp >> ((p + 1) as u32)) >= 1,
            val(res@) == ipow(base as int, 2 * ((exp >> ((p + 1) as u32)) as int)),
            2 <= res@.len() <= 4 * ((exp >> ((p + 1) as u32)) as int),
        invariant
            exp > 1, base as int >= B(), 2 * exp <= max_capacity(), res.capacity() >= 2 * exp,
        ensures
            val(res@) == ipow(base as int, exp as int),
        decreases p
    @*/
    {
        /*@ let ghost k = (exp >> ((p + 1) as u32)) as int;
            proof { lemma_pow_bits(exp, p); } @*/
        if exp & (1 << p) != 0 {
            /*@ let ghost r0 = res@; @*/
            let carry = mul::mul_dword_in_place(&mut res, base);
            /*@ let ghost r1 = res@; @*/
            if carry > 0 {
                let (c0, c1) = split_dword(carry);
                res.push(c0);
                /*@ let ghost r2 = res@; @*/
                res.push_resizing(c1); // actually never resize
                /*@ proof { lemma_pow_carry2(r1, r2, res@, c0, c1); } @*/
            }
            /*@ proof { lemma_ipow_succ(base as int, 2 * k); } @*/
        }
        /*@ proof { assert(val(res@) == ipow(base as int, (exp >> p) as int)); } @*/
        if p == 0 {
            /*@ proof { lemma_shr0(exp); } @*/
            break;
        }
        p -= 1;

        // res = square(res)
        let (tmp, mut memory) = memory.allocate_slice_copy(&res);
        /*@ let ghost t0 = tmp@; @*/
        res.fill(0);
        /*@ let ghost z0 = res@; @*/
        res.push_zeros(res.len());
        /*@ proof { assert(forall|i: int| 0 <= i < res@.len() ==> res@[i] == 0) by {
                assert(forall|i: int| 0 <= i < z0.len() ==> #[trigger] (z0 + zeros(z0.len() as int))[i] == z0[i]);
            } } @*/
        sqr::sqr(&mut res, tmp, &mut memory);
        /*@ proof { lemma_ipow_double(base as int, (exp >> ((p + 1) as u32)) as int); } @*/
    }

    Repr::from_buffer(res)
}
