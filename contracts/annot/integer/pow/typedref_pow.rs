//@ item: integer/src/pow.rs :: mod repr :: impl TypedReprRef<'_> :: pow
pub fn pow(self, exp: usize) -> Repr
/*@ #[hoist(Self = TypedReprRef, Name = typedref_pow)]
    requires self.wf(),
        2 * (self.nwords() * exp) <= max_capacity(),       // resource: the result has up to nwords * exp words
    ensures ret.v() == ipow(self.v(), exp as int),
@*/
{
            /*@ proof {
                lemma_typedref_range(self);
                lemma_ipow_1(self.v()); lemma_ipow_2(self.v());
                assert(self.nwords() * exp >= exp) by (nonlinear_arith) requires self.nwords() >= 2, exp >= 0;
                if exp >= 1 { assert(self.nwords() * exp >= self.nwords()) by (nonlinear_arith) requires self.nwords() >= 2, exp >= 1; }
            } @*/
            // shortcuts
            match exp {
                0 => return Repr::one(),
                1 => return Repr::from_ref(self),
                2 => return self.sqr(),
                _ => {}
            };

            match self {
                RefSmall(dword) => {
                    if let Some(word) = shrink_dword(dword) {
                        pow_word_base(word, exp)
                    } else {
                        pow_dword_base(dword, exp)
                    }
                }
                RefLarge(words) => pow_large_base(words, exp),
            }
}
