//@ item: integer/src/pow.rs :: mod repr :: pow_word_base
pub(crate) fn pow_word_base(base: Word, exp: usize) -> Repr
/*@
    requires exp > 1,                                  // the function's own debug assertion
        exp < max_capacity(),                          // resource: the result has up to exp + 1 words / exp * 63 bits
    ensures ret.v() == ipow(base as int, exp as int),
@*/
{
    debug_assert!(exp > 1);
    match base {
        0 => return Repr::zero(),
        1 => return Repr::one(),
        2 => return Repr::zero().into_typed().set_bit(exp),
        b if b.is_power_of_two() => {
            return Repr::zero()
                .into_typed()
                .set_bit(exp * base.trailing_zeros() as usize)
        }
        _ => {}
    }

    // lift the base to a full word and some shortcuts
    let (wexp, wbase) = max_exp_in_word(base);
    if exp < wexp {
        return Repr::from_word(base.pow(exp as u32));
    } else if exp < 2 * wexp {
        let pow = base.pow((exp - wexp) as u32);
        return Repr::from_dword(extend_word(wbase) * extend_word(pow));
    }

    // by now wexp / exp >= 2, result = wbase ^ (wexp / exp) * base ^ (wexp % exp)
    let (exp, exp_rem) = exp.div_rem(wexp);
    let mut res = Buffer::allocate(exp + 1); // result is at most exp + 1 words
    let mut allocation = MemoryAllocation::new(
        memory::add_layout(
            memory::array_layout::<Word>(exp / 2 + 1), // store res before squaring
            sqr::memory_requirement_exact(exp / 2 + 1),
        ), // memory for squaring
    );
    let mut memory = allocation.memory();

    // res = wbase * wbase
    let mut p = bit_len(exp) - 2;
    let (lo, hi) = split_dword(extend_word(wbase) * extend_word(wbase));
    res.push(lo);
    res.push(hi);

    loop {
        if exp & (1 << p) != 0 {
            let carry = mul::mul_word_in_place(&mut res, wbase);
            res.push_resizing(carry); // actually never resize
        }
        if p == 0 {
            break;
        }
        p -= 1;

        // res = square(res)
        let (tmp, mut memory) = memory.allocate_slice_copy(&res);
        res.fill(0);
        res.push_zeros(res.len());
        sqr::sqr(&mut res, tmp, &mut memory);
    }

    // carry out the remaining multiplications
    let pow_rem = base.pow(exp_rem as u32);
    let carry = mul::mul_word_in_place(&mut res, pow_rem);
    res.push_resizing(carry);
    Repr::from_buffer(res)
}
