//@ item: integer/src/pow.rs :: mod repr :: pow_word_base
pub(crate) fn pow_word_base(base: Word, exp: usize) -> Repr
/*@
    requires exp > 1,                                  // the function's own debug assertion
        exp < max_capacity(),                          // resource: the result has up to exp + 1 words / exp * 63 bits
    ensures ret.v() == ipow(base as int, exp as int),
@*/
{
    debug_assert!(exp > 1);
    /*@ let ghost e0 = exp as int; let ghost bi = base as int;
        proof {
            lemma_ipow_zero(e0); lemma_ipow_one(e0); lemma_pow2_ipow(e0);
            lemma_pow2_base_exp(e0, 1);
            if base != 0 && (base & ((base - 1) as Word)) == 0 {
                lemma_word_pow2_tz(base);
                let t = pow_word_tz(base) as int;
                lemma_pow2_base_exp(e0, t);
                lemma_pow2_ipow(t); lemma_ipow_mul(2, t, e0); lemma_pow2_ipow(t * e0);
                assert(e0 * t == t * e0) by (nonlinear_arith);
            }
        } @*/
    match base {
        0 => return Repr::zero(),
        1 => return Repr::one(),
        2 => return Repr::zero().into_typed().set_bit(exp),
        b if b.is_power_of_two() => {
            return Repr::zero()
                .into_typed()
                .set_bit(exp * base.trailing_zeros() as usize)
        }
        _ => {}
    }

    // lift the base to a full word and some shortcuts
    let (wexp, wbase) = max_exp_in_word(base);
    /*@ let ghost we = wexp as int; let ghost wb = wbase as int;
        proof {
            lemma_ipow_pos(bi, we);
            if e0 < we { lemma_ipow_mono(bi, e0, we); }
            else if e0 < 2 * we {
                lemma_ipow_mono(bi, e0 - we, we);
                lemma_ipow_add(bi, we, e0 - we);
                lemma_word_prod_fits(wb, ipow(bi, e0 - we));
            }
        } @*/
    if exp < wexp {
        return Repr::from_word(base.pow(exp as u32));
    } else if exp < 2 * wexp {
        let pow = base.pow((exp - wexp) as u32);
        return Repr::from_dword(extend_word(wbase) * extend_word(pow));
    }

    // by now wexp / exp >= 2, result = wbase ^ (wexp / exp) * base ^ (wexp % exp)
    let (exp, exp_rem) = exp.div_rem(wexp);
    /*@ let ghost ee = exp as int; let ghost er = exp_rem as int;
        proof {
            lemma_pow_split(e0, we, ee, er);
            lemma_ipow_mul(bi, we, ee);          // wb^ee == base^(we*ee)
            lemma_ipow_add(bi, we * ee, er);     // base^(we*ee) * base^er == base^e0
            lemma_ipow_mono(bi, er, we);         // base^er <= wb fits a word
            assert forall|r: u32| 1 <= r <= usize::BITS && #[trigger] (exp >> ((r - 1) as u32)) == 1 implies r >= 2 by {
                lemma_bit_len_ge2(exp, r);
            }
            lemma_word_prod_fits(wb, wb);
        } @*/
    let mut res = Buffer::allocate(exp + 1); // result is at most exp + 1 words
    let mut allocation = MemoryAllocation::new(
        memory::add_layout(
            memory::array_layout::<Word>(exp / 2 + 1), // store res before squaring
            sqr::memory_requirement_exact(exp / 2 + 1),
        ), // memory for squaring
    );
    let mut memory = allocation.memory();

    // res = wbase * wbase
    let mut p = bit_len(exp) - 2;
    let (lo, hi) = split_dword(extend_word(wbase) * extend_word(wbase));
    res.push(lo);
    res.push(hi);
    /*@ proof { lemma_val2(res@); lemma_ipow_2(wb); } @*/

    loop
    /*@
        invariant_except_break
            p + 1 < usize::BITS, (exp >> ((p + 1) as u32)) >= 1,
            val(res@) == ipow(wb, 2 * ((exp >> ((p + 1) as u32)) as int)),
            2 <= res@.len() <= 2 * ((exp >> ((p + 1) as u32)) as int),
        invariant
            exp >= 2, exp < max_capacity(), wb == wbase as int, wb >= 1, res.capacity() >= exp + 1,
        ensures
            val(res@) == ipow(wb, exp as int), 2 <= res@.len() <= exp,
        decreases p
    @*/
    {
        /*@ let ghost k = (exp >> ((p + 1) as u32)) as int;
            proof { lemma_pow_bits(exp, p); } @*/
        if exp & (1 << p) != 0 {
            let carry = mul::mul_word_in_place(&mut res, wbase);
            /*@ let ghost r1 = res@; @*/
            res.push_resizing(carry); // actually never resize
            /*@ proof { lemma_val_push(r1, carry); lemma_ipow_succ(wb, 2 * k); } @*/
        }
        /*@ proof { assert(val(res@) == ipow(wb, (exp >> p) as int)); } @*/
        if p == 0 {
            /*@ proof { lemma_shr0(exp); } @*/
            break;
        }
        p -= 1;

        // res = square(res)
        let (tmp, mut memory) = memory.allocate_slice_copy(&res);
        res.fill(0);
        /*@ let ghost z0 = res@; @*/
        res.push_zeros(res.len());
        /*@ proof { assert(forall|i: int| 0 <= i < res@.len() ==> res@[i] == 0) by {
                assert(forall|i: int| 0 <= i < z0.len() ==> #[trigger] (z0 + zeros(z0.len() as int))[i] == z0[i]);
            } } @*/
        sqr::sqr(&mut res, tmp, &mut memory);
        /*@ proof { lemma_ipow_double(wb, (exp >> ((p + 1) as u32)) as int); } @*/
    }

    // carry out the remaining multiplications
    let pow_rem = base.pow(exp_rem as u32);
    let carry = mul::mul_word_in_place(&mut res, pow_rem);
    /*@ let ghost r1 = res@; @*/
    res.push_resizing(carry);
    /*@ proof { lemma_val_push(r1, carry); } @*/
    Repr::from_buffer(res)
}
