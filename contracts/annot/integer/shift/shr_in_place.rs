//@ item: integer/src/shift.rs :: shr_in_place
pub fn shr_in_place(words: &mut [Word], shift: u32) -> Word
/*@
    requires shift <= WORD_BITS, old(words)@.len() <= usize::MAX,
        shift == WORD_BITS ==> old(words)@.len() >= 1,
    ensures final(words)@.len() == old(words)@.len(),
        // >> shift is floor division by 2^shift; the shifted-out bits are returned in the top bits of a word
        val(final(words)@) == val(old(words)@) / pow2(shift as int),
        ret as int == (val(old(words)@) % pow2(shift as int)) * pow2(WORD_BITS - shift),
        val(final(words)@) * B() + ret as int == val(old(words)@) * pow2(WORD_BITS - shift),
@*/
{
    debug_assert!(shift <= WORD_BITS);
    /*@ proof { assert(pow2(0) == 1); assert(0int % pow2(WORD_BITS - shift) == 0) by { lemma_sh_pow2_pos(WORD_BITS - shift); } } @*/
    if shift == WORD_BITS {
        shr_in_place_one_word(words)
    } else {
        shr_in_place_with_carry(words, shift, 0)
    }
    /*@ proof {
        assert(val(old(words)@) * 1 == val(old(words)@));
        assert(0 * pw(old(words)@.len() as int) == 0);
        assert((ret as int) % 1 == 0);
        lemma_sh_floor(val(words@), ret as int, val(old(words)@), shift as int);
    } @*/
}
