//@ item: integer/src/shift.rs :: shr_in_place_with_carry
pub fn shr_in_place_with_carry(words: &mut [Word], shift: u32, mut carry: Word) -> Word
/*@
    requires shift < WORD_BITS, old(words)@.len() <= usize::MAX,
        // the carry holds the low `shift` bits of a higher word in its top bits
        shift == 0 ==> carry == 0,
        (carry as int) % pow2(WORD_BITS - shift) == 0,
    ensures final(words)@.len() == old(words)@.len(),
        // [result words . shifted-out bits] == [carry . old words] / 2^shift, written at scale 2^(BITS-shift):
        val(final(words)@) * B() + ret as int
            == val(old(words)@) * pow2(WORD_BITS - shift) + (carry as int) * pw(old(words)@.len() as int),
        (ret as int) % pow2(WORD_BITS - shift) == 0,
@*/
{
    debug_assert!(shift < WORD_BITS);
    if shift == 0 {
        debug_assert_eq!(carry, 0);
        /*@ proof { lemma_sh_pow2_bits(); assert(val(words@) * B() == val(words@) * pow2(WORD_BITS as int)); assert(0int % B() == 0); } @*/
        return 0;
    }
    /*@ let ghost cin = carry; @*/
    /*@ proof { assert(0 * B() == 0); assert(0 * pow2(WORD_BITS - shift) == 0); assert(B() * pw(words@.len() as int - 1) == pw(words@.len() as int) || words@.len() == 0); } @*/
    for word in words.iter_mut().rev()
    /*@
        invariant
            __n0 == words@.len(), words@.len() == old(words)@.len(), __i0 <= __n0, 0 < shift < WORD_BITS,
            (valn(words@, __n0 as int) - valn(words@, __n0 - __i0)) * B() + (carry as int) * pw(__n0 - __i0)
                == (valn(old(words)@, __n0 as int) - valn(old(words)@, __n0 - __i0)) * pow2(WORD_BITS - shift)
                    + (cin as int) * pw(__n0 as int),
            (carry as int) % pow2(WORD_BITS - shift) == 0,
            forall|j: int| 0 <= j < __n0 - __i0 ==> words@[j] == old(words)@[j],
        decreases __n0 - __i0
    @*/
    {
        /*@ let ghost c0 = carry; let ghost w0 = *word; @*/
        let (new_word, new_carry) = shr_word(*word, shift);
        /*@ proof { lemma_sh_or_disjoint(new_word, c0, (WORD_BITS - shift) as u32); } @*/
        *word = new_word | carry;
        carry = new_carry;
        /*@ proof {
            let n = __n0 as int;
            let j = n - __i0 as int;          // index just written; j + 1 was the previous boundary
            lemma_valn_tail(__w0, words@, j + 1, n);
            lemma_valn_ext(__w0, words@, j);
            assert(pw(j + 1) == B() * pw(j));
            lemma_sh_shr_acc(valn(__w0, n) - valn(__w0, j + 1), valn(old(words)@, n) - valn(old(words)@, j + 1),
                c0 as int, new_word as int, new_carry as int, w0 as int, pow2(WORD_BITS - shift), pw(j),
                (cin as int) * pw(n));
        } @*/
    }
    /*@ proof {
        assert(valn(words@, 0) == 0 && valn(old(words)@, 0) == 0 && pw(0) == 1);
        assert(val(words@) == valn(words@, __n0 as int));
        assert((carry as int) * pw(0) == carry as int);
    } @*/
    carry
}
