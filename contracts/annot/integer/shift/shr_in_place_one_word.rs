//@ item: integer/src/shift.rs :: shr_in_place_one_word
pub fn shr_in_place_one_word(words: &mut [Word]) -> Word
/*@
    requires 1 <= old(words)@.len() <= usize::MAX,
    ensures final(words)@.len() == old(words)@.len(),
        // >> WORD_BITS: floor division by B, the remainder (lowest word) is returned
        val(final(words)@) * B() + ret as int == val(old(words)@),
@*/
{
    // SAFETY: the ptr and len all comes from the slice, so it's safe
    unsafe {
        let ptr = words.as_mut_ptr();
        let rem = ptr.read();
        ptr.copy_from(ptr.add(1), words.len() - 1);
        ptr.add(words.len() - 1).write(0);
        rem
    }
}
