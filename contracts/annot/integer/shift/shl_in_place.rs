//@ item: integer/src/shift.rs :: shl_in_place
pub fn shl_in_place(words: &mut [Word], shift: u32) -> Word
/*@
    requires shift < WORD_BITS, old(words)@.len() <= usize::MAX,
    ensures final(words)@.len() == old(words)@.len(),
        // << shift is multiplication by 2^shift; the bits leaving the top word are returned
        val(final(words)@) + (ret as int) * pw(old(words)@.len() as int) == val(old(words)@) * pow2(shift as int),
        (ret as int) < pow2(shift as int),
@*/
{
    debug_assert!(shift < WORD_BITS);
    if shift == 0 {
        /*@ proof { assert(pow2(0) == 1); assert(val(words@) * 1 == val(words@)); } @*/
        return 0;
    }
    let mut carry = 0;
    /*@ proof { lemma_sh_pow2_pos(shift as int); assert(pw(0) == 1); assert(0 * pow2(shift as int) == 0); } @*/
    for word in words
    /*@
        invariant
            __n0 == words@.len(), words@.len() == old(words)@.len(), __i0 <= __n0, 0 < shift < WORD_BITS,
            valn(words@, __i0 as int) + (carry as int) * pw(__i0 as int)
                == valn(old(words)@, __i0 as int) * pow2(shift as int),
            (carry as int) < pow2(shift as int),
            forall|j: int| __i0 <= j < __n0 ==> words@[j] == old(words)@[j],
        decreases __n0 - __i0
    @*/
    {
        /*@ let ghost c0 = carry; let ghost w0 = *word; @*/
        let (new_word, new_carry) = split_dword(extend_word(*word) << shift);
        /*@ proof { lemma_sh_shl_step(w0, shift, c0, new_word, new_carry); } @*/
        *word = new_word | carry;
        carry = new_carry;
        /*@ proof {
            let i = __i0 as int - 1;
            lemma_valn_ext(__w0, words@, i);
            lemma_sh_shl_acc(valn(__w0, i), valn(old(words)@, i), c0 as int, new_word as int, new_carry as int,
                w0 as int, pow2(shift as int), pw(i));
        } @*/
    }
    carry
}
