//@ item: integer/src/error.rs :: panic_negative_ubig
// Rule D4: the crate's diverging panic helper.  In the default ("total") variant its precondition is `false`: a
// verified caller proves the panic unreachable under its own precondition.  In the `must_panic` variant it ensures
// `false` (it never returns), so a caller with contract `requires <negated precondition> ensures false` proves that
// no normal return is possible.
pub(crate) const fn panic_negative_ubig() -> !
/*@[!must_panic] requires false, @*/
/*@[must_panic] ensures false, @*/
{
    panic!("UBig result must not be negative")
}
