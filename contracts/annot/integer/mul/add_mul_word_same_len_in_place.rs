//@ item: integer/src/mul/mod.rs :: add_mul_word_same_len_in_place
pub fn add_mul_word_same_len_in_place(words: &mut [Word], mult: Word, rhs: &[Word]) -> Word
/*@
    requires old(words)@.len() == rhs@.len(), rhs@.len() <= usize::MAX,
    ensures final(words)@.len() == old(words)@.len(),
        val(final(words)@) + (ret as int) * pw(rhs@.len() as int) == val(old(words)@) + (mult as int) * val(rhs@),
@*/
{
    assert!(words.len() == rhs.len());
    if mult == 0 {
        /*@ proof { assert((mult as int) * val(rhs@) == 0) by (nonlinear_arith) requires mult as int == 0; } @*/
        return 0;
    }

    let mut carry: Word = 0;
    for (a, b) in words.iter_mut().zip(rhs.iter())
    /*@
        invariant
            __n0 == words@.len(), words@.len() == old(words)@.len(), words@.len() == rhs@.len(), __i0 <= __n0,
            valn(words@, __i0 as int) + (carry as int) * pw(__i0 as int)
                == valn(old(words)@, __i0 as int) + (mult as int) * valn(rhs@, __i0 as int),
            forall|j: int| __i0 <= j < __n0 ==> words@[j] == old(words)@[j],
        decreases __n0 - __i0
    @*/
    {
        /*@ let ghost c0 = carry; @*/
        let (v_lo, v_hi) = math::mul_add_2carry(mult, *b, *a, carry);
        *a = v_lo;
        carry = v_hi;
        /*@ proof {
            let i = __i0 as int - 1;
            lemma_valn_ext(__w0, words@, i);
            lemma_addmul_col(valn(__w0, i), valn(old(words)@, i), valn(rhs@, i), v_lo as int, v_hi as int,
                mult as int, rhs@[i] as int, __w0[i] as int, c0 as int, pw(i));
        } @*/
    }
    carry
}
