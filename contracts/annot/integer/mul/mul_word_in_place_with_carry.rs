//@ item: integer/src/mul/mod.rs :: mul_word_in_place_with_carry
pub fn mul_word_in_place_with_carry(words: &mut [Word], rhs: Word, mut carry: Word) -> Word
/*@
    requires old(words)@.len() <= usize::MAX,
        rhs != 0,   // from the call sites: every caller passes a non-zero multiplier (the `rhs == 0` shortcut below
                    // returns without clearing `words` / adding `carry`; latent, unreachable: DESIGN.md §7)
    ensures final(words)@.len() == old(words)@.len(),
        val(final(words)@) + (ret as int) * pw(old(words)@.len() as int)
            == val(old(words)@) * (rhs as int) + carry as int,
@*/
{
    /*@ let ghost c_in = carry; @*/
    if rhs == 0 {
        return 0;
    }

    for a in words
    /*@
        invariant
            __n0 == words@.len(), words@.len() == old(words)@.len(), __i0 <= __n0,
            valn(words@, __i0 as int) + (carry as int) * pw(__i0 as int)
                == valn(old(words)@, __i0 as int) * (rhs as int) + c_in as int,
            forall|j: int| __i0 <= j < __n0 ==> words@[j] == old(words)@[j],
        decreases __n0 - __i0
    @*/
    {
        /*@ let ghost c0 = carry; @*/
        let (v_lo, v_hi) = math::mul_add_carry(*a, rhs, carry);
        *a = v_lo;
        carry = v_hi;
        /*@ proof {
            let i = __i0 as int - 1;
            lemma_valn_ext(__w0, words@, i);
            lemma_mul_col(valn(__w0, i), valn(old(words)@, i), v_lo as int, v_hi as int, __w0[i] as int,
                rhs as int, c0 as int, c_in as int, pw(i));
        } @*/
    }
    carry
}
