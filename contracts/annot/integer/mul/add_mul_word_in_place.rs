//@ item: integer/src/mul/mod.rs :: add_mul_word_in_place
pub fn add_mul_word_in_place(words: &mut [Word], mult: Word, rhs: &[Word]) -> Word
/*@
    requires rhs@.len() <= old(words)@.len() <= usize::MAX,
    ensures final(words)@.len() == old(words)@.len(),
        val(final(words)@) + (ret as int) * pw(old(words)@.len() as int)
            == val(old(words)@) + (mult as int) * val(rhs@),
@*/
{
    assert!(words.len() >= rhs.len());
    if mult == 0 {
        /*@ proof { assert((mult as int) * val(rhs@) == 0) by (nonlinear_arith) requires mult as int == 0; } @*/
        return 0;
    }

    let n = rhs.len();
    /*@ proof { lemma_val_split(old(words)@, n as int); } @*/
    /*@ let ghost lo0 = words@.subrange(0, n as int); let ghost hi0 = words@.subrange(n as int, words@.len() as int); @*/
    let mut carry = add_mul_word_same_len_in_place(&mut words[..n], mult, rhs);
    /*@ let ghost c1 = carry; let ghost lo1 = words@.subrange(0, n as int); @*/
    /*@ proof {
        assert(words@.subrange(n as int, words@.len() as int) =~= hi0);
        lemma_val_split(words@, n as int);
    } @*/
    if words.len() > n {
        carry = Word::from(add::add_word_in_place(&mut words[n..], carry));
        /*@ proof {
            let k = n as int;
            let len = words@.len() as int;
            lemma_val_split(words@, k);
            assert(words@.subrange(0, k) =~= lo1);
            lemma_pw_add(k, len - k);
            lemma_addmul_hi(val(lo1), val(lo0), (mult as int) * val(rhs@), c1 as int,
                val(words@.subrange(k, len)), val(hi0), carry as int, pw(k), pw(len - k));
        } @*/
    }
    /*@ proof {
        if old(words)@.len() == n {
            assert(hi0.len() == 0);
            assert(val(hi0) == 0);
            assert(pw(n as int) * val(hi0) == 0) by (nonlinear_arith) requires val(hi0) == 0;
        }
    } @*/
    carry
}
