//@ item: integer/src/mul/mod.rs :: mul_dword_in_place
// TRUSTED CONTRACT (only ever used through `//@@ SIG`): the body iterates with chunks_exact_mut / into_remainder, which
// Verus cannot express (DESIGN.md §5 C01: bounded Kani check).  The statement is the exact analogue of the PROVED
// contract of mul_word_in_place: words *= rhs, the two-word carry out is returned.
pub fn mul_dword_in_place(words: &mut [Word], rhs: DoubleWord) -> DoubleWord
/*@
    requires old(words)@.len() <= usize::MAX,
        rhs as int >= B(),          // the function's own debug assertion ("call mul_word_in_place when rhs is small")
    ensures final(words)@.len() == old(words)@.len(),
        val(final(words)@) + (ret as int) * pw(old(words)@.len() as int) == val(old(words)@) * (rhs as int),
@*/
{
    debug_assert!(rhs > Word::MAX as DoubleWord, "call mul_word_in_place when rhs is small");

    // chunk the words into double words, and do 2by2 multiplications
    let mut dwords = words.chunks_exact_mut(2);
    let mut carry = 0;
    for chunk in &mut dwords {
        let lo = chunk.first().unwrap();
        let hi = chunk.last().unwrap();
        let (p, new_carry) = math::mul_add_carry_dword(double_word(*lo, *hi), rhs, carry);
        let (new_lo, new_hi) = split_dword(p);
        *chunk.first_mut().unwrap() = new_lo;
        *chunk.last_mut().unwrap() = new_hi;
        carry = new_carry;
    }

    // there might be a single word left, do two 1by1 multiplications
    let r = dwords.into_remainder();
    if !r.is_empty() {
        debug_assert!(r.len() == 1);
        let r0 = r.first_mut().unwrap();
        let (m_lo, m_hi) = split_dword(rhs);
        let (c_lo, c_hi) = split_dword(carry);
        let (n_lo, nc_lo) = math::mul_add_carry(*r0, m_lo, c_lo);
        let (n_hi, nc_hi) = math::mul_add_2carry(*r0, m_hi, nc_lo, c_hi);
        *r0 = n_lo;
        carry = double_word(n_hi, nc_hi);
    }
    carry
}
