//@ item: integer/src/mul/mod.rs :: sub_mul_word_same_len_in_place
pub fn sub_mul_word_same_len_in_place(words: &mut [Word], mult: Word, rhs: &[Word]) -> Word
/*@
    requires old(words)@.len() == rhs@.len(), rhs@.len() <= usize::MAX,
    ensures final(words)@.len() == old(words)@.len(),
        val(final(words)@) - (ret as int) * pw(rhs@.len() as int) == val(old(words)@) - (mult as int) * val(rhs@),
@*/
{
    assert!(words.len() == rhs.len());
    if mult == 0 {
        /*@ proof { assert((mult as int) * val(rhs@) == 0) by (nonlinear_arith) requires mult as int == 0; } @*/
        return 0;
    }

    let mut carry_plus_max = Word::MAX;
    for (a, b) in words.iter_mut().zip(rhs.iter())
    /*@
        invariant
            __n0 == words@.len(), words@.len() == old(words)@.len(), words@.len() == rhs@.len(), __i0 <= __n0,
            valn(words@, __i0 as int) - (Word::MAX as int - carry_plus_max as int) * pw(__i0 as int)
                == valn(old(words)@, __i0 as int) - (mult as int) * valn(rhs@, __i0 as int),
            forall|j: int| __i0 <= j < __n0 ==> words@[j] == old(words)@[j],
        decreases __n0 - __i0
    @*/
    {
        /*@ let ghost cpm0 = carry_plus_max; @*/
        /*@ proof { lemma_submul_range(*a as int, carry_plus_max as int, mult as int, *b as int); } @*/
        let v = extend_word(*a)
            + extend_word(carry_plus_max)
            + (double_word(0, Word::MAX) - extend_word(Word::MAX))
            - extend_word(mult) * extend_word(*b);
        let (v_lo, v_hi) = split_dword(v);
        *a = v_lo;
        carry_plus_max = v_hi;
        /*@ proof {
            let i = __i0 as int - 1;
            lemma_valn_ext(__w0, words@, i);
            lemma_submul_col(valn(__w0, i), valn(old(words)@, i), valn(rhs@, i), v_lo as int, v_hi as int,
                mult as int, rhs@[i] as int, __w0[i] as int, Word::MAX as int - cpm0 as int,
                Word::MAX as int - v_hi as int, pw(i));
        } @*/
    }
    Word::MAX - carry_plus_max
}
