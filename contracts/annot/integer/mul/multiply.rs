//@ item: integer/src/mul/mod.rs :: multiply
// TRUSTED CONTRACT (only ever used through `//@@ SIG`): the strategy dispatch behind it (simple / Karatsuba / Toom-3,
// mul/mod.rs add_signed_mul) is out of reach of the unbounded proofs; mul::simple is proved (unit int_mul_simple), the
// other strategies are bounded-checked against it.  Statement: "c = a * b, c must be filled with zeros" (its doc
// comment) in mathematical integers.
pub fn multiply<'a>(c: &mut [Word], a: &'a [Word], b: &'a [Word], memory: &mut Memory)
/*@
    requires old(c)@.len() == a@.len() + b@.len(),            // debug assertion of add_signed_mul
        forall|i: int| 0 <= i < old(c)@.len() ==> old(c)@[i] == 0,   // the function's own debug assertion
    ensures final(c)@.len() == old(c)@.len(),
        val(final(c)@) == val(a@) * val(b@),
@*/
{
    debug_assert!(c.iter().all(|&v| v == 0));
    debug_assert_zero!(add_signed_mul(c, Sign::Positive, a, b, memory));
}
