//@ item: integer/src/mul/mod.rs :: mul_word_in_place
pub fn mul_word_in_place(words: &mut [Word], rhs: Word) -> Word
/*@
    requires old(words)@.len() <= usize::MAX,
        rhs != 0,   // from the call sites: every caller passes a non-zero multiplier (the `rhs == 0` shortcut below
                    // returns without clearing `words` / adding `carry`; latent, unreachable: DESIGN.md §7)
    ensures final(words)@.len() == old(words)@.len(),
        val(final(words)@) + (ret as int) * pw(old(words)@.len() as int) == val(old(words)@) * (rhs as int),
@*/
{
    mul_word_in_place_with_carry(words, rhs, 0)
}
