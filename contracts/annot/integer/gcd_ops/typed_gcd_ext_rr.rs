//@ item: integer/src/gcd_ops.rs :: mod repr :: impl<'l, 'r> ExtendedGcd<TypedReprRef<'r>> for TypedReprRef<'l> :: gcd_ext
fn gcd_ext(self, rhs: TypedReprRef<'r>) -> (Repr, Repr, Repr)
/*@ #[hoist(Self = TypedReprRef<'l>, Name = typed_gcd_ext_rr, Generics = ['l, 'r])]
    requires self.wf(), rhs.wf(),
        self.v() != 0 || rhs.v() != 0,      // gcd(0, 0) panics (documented)
        // two `Large` operands: resource bound (lib/gcdo_ops_stubs.rs gcd_ext_large_pre)
        match (self, rhs) { (RefLarge(w0), RefLarge(w1)) => gcd_ext_large_pre(w0@, w1@), _ => true },
    ensures repr_gcd_ext_post(self.v(), rhs.v(), ret.0.v(), ret.1.v(), ret.2.v()),
@*/
{
            match (self, rhs) {
                (RefSmall(dword0), RefSmall(dword1)) => gcd_ext_dword(dword0, dword1),
                (RefLarge(words0), RefSmall(dword1)) => gcd_ext_large_dword(words0.into(), dword1),
                (RefSmall(dword0), RefLarge(words1)) => {
                    let (g, s, t) = gcd_ext_large_dword(words1.into(), dword0);
                    /*@ proof { lemma_gcdo_bezout_swap(val(words1@), dword0 as int, g.v(), s.v(), t.v()); } @*/
                    (g, t, s)
                }
                (RefLarge(words0), RefLarge(words1)) => gcd_ext_large(words0.into(), words1.into()),
            }
        }
