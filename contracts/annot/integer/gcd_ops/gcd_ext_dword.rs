//@ item: integer/src/gcd_ops.rs :: mod repr :: gcd_ext_dword
fn gcd_ext_dword(lhs: DoubleWord, rhs: DoubleWord) -> (Repr, Repr, Repr)
/*@
    requires lhs != 0 || rhs != 0,          // gcd(0, 0) panics (documented)
    ensures repr_gcd_ext_post(lhs as int, rhs as int, ret.0.v(), ret.1.v(), ret.2.v()),
@*/
{
    let (g, s, t) = lhs.gcd_ext(rhs);
    let (s_sign, s_mag) = s.to_sign_magnitude();
    let (t_sign, t_mag) = t.to_sign_magnitude();
    (
        Repr::from_dword(g),
        Repr::from_dword(s_mag).with_sign(s_sign),
        Repr::from_dword(t_mag).with_sign(t_sign),
    )
}
