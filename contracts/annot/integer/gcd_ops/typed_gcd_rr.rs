//@ item: integer/src/gcd_ops.rs :: mod repr :: impl<'l, 'r> Gcd<TypedReprRef<'r>> for TypedReprRef<'l> :: gcd
fn gcd(self, rhs: TypedReprRef) -> Repr
/*@ #[hoist(Self = TypedReprRef, Name = typed_gcd_rr)]
    requires self.wf(), rhs.wf(),
        self.v() != 0 || rhs.v() != 0,      // gcd(0, 0) panics (documented)
    ensures gcdo_is_gcd(ret.v(), self.v(), rhs.v()),
@*/
{
    /*@ proof {
        match (self, rhs) {
            (RefSmall(dword0), RefLarge(words1)) => {
                assert forall|g: int| gcdo_is_gcd(g, val(words1@), dword0 as int) implies gcdo_is_gcd(g, dword0 as int, val(words1@)) by {
                    lemma_gcdo_gcd_sym(g, val(words1@), dword0 as int);
                }
            }
            _ => {}
        }
    } @*/
            match (self, rhs) {
                (RefSmall(dword0), RefSmall(dword1)) => Repr::from_dword(dword0.gcd(dword1)),
                (RefSmall(dword0), RefLarge(words1)) => gcd_large_dword(words1, dword0),
                (RefLarge(words0), RefSmall(dword1)) => gcd_large_dword(words0, dword1),
                (RefLarge(words0), RefLarge(words1)) => gcd_large(words0.into(), words1.into()),
            }
        }
