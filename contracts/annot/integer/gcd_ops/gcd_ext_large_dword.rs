//@ item: integer/src/gcd_ops.rs :: mod repr :: gcd_ext_large_dword
fn gcd_ext_large_dword(mut buffer: Buffer, rhs: DoubleWord) -> (Repr, Repr, Repr)
/*@
    requires large_wf(buffer@),             // from the call sites: the words of a `Large` operand
    ensures repr_gcd_ext_post(val(buffer@), rhs as int, ret.0.v(), ret.1.v(), ret.2.v()),
@*/
{
    /*@ let ghost l = val(buffer@); @*/
    /*@ proof { lemma_gcdo_top_ge(buffer@); } @*/
    if rhs == 0 {
        /*@ proof {
            vstd::arithmetic::div_mod::lemma_mod_self_0(l);
            assert(0int % l == 0) by { vstd::arithmetic::div_mod::lemma_small_mod(0, l as nat); }
            assert(1 * l + 0 * 0 == l);
        } @*/
        (Repr::from_buffer(buffer), Repr::one(), Repr::zero())
    } else if let Some(word) = shrink_dword(rhs) {
        // reduce the large number by single word rhs
        let (g, a, b_sign) = gcd::gcd_ext_word(&mut buffer, word);
        let (a_sign, a_mag) = a.to_sign_magnitude();
        /*@ proof { lemma_gcdo_assemble(l, rhs as int, g as int, a as int, b_sign, val(buffer@)); lemma_valn_bound(buffer@, buffer@.len() as int); } @*/
        (
            Repr::from_word(g),
            Repr::from_word(a_mag).with_sign(a_sign),
            Repr::from_buffer(buffer).with_sign(b_sign),
        )
    } else {
        let (g, a, b_sign) = gcd::gcd_ext_dword(&mut buffer, rhs);
        let (a_sign, a_mag) = a.to_sign_magnitude();
        /*@ proof { lemma_gcdo_assemble(l, rhs as int, g as int, a as int, b_sign, val(buffer@)); lemma_valn_bound(buffer@, buffer@.len() as int); } @*/
        (
            Repr::from_dword(g),
            Repr::from_dword(a_mag).with_sign(a_sign),
            Repr::from_buffer(buffer).with_sign(b_sign),
        )
    }
}
