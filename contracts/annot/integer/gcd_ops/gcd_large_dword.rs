//@ item: integer/src/gcd_ops.rs :: mod repr :: gcd_large_dword
fn gcd_large_dword(buffer: &[Word], rhs: DoubleWord) -> Repr
/*@
    requires large_wf(buffer@),             // from the call sites: the words of a `Large` operand
    ensures gcdo_is_gcd(ret.v(), val(buffer@), rhs as int),
@*/
{
    /*@ let ghost l = val(buffer@); @*/
    /*@ proof { lemma_gcdo_top_ge(buffer@); lemma_gcdo_gcd_zero(l); } @*/
    if rhs == 0 {
        Repr::from_buffer(buffer.into())
    } else if let Some(word) = shrink_dword(rhs) {
        // reduce the large number by single word rhs
        let rem = div::rem_by_word(buffer, word);
        /*@ proof { lemma_gcdo_gcd_rem(l, word as int); } @*/
        if rem == 0 {
            Repr::from_word(word)
        } else {
            Repr::from_word(rem.gcd(word))
        }
    } else {
        // reduce the large number by double word rhs
        let rem = div::rem_by_dword(buffer, rhs);
        /*@ proof { lemma_gcdo_gcd_rem(l, rhs as int); } @*/
        if rem == 0 {
            Repr::from_dword(rhs)
        } else {
            Repr::from_dword(rem.gcd(rhs))
        }
    }
}
