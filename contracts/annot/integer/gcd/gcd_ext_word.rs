//@ item: integer/src/gcd/mod.rs :: gcd_ext_word
pub fn gcd_ext_word(lhs: &mut [Word], rhs: Word) -> (Word, SignedWord, Sign)
/*@
    requires rhs != 0, 1 <= old(lhs)@.len() <= usize::MAX,
    ensures final(lhs)@.len() == old(lhs)@.len(),
        // C12: ret.0 == gcd(lhs, rhs) and  ret.1 * lhs + (ret.2 * |lhs'|) * rhs == ret.0   (the ORIGINAL lhs)
        small_gcd_ext_post(val(old(lhs)@), rhs as int, ret.0 as int, ret.1 as int, ret.2, val(final(lhs)@)),
@*/
{
    debug_assert!(rhs != 0);
    /*@ let ghost l = val(old(lhs)@); let ghost n = old(lhs)@.len() as int; @*/
    let rem = div::div_by_word_in_place(lhs, rhs);
    /*@ let ghost q = val(lhs@); @*/
    /*@ proof { lemma_valn_bound(old(lhs)@, n); lemma_valn_bound(lhs@, n); } @*/
    if rem == 0 {
        *lhs.first_mut().unwrap() = 1;
        lhs[1..].fill(0);
        /*@ proof {
            lemma_gcdo_val_one(lhs@);
            vstd::arithmetic::div_mod::lemma_mod_multiples_basic(q, rhs as int);
            vstd::arithmetic::div_mod::lemma_mod_self_0(rhs as int);
            assert(0 * l + 1 * (rhs as int) == rhs as int);
            if l > rhs as int {
                assert(q >= 2) by (nonlinear_arith) requires l == q * (rhs as int), l > rhs as int, rhs as int >= 1;
                assert(q * (rhs as int) >= 2) by (nonlinear_arith) requires q >= 2, rhs as int >= 1;
            }
        } @*/
        (rhs, 0, Sign::Positive)
    } else {
        /*
         * r = s * rhs + t * rem
         *   = s * rhs + t * (lhs - q * rhs)
         *   = t * lhs + (s - t * q) * rhs
         * so let a = t, b = s - t * q, then r = a * lhs + b * rhs
         */
        let (r, s, t) = rhs.gcd_ext(rem);
        let (s_sign, s_mag) = s.to_sign_magnitude();
        let (t_sign, t_mag) = t.to_sign_magnitude();
        /*@ let ghost f = q * (t_mag as int) + s_mag as int; @*/
        /*@ proof {
            lemma_gcdo_rebuild(l, q, rhs as int, rem as int, r as int, s as int, t as int, t_mag as int, s_mag as int, f);
            lemma_gcdo_div_comb(r as int, q, rhs as int, rem as int);
            if l > rhs as int {
                if q < 1 { assert(q * (rhs as int) <= 0) by (nonlinear_arith) requires q <= 0, rhs as int >= 1; }
            }
        } @*/
        let b_sign = if s_mag == 0 { -t_sign } else { s_sign };

        let carry = mul::mul_word_in_place(lhs, t_mag);
        /*@ let ghost v2 = val(lhs@); @*/
        let carry2 = add::add_word_in_place(lhs, s_mag);
        /*@ proof {
            lemma_valn_bound(lhs@, n);
            lemma_gcdo_no_carry(val(lhs@), carry as int, b2i(carry2), pw(n), f);
        } @*/
        debug_assert!(carry == 0 && !carry2);
        (r, t, b_sign)
    }
}
