//@ item: integer/src/fmt/mod.rs :: impl InRadixWriter<'_> :: format_prepared
fn format_prepared(
        &self,
        f: &mut Formatter,
        prepared: &mut dyn PreparedForFormatting,
    ) -> fmt::Result
/*@ #[inline_closure(write_digits)] #[dyn_as_impl(prepared)]
    requires old(prepared).inv(),
        self.prefix.is_ascii(),                 // "everything is ASCII": call sites pass "", "0b", "0o", "0x"
        // "Adding sign and prefix to width will not overflow" (comment in the code: Buffer::MAX_CAPACITY leaves spare bits)
        old(prepared).ndigits() + 1 + self.prefix@.len() <= usize::MAX,
    // C07: the formatter receives sign, prefix and the digits of the prepared number, padded as core::fmt documents
    ensures ret is Ok ==> exists|ds: Seq<u8>| #[trigger] old(prepared).emits(ds) && ds.len() == old(prepared).ndigits()
            && final(f)@ == old(f)@ + layout(sign_str(self.sign, old(f).opts().sign_plus), self.prefix@, ds, old(f).opts()),
@*/
{
        /*@
        let ghost f0 = f@;
        let ghost o = f.opts();
        let ghost nd = prepared.ndigits();
        let ghost sg = sign_str(self.sign, o.sign_plus);
        let ghost px = self.prefix@;
        let ghost mut dsg: Seq<u8> = Seq::empty();
        // everything appended to f0 so far
        let ghost mut acc: Seq<Tok> = Seq::empty();
        let ghost mut ok: bool = false;
        proof { lemma_acc0(f0, acc, Tok::Ch('0')); }
        @*/
        let mut width = prepared.width();

        // Adding sign and prefix to width will not overflow, because Buffer::MAX_CAPACITY leaves
        // (WORD_BITS - 1) spare bits before we would hit overflow.
        let sign = if self.sign == Negative {
            "-"
        } else if f.sign_plus() {
            "+"
        } else {
            ""
        };
        /*@ proof {
            reveal_strlit("-"); reveal_strlit("+"); reveal_strlit("");
            fmt::ax_ascii_len("-"); fmt::ax_ascii_len("+"); fmt::ax_ascii_len("");
            fmt::ax_ascii_len(self.prefix);
            assert(sign@ =~= sg);
        } @*/
        // In bytes, but it's OK because everything is ASCII.
        width += sign.len() + self.prefix.len();
        /*@ let ghost text = sg.len() + px.len() + nd; @*/

        let mut write_digits = |f| {
            /*@ let ghost fb = f@; @*/
            let mut digit_writer = DigitWriter::new(f, self.digit_case);
            /*@ let ghost dw0 = digit_writer@; @*/
            prepared.write(&mut digit_writer)?;
            /*@ proof {
                dsg = digit_writer@;
                assert(dw0 =~= Seq::<u8>::empty());
                let ds = choose|ds: Seq<u8>| #[trigger] old(prepared).emits(ds) && ds.len() == nd && digit_writer@ == dw0 + ds;
                assert(dsg =~= ds);
                // (what f holds once the writer is gone: fb + digs(run), and flush resolves run == dsg)
                lemma_acc(f0, acc, digs(dsg), (f0 + acc) + digs(dsg));
                acc = acc + digs(dsg);
            } @*/
            digit_writer.flush()
        };

        match f.width() {
            None => {
                f.write_str(sign)?;
                /*@ proof { lemma_acc(f0, acc, chars(sg), f@); acc = acc + chars(sg); } @*/
                f.write_str(self.prefix)?;
                /*@ proof { lemma_acc(f0, acc, chars(px), f@); acc = acc + chars(px); } @*/
                write_digits(f)?
            }
            Some(min_width) => {
                if width >= min_width {
                    f.write_str(sign)?;
                    /*@ proof { lemma_acc(f0, acc, chars(sg), f@); acc = acc + chars(sg); } @*/
                    f.write_str(self.prefix)?;
                    /*@ proof { lemma_acc(f0, acc, chars(px), f@); acc = acc + chars(px); } @*/
                    write_digits(f)?;
                    /*@ proof { lemma_layout_plain(sg, px, dsg, o); ok = acc == layout(sg, px, dsg, o); } @*/
                } else if f.sign_aware_zero_pad() {
                    f.write_str(sign)?;
                    /*@ proof { lemma_acc(f0, acc, chars(sg), f@); acc = acc + chars(sg); } @*/
                    f.write_str(self.prefix)?;
                    /*@
                    proof { lemma_acc(f0, acc, chars(px), f@); acc = acc + chars(px); lemma_acc0(f0, acc, Tok::Ch('0')); }
                    let ghost a0 = acc;
                    @*/
                    for _ in 0..min_width - width
                    /*@ invariant
                        __n0 as int == min_width as int - text, __i0 <= __n0, f.opts() == o,
                        f@ == f0 + (a0 + rep(Tok::Ch('0'), __i0 as int)),
                      decreases __n0 - __i0
                    @*/
                    {
                        f.write_char('0')?;
                        /*@ proof { lemma_acc_push(f0, a0, Tok::Ch('0'), __i0 as int - 1, f@); } @*/
                    }
                    /*@ proof { acc = a0 + rep(Tok::Ch('0'), min_width as int - text); } @*/
                    write_digits(f)?;
                    /*@ proof { lemma_layout_zero(sg, px, dsg, o, min_width); ok = acc == layout(sg, px, dsg, o); } @*/
                } else {
                    let left_pad = match f.align() {
                        Some(Alignment::Left) => 0,
                        Some(Alignment::Right) | None => min_width - width,
                        Some(Alignment::Center) => (min_width - width) / 2,
                    };
                    let fill = f.fill();
                    /*@
                    proof { lemma_acc0(f0, acc, Tok::Ch(fill)); }
                    let ghost a0 = acc;
                    @*/
                    for _ in 0..left_pad
                    /*@ invariant
                        __n1 == left_pad, __i1 <= __n1, f.opts() == o,
                        f@ == f0 + (a0 + rep(Tok::Ch(fill), __i1 as int)),
                      decreases __n1 - __i1
                    @*/
                    {
                        f.write_char(fill)?;
                        /*@ proof { lemma_acc_push(f0, a0, Tok::Ch(fill), __i1 as int - 1, f@); } @*/
                    }
                    /*@ proof { acc = a0 + rep(Tok::Ch(fill), left_pad as int); } @*/
                    f.write_str(sign)?;
                    /*@ proof { lemma_acc(f0, acc, chars(sg), f@); acc = acc + chars(sg); } @*/
                    f.write_str(self.prefix)?;
                    /*@ proof { lemma_acc(f0, acc, chars(px), f@); acc = acc + chars(px); } @*/
                    write_digits(f)?;
                    /*@
                    proof { lemma_acc0(f0, acc, Tok::Ch(fill)); }
                    let ghost a1 = acc;
                    @*/
                    for _ in left_pad..min_width - width
                    /*@ invariant
                        __lo2 == left_pad, __n2 as int == min_width as int - text, __lo2 <= __i2 <= __n2, f.opts() == o,
                        f@ == f0 + (a1 + rep(Tok::Ch(fill), __i2 as int - left_pad as int)),
                      decreases __n2 - __i2
                    @*/
                    {
                        f.write_char(fill)?;
                        /*@ proof { lemma_acc_push(f0, a1, Tok::Ch(fill), __i2 as int - 1 - left_pad as int, f@); } @*/
                    }
                    /*@ proof {
                        acc = a1 + rep(Tok::Ch(fill), min_width as int - text - left_pad as int);
                        lemma_layout_fill(sg, px, dsg, o, min_width, left_pad as int);
                        ok = acc == layout(sg, px, dsg, o);
                    } @*/
                }
            }
        }
        /*@ proof {
            assert(old(prepared).emits(dsg) && dsg.len() == nd);
            assert(f@ == f0 + acc);
            if o.width is None { lemma_layout_plain(sg, px, dsg, o); ok = acc == layout(sg, px, dsg, o); }
            assert(ok);
        } @*/

        Ok(())
    }
