//@ item: integer/src/fmt/non_power_two.rs :: impl PreparedMedium :: new
fn new(number: TypedReprRef<'_>, radix: Digit) -> PreparedMedium
/*@
    requires radix_ok(radix), number.chunk_wf(),
        // "Must have no more than CHUNK_LEN * digits_per_word digits" (doc of the struct).  Call sites:
        // fmt_non_power_two (len * (digits_per_word + 1) <= CHUNK_LEN * digits_per_word and Word::MAX < radix^(dpw+1)),
        // PreparedLarge::new (number < chunk_power resp. the last quotient < radix_powers[0] = range_per_word^CHUNK_LEN)
        number.v() < ipow(rpw(radix), CHUNK_LEN as int),
    ensures medium_inv(ret), ret.radix == radix,
        // C07: the structure stands for the number ...
        medium_value(ret) == number.v(),
        // ... and its digit string has no superfluous leading zero (a single "0" for zero)
        word_digits(ret.top_group) >= 1,
        word_digits(ret.top_group) > 1 ==> ret.top_group.digits@[ret.top_group.start_index as int] != 0,
        // (added in this copy, see header) with low groups present the top group is not zero: together with the clause above
        // the whole digit string has no leading zero
        ret.num_low_groups > 0 ==> ret.top_group.digits@[ret.top_group.start_index as int] != 0,
@*/
{
        debug_assert!(radix::is_radix_valid(radix) && !radix.is_power_of_two());
        /*@ proof { broadcast use radix::ax_dpw; } @*/
        let radix_info = radix::radix_info(radix);

        let (mut buffer, mut buffer_len) = repr_to_chunk_buffer(number);

        let mut low_groups = [0; CHUNK_LEN];
        let mut num_low_groups = 0;

        let shift = radix_info.range_per_word.leading_zeros();
        /*@
        let ghost v0 = number.v();
        let ghost base = rpw(radix);
        let ghost dv = radix_info.fast_div_range_per_word.divisor();
        proof {
            lemma_nlz_bound(radix_info.range_per_word);
            assert(shift as int == radix::nlz(radix_info.range_per_word));
            lemma_sh_pow2_pos(shift as int);
            let p = pow2(shift as int);
            assert(dv == base * p);
            lemma_mul_div_exact(base, p);
            assert(v0 * ipow(base, 0) == v0);
        }
        @*/
        while buffer_len > 1
        /*@ invariant
            radix_ok(radix), base == rpw(radix), 3 <= base < B(), shift < WORD_BITS,
            radix_info.fast_div_range_per_word.wf(), dv == radix_info.fast_div_range_per_word.divisor(),
            dv % pow2(shift as int) == 0, dv / pow2(shift as int) == base,
            1 <= buffer_len <= CHUNK_LEN, num_low_groups <= CHUNK_LEN,
            buffer_len > 1 ==> buffer@[buffer_len as int - 1] != 0,
            v0 < ipow(base, CHUNK_LEN as int),
            v0 == val(buffer@.subrange(0, buffer_len as int)) * ipow(base, num_low_groups as int) + lv(low_groups@, num_low_groups as int, base),
            forall|i: int| 0 <= i < num_low_groups ==> (#[trigger] low_groups@[i] as int) < base,
            num_low_groups > 0 ==> val(buffer@.subrange(0, buffer_len as int)) >= 1,
          decreases val(buffer@.subrange(0, buffer_len as int))
        @*/
        {
            /*@
            let ghost b0 = buffer@.subrange(0, buffer_len as int);
            let ghost g0 = low_groups@;
            let ghost n = num_low_groups as int;
            proof {
                // the current value is at least B > base, so there is room for one more group
                lemma_val_top(b0);
                lemma_pw_pos(buffer_len as int - 2);
                assert(pw(buffer_len as int - 1) == B() * pw(buffer_len as int - 2));
                let t = pw(buffer_len as int - 2);
                assert(B() * t >= B()) by (nonlinear_arith) requires t >= 1;
                lemma_ipow_pos(base, n);
                lemma_valn_bound(g0, 0);
                lemma_lv_nonneg(g0, n, base);
                lemma_groups_bound(val(b0), base, n, v0, CHUNK_LEN as int);
            }
            @*/
            let rem = div::fast_div_by_word_in_place(
                &mut buffer[..buffer_len],
                shift,
                radix_info.fast_div_range_per_word,
            );
            low_groups[num_low_groups] = rem;
            num_low_groups += 1;
            /*@
            let ghost q = val(buffer@.subrange(0, buffer_len as int));
            proof {
                // val(b0) == q * base + rem: move the remainder into the groups
                lemma_lv_ext(g0, low_groups@, n, base);
                let p = ipow(base, n);
                assert(ipow(base, n + 1) == base * p);
                assert((q * base + rem as int) * p == q * (base * p) + (rem as int) * p) by (nonlinear_arith);
                // the quotient is positive and smaller
                lemma_valn_bound(buffer@.subrange(0, buffer_len as int), buffer_len as int);
                assert(val(b0) == q * base + rem as int);
                assert(0 <= (rem as int) < base);
                assert(val(b0) >= B());
                assert(q >= 1 && q < val(b0)) by (nonlinear_arith)
                    requires val(b0) == q * base + rem as int, 0 <= (rem as int) < base, val(b0) >= B(), base < B(), base >= 3, q >= 0;
                assert forall|i: int| 0 <= i < n + 1 implies (#[trigger] low_groups@[i] as int) < base by {
                    if i < n { assert(low_groups@[i] == g0[i]); }
                }
            }
            @*/

            while buffer[buffer_len - 1] == 0
            /*@ invariant
                1 <= buffer_len <= CHUNK_LEN,
                val(buffer@.subrange(0, buffer_len as int)) == q, q >= 1,
              decreases buffer_len
            @*/
            {
                /*@ proof {
                    lemma_val_drop_zero(buffer@, buffer_len as int);
                    if buffer_len == 1 { assert(val(buffer@.subrange(0, 0)) == 0); }
                } @*/
                buffer_len -= 1;
            }
        }
        debug_assert!(buffer_len == 1);
        /*@ proof { lemma_val1(buffer@.subrange(0, 1)); } @*/
        PreparedMedium {
            top_group: PreparedWord::new(buffer[0], radix, 1),
            low_groups,
            num_low_groups,
            radix,
        }
        /*@ proof {
            let k = num_low_groups as int;
            if k > 0 {
                // the top group has value buffer[0] >= 1: a single digit is that value, a longer string starts non-zero
                let (td, ts) = (ret.top_group.digits@, ret.top_group.start_index as int);
                if radix::MAX_WORD_DIGITS_NON_POW_2 as int - ts == 1 {
                    assert(dval(td, ts + 1, ts + 1, radix as int) == 0);
                    assert(ipow(radix as int, 0) == 1);
                    assert((td[ts] as int) * 1 == td[ts] as int);
                }
            }
            lemma_hv_lv(low_groups@, k, k, base);
            assert(ipow(base, 0) == 1);
            assert(hv(low_groups@, k, k, base) * 1 == hv(low_groups@, k, k, base));
            assert(lv(low_groups@, 0, base) == 0);
        } @*/
    }
