//@ item: integer/src/fmt/non_power_two.rs :: impl InRadixWriter<'_> :: fmt_non_power_two
pub fn fmt_non_power_two(&self, f: &mut Formatter) -> fmt::Result
/*@
    requires radix_ok(self.radix),       // debug_assert of the function; fmt() only comes here for such radices
        mag_ok(self.magnitude),
        self.prefix.is_ascii(), self.prefix@.len() <= 2,      // call sites: "", "0b", "0o", "0x"
    // C07 (non-power-of-two radix): the formatter receives sign, prefix and EXACTLY THE POSITIONAL DIGITS of the magnitude
    // in this radix (no leading zero except for zero itself), padded as requested
    ensures ret is Ok ==> exists|ds: Seq<u8>| #[trigger] positional(ds, self.radix as int, self.magnitude.v())
            && final(f)@ == old(f)@ + layout(sign_str(self.sign, old(f).opts().sign_plus), self.prefix@, ds, old(f).opts()),
@*/
{
        debug_assert!(radix::is_radix_valid(self.radix) && !self.radix.is_power_of_two());
        /*@
        let ghost rx = self.radix as int;
        let ghost v = self.magnitude.v();
        proof { broadcast use radix::ax_dpw; }
        @*/

        if let RefSmall(dword) = self.magnitude {
            if let Some(word) = shrink_dword(dword) {
                let mut prepared = PreparedWord::new(word, self.radix, 1);
                /*@ proof {
                    assert forall|ds: Seq<u8>| #[trigger] prepared.emits(ds) implies positional(ds, rx, v) by {
                        lemma_fe_array(prepared.digits@, prepared.start_index as int, radix::MAX_WORD_DIGITS_NON_POW_2 as int, rx, v, ds);
                    }
                } @*/
                return self.format_prepared(f, &mut prepared);
            } else {
                let mut prepared = PreparedDword::new(dword, self.radix);
                /*@ proof {
                    assert forall|ds: Seq<u8>| #[trigger] prepared.emits(ds) implies positional(ds, rx, v) by {
                        lemma_fe_array(prepared.digits@, prepared.start_index as int, radix::MAX_DWORD_DIGITS_NON_POW_2 as int, rx, v, ds);
                    }
                } @*/
                return self.format_prepared(f, &mut prepared);
            }
        }

        let radix_info = radix::radix_info(self.radix);
        /*@
        let ghost len = self.magnitude.nwords();
        proof {
            let d = radix_info.digits_per_word as int + 1;
            let (wb, m) = (WORD_BITS as int, usize::MAX as int);
            assert(len * d <= m) by (nonlinear_arith) requires len >= 0, 0 <= d <= wb, len + 1 < m / wb, wb >= 1;
            lemma_fl_number_bound(self.magnitude);
            match self.magnitude {
                TypedReprRef::RefLarge(w) => { lemma_val_top(w@); lemma_pw_pos(w@.len() - 1); }
                TypedReprRef::RefSmall(_) => {}
            }
            assert(v >= 1);
        }
        @*/
        let max_digits = self.magnitude.len() * (radix_info.digits_per_word + 1);
        if max_digits <= CHUNK_LEN * radix_info.digits_per_word {
            /*@ proof {
                lemma_fe_medium_dispatch(self.radix, v, len);
                lemma_fl_chunk_base(self.radix);
                lemma_fl_typed_chunk_wf(self.magnitude);
            } @*/
            let mut prepared = PreparedMedium::new(self.magnitude, self.radix);
            /*@ proof {
                lemma_fl_medium_lead(prepared);
                let nl = prepared.num_low_groups as int;
                let dp = dpw(self.radix);
                assert(0 <= nl * dp <= 16 * 64) by (nonlinear_arith) requires 0 <= nl <= 16, 1 <= dp <= 64;
                assert(usize::MAX >= 0xffff);
                assert forall|ds: Seq<u8>| #[trigger] prepared.emits(ds) implies positional(ds, rx, v) by {
                    lemma_fe_emitted(ds, medium_digits(prepared), rx, v, prepared.top_group);
                }
            } @*/
            self.format_prepared(f, &mut prepared)
        } else {
            let mut prepared = PreparedLarge::new(self.magnitude, self.radix);
            /*@ proof {
                lemma_fe_large_count(prepared, v, len);
                assert forall|ds: Seq<u8>| #[trigger] prepared.emits(ds) implies positional(ds, rx, v) by {
                    lemma_fe_emitted(ds, large_digits(prepared), rx, v, prepared.top_chunk.top_group);
                }
            } @*/
            self.format_prepared(f, &mut prepared)
        }
    }
