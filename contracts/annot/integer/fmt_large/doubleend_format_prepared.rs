//@ item: integer/src/fmt/mod.rs :: impl DoubleEnd<'_> :: format_prepared
fn format_prepared(
        &self,
        f: &mut Formatter,
        digits: usize,
        prepared_high: &mut dyn PreparedForFormatting,
        prepared_low: Option<&mut dyn PreparedForFormatting>,
    ) -> fmt::Result
/*@
    requires old(prepared_high).inv(),
        prepared_low is Some ==> low_of(prepared_low).inv(),
    // Debug output: sign, the prepared high digits, for a long number ".." and the prepared low digits, and in verbose mode
    // the suffix " (digits: D, bits: B)" with D the number handed in and B the bit length of the magnitude, both in decimal
    ensures ret is Ok ==> exists|hs: Seq<u8>, ls: Seq<u8>| #[trigger] old(prepared_high).emits(hs) && hs.len() == old(prepared_high).ndigits()
            && #[trigger] low_ok(prepared_low, ls)
            && final(f)@ == old(f)@ + double_end_layout(sign_str(self.sign, old(f).opts().sign_plus), hs, prepared_low is Some, ls,
                    self.verbose, digits, bit_len_spec(self.magnitude)),
@*/
{
        /*@
        let ghost f0 = f@;
        let ghost o = f.opts();
        let ghost sg = sign_str(self.sign, o.sign_plus);
        let ghost mut acc: Seq<Tok> = Seq::empty();
        let ghost mut hs: Seq<u8> = Seq::empty();
        let ghost mut ls: Seq<u8> = Seq::empty();
        let ghost has_low = prepared_low is Some;
        let ghost lowp = low_of(prepared_low);
        proof { lemma_acc0(f0, acc, Tok::Ch('0')); }
        @*/
        let sign = if self.sign == Negative {
            "-"
        } else if f.sign_plus() {
            "+"
        } else {
            ""
        };
        /*@ proof {
            reveal_strlit("-"); reveal_strlit("+"); reveal_strlit("");
            assert(sign@ =~= sg);
        } @*/
        f.write_str(sign)?;
        /*@ proof { lemma_acc(f0, acc, chars(sg), f@); acc = acc + chars(sg); } @*/

        let mut digit_writer = DigitWriter::new(f, DigitCase::NoLetters);
        /*@ let ghost dw0 = digit_writer@; @*/
        prepared_high.write(&mut digit_writer)?;
        /*@ proof {
            hs = digit_writer@;
            assert(dw0 =~= Seq::<u8>::empty());
            let ds = choose|ds: Seq<u8>| #[trigger] old(prepared_high).emits(ds) && ds.len() == old(prepared_high).ndigits() && digit_writer@ == dw0 + ds;
            assert(hs =~= ds);
        } @*/
        digit_writer.flush()?;
        /*@ proof { lemma_acc(f0, acc, digs(hs), f@); acc = acc + digs(hs); } @*/

        if let Some(low) = prepared_low {
            f.write_str("..")?;
            /*@ proof { lemma_acc(f0, acc, chars(".."@), f@); acc = acc + chars(".."@); } @*/

            let mut digit_writer = DigitWriter::new(f, DigitCase::NoLetters);
            /*@ let ghost dw1 = digit_writer@; @*/
            low.write(&mut digit_writer)?;
            /*@ proof {
                ls = digit_writer@;
                assert(dw1 =~= Seq::<u8>::empty());
                let ds = choose|ds: Seq<u8>| #[trigger] lowp.emits(ds) && ds.len() == lowp.ndigits() && digit_writer@ == dw1 + ds;
                assert(ls =~= ds);
            } @*/
            digit_writer.flush()?;
            /*@ proof { lemma_acc(f0, acc, digs(ls), f@); acc = acc + digs(ls); } @*/
        }

        if self.verbose {
            f.write_str(" (digits: ")?;
            /*@ proof { lemma_acc(f0, acc, chars(" (digits: "@), f@); acc = acc + chars(" (digits: "@); } @*/
            non_power_two::write_usize_decimals(f, digits)?;
            /*@ proof { lemma_acc(f0, acc, digs(dec_digits(digits)), f@); acc = acc + digs(dec_digits(digits)); } @*/
            f.write_str(", bits: ")?;
            /*@ proof { lemma_acc(f0, acc, chars(", bits: "@), f@); acc = acc + chars(", bits: "@); } @*/
            non_power_two::write_usize_decimals(f, self.magnitude.bit_len())?;
            /*@ proof { lemma_acc(f0, acc, digs(dec_digits(bit_len_spec(self.magnitude))), f@); acc = acc + digs(dec_digits(bit_len_spec(self.magnitude))); } @*/
            f.write_str(")")?;
            /*@ proof { lemma_acc(f0, acc, chars(")"@), f@); acc = acc + chars(")"@); } @*/
        }
        /*@ proof {
            assert(old(prepared_high).emits(hs) && hs.len() == old(prepared_high).ndigits());
            assert(low_ok(prepared_low, ls));
            assert(f@ == f0 + acc);
            assert(acc == double_end_layout(sg, hs, has_low, ls, self.verbose, digits, bit_len_spec(self.magnitude)));
        } @*/

        Ok(())
    }
