//@ item: integer/src/fmt/non_power_two.rs :: impl PreparedDword :: new
fn new(dword: DoubleWord, radix: Digit) -> PreparedDword
/*@ #[inline_closure(get_digit)]
    requires radix_ok(radix), dword as int >= B(),      // the two debug assertions; call sites: shrink_dword failed
    ensures dword_wf(ret),
        // C07: the stored digits are the positional representation of the double word in this radix ...
        digits_ok(ret.digits@, ret.start_index as int, radix::MAX_DWORD_DIGITS_NON_POW_2 as int, radix as int),
        dval(ret.digits@, ret.start_index as int, radix::MAX_DWORD_DIGITS_NON_POW_2 as int, radix as int) == dword as int,
        // ... without a leading zero
        dword_digits(ret) >= 1, ret.digits@[ret.start_index as int] != 0,
@*/
{
        debug_assert!(radix::is_radix_valid(radix) && !radix.is_power_of_two());
        debug_assert!(dword > Word::MAX as DoubleWord);
        /*@ proof { broadcast use radix::ax_dpw; } @*/
        let radix_info = radix::radix_info(radix);

        let mut prepared = PreparedDword {
            digits: [0; radix::MAX_DWORD_DIGITS_NON_POW_2],
            start_index: radix::MAX_DWORD_DIGITS_NON_POW_2,
        };

        // extract digits from three parts separated by range_per_word
        let shift = radix_info.range_per_word.leading_zeros();
        let range_div = &radix_info.fast_div_range_per_word;
        /*@
        let ghost dw = dword as int;
        let ghost rx = radix as int;
        let ghost rr = rpw(radix);
        let ghost n = dpw(radix);
        let ghost mx = radix::MAX_DWORD_DIGITS_NON_POW_2 as int;
        let ghost pp = pow2(shift as int);
        let ghost dv = range_div.divisor();
        proof {
            lemma_fd_shift_small(radix, radix_info.range_per_word);
            assert(shift as int == radix::nlz(radix_info.range_per_word));
            assert(dv == rr * pp);
            lemma_sh_pow2_bits();
            lemma_fd_dword_bound(dword);
        }
        @*/

        let (lo, mid, hi) = shl_dword(dword, shift);
        /*@ proof { lemma_fd_pre1(dw, pp, lo as int, mid as int, hi as int, dv); } @*/
        let (q1, r) = range_div.div_rem_2by1(double_word(mid, hi));
        /*@
        let ghost r1 = r as int;
        proof {
            let a1 = mid as int + (hi as int) * B();
            assert(a1 == dv * (a1 / dv) + a1 % dv && 0 <= a1 % dv < dv) by (nonlinear_arith) requires dv >= 1, a1 >= 0;
            assert(lo as int + r1 * B() < dv * B()) by (nonlinear_arith) requires r1 + 1 <= dv, (lo as int) < B(), B() >= 1;
        }
        @*/
        let (q0, mut p0) = range_div.div_rem_2by1(double_word(lo, r));
        /*@
        let ghost p0s = p0 as int;
        proof {
            let a0 = lo as int + r1 * B();
            assert(a0 == dv * (a0 / dv) + a0 % dv && 0 <= a0 % dv < dv) by (nonlinear_arith) requires dv >= 1, a0 >= 0;
            lemma_sh_shr_div_w(p0, shift);
        }
        @*/
        p0 >>= shift;

        // since: hi < 2^shift, range_per_word < 2^(WORD_BITS - shift),
        // we have: q1 = [hi, mid] / range_per_word < 2^(2*shift)
        // meanwhile, for radix 2~36 it can be verified that: shift <= 4 for WORD_BITS = 16 or 32 or 64
        // so q1 * 2^shift < 2^(3*shift) < 2^16, the shifting below won't overflow
        /*@
        let ghost qd = q0 as int + (q1 as int) * B();
        proof {
            // first two divisions: dw == qd * rr + p0
            assert(dw * pp == qd * dv + p0s) by (nonlinear_arith)
                requires lo as int + (mid as int) * B() + (hi as int) * (B() * B()) == dw * pp,
                    mid as int + (hi as int) * B() == dv * (q1 as int) + r1, lo as int + r1 * B() == dv * (q0 as int) + p0s,
                    qd == q0 as int + (q1 as int) * B();
            lemma_fd_unshift(dw, qd, rr, pp, p0s);
            assert(p0 as int == p0s / pp);
            assert(rr * 36 >= B()) by (nonlinear_arith) requires rr * rx >= B(), rx <= 36, rr >= 0;
            assert(qd >= 0) by (nonlinear_arith) requires qd == q0 as int + (q1 as int) * B(), q0 >= 0, q1 >= 0, B() >= 0;
            lemma_fd_pre2(dw, rr, pp, qd, p0 as int);
            lemma_sh_shl_mul_d(qd as DoubleWord, shift);
        }
        @*/
        let q = double_word(q0, q1) << shift;
        let (mut p2, mut p1) = range_div.div_rem_2by1(q);
        /*@
        let ghost p1s = p1 as int;
        proof {
            let qq = q as int;
            assert(qq == qd * pp);
            assert(qq == dv * (qq / dv) + qq % dv && 0 <= qq % dv < dv) by (nonlinear_arith) requires dv >= 1, qq >= 0;
            assert(qd * pp == (p2 as int) * (rr * pp) + p1s) by (nonlinear_arith)
                requires qq == qd * pp, qq == dv * (p2 as int) + p1s, dv == rr * pp;
            lemma_fd_unshift(qd, p2 as int, rr, pp, p1s);
            lemma_sh_shr_div_w(p1, shift);
        }
        @*/
        p1 >>= shift;
        /*@
        let ghost a2 = p2 as int;
        let ghost a1 = a2 * rr + p1 as int;
        proof {
            // dw == (p2 * rr + p1) * rr + p0, p0, p1 < rr = rx^n;  dw >= B > rr: the upper part is not zero
            assert(p1 as int == p1s / pp);
            assert(dw == a1 * rr + p0 as int) by (nonlinear_arith) requires dw == qd * rr + p0 as int, qd == a1;
            assert(a1 >= 1) by (nonlinear_arith) requires dw == a1 * rr + p0 as int, (p0 as int) < rr, dw >= B(), rr < B(), rr >= 1;
            assert(a2 * rr >= 0) by (nonlinear_arith) requires a2 >= 0, rr >= 0;
            assert(ipow(rx, 0) == 1);
            assert(dw * 1 == dw) by (nonlinear_arith);
            assert(dw_state(dw, rx, dw, prepared.digits@, mx));
        }
        @*/

        // extract digits from each part
        let mut get_digit = |p: &mut Word| {
            let (new_p, d) = radix_info.fast_div_radix.div_rem(*p, radix as _);
            *p = new_p;
            prepared.start_index -= 1;
            prepared.digits[prepared.start_index] = d as u8;
        };
        for _ in 0..radix_info.digits_per_word
        /*@ invariant
            __n0 as int == n, __i0 <= __n0, rx == radix as int, 3 <= rx <= 36, radix_info.fast_div_radix.divisor() == rx,
            1 <= n, 2 * n < mx, mx == radix::MAX_DWORD_DIGITS_NON_POW_2 as int, rr == ipow(rx, n), a1 >= 1,
            prepared.start_index as int == mx - __i0 as int,
            0 <= (p0 as int) < ipow(rx, n - __i0 as int),
            dw_state(dw, rx, a1 * ipow(rx, n - __i0 as int) + p0 as int, prepared.digits@, prepared.start_index as int),
          decreases __n0 - __i0
        @*/
        {
            /*@
            let ghost pc = p0 as int;
            let ghost d0 = prepared.digits@;
            let ghost s0 = prepared.start_index as int;
            let ghost m = n - (__i0 as int - 1);
            @*/
            get_digit(&mut p0);
            /*@ proof {
                let (pn, dig) = (pc / rx, pc % rx);
                assert(pc == pn * rx + dig && 0 <= dig < rx) by (nonlinear_arith) requires pn == pc / rx, dig == pc % rx, rx >= 3, pc >= 0;
                lemma_fd_rest_step(a1, rx, m, pc, pn, dig);
                let pw_ = ipow(rx, m); lemma_ipow_pos(rx, m);
                assert(a1 * pw_ >= 1) by (nonlinear_arith) requires a1 >= 1, pw_ >= 1;
                lemma_fd_step(dw, rx, a1 * ipow(rx, m) + pc, d0, s0, a1 * ipow(rx, m - 1) + pn, dig, prepared.digits@);
            } @*/
        }
        /*@ proof {
            // p0 is used up: what is left is a1 = p2 * rx^n + p1
            assert(ipow(rx, 0) == 1);
            assert(a1 * 1 == a1) by (nonlinear_arith);
        } @*/
        for _ in 0..radix_info.digits_per_word
        /*@ invariant_except_break
            __n1 as int == n, __i1 <= __n1, rx == radix as int, 3 <= rx <= 36, radix_info.fast_div_radix.divisor() == rx,
            1 <= n, 2 * n < mx, mx == radix::MAX_DWORD_DIGITS_NON_POW_2 as int, rr == ipow(rx, n),
            prepared.start_index as int == mx - n - __i1 as int,
            0 <= (p1 as int) < ipow(rx, n - __i1 as int),
            dw_state(dw, rx, (p2 as int) * ipow(rx, n - __i1 as int) + p1 as int, prepared.digits@, prepared.start_index as int),
            __i1 == __n1 ==> dw_state(dw, rx, p2 as int, prepared.digits@, prepared.start_index as int),
          ensures
            prepared.start_index as int <= mx - n,
            dw_state(dw, rx, p2 as int, prepared.digits@, prepared.start_index as int),
          decreases __n1 - __i1
        @*/
        {
            /*@
            let ghost pc = p1 as int;
            let ghost d0 = prepared.digits@;
            let ghost s0 = prepared.start_index as int;
            let ghost m = n - (__i1 as int - 1);
            let ghost a = p2 as int;
            @*/
            if p1 == 0 && p2 == 0 {
                /*@ proof { assert(0 * ipow(rx, m) == 0) by (nonlinear_arith); } @*/
                break;
            }
            get_digit(&mut p1);
            /*@ proof {
                let (pn, dig) = (pc / rx, pc % rx);
                assert(pc == pn * rx + dig && 0 <= dig < rx) by (nonlinear_arith) requires pn == pc / rx, dig == pc % rx, rx >= 3, pc >= 0;
                lemma_fd_rest_step(a, rx, m, pc, pn, dig);
                let pw_ = ipow(rx, m); lemma_ipow_pos(rx, m);
                if a >= 1 { assert(a * pw_ >= 1) by (nonlinear_arith) requires a >= 1, pw_ >= 1; }
                else { assert(a * pw_ == 0) by (nonlinear_arith) requires a == 0; }
                lemma_fd_step(dw, rx, a * ipow(rx, m) + pc, d0, s0, a * ipow(rx, m - 1) + pn, dig, prepared.digits@);
                if __i1 == __n1 {
                    assert(ipow(rx, 0) == 1);
                    assert(a * 1 == a) by (nonlinear_arith);
                    assert(pn == 0);
                    assert(dw_state(dw, rx, p2 as int, prepared.digits@, prepared.start_index as int));
                }
            } @*/
        }
        while p2 != 0
        /*@ invariant
            rx == radix as int, 3 <= rx <= 36, radix_info.fast_div_radix.divisor() == rx, dw < B() * B(),
            mx == radix::MAX_DWORD_DIGITS_NON_POW_2 as int,
            dw_state(dw, rx, p2 as int, prepared.digits@, prepared.start_index as int),
          decreases p2
        @*/
        {
            /*@
            let ghost pc = p2 as int;
            let ghost d0 = prepared.digits@;
            let ghost s0 = prepared.start_index as int;
            proof { lemma_fd_room(dw, rx, pc, d0, s0); }
            @*/
            get_digit(&mut p2);
            /*@ proof {
                let (pn, dig) = (pc / rx, pc % rx);
                assert(pc == pn * rx + dig && 0 <= dig < rx && pn < pc && pn >= 0) by (nonlinear_arith)
                    requires pn == pc / rx, dig == pc % rx, rx >= 3, pc >= 1;
                lemma_fd_step(dw, rx, pc, d0, s0, pn, dig, prepared.digits@);
            } @*/
        }

        prepared
    }
