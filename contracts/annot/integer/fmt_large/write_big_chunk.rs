//@ item: integer/src/fmt/non_power_two.rs :: impl PreparedLarge :: write_big_chunk
fn write_big_chunk(&self, digit_writer: &mut DigitWriter, i: usize, x: Repr) -> fmt::Result
/*@
    requires radix_ok(self.radix),
        // the table holds radix^((digits_per_word * CHUNK_LEN) << k) for every level below i
        i <= self.radix_powers@.len(), powers_ok(self.radix, self.radix_powers@, i as int),
        // "Write (digits_per_word * CHUNK_LEN) << i digits": x is a remainder modulo the power of level i
        0 <= x.v() < level_pow(self.radix, i as int),
    // C07: exactly (digits_per_word * CHUNK_LEN) << i digits below the radix whose positional value is x
    ensures ret is Ok ==> emitted(old(digit_writer)@, final(digit_writer)@, level_digits(self.radix, i as int), self.radix as int, x.v()),
    decreases i
@*/
{
        /*@
        let ghost pre = digit_writer@;
        let ghost r = self.radix as int;
        let ghost x0 = x.v();
        @*/
        if i == 0 {
            /*@ proof { lemma_fl_level0(self.radix); } @*/
            self.write_chunk(digit_writer, x)
        } else {
            /*@
            let ghost p = level_pow(self.radix, i as int - 1);
            let ghost n = level_digits(self.radix, i as int - 1);
            proof {
                lemma_fl_level(self.radix, i as int - 1);
                lemma_fl_level_step(self.radix, i as int - 1);
                assert(self.radix_powers@[i as int - 1].v() == p);
            }
            @*/
            let (q, r) = x.into_typed().div_rem(self.radix_powers[i - 1].as_typed());
            /*@
            let ghost qv = q.v();
            let ghost rv = r.v();
            proof { lemma_fl_quot_lt(x0, p, qv, rv); }
            @*/
            self.write_big_chunk(digit_writer, i - 1, q)?;
            /*@
            let ghost mid = digit_writer@;
            proof {
                // whatever the second half appends: n digits of value rv after n digits of value qv
                let rr = self.radix as int;
                assert forall|out: Seq<u8>| #[trigger] emitted(mid, out, n, rr, rv) implies emitted(pre, out, n + n, rr, x0) by {
                    lemma_fl_emit_compose(pre, mid, out, n, n, rr, qv, rv);
                }
            }
            @*/
            self.write_big_chunk(digit_writer, i - 1, r)
        }
    }
