//@ item: integer/src/fmt/non_power_two.rs :: impl PreparedLarge :: new
fn new(number: TypedReprRef<'_>, radix: Digit) -> PreparedLarge
/*@
    requires radix_ok(radix),
        number.wf(),                                   // a large magnitude is normalized (repr.rs:36-49)
        number.nwords() + 1 < max_capacity(),          // resource: the largest square computed has <= len + 1 words
    ensures large_inv(ret), ret.radix == radix,
        // C07: the structure stands for the number (PreparedLarge::write emits large_value, unit int_fmt_large_write) ...
        large_value(ret) == number.v(),
        // ... and starts with a non-zero top chunk printed without a superfluous leading zero
        word_digits(ret.top_chunk.top_group) >= 1,
        word_digits(ret.top_chunk.top_group) > 1 ==> ret.top_chunk.top_group.digits@[ret.top_chunk.top_group.start_index as int] != 0,
        ret.big_chunks@.len() > 0 ==> medium_value(ret.top_chunk) >= 1,
        number.v() >= 1 ==> ret.top_chunk.top_group.digits@[ret.top_chunk.top_group.start_index as int] != 0,
@*/
{
        debug_assert!(radix::is_radix_valid(radix) && !radix.is_power_of_two());
        /*@
        let ghost nv = number.v();
        proof {
            broadcast use radix::ax_dpw;
            lemma_fl_chunk_base(radix);
            lemma_fl_level0(radix);
            lemma_fl_number_bound(number);
        }
        @*/
        let radix_info = radix::radix_info(radix);

        let mut radix_powers = Vec::new();
        let mut big_chunks = Vec::new();
        /*@ proof {
            // whatever as_typed() returns for a one-word value: it counts as 2 words
            assert forall|t: TypedReprRef| #[trigger] t.wf() && t.v() < B() implies t.nwords() == 2 by {
                assert(pw(1) == B() * pw(0));
                assert(pw(0) == 1);
                lemma_fl_typed_nwords(t, 1);
            }
        } @*/
        let chunk_power = Repr::from_word(radix_info.range_per_word)
            .as_typed()
            .pow(CHUNK_LEN);
        /*@ proof {
            assert(chunk_power.v() == level_pow(radix, 0));
            assert forall|t: TypedReprRef| #[trigger] t.wf() && t.v() < pw(CHUNK_LEN as int) implies t.chunk_wf() by { lemma_fl_typed_chunk_wf(t); }
        } @*/
        if chunk_power.as_typed() > number {
            /*@ proof {
                // (the lead-digit clause of this exit: the structure is the medium number itself)
                assert forall|m: PreparedMedium| #[trigger] medium_inv(m) && medium_value(m) >= 1 && word_digits(m.top_group) >= 1
                    && (word_digits(m.top_group) > 1 ==> m.top_group.digits@[m.top_group.start_index as int] != 0)
                    && (m.num_low_groups > 0 ==> m.top_group.digits@[m.top_group.start_index as int] != 0)
                    implies m.top_group.digits@[m.top_group.start_index as int] != 0 by { lemma_fl_medium_lead(m); }
            } @*/
            return PreparedLarge {
                top_chunk: PreparedMedium::new(number, radix),
                radix_powers,
                big_chunks,
                radix,
            };
        }

        radix_powers.push(chunk_power);
        loop
        /*@ invariant
            radix_ok(radix), number.wf(), nv == number.v(), number.nwords() + 1 < max_capacity(),
            nv < pw(number.nwords()),
            radix_powers@.len() >= 1,
            powers_ok(radix, radix_powers@, radix_powers@.len() as int),
            radix_powers@[radix_powers@.len() - 1].v() <= nv,
          ensures
            radix_powers@.len() >= 1,
            powers_ok(radix, radix_powers@, radix_powers@.len() as int),
            radix_powers@[radix_powers@.len() - 1].v() <= nv,
            nv < level_pow(radix, radix_powers@.len() as int),
          decreases nv - radix_powers@[radix_powers@.len() - 1].v()
        @*/
        {
            /*@
            let ghost k = radix_powers@.len() as int - 1;
            let ghost pv = radix_powers@[k].v();
            proof {
                lemma_fl_level(radix, k);
                lemma_fl_level_step(radix, k);
                assert(pv == level_pow(radix, k));
                lemma_fl_wl(pv);         // prev.len() >= 1
            }
            @*/
            let prev = radix_powers.last().unwrap();
            // Avoid multiplication if we know prev * prev > number just by looking at lengths.
            if 2 * prev.len() - 1 > number.len() {
                /*@ proof {
                    lemma_fl_number_len(number);
                    lemma_fl_wl(pv);
                    lemma_fl_len_shortcut(pv, wl(pv), nv, tlen(number));
                } @*/
                break;
            }
            /*@ proof {
                lemma_fl_number_len(number);
                lemma_fl_wl(pv);
                let lp = wl(pv);
                assert forall|t: TypedReprRef| #[trigger] t.wf() && t.v() == pv implies t.nwords() * 2 <= max_capacity() by {
                    lemma_fl_typed_nwords(t, lp);
                }
            } @*/

            // 2 * prev.len() is at most 1 larger than number.len().
            let new = prev.as_typed().sqr();
            /*@ proof {
                assert(new.v() == level_pow(radix, k + 1));
                assert(pv * pv > pv) by (nonlinear_arith) requires pv >= 3;
            } @*/
            if new.as_typed() > number {
                break;
            }
            radix_powers.push(new);
        }

        /*@
        let ghost np = radix_powers@.len() as int;
        let ghost rp = radix_powers@;
        proof { lemma_fl_level(radix, np - 1); lemma_fl_level_step(radix, np - 1); }
        @*/
        let mut power_iter = radix_powers.iter().enumerate().rev();
        let mut x = {
            let (i, p) = power_iter.next().unwrap();
            let (q, r) = number.div_rem(p.as_typed());
            /*@ proof {
                lemma_fl_quot_lt(nv, level_pow(radix, np - 1), q.v(), r.v());
                lemma_fl_quot_pos(nv, level_pow(radix, np - 1), q.v(), r.v());
                lemma_fl_cv_push(radix, big_chunks@, (i, r), nv, q.v(), 0);
            } @*/
            big_chunks.push((i, r));
            q
        };
        for (i, p) in power_iter
        /*@ invariant
            radix_ok(radix), np == rp.len(), power_iter.s@ == rp, power_iter.wf(),
            powers_ok(radix, rp, np),
            1 <= x.v() < level_pow(radix, power_iter.n as int),
            big_chunks@.len() >= 1,
            chunks_ok(radix, big_chunks@, np),
            nv == chunks_value(radix, x.v(), big_chunks@, 0),
          decreases power_iter.n
        @*/
        {
            /*@
            let ghost xv = x.v();
            let ghost bc0 = big_chunks@;
            proof { lemma_fl_level(radix, i as int); assert((*p).v() == level_pow(radix, i as int)); }
            @*/
            if x.as_typed() >= p.as_typed() {
                let (q, r) = x.into_typed().div_rem(p.as_typed());
                /*@ proof {
                    lemma_fl_quot_level(radix, i as int, xv, q.v(), r.v());
                    lemma_fl_quot_pos(xv, level_pow(radix, i as int), q.v(), r.v());
                    lemma_fl_cv_push(radix, bc0, (i, r), xv, q.v(), 0);
                } @*/
                big_chunks.push((i, r));
                x = q;
            }
        }

        /*@ proof {
            assert forall|t: TypedReprRef| #[trigger] t.wf() && t.v() < pw(CHUNK_LEN as int) implies t.chunk_wf() by { lemma_fl_typed_chunk_wf(t); }
        } @*/
        PreparedLarge {
            top_chunk: PreparedMedium::new(x.as_typed(), radix),
            radix_powers,
            big_chunks,
            radix,
        }
        /*@ proof { lemma_fl_medium_lead(ret.top_chunk); } @*/
    }
