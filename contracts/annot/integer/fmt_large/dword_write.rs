//@ item: integer/src/fmt/non_power_two.rs :: impl PreparedForFormatting for PreparedDword :: write
fn write(&mut self, digit_writer: &mut DigitWriter) -> fmt::Result
/*@ #[hoist(Self = PreparedDword, Name = dword_write)]
    requires dword_wf(*old(self)),
    ensures *final(self) == *old(self),
        // exactly the stored digits digits[start_index..], in order
        ret is Ok ==> final(digit_writer)@ == old(digit_writer)@
            + old(self).digits@.subrange(old(self).start_index as int, radix::MAX_DWORD_DIGITS_NON_POW_2 as int),
@*/
{
        digit_writer.write(&self.digits[self.start_index..])
    }
