//@ item: integer/src/fmt/non_power_two.rs :: impl PreparedForFormatting for PreparedLarge :: write
fn write(&mut self, digit_writer: &mut DigitWriter) -> fmt::Result
/*@ #[hoist(Self = PreparedLarge, Name = large_write)]
    requires large_inv(*old(self)),
    // C07: what reaches the digit writer is a digit string of exactly large_digits (= width(), unit int_fmt_width) digits
    // below the radix whose positional value is the number the structure stands for; it begins with the digits of the top
    // group of the top chunk (which PreparedMedium::new produces without a superfluous leading zero)
    ensures ret is Ok ==> ({
            let (pre, out, r) = (old(digit_writer)@, final(digit_writer)@, old(self).radix as int);
            &&& emitted(pre, out, large_digits(*old(self)), r, large_value(*old(self)))
            &&& forall|p: int| pre.len() <= p < pre.len() + word_digits(old(self).top_chunk.top_group) ==>
                    #[trigger] out[p] == old(self).top_chunk.top_group.digits@[p - pre.len() + old(self).top_chunk.top_group.start_index as int]
        }),
@*/
{
        /*@
        let ghost me = *self;
        let ghost pre = digit_writer@;
        let ghost r = self.radix as int;
        let ghost s0 = self.big_chunks@;
        let ghost n = s0.len() as int;
        let ghost tv = medium_value(self.top_chunk);
        let ghost td = medium_digits(self.top_chunk);
        let ghost tg = self.top_chunk.top_group;
        proof { broadcast use radix::ax_dpw; }
        @*/
        self.top_chunk.write(digit_writer)?;
        /*@ proof {
            assert(emitted(pre, digit_writer@, td, r, tv));
            assert(chunks_value(me.radix, tv, s0, n) == tv);
        } @*/

        let mut big_chunks = mem::take(&mut self.big_chunks);
        for (i, val) in big_chunks.drain(..).rev()
        /*@ invariant
            self.radix == me.radix, self.radix_powers == me.radix_powers, self.top_chunk == me.top_chunk,
            radix_ok(me.radix), r == me.radix as int, 3 <= r <= 36,
            powers_ok(me.radix, me.radix_powers@, me.radix_powers@.len() as int),
            chunks_ok(me.radix, s0, me.radix_powers@.len() as int),
            n == s0.len(), big_chunks@.len() <= n, big_chunks@ == s0.subrange(0, big_chunks@.len() as int),
            td == medium_digits(me.top_chunk), tg == me.top_chunk.top_group, td >= word_digits(tg), word_digits(tg) >= 0,
            emitted(pre, digit_writer@,
                td + (chunks_digits(me.radix, s0, n) - chunks_digits(me.radix, s0, big_chunks@.len() as int)), r,
                chunks_value(me.radix, tv, s0, big_chunks@.len() as int)),
            chunks_digits(me.radix, s0, n) >= chunks_digits(me.radix, s0, big_chunks@.len() as int),
            forall|p: int| pre.len() <= p < pre.len() + word_digits(tg) ==>
                #[trigger] digit_writer@[p] == tg.digits@[p - pre.len() + tg.start_index as int],
          decreases big_chunks@.len()
        @*/
        {
            /*@
            let ghost m = big_chunks@.len() as int + 1;
            let ghost mid = digit_writer@;
            let ghost lvl = s0[m - 1].0 as int;
            let ghost cv = s0[m - 1].1.v();
            let ghost dn = td + (chunks_digits(me.radix, s0, n) - chunks_digits(me.radix, s0, m));
            proof {
                assert(s0.subrange(0, m)[m - 1] == s0[m - 1]);
                assert(big_chunks@ =~= s0.subrange(0, m - 1));
                lemma_fl_cv_step(me.radix, tv, s0, m);
                lemma_fl_cd_step(me.radix, s0, m);
                lemma_fl_level(me.radix, lvl);
                assert(s0[m - 1].0 < me.radix_powers@.len());
            }
            @*/
            self.write_big_chunk(digit_writer, i, val)?;
            /*@ proof {
                lemma_fl_emit_compose(pre, mid, digit_writer@, dn, level_digits(me.radix, lvl), r,
                    chunks_value(me.radix, tv, s0, m), cv);
                assert forall|p: int| pre.len() <= p < pre.len() + word_digits(tg) implies
                    #[trigger] digit_writer@[p] == tg.digits@[p - pre.len() + tg.start_index as int] by {
                    assert(digit_writer@.subrange(0, mid.len() as int)[p] == digit_writer@[p]);
                }
            } @*/
        }
        /*@ proof {
            assert(chunks_digits(me.radix, s0, 0) == 0);
        } @*/
        Ok(())
    }
