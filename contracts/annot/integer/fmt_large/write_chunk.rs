//@ item: integer/src/fmt/non_power_two.rs :: impl PreparedLarge :: write_chunk
fn write_chunk(&self, digit_writer: &mut DigitWriter, x: Repr) -> fmt::Result
/*@
    requires radix_ok(self.radix),
        // "Write digits_per_word * CHUNK_LEN digits": call sites pass a remainder modulo radix_powers[0]
        0 <= x.v() < chunk_base(self.radix),
    // C07: exactly digits_per_word * CHUNK_LEN digits (inner chunks are zero padded to the full width) below the radix
    // whose positional value is x
    ensures ret is Ok ==> emitted(old(digit_writer)@, final(digit_writer)@, level_digits(self.radix, 0), self.radix as int, x.v()),
@*/
{
        /*@
        let ghost pre = digit_writer@;
        let ghost r = self.radix as int;
        let ghost x0 = x.v();
        let ghost base = rpw(self.radix);
        let ghost mx = radix::MAX_WORD_DIGITS_NON_POW_2 as int;
        proof { broadcast use radix::ax_dpw; lemma_fl_chunk_base(self.radix); }
        @*/
        let radix_info = radix::radix_info(self.radix);
        /*@ proof {
            // a heap Repr below B^CHUNK_LEN has at most CHUNK_LEN words (whatever as_typed() returns for x)
            assert forall|t: TypedReprRef| #[trigger] t.wf() && t.v() == x0 implies t.chunk_wf() by { lemma_fl_typed_chunk_wf(t); }
        } @*/
        let (mut buffer, mut buffer_len) = repr_to_chunk_buffer(x.as_typed());

        let mut groups = [0; CHUNK_LEN];

        let shift = radix_info.range_per_word.leading_zeros();
        /*@
        let ghost dv = radix_info.fast_div_range_per_word.divisor();
        proof {
            lemma_nlz_bound(radix_info.range_per_word);
            assert(shift as int == radix::nlz(radix_info.range_per_word));
            lemma_sh_pow2_pos(shift as int);
            let p = pow2(shift as int);
            assert(dv == base * p);
            lemma_mul_div_exact(base, p);
            assert(x0 * ipow(base, 0) == x0);
            assert(ipow(base, 0) == 1);
        }
        @*/
        for group in groups.iter_mut()
        /*@ invariant
            __n0 == CHUNK_LEN, __i0 <= __n0, groups@.len() == CHUNK_LEN,
            radix_ok(self.radix), base == rpw(self.radix), 3 <= base < B(), shift < WORD_BITS,
            radix_info.fast_div_range_per_word.wf(), dv == radix_info.fast_div_range_per_word.divisor(),
            dv % pow2(shift as int) == 0, dv / pow2(shift as int) == base,
            buffer_len <= CHUNK_LEN,
            __i0 > 0 ==> (buffer_len == 0 || buffer@[buffer_len as int - 1] != 0),
            x0 == val(buffer@.subrange(0, buffer_len as int)) * ipow(base, __i0 as int) + lv(groups@, __i0 as int, base),
            forall|i: int| 0 <= i < __i0 ==> (#[trigger] groups@[i] as int) < base,
          decreases __n0 - __i0
        @*/
        {
            /*@
            let ghost b0 = buffer@.subrange(0, buffer_len as int);
            let ghost n = __i0 as int - 1;
            @*/
            *group = div::fast_div_by_word_in_place(
                &mut buffer[..buffer_len],
                shift,
                radix_info.fast_div_range_per_word,
            );
            /*@
            let ghost q = val(buffer@.subrange(0, buffer_len as int));
            let ghost rem = groups@[n] as int;
            proof {
                assert(val(b0) == q * base + rem);
                lemma_lv_ext(__w0, groups@, n, base);
                lemma_fl_group_step(q, base, rem, n, lv(__w0, n, base));
                assert forall|i: int| 0 <= i < n + 1 implies (#[trigger] groups@[i] as int) < base by {
                    if i < n { assert(groups@[i] == __w0[i]); }
                }
            }
            @*/
            while buffer_len != 0 && buffer[buffer_len - 1] == 0
            /*@ invariant
                buffer_len <= CHUNK_LEN,
                val(buffer@.subrange(0, buffer_len as int)) == q,
              decreases buffer_len
            @*/
            {
                /*@ proof { lemma_val_drop_zero(buffer@, buffer_len as int); } @*/
                buffer_len -= 1;
            }
        }
        /*@ proof {
            let cur = val(buffer@.subrange(0, buffer_len as int));
            lemma_valn_bound(buffer@.subrange(0, buffer_len as int), buffer_len as int);
            lemma_lv_nonneg(groups@, CHUNK_LEN as int, base);
            lemma_fl_all_divided(cur, base, CHUNK_LEN as int, lv(groups@, CHUNK_LEN as int, base), x0);
            if buffer_len > 0 { lemma_val_top(buffer@.subrange(0, buffer_len as int)); lemma_pw_pos(buffer_len as int - 1); }
        } @*/
        assert_eq!(buffer_len, 0);
        /*@ proof {
            assert(0 * ipow(base, CHUNK_LEN as int) == 0);
            assert(x0 == lv(groups@, CHUNK_LEN as int, base));
            lemma_fl_emit_nothing(pre, r);
        } @*/

        for group in groups.iter().rev()
        /*@ invariant
            __n1 == CHUNK_LEN, __i1 <= __n1, groups@.len() == CHUNK_LEN,
            radix_ok(self.radix), r == self.radix as int, 3 <= r <= 36, base == rpw(self.radix), mx == radix::MAX_WORD_DIGITS_NON_POW_2 as int,
            radix_info.digits_per_word as int == dpw(self.radix), 1 <= dpw(self.radix) < mx, base == ipow(r, dpw(self.radix)),
            forall|i: int| 0 <= i < CHUNK_LEN ==> (#[trigger] groups@[i] as int) < base,
            emitted(pre, digit_writer@, (__i1 as int) * dpw(self.radix), r, hv(groups@, CHUNK_LEN as int, __i1 as int, base)),
          decreases __n1 - __i1
        @*/
        {
            /*@
            let ghost out0 = digit_writer@;
            let ghost j = __i1 as int - 1;
            let ghost n = dpw(self.radix);
            proof { assert((*group as int) < base); }
            @*/
            let mut prepared = PreparedWord::new(*group, self.radix, radix_info.digits_per_word);
            /*@
            let ghost pd = prepared.digits@;
            let ghost ps = prepared.start_index as int;
            proof { lemma_fl_group_width(pd, ps, mx, r, n); }
            @*/
            prepared.write(digit_writer)?;
            /*@ proof {
                lemma_fl_emit_word(out0, digit_writer@, pd, ps, n, r);
                lemma_fl_emit_compose(pre, out0, digit_writer@, j * n, n, r, hv(groups@, CHUNK_LEN as int, j, base), *group as int);
                lemma_fl_hv_step(groups@, CHUNK_LEN as int, j, base);
                assert((j + 1) * n == j * n + n) by (nonlinear_arith);
            } @*/
        }
        /*@ proof {
            lemma_hv_lv(groups@, CHUNK_LEN as int, CHUNK_LEN as int, base);
            assert(ipow(base, 0) == 1);
            assert(hv(groups@, CHUNK_LEN as int, CHUNK_LEN as int, base) * 1 == hv(groups@, CHUNK_LEN as int, CHUNK_LEN as int, base));
            assert(lv(groups@, 0, base) == 0);
            assert((CHUNK_LEN as int) * dpw(self.radix) == dpw(self.radix) * (CHUNK_LEN as int)) by (nonlinear_arith);
        } @*/

        Ok(())
    }
