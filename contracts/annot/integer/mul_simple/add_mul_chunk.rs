//@ item: integer/src/mul/simple.rs :: add_mul_chunk
fn add_mul_chunk(c: &mut [Word], a: &[Word], b: &[Word]) -> bool
/*@
    requires a@.len() >= b@.len(), old(c)@.len() == a@.len() + b@.len(), old(c)@.len() <= usize::MAX,
    ensures final(c)@.len() == old(c)@.len(),
        val(final(c)@) + b2i(ret) * pw(old(c)@.len() as int) == val(old(c)@) + val(a@) * val(b@),
@*/
{
    debug_assert!(a.len() >= b.len() && c.len() == a.len() + b.len());
    debug_assert!(a.len() < 2 * CHUNK_LEN);
    let mut carry = false;
    /*@ proof { assert(val(a@) * valn(b@, 0) == 0) by (nonlinear_arith) requires valn(b@, 0) == 0; } @*/
    for (i, m) in b.iter().enumerate()
    /*@
        invariant
            __n0 == b@.len(), __i0 <= __n0, c@.len() == old(c)@.len(),
            a@.len() >= b@.len(), c@.len() == a@.len() + b@.len(), c@.len() <= usize::MAX,
            valn(c@, a@.len() + __i0) + b2i(carry) * pw(a@.len() + __i0)
                == valn(old(c)@, a@.len() + __i0) + val(a@) * valn(b@, __i0 as int),
            forall|j: int| a@.len() + __i0 <= j < c@.len() ==> c@[j] == old(c)@[j],
        decreases __n0 - __i0
    @*/
    {
        /*@ let ghost c0 = c@; let ghost k0 = carry; @*/
        let carry_word = mul::add_mul_word_same_len_in_place(&mut c[i..i + a.len()], *m, a);
        /*@ let ghost c1 = c@; let ghost cw = carry_word; @*/
        let (carry_word, carry_next) = arch::add::add_with_carry(c[i + a.len()], carry_word, carry);
        c[i + a.len()] = carry_word;
        carry = carry_next;
        /*@ proof {
            let n = a@.len() as int;
            let ii = i as int;
            lemma_addmul_row_seq(c0, c1, c@, old(c)@, a@, b@, ii, cw as int, b2i(k0), b2i(carry_next));
        } @*/
    }
    carry
}
