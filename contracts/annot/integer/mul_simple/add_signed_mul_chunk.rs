//@ item: integer/src/mul/simple.rs :: add_signed_mul_chunk
fn add_signed_mul_chunk(
    c: &mut [Word],
    sign: Sign,
    a: &[Word],
    b: &[Word],
    _memory: &mut Memory,
) -> SignedWord
/*@
    requires a@.len() >= b@.len(), old(c)@.len() == a@.len() + b@.len(), old(c)@.len() <= usize::MAX,
    ensures final(c)@.len() == old(c)@.len(), -1 <= ret <= 1,
        val(final(c)@) + (ret as int) * pw(old(c)@.len() as int) == val(old(c)@) + sgn(sign) * (val(a@) * val(b@)),
@*/
{
    debug_assert!(a.len() >= b.len() && c.len() == a.len() + b.len());
    debug_assert!(a.len() <= CHUNK_LEN);

    match sign {
        Positive => SignedWord::from(add_mul_chunk(c, a, b)),
        Negative => -SignedWord::from(sub_mul_chunk(c, a, b)),
    }
    /*@ proof {
        lemma_sgn_mul(sign, val(a@) * val(b@));
        let p = pw(old(c)@.len() as int);
        let k = if ret < 0 { -(ret as int) } else { ret as int };
        lemma_signed_carry(sign, ret as int, k, p);
    } @*/
}
