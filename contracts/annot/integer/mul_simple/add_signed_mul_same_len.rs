//@ item: integer/src/mul/simple.rs :: add_signed_mul_same_len
pub fn add_signed_mul_same_len(
    c: &mut [Word],
    sign: Sign,
    a: &[Word],
    b: &[Word],
    memory: &mut Memory,
) -> SignedWord
/*@
    requires a@.len() == b@.len(), old(c)@.len() == a@.len() + b@.len(), old(c)@.len() <= usize::MAX,
    ensures final(c)@.len() == old(c)@.len(), -1 <= ret <= 1,
        val(final(c)@) + (ret as int) * pw(old(c)@.len() as int) == val(old(c)@) + sgn(sign) * (val(a@) * val(b@)),
@*/
{
    debug_assert!(a.len() == b.len() && c.len() == a.len() + b.len());
    debug_assert!(b.len() <= MAX_SMALLER_LEN);
    add_signed_mul_chunk(c, sign, a, b, memory)
}
