//@ item: integer/src/math.rs :: shl_dword
pub const fn shl_dword(dw: DoubleWord, shift: u32) -> (Word, Word, Word)
/*@
    requires shift <= WORD_BITS,
    ensures ret.0 as int + (ret.1 as int) * B() + (ret.2 as int) * (B() * B()) == (dw as int) * pow2(shift as int),
@*/
{
    debug_assert!(shift <= WORD_BITS);

    let (lo, hi) = split_dword(dw);
    let (n0, carry) = split_dword(extend_word(lo) << shift);
    let (n1, n2) = split_dword((extend_word(hi) << shift) | extend_word(carry));
    /*@ proof {
        let x1 = ((hi as DoubleWord) << shift) | (carry as DoubleWord);
        lemma_dd_shl_dword(lo, hi, shift, n0, carry, x1);
        assert((n1 as int + (n2 as int) * B()) * B() == (n1 as int) * B() + (n2 as int) * (B() * B())) by (nonlinear_arith);
    } @*/
    (n0, n1, n2)
}
