//@ item: integer/src/math.rs :: mul_add_carry_dword
pub const fn mul_add_carry_dword(
    lhs: DoubleWord,
    rhs: DoubleWord,
    carry: DoubleWord,
) -> (DoubleWord, DoubleWord)
/*@
    ensures ret.0 as int + (ret.1 as int) * (B() * B()) == (lhs as int) * (rhs as int) + carry as int,
@*/
{
    let (x0, x1) = split_dword(lhs);
    let (y0, y1) = split_dword(rhs);
    let (ic0, ic1) = split_dword(carry);

    let (z0, c0) = mul_add_carry(x0, y0, ic0);
    let (z1, c1a) = mul_add_carry(x1, y0, c0);
    /*@ let ghost z1a = z1; @*/
    let (z1, c1b) = mul_add_2carry(x0, y1, z1, ic1);
    let (z2, z3) = mul_add_2carry(x1, y1, c1a, c1b);

    let lo = double_word(z0, z1);
    let hi = double_word(z2, z3);

    /*@ proof {
        lemma_mul_dword_schoolbook(x0 as int, x1 as int, y0 as int, y1 as int, ic0 as int, ic1 as int,
            z0 as int, c0 as int, z1a as int, c1a as int, z1 as int, c1b as int, z2 as int, z3 as int, B());
    } @*/
    (lo, hi)
}
