//@ item: integer/src/math.rs :: mul_add_2carry
pub const fn mul_add_2carry(lhs: Word, rhs: Word, c0: Word, c1: Word) -> (Word, Word)
/*@
    ensures ret.0 as int + (ret.1 as int) * B() == (lhs as int) * (rhs as int) + c0 as int + c1 as int,
@*/
{
    /*@ proof { lemma_mul_word_bound(lhs as int, rhs as int); } @*/
    split_dword(extend_word(lhs) * extend_word(rhs) + extend_word(c0) + extend_word(c1))
}
