//@ item: integer/src/math.rs :: mul_add_carry
pub const fn mul_add_carry(lhs: Word, rhs: Word, carry: Word) -> (Word, Word)
/*@
    ensures ret.0 as int + (ret.1 as int) * B() == (lhs as int) * (rhs as int) + carry as int,
@*/
{
    /*@ proof { lemma_mul_word_bound(lhs as int, rhs as int); } @*/
    split_dword(extend_word(lhs) * extend_word(rhs) + extend_word(carry))
}
