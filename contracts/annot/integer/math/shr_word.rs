//@ item: integer/src/math.rs :: shr_word
pub const fn shr_word(w: Word, shift: u32) -> (Word, Word)
/*@
    requires shift <= WORD_BITS,
    ensures
        // (w · B) >> shift, split into result (high half) and shifted-out bits (low half, top-aligned)
        (ret.0 as int) * B() + ret.1 as int == (w as int) * pow2(WORD_BITS - shift),
        (ret.1 as int) % pow2(WORD_BITS - shift) == 0,
        (ret.0 as int) < pow2(WORD_BITS - shift),
@*/
{
    let (c, r) = split_dword(double_word(0, w) >> shift);
    /*@ proof {
        lemma_sh_w_shl_bits(w);
        let x0 = (w as DoubleWord) << WORD_BITS;
        lemma_sh_shr_word(w, shift, x0, c, r);
    } @*/
    (r, c)
}
