//@ item: integer/src/math.rs :: max_exp_in_word
// TRUSTED CONTRACT (only ever used through `//@@ SIG`): "Calculate the max k such that base^k <= Word::MAX, return
// (k, base^k)" (its doc comment); only `k >= 1`, `k <= WORD_BITS` and `pow == base^k` are assumed (not the maximality).
pub const fn max_exp_in_word(base: Word) -> (usize, Word)
/*@
    requires base > 2,                                // the function's own debug assertion
    ensures 1 <= ret.0 <= WORD_BITS, ret.1 as int == ipow(base as int, ret.0 as int),
@*/
{
    debug_assert!(base > 2);

    // shortcut
    if base > ones_word(WORD_BITS / 2) {
        return (1, base);
    }

    // estimate log_base(Word::MAX)
    let mut exp = WORD_BITS / (WORD_BITS - base.leading_zeros());
    let mut pow: Word = base.pow(exp);
    while let Some(prod) = pow.checked_mul(base) {
        exp += 1;
        pow = prod;
    }
    (exp as usize, pow)
}
