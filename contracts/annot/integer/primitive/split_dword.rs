//@ item: integer/src/primitive.rs :: split_dword
pub const fn split_dword(dw: DoubleWord) -> (Word, Word)
/*@ ensures ret.0 as int + (ret.1 as int) * B() == dw as int, @*/
{
    /*@ proof { lemma_split_dword_bv(dw); } @*/
    (dw as Word, (dw >> WORD_BITS) as Word)
}
