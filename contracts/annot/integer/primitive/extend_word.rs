//@ item: integer/src/primitive.rs :: extend_word
pub const fn extend_word(word: Word) -> DoubleWord
/*@ ensures ret as int == word as int, @*/
{
    word as DoubleWord
}
