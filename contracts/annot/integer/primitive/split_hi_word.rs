//@ item: integer/src/primitive.rs :: split_hi_word
pub const fn split_hi_word(words: &[Word]) -> (Word, &[Word])
/*@
    requires words@.len() >= 2,      // the function's own debug assertion
    ensures ret.0 == words@[words@.len() - 1], ret.1@ == words@.subrange(0, words@.len() - 1),
@*/
{
    debug_assert!(words.len() >= 2);
    match words.split_last() {
        Some((hi, lo)) => (*hi, lo),
        // SAFETY: the words length is checked by the assertion
        None => unsafe { unreachable_unchecked() },
    }
}
