//@ item: integer/src/primitive.rs :: shrink_dword
pub const fn shrink_dword(dw: DoubleWord) -> Option<Word>
/*@ ensures match ret { Some(w) => w as int == dw as int, None => dw as int >= B() }, @*/
{
    let (lo, hi) = split_dword(dw);
    /*@ proof {
        assert((hi as int) * B() >= B() || hi == 0) by (nonlinear_arith) requires hi as int >= 0, B() > 0;
        if hi == 0 { assert((hi as int) * B() == 0) by (nonlinear_arith) requires hi as int == 0; }
    } @*/
    if hi == 0 {
        Some(lo)
    } else {
        None
    }
}
