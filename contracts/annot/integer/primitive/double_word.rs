//@ item: integer/src/primitive.rs :: double_word
pub const fn double_word(low: Word, high: Word) -> DoubleWord
/*@ ensures ret as int == low as int + (high as int) * B(), @*/
{
    /*@ proof { lemma_double_word_bv(low, high); } @*/
    extend_word(low) | extend_word(high) << WORD_BITS
}
