//@ item: integer/src/convert.rs :: mod repr :: impl<'a> TypedReprRef<'a> :: to_f64
pub fn to_f64(self) -> Approximation<f64, Sign>
/*@
    requires self.wf(),
    ensures ap64_ok(ret, false, self.v(), 1),      // C06: the RNE rounding of the integer, truthful flag
@*/
{
            /*@ proof { lemma_pow2_mono(64, dword_bits()); } @*/
            match self {
                RefSmall(dword) => to_f64_small(dword as DoubleWord),
                RefLarge(_) => self.to_f64_nontrivial(),
            }
        }
