//@ item: integer/src/convert.rs :: mod repr :: impl<'a> TypedReprRef<'a> :: to_f32
pub fn to_f32(self) -> Approximation<f32, Sign>
/*@
    requires self.wf(),
    ensures ap32_ok(ret, false, self.v(), 1),      // C06: the RNE rounding of the integer, truthful flag
@*/
{
            /*@ proof { lemma_pow2_mono(32, dword_bits()); } @*/
            match self {
                RefSmall(dword) => to_f32_small(dword),
                RefLarge(_) => self.to_f32_nontrivial(),
            }
        }
