//@ item: integer/src/convert.rs :: mod repr :: impl<'a> TypedReprRef<'a> :: to_f64_nontrivial
fn to_f64_nontrivial(self) -> Approximation<f64, Sign>
/*@
    requires
        self.wf(),
        self.v() >= pow2(64),          // called for RefLarge only (>= 2^DWORD_BITS); this is all the code relies on
    ensures
        ap64_ok(ret, false, self.v(), 1),      // the RNE rounding of the integer itself, truthful flag
@*/
{
            /*@ broadcast use conv_int_axioms; @*/
            let n = self.bit_len();
            /*@ proof { lemma_pow2_pos(64); lemma_pow2_lt_exp(64, n as nat); } @*/
            debug_assert!(n > 64);

            if n > 1024 {
                /*@ proof {
                    lemma_pow2_mono(1024, (n - 1) as nat);
                    lemma_overflow(fmt64(), false, self.v(), 1024);
                } @*/
                Inexact(f64::INFINITY, Positive)
            } else {
                /*@ proof {
                    lemma_top_bits(self.v(), n as nat, 63);
                    lemma2_to64(); lemma2_to64_rest();
                } @*/
                let top_u63: u64 = (self >> (n - 63)).as_typed().try_to_unsigned().unwrap();
                let extra_bit = self.are_low_bits_nonzero(n - 63) as u64;
                /*@ proof {
                    let s = (n - 63) as nat;
                    lemma_or_sticky_u64(top_u63, extra_bit);
                    assert((top_u63 | extra_bit) as int == or_sticky(self.v() / (pow2(s) as int), self.v() % (pow2(s) as int)));
                } @*/
                f64::encode((top_u63 | extra_bit) as i64, (n - 63) as i16)
            }
            /*@ proof {
                if n <= 1024 {
                    let s = (n - 63) as nat;
                    let t = self.v() / (pow2(s) as int);
                    let lo = self.v() % (pow2(s) as int);
                    lemma_pow2_pos(52);
                    vstd::arithmetic::div_mod::lemma_mod_bound(ap_val(ret).to_bits_spec() as int, 0x10_0000_0000_0000);
                    lemma_sticky_rne(fmt64(), false, t, s, lo, 63, fields64(ap_val(ret)), ap_exact(ret), ap_pos(ret));
                }
            } @*/
        }
