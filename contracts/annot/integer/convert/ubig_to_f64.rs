//@ item: integer/src/convert.rs :: impl UBig#0 :: to_f64
pub fn to_f64(&self) -> Approximation<f64, Sign>
/*@
    ensures ap64_ok(ret, false, self.v(), 1),
@*/
{
        self.repr().to_f64()
    }
