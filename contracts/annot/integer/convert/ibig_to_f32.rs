//@ item: integer/src/convert.rs :: impl IBig#0 :: to_f32
pub fn to_f32(&self) -> Approximation<f32, Sign>
/*@
    ensures ap32_ok(ret, self.v() < 0, absi(self.v()), 1),   // RNE of the signed integer; sign of (result - self)
@*/
{
        /*@ broadcast use ax_f32_neg; @*/
        let (sign, mag) = self.as_sign_repr();
        match mag.to_f32() {
            Exact(val) => Exact(sign * val),
            Inexact(val, diff) => Inexact(sign * val, sign * diff),
        }
        /*@ proof {
            if self.v() < 0 {
                // the magnitude's rounding, mirrored: sign bit flipped, error sign flipped
                let x = absi(self.v());
                let fr = fields32(ap_val(ret));
                let fm = Fields { sbit: !fr.sbit, eb: fr.eb, frac: fr.frac };
                if ap_exact(ret) { lemma_rne_exact_pos(fmt32(), false, x, 1, fm, false, true); }
                lemma_rne_negate(fmt32(), x, 1, fm, ap_exact(ret), !ap_pos(ret));
                assert(Fields { sbit: !fm.sbit, eb: fm.eb, frac: fm.frac } == fr);
            }
        } @*/
    }
