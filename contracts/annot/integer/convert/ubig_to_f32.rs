//@ item: integer/src/convert.rs :: impl UBig#0 :: to_f32
pub fn to_f32(&self) -> Approximation<f32, Sign>
/*@
    ensures ap32_ok(ret, false, self.v(), 1),
@*/
{
        self.repr().to_f32()
    }
