//@ item: integer/src/convert.rs :: mod repr :: impl<'a> TypedReprRef<'a> :: to_f32_nontrivial
fn to_f32_nontrivial(self) -> Approximation<f32, Sign>
/*@
    requires
        self.wf(),
        self.v() >= pow2(32),          // called for RefLarge only (>= 2^DWORD_BITS); this is all the code relies on
    ensures
        ap32_ok(ret, false, self.v(), 1),      // the RNE rounding of the integer itself, truthful flag
@*/
{
            /*@ broadcast use conv_int_axioms; @*/
            let n = self.bit_len();
            /*@ proof { lemma_pow2_pos(32); lemma_pow2_lt_exp(32, n as nat); } @*/
            debug_assert!(n > 32);

            if n > 128 {
                /*@ proof {
                    lemma_pow2_mono(128, (n - 1) as nat);
                    lemma_overflow(fmt32(), false, self.v(), 128);
                } @*/
                Inexact(f32::INFINITY, Positive)
            } else {
                /*@ proof {
                    lemma_top_bits(self.v(), n as nat, 31);
                    lemma2_to64(); lemma2_to64_rest();
                } @*/
                let top_u31: u32 = (self >> (n - 31)).as_typed().try_to_unsigned().unwrap();
                let extra_bit = self.are_low_bits_nonzero(n - 31) as u32;
                /*@ proof {
                    let s = (n - 31) as nat;
                    lemma_or_sticky_u32(top_u31, extra_bit);
                    assert((top_u31 | extra_bit) as int == or_sticky(self.v() / (pow2(s) as int), self.v() % (pow2(s) as int)));
                } @*/
                f32::encode((top_u31 | extra_bit) as i32, (n - 31) as i16)
            }
            /*@ proof {
                if n <= 128 {
                    let s = (n - 31) as nat;
                    let t = self.v() / (pow2(s) as int);
                    let lo = self.v() % (pow2(s) as int);
                    lemma_pow2_pos(23);
                    vstd::arithmetic::div_mod::lemma_mod_bound(ap_val(ret).to_bits_spec() as int, 0x80_0000);
                    lemma_sticky_rne(fmt32(), false, t, s, lo, 31, fields32(ap_val(ret)), ap_exact(ret), ap_pos(ret));
                }
            } @*/
        }
