//@ item: integer/src/bits.rs :: mod repr :: trailing_zeros_large_shifted_by_one
const fn trailing_zeros_large_shifted_by_one(words: &[Word]) -> usize
/*@
    requires 2 <= words@.len() <= usize::MAX / WORD_BITS_USIZE,
        // the number shifted right by one is non-zero
        (words@[0] >> 1u32) != 0 || exists|k: int| 1 <= k < words@.len() && words@[k] != 0,
    ensures
        // trailing zeros of (number >> 1): ret + 1 is the least set bit position above bit 0
        ret + 1 < words@.len() * WORD_BITS_USIZE,
        bit_at(words@, ret + 1),
        forall|i: int| 1 <= i < ret + 1 ==> !bit_at(words@, i),
        // the same in numbers
        (val(words@) / pow2(ret + 1)) % 2 == 1,
        forall|i: int| 1 <= i < ret + 1 ==> (val(words@) / pow2(i)) % 2 != 1,
@*/
{
    debug_assert!(words.len() >= 2);
    let zero_begin = (words[0] >> 1).trailing_zeros() as usize;
    if zero_begin < (WORD_BITS_USIZE - 1) {
        /*@ proof {
            lemma_bits_shr1_small(words@, zero_begin as u32);
            let r = zero_begin as int + 1;
            lemma_bits_bit_at_val(words@, r);
            assert forall|i: int| 1 <= i < r implies (val(words@) / pow2(i)) % 2 != 1 by { lemma_bits_bit_at_val(words@, i); }
        } @*/
        zero_begin
    } else {
        /*@ proof { lemma_bits_shr1_large(words@, zero_begin as u32); } @*/
        let mut zero_words = 1;
        while zero_words < words.len()
        /*@
            invariant 1 <= zero_words <= words@.len(),
                forall|j: int| 1 <= j < zero_words ==> words@[j] == 0,
                exists|k: int| 1 <= k < words@.len() && words@[k] != 0,
            ensures 1 <= zero_words < words@.len(), words@[zero_words as int] != 0,
                forall|j: int| 1 <= j < zero_words ==> words@[j] == 0,
            decreases words@.len() - zero_words
        @*/
        {
            if words[zero_words] != 0 {
                break;
            }
            zero_words += 1;
        }

        let zero_bits = words[zero_words].trailing_zeros() as usize;
        /*@ proof {
            lemma_bits_first_set(words@, 1, zero_words as int, zero_bits as u32);
            let r = zero_words as int * WORD_BITS_USIZE as int + zero_bits as int;
            lemma_bits_bit_at_val(words@, r);
            assert forall|i: int| 1 <= i < r implies (val(words@) / pow2(i)) % 2 != 1 by { lemma_bits_bit_at_val(words@, i); }
        } @*/
        (zero_words - 1) * WORD_BITS_USIZE + zero_bits + zero_begin - 1
    }
}
