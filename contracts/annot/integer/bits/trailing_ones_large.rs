//@ item: integer/src/bits.rs :: mod repr :: trailing_ones_large
const fn trailing_ones_large(words: &[Word]) -> usize
/*@
    requires words@.len() <= usize::MAX / WORD_BITS_USIZE,          // Buffer::MAX_CAPACITY
    ensures
        // index of the least significant clear bit (bits at and above the length are clear)
        ret <= words@.len() * WORD_BITS_USIZE,
        forall|i: int| 0 <= i < ret ==> bit_at(words@, i),
        ret < words@.len() * WORD_BITS_USIZE ==> !bit_at(words@, ret as int),
        // the same in numbers
        forall|i: int| 0 <= i < ret ==> (val(words@) / pow2(i)) % 2 == 1,
        ret < words@.len() * WORD_BITS_USIZE ==> (val(words@) / pow2(ret as int)) % 2 != 1,
@*/
{
    let mut one_words = 0;
    while one_words < words.len()
    /*@
        invariant one_words <= words@.len(),
            forall|j: int| 0 <= j < one_words ==> words@[j] == Word::MAX,
        ensures one_words <= words@.len(),
            one_words < words@.len() ==> words@[one_words as int] != Word::MAX,
            forall|j: int| 0 <= j < one_words ==> words@[j] == Word::MAX,
        decreases words@.len() - one_words
    @*/
    {
        if words[one_words] != Word::MAX {
            break;
        }
        one_words += 1;
    }
    if one_words == words.len() {
        /*@ proof {
            lemma_bits_all_ones(words@, one_words as int);
            let r = one_words as int * WORD_BITS_USIZE as int;
            assert forall|i: int| 0 <= i < r implies (val(words@) / pow2(i)) % 2 == 1 by { lemma_bits_bit_at_val(words@, i); }
        } @*/
        return one_words * WORD_BITS_USIZE;
    }

    let one_bits = words[one_words].trailing_ones() as usize;
    /*@ proof {
        lemma_bits_first_clear(words@, one_words as int, one_bits as u32);
        let r = one_words as int * WORD_BITS_USIZE as int + one_bits as int;
        lemma_bits_bit_at_val(words@, r);
        assert forall|i: int| 0 <= i < r implies (val(words@) / pow2(i)) % 2 == 1 by { lemma_bits_bit_at_val(words@, i); }
    } @*/
    one_words * WORD_BITS_USIZE + one_bits
}
