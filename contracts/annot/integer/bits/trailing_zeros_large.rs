//@ item: integer/src/bits.rs :: mod repr :: trailing_zeros_large
const fn trailing_zeros_large(words: &[Word]) -> usize
/*@
    requires words@.len() <= usize::MAX / WORD_BITS_USIZE,          // Buffer::MAX_CAPACITY
        exists|k: int| 0 <= k < words@.len() && words@[k] != 0,     // "panics if the input is zero"
    ensures
        // index of the least significant set bit
        ret < words@.len() * WORD_BITS_USIZE,
        bit_at(words@, ret as int),
        forall|i: int| 0 <= i < ret ==> !bit_at(words@, i),
        // the same in numbers: binary digit ret of val(words) is 1, all lower digits are 0
        (val(words@) / pow2(ret as int)) % 2 == 1,
        forall|i: int| 0 <= i < ret ==> (val(words@) / pow2(i)) % 2 != 1,
@*/
{
    let mut zero_words = 0;
    while zero_words < words.len()
    /*@
        invariant zero_words <= words@.len(),
            forall|j: int| 0 <= j < zero_words ==> words@[j] == 0,
            exists|k: int| 0 <= k < words@.len() && words@[k] != 0,
        ensures zero_words < words@.len(), words@[zero_words as int] != 0,
            forall|j: int| 0 <= j < zero_words ==> words@[j] == 0,
        decreases words@.len() - zero_words
    @*/
    {
        if words[zero_words] != 0 {
            break;
        }
        zero_words += 1;
    }

    let zero_bits = words[zero_words].trailing_zeros() as usize;
    /*@ proof {
        lemma_bits_first_set(words@, 0, zero_words as int, zero_bits as u32);
        let r = zero_words as int * WORD_BITS_USIZE as int + zero_bits as int;
        lemma_bits_bit_at_val(words@, r);
        assert forall|i: int| 0 <= i < r implies (val(words@) / pow2(i)) % 2 != 1 by { lemma_bits_bit_at_val(words@, i); }
    } @*/
    zero_words * WORD_BITS_USIZE + zero_bits
}
