//@ item: integer/src/helper_macros.rs :: macro impl_binop_with_primitive#1 :: impl<'l, 'r> $trait<&'r $target> for &'l $t :: $method
fn $method(self, rhs: &$target) -> $omethod
/*@[uu] #[hoist(Self = (&'l UBig), Name = prim_bp_rr, Generics = ['l, 'r])] @*/
/*@[ii] #[hoist(Self = (&'l IBig), Name = prim_bp_rr, Generics = ['l, 'r])] @*/
/*@[iu] #[hoist(Self = (&'l IBig), Name = prim_bp_rr, Generics = ['l, 'r])] @*/
/*@
    // instantiated for `impl Rem<$target> for $t, rem -> $target` (div_ops.rs:265 / 278)
    requires rhs.pv() != 0,        // C02 "non-zero b" (the big-integer remainder operator panics otherwise)
@*/
/*@[iu] self.pv() >= 0,   // known finding (known_findings.txt, C15 `IBig rem unsigned`), excluded here @*/
/*@
    ensures
        // C02, truncating convention: the remainder of a == q*b + r
        trunc_rem_ok(self.pv(), rhs.pv(), ret.pv()),
@*/
{
                /*@ broadcast use dp_axioms; @*/
                /*@ proof { lemma_dp_trunc(self.pv(), rhs.pv()); } @*/
                self.$method(<$t>::from(*rhs)).try_into().unwrap()
}
