//@ item: integer/src/ibig.rs :: impl IBig :: is_zero
pub const fn is_zero(&self) -> bool
/*@ ensures ret == (self.0.v() == 0), @*/
{
        self.0.is_zero()
}
