//@ item: integer/src/ubig.rs :: impl UBig :: is_zero
pub const fn is_zero(&self) -> bool
/*@ ensures ret == (self.0.v() == 0), @*/
{
        self.0.is_zero()
}
