//@ item: integer/src/div_ops.rs :: impl IBig :: is_multiple_of_const
pub const fn is_multiple_of_const(&self, divisor: crate::DoubleWord) -> bool
/*@
    requires divisor != 0,                          // C02 "non-zero b" (panics otherwise)
    ensures ret == is_mult(self.0.v(), divisor as int),
@*/
{
        let (_, repr) = self.as_sign_repr();
        /*@ proof {
            let s = if self.0.v() < 0 { Sign::Negative } else { Sign::Positive };
            lemma_is_mult_signs(s, Sign::Positive, repr.v(), divisor as int);
            assert(sv(s, repr.v()) == self.0.v());
        } @*/
        repr.is_multiple_of_dword(divisor)
}
