//@ item: integer/src/div_ops.rs :: macro impl_div_by_primitive#0 :: impl<'l, 'r> Div<&'r $t> for &'l $target :: div
fn div(self, rhs: &$t) -> $target
/*@[uu] #[hoist(Self = (&'l u64), Name = prim_db_rr, Generics = ['l, 'r])] @*/
/*@[ii] #[hoist(Self = (&'l i64), Name = prim_db_rr, Generics = ['l, 'r])] @*/
/*@[iu] #[hoist(Self = (&'l u64), Name = prim_db_rr, Generics = ['l, 'r])] @*/
/*@
    requires rhs.pv() != 0,        // C02 "non-zero b" (the big-integer `/` panics otherwise)
@*/
/*@[ii] !(self.pv() == i64::MIN && rhs.pv() == -1),   // the quotient 2^63 does not fit i64 (as for the primitive `/`) @*/
/*@[iu] rhs.pv() > 0,     // same class as the known finding (known_findings.txt, C15 `IBig rem unsigned`): `unsigned / negative IBig`
                                   // has a negative quotient that does not fit the unsigned result type (`.try_into().unwrap()` panics); excluded @*/
/*@
    ensures
        // C02, truncating convention with r := a - q*b
        trunc_ok(self.pv(), rhs.pv(), ret.pv(), self.pv() - ret.pv() * rhs.pv()),
@*/
{
                /*@ broadcast use dp_axioms; @*/
                /*@ proof { lemma_dp_trunc(self.pv(), rhs.pv()); } @*/
                /*@[ii] proof { lemma_dp_i64_quot(self.pv(), rhs.pv()); } @*/
                <$t>::from(*self).div(rhs).try_into().unwrap()
}
