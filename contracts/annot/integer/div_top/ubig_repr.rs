//@ item: integer/src/ubig.rs :: impl UBig :: repr
pub(crate) fn repr(&self) -> TypedReprRef<'_>
/*@
    requires self.0.v() >= 0,                       // type invariant of UBig (as_typed: `unreachable!()` for a negative Repr)
    ensures ret.v() == self.0.v(), ret.wf(),
@*/
{
        self.0.as_typed()
}
