//@ item: integer/src/ibig.rs :: impl IBig :: as_sign_repr
pub(crate) fn as_sign_repr(&self) -> (Sign, TypedReprRef<'_>)
/*@
    ensures ret.1.v() == iabs(self.0.v()), ret.1.wf(),
        ret.0 == (if self.0.v() < 0 { Sign::Negative } else { Sign::Positive }),
@*/
{
        self.0.as_sign_typed()
}
