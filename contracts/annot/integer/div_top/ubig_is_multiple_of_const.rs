//@ item: integer/src/div_ops.rs :: impl UBig :: is_multiple_of_const
pub const fn is_multiple_of_const(&self, divisor: crate::DoubleWord) -> bool
/*@
    requires
        self.0.v() >= 0,                            // type invariant of UBig
        divisor != 0,                               // C02 "non-zero b" (panics otherwise)
    ensures ret == is_mult(self.0.v(), divisor as int),
@*/
{
        self.repr().is_multiple_of_dword(divisor)
}
