//@ item: integer/src/div_ops.rs :: mod repr :: impl<'a> TypedReprRef<'a> :: is_multiple_of_dword
pub(super) const fn is_multiple_of_dword(self, divisor: DoubleWord) -> bool
/*@
    requires
        self.wf(),
        divisor != 0,                               // C02 "non-zero b" (`% 0` / debug assertion of rem_by_word otherwise)
    ensures
        // C02: true exactly when the magnitude is a multiple of the divisor, whichever size class / kernel is used
        ret == is_mult(self.v(), divisor as int),
@*/
{
            use crate::primitive::extend_word;
            /*@ proof { lemma_is_mult_mod(self.v(), divisor as int); } @*/
            if let Some(w) = shrink_dword(divisor) {
                match self {
                    TypedReprRef::RefSmall(dword) => dword % extend_word(w) == 0,
                    TypedReprRef::RefLarge(words) => div::rem_by_word(words, w) == 0,
                }
            } else {
                match self {
                    TypedReprRef::RefSmall(dword) => dword % divisor == 0,
                    TypedReprRef::RefLarge(words) => div::rem_by_dword(words, divisor) == 0,
                }
            }
}
