//@ item: integer/src/div_ops.rs :: impl IBig :: is_multiple_of
pub fn is_multiple_of(&self, divisor: &Self) -> bool
/*@ #[ref_operand(divisor)] @*/
/*@
    requires
        divisor.0.v() != 0,                         // C02 "for every a and non-zero b" (documented panic otherwise, inside `%`)
    ensures
        // C02: true exactly when a is a multiple of b (signs do not matter), i.e. when the remainder is zero
        ret == is_mult(self.0.v(), divisor.0.v()),
@*/
{
        /*@ broadcast use ax_repr_of; @*/
        (self % divisor).is_zero()
        /*@ proof { lemma_trunc_rem_mult(self.0.v(), divisor.0.v()); } @*/
}
