//@ item: integer/src/div_ops.rs :: impl UBig :: is_multiple_of
pub fn is_multiple_of(&self, divisor: &Self) -> bool
/*@ #[ref_operand(divisor)] @*/
/*@
    requires
        self.0.v() >= 0, divisor.0.v() >= 0,        // type invariant of UBig
        divisor.0.v() != 0,                         // C02 "for every a and non-zero b" (documented panic otherwise, inside `%`)
    ensures
        // C02: true exactly when a is a multiple of b, i.e. when the remainder r of a = q*b + r is zero
        ret == is_mult(self.0.v(), divisor.0.v()),
@*/
{
        /*@ broadcast use ax_repr_of; @*/
        (self % divisor).is_zero()
        /*@ proof { lemma_is_mult_mod(self.0.v(), divisor.0.v()); } @*/
}
