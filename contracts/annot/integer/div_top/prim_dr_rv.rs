//@ item: integer/src/div_ops.rs :: macro impl_divrem_with_primitive#0 :: impl<'l> DivRem<$target> for &'l $t :: div_rem
fn div_rem(self, rhs: $target) -> ($t, $target)
/*@[uu] #[hoist(Self = (&'l UBig), Name = prim_dr_rv, Generics = ['l])] @*/
/*@[ii] #[hoist(Self = (&'l IBig), Name = prim_dr_rv, Generics = ['l])] @*/
/*@[iu] #[hoist(Self = (&'l IBig), Name = prim_dr_rv, Generics = ['l])] @*/
/*@
    requires rhs.pv() != 0,        // C02 "non-zero b" (the big-integer div_rem panics otherwise)
@*/
/*@[iu] self.pv() >= 0,   // known finding (known_findings.txt, C15 `IBig rem unsigned`): a negative remainder does not fit the unsigned
                                   // result type, `.try_into().unwrap()` panics; excluded here @*/
/*@
    ensures
        // C02, truncating convention: a == q*b + r, |r| < |b|, r == 0 or sign(r) == sign(a); same for every operand form
        trunc_ok(self.pv(), rhs.pv(), ret.0.pv(), ret.1.pv()),
@*/
{
                /*@ broadcast use dp_axioms; @*/
                /*@ proof { lemma_dp_trunc(self.pv(), rhs.pv()); } @*/
                let (q, r) = self.div_rem(<$t>::from(rhs));
                (q, r.try_into().unwrap())
}
