//@ item: integer/src/helper_macros.rs :: macro impl_binop_assign_with_primitive#1 :: impl $trait<&$target> for $t :: $method
fn $method(&mut self, rhs: &$target) -> $ty_output
/*@[uu] #[hoist(Self = UBig, Name = prim_as1_r)] @*/
/*@[ii] #[hoist(Self = IBig, Name = prim_as1_r)] @*/
/*@[iu] #[hoist(Self = IBig, Name = prim_as1_r)] @*/
/*@
    requires rhs.pv() != 0,        // C02 "non-zero b"
@*/
/*@[iu] old(self).pv() >= 0,   // known finding (known_findings.txt, C15 `IBig rem unsigned`) (only the remainder-returning form is affected); excluded @*/
/*@
    ensures trunc_ok(old(self).pv(), rhs.pv(), final(self).pv(), ret.pv()),
@*/
{
                /*@ broadcast use dp_axioms; @*/
                /*@ proof { lemma_dp_trunc(old(self).pv(), rhs.pv()); } @*/
                self.$method(<$t>::from(*rhs)).try_into().unwrap()
}
