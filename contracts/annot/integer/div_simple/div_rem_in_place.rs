//@ item: integer/src/div/simple.rs :: div_rem_in_place
pub(crate) fn div_rem_in_place(
    lhs: &mut [Word],
    rhs: &[Word],
    fast_div_rhs_top: FastDivideNormalized2,
) -> bool
/*@
    requires
        2 <= rhs@.len() <= old(lhs)@.len() <= usize::MAX,
        // the prepared reciprocal belongs to the two top words of the (normalized) divisor
        fast_div_rhs_top.wf(),
        fast_div_rhs_top.divisor() == rhs@[rhs@.len() - 2] as int + (rhs@[rhs@.len() - 1] as int) * B(),
    ensures
        final(lhs)@.len() == old(lhs)@.len(),
        // a == q*b + r with q = [quotient words in lhs[n..], carry], r = lhs[..n] < b
        val(old(lhs)@) == (val(final(lhs)@.subrange(rhs@.len() as int, old(lhs)@.len() as int))
                + b2i(ret) * pw(old(lhs)@.len() - rhs@.len())) * val(rhs@)
            + val(final(lhs)@.subrange(0, rhs@.len() as int)),
        val(final(lhs)@.subrange(0, rhs@.len() as int)) < val(rhs@),
        // the quotient carry is set exactly when the top n words of lhs reach rhs
        ret == (val(old(lhs)@.subrange(old(lhs)@.len() - rhs@.len(), old(lhs)@.len() as int)) >= val(rhs@)),
@*/
{
    // The Art of Computer Programming, algorithm 4.3.1D.

    let n = rhs.len();
    assert!(n >= 2);

    let lhs_len = lhs.len();
    assert!(lhs_len >= n);

    /*@
    let ghost ni = n as int;
    let ghost len = lhs_len as int;
    let ghost rr = val(rhs@);
    let ghost t0 = lhs@.subrange(len - ni, len);
    @*/
    let quotient_carry = cmp::cmp_same_len(&lhs[lhs_len - n..], rhs).is_ge();
    if quotient_carry {
        let overflow = add::sub_same_len_in_place(&mut lhs[lhs_len - n..], rhs);
        /*@ proof {
            let t1 = lhs@.subrange(len - ni, len);
            lemma_valn_bound(t1, ni);
            lemma_pw_pos(ni);
            assert(b2i(overflow) * pw(ni) == if overflow { pw(ni) } else { 0 }) by (nonlinear_arith)
                requires b2i(overflow) == (if overflow { 1int } else { 0int });
        } @*/
        debug_assert!(!overflow);
    }
    /*@
    let ghost lhs1 = lhs@;
    proof {
        // val(old) == val(lhs1) + carry * R * B^(len-n), top n words of lhs1 < R
        let t1 = lhs1.subrange(len - ni, len);
        lemma_ds_split_top(old(lhs)@, len - ni);
        lemma_ds_split_top(lhs1, len - ni);
        lemma_valn_ext(old(lhs)@, lhs1, len - ni);
        lemma_ds_normalized_half(rhs@, fast_div_rhs_top.divisor());
        lemma_valn_bound(t0, ni);
        if !quotient_carry { assert(t1 =~= t0); }
        assert(val(t1) < rr);
        assert(val(t1) == val(t0) - b2i(quotient_carry) * rr);
        assert(pw(len - ni) * (val(t0) - b2i(quotient_carry) * rr)
            == pw(len - ni) * val(t0) - (b2i(quotient_carry) * pw(len - ni)) * rr) by (nonlinear_arith);
        assert(val(old(lhs)@) == val(lhs1) + (b2i(quotient_carry) * pw(len - ni)) * rr);
    }
    let ghost mut suffix: Seq<Word> = Seq::empty();
    proof {
        assert(lhs1 + suffix =~= lhs1);
        assert(val(suffix) == 0);
        assert((val(suffix) * pw(len - ni)) * rr == 0) by (nonlinear_arith) requires val(suffix) == 0;
    }
    @*/

    // keep track of the position of remainder
    let mut rem = lhs;
    while rem.len() > n
    /*@
        invariant
            n as int == ni, ni == rhs@.len(), 2 <= ni <= rem@.len() <= len, len <= usize::MAX, rr == val(rhs@),
            fast_div_rhs_top.wf(),
            fast_div_rhs_top.divisor() == rhs@[rhs@.len() - 2] as int + (rhs@[rhs@.len() - 1] as int) * B(),
            final(lhs)@ == final(rem)@ + suffix,
            rem@.len() + suffix.len() == len,
            val(lhs1) == val(rem@) + (val(suffix) * pw(rem@.len() - ni)) * rr,
            val(rem@.subrange(rem@.len() - ni, rem@.len() as int)) < rr,
        decreases rem@.len()
    @*/
    {
        /*@ let ghost rem0 = rem@; let ghost k = rem@.len() as int; @*/
        let (lhs_top, lhs_lo) = rem.split_last_mut().unwrap();
        /*@
        let ghost lo0 = lhs_lo@;
        let ghost top0 = *lhs_top;
        let ghost a_lo = lo0.subrange(k - 1 - ni, k - 1);
        let ghost aa = (top0 as int) * pw(ni) + val(a_lo);
        proof {
            // the top n+1 words of rem: value < R * B since the top n words are < R
            lemma_ds_window(rem0, k, ni);
            assert(rem0.subrange(k - 1 - ni, k - 1) =~= a_lo);
            assert(rem0[k - 1] == top0);
            lemma_ds_next_fits(rem0[k - 1 - ni] as int, val(rem0.subrange(k - ni, k)), rr);
            assert(lo0.subrange(lo0.len() - ni, lo0.len() as int) =~= a_lo);
        }
        @*/

        // Get the next digit of quotient
        *lhs_top = div_rem_highest_word(*lhs_top, lhs_lo, rhs, fast_div_rhs_top);

        /*@
        proof {
            let q = *lhs_top;
            let lo1 = lhs_lo@;
            let j = k - 1 - ni;
            let newtop = val(lo1.subrange(j, k - 1));
            lemma_ds_split_top(rem0, j);
            assert(val(rem0.subrange(j, k)) == aa);
            lemma_ds_split_top(lo1, j);
            lemma_valn_ext(rem0, lo1, j);
            lemma_pw_add(1, j);
            assert(pw(1) == B() * pw(0) && pw(0) == 1);
            lemma_ds_val_cons(q, suffix);
            lemma_ds_loop_step(val(lhs1), val(rem0), valn(rem0, j), aa, q as int, rr, newtop, val(lo1),
                val(suffix), pw(j), pw(k - ni));
            assert(lo1.subrange(lo1.len() - ni, lo1.len() as int) =~= lo1.subrange(j, k - 1));
            assert(val(seq![q] + suffix) == q as int + val(suffix) * B());
            suffix = seq![q] + suffix;
        }
        @*/
        // Shrink the remainder.
        rem = lhs_lo;
    }
    /*@
    proof {
        assert(final(lhs)@.subrange(0, ni) =~= rem@);
        assert(final(lhs)@.subrange(ni, len) =~= suffix);
        assert(pw(0) == 1);
        assert((val(suffix) * pw(0)) * rr == val(suffix) * rr) by (nonlinear_arith) requires pw(0) == 1;
        assert(rem@.subrange(0, ni) =~= rem@);
        assert((val(suffix) + b2i(quotient_carry) * pw(len - ni)) * rr
            == val(suffix) * rr + (b2i(quotient_carry) * pw(len - ni)) * rr) by (nonlinear_arith);
    }
    @*/
    // Quotient is now in lhs[n..] and remainder in lhs[..n].
    quotient_carry
}
