//@ item: integer/src/div/simple.rs :: div_rem_highest_word
pub(crate) fn div_rem_highest_word(
    lhs_top: Word,
    lhs_lo: &mut [Word],
    rhs: &[Word],
    fast_div_rhs_top: FastDivideNormalized2,
) -> Word
/*@
    requires
        2 <= rhs@.len() <= old(lhs_lo)@.len() <= usize::MAX,
        // the prepared reciprocal belongs to the two top words of the (normalized) divisor
        fast_div_rhs_top.wf(),
        fast_div_rhs_top.divisor() == rhs@[rhs@.len() - 2] as int + (rhs@[rhs@.len() - 1] as int) * B(),
        // the quotient of [lhs_top, top n words of lhs_lo] by rhs fits one word
        (lhs_top as int) * pw(rhs@.len() as int)
            + val(old(lhs_lo)@.subrange(old(lhs_lo)@.len() - rhs@.len(), old(lhs_lo)@.len() as int))
            < val(rhs@) * B(),
    ensures
        final(lhs_lo)@.len() == old(lhs_lo)@.len(),
        forall|j: int| 0 <= j < old(lhs_lo)@.len() - rhs@.len() ==> final(lhs_lo)@[j] == old(lhs_lo)@[j],
        // division identity for this quotient word: a == q*b + r, r < b
        (lhs_top as int) * pw(rhs@.len() as int)
            + val(old(lhs_lo)@.subrange(old(lhs_lo)@.len() - rhs@.len(), old(lhs_lo)@.len() as int))
            == (ret as int) * val(rhs@)
                + val(final(lhs_lo)@.subrange(old(lhs_lo)@.len() - rhs@.len(), old(lhs_lo)@.len() as int)),
        val(final(lhs_lo)@.subrange(old(lhs_lo)@.len() - rhs@.len(), old(lhs_lo)@.len() as int)) < val(rhs@),
@*/
{
    let n = rhs.len();
    let (rhs_top, rhs_lo) = rhs.split_last().unwrap();

    let lhs_lo_len = lhs_lo.len();
    debug_assert!(lhs_lo_len >= n);
    debug_assert!(lhs_top
        .cmp(rhs_top)
        .then(cmp::cmp_same_len(&lhs_lo[lhs_lo_len - rhs_lo.len()..], rhs_lo))
        .is_le());

    // lhs0 = lhs_top
    let (lhs2, lhs1) = split_dword(highest_dword(lhs_lo));
    let lhs01 = double_word(lhs1, lhs_top);
    /*@
    let ghost m = lhs_lo@.len() as int;
    let ghost ni = n as int;
    let ghost s0 = lhs_lo@.subrange(m - ni, m);
    let ghost rr = val(rhs@);
    let ghost d = fast_div_rhs_top.divisor();
    let ghost u0 = lhs_top as int;
    let ghost aa = u0 * pw(ni) + val(s0);
    let ghost p = pw(ni - 2);
    let ghost a3 = lhs2 as int + (lhs01 as int) * B();
    proof {
        lemma_ds_top2(s0);
        lemma_ds_top2(rhs@);
        lemma_ds_top1(rhs@);
        lemma_valn_bound(rhs@, ni);
        assert(s0[ni - 2] == lhs_lo@[m - 2] && s0[ni - 1] == lhs_lo@[m - 1]);
        assert(lhs2 as int == s0[ni - 2] as int && lhs1 as int == s0[ni - 1] as int) by (nonlinear_arith)
            requires lhs2 as int + (lhs1 as int) * B() == s0[ni - 2] as int + (s0[ni - 1] as int) * B(),
                0 <= lhs2 as int, (lhs2 as int) < B(), 0 <= s0[ni - 2] as int, (s0[ni - 2] as int) < B();
        // A = alow + A3 * P
        assert(u0 * (B() * B() * p) + (lhs2 as int + (lhs1 as int) * B()) * p == a3 * p) by (nonlinear_arith)
            requires a3 == lhs2 as int + (lhs1 as int + u0 * B()) * B();
        assert(aa == valn(s0, ni - 2) + a3 * p);
        lemma_ds_normalized(d, rhs@[ni - 2] as int, rhs@[ni - 1] as int);
        assert(rr > 0) by (nonlinear_arith)
            requires rr == valn(rhs@, ni - 2) + d * p, valn(rhs@, ni - 2) >= 0, d >= B(), p >= 1;
        assert(u0 * pw(ni) >= 0) by (nonlinear_arith) requires u0 >= 0, pw(ni) == B() * B() * p, p >= 1;
        lemma_valn_bound(s0, ni);
    }
    @*/

    // Approximate the next word of quotient by
    // q = floor([lhs0, lhs1, lhs2] / [rhs0, rhs1])
    // q may be too large (by 1), but never too Small
    /*@ proof {
        if lhs_top < *rhs_top {
            assert((lhs01 as int) < d) by (nonlinear_arith)
                requires lhs01 as int == lhs1 as int + u0 * B(), (lhs1 as int) < B(), u0 + 1 <= *rhs_top as int,
                    d == rhs@[ni - 2] as int + (*rhs_top as int) * B(), rhs@[ni - 2] as int >= 0;
        }
    } @*/
    let mut q = if lhs_top < *rhs_top {
        fast_div_rhs_top.div_rem_3by2(lhs2, lhs01).0
    } else {
        // In this case MAX is accurate (r is already overflown).
        Word::MAX
    };
    /*@
    proof {
        if lhs_top < *rhs_top {
            lemma_ds_estimate(aa, valn(s0, ni - 2), a3, rr, valn(rhs@, ni - 2), d, p, q as int);
        } else {
            let v1 = *rhs_top as int;
            let p1 = pw(ni - 1);
            lemma_pw_pos(ni - 1);
            assert(u0 * pw(ni) == u0 * (B() * p1)) by (nonlinear_arith) requires pw(ni) == B() * p1;
            lemma_ds_estimate_max(aa, u0, rr, valn(rhs@, ni - 1), v1, p1);
        }
        assert(((q as int) - 1) * rr <= aa && aa < ((q as int) + 1) * rr);
    }
    let ghost qhat = q as int;
    @*/

    // Subtract a multiple of rhs.
    let mut borrow = mul::sub_mul_word_same_len_in_place(&mut lhs_lo[lhs_lo_len - n..], q, rhs);
    /*@
    let ghost s1 = lhs_lo@.subrange(m - ni, m);
    proof {
        lemma_valn_bound(s1, ni);
        lemma_ds_borrow(aa, u0, val(s0), val(s1), borrow as int, qhat, rr, pw(ni));
    }
    @*/

    if borrow > lhs_top {
        // Unlikely case: q is too large (by 1), add a correction.
        q -= 1;
        let carry = add::add_same_len_in_place(&mut lhs_lo[lhs_lo_len - n..], rhs);
        /*@ proof {
            let s2 = lhs_lo@.subrange(m - ni, m);
            lemma_valn_bound(s2, ni);
            assert(b2i(carry) * pw(ni) == if carry { pw(ni) } else { 0 }) by (nonlinear_arith)
                requires b2i(carry) == (if carry { 1int } else { 0int });
        } @*/
        debug_assert!(carry);
        borrow -= 1;
    }
    debug_assert!(borrow == lhs_top);

    q
}
