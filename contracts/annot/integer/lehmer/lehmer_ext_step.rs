//@ item: integer/src/gcd/lehmer.rs :: lehmer_ext_step
fn lehmer_ext_step(
    x: &mut [Word],
    y: &mut [Word],
    len: usize,
    a: Word,
    b: Word,
    c: Word,
    d: Word,
) -> (Word, Word)
/*@
    requires
        // the function's own debug assertions
        len <= old(x)@.len() <= usize::MAX, len <= old(y)@.len() <= usize::MAX,
        a <= SignedWord::MAX as Word, b <= SignedWord::MAX as Word, c <= SignedWord::MAX as Word, d <= SignedWord::MAX as Word,
    ensures
        final(x)@.len() == old(x)@.len(), final(y)@.len() == old(y)@.len(),
        // C12 (cofactor update of the Lehmer step): (x, y)[..len] <- (a x + b y, c x + d y) with the carry words returned
        valn(final(x)@, len as int) + (ret.0 as int) * pw(len as int)
            == (a as int) * valn(old(x)@, len as int) + (b as int) * valn(old(y)@, len as int),
        valn(final(y)@, len as int) + (ret.1 as int) * pw(len as int)
            == (c as int) * valn(old(x)@, len as int) + (d as int) * valn(old(y)@, len as int),
        forall|j: int| len <= j < old(x)@.len() ==> #[trigger] final(x)@[j] == old(x)@[j],
        forall|j: int| len <= j < old(y)@.len() ==> #[trigger] final(y)@[j] == old(y)@[j],
@*/
{
    debug_assert!(len <= x.len() && len <= y.len());
    debug_assert!(a <= SignedWord::MAX as Word && b <= SignedWord::MAX as Word);
    debug_assert!(c <= SignedWord::MAX as Word && d <= SignedWord::MAX as Word);
    /*@
    let ghost x0 = x@; let ghost y0 = y@;
    let ghost n = len as int;
    let ghost (ai, bi, ci, di) = (a as int, b as int, c as int, d as int);
    @*/
    let (a, b) = (extend_word(a), extend_word(b));
    let (c, d) = (extend_word(c), extend_word(d));

    let (mut x_carry, mut y_carry) = (0, 0);
    /*@
    let ghost _ty: (Word, Word) = (x_carry, y_carry);
    let ghost mut px = x@; let ghost mut py = y@;
    proof { assert(0 * pw(0) == 0); assert(ai * 0 + bi * 0 == 0) by (nonlinear_arith); assert(ci * 0 + di * 0 == 0) by (nonlinear_arith); }
    @*/
    for (x_i, y_i) in x.iter_mut().zip(y.iter_mut()).take(len)
    /*@
        invariant
            __n0 == n, 0 <= __i0 <= n, n <= x0.len(), n <= y0.len(),
            x@.len() == x0.len(), y@.len() == y0.len(), px == x@, py == y@,
            a as int == ai, b as int == bi, c as int == ci, d as int == di,
            0 <= ai <= leh_lim(), 0 <= bi <= leh_lim(), 0 <= ci <= leh_lim(), 0 <= di <= leh_lim(),
            forall|j: int| __i0 <= j < x0.len() ==> #[trigger] x@[j] == x0[j],
            forall|j: int| __i0 <= j < y0.len() ==> #[trigger] y@[j] == y0[j],
            valn(x@, __i0 as int) + (x_carry as int) * pw(__i0 as int) == ai * valn(x0, __i0 as int) + bi * valn(y0, __i0 as int),
            valn(y@, __i0 as int) + (y_carry as int) * pw(__i0 as int) == ci * valn(x0, __i0 as int) + di * valn(y0, __i0 as int),
        decreases __n0 - __i0,
    @*/
    {
        /*@ let ghost i = __i0 as int - 1;
        proof {
            lemma_leh_prod_bound(ai, x0[i] as int); lemma_leh_prod_bound(bi, y0[i] as int);
            lemma_leh_prod_bound(di, y0[i] as int); lemma_leh_prod_bound(ci, x0[i] as int);
        } @*/
        let (sx_i, sy_i) = (extend_word(*x_i), extend_word(*y_i));
        let (x_new, cx) = split_dword(a * sx_i + b * sy_i + extend_word(x_carry));
        let (y_new, cy) = split_dword(c * sx_i + d * sy_i + extend_word(y_carry));
        /*@ proof {
            lemma_leh_ext_acc(valn(px, i), x_carry as int, ai, bi, valn(x0, i), valn(y0, i), x0[i] as int, y0[i] as int,
                x_new as int, cx as int, pw(i));
            lemma_leh_ext_acc(valn(py, i), y_carry as int, ci, di, valn(x0, i), valn(y0, i), x0[i] as int, y0[i] as int,
                y_new as int, cy as int, pw(i));
        } @*/
        x_carry = cx;
        y_carry = cy;
        *x_i = x_new;
        *y_i = y_new;
        /*@ proof {
            lemma_valn_ext(px, x@, i); lemma_valn_ext(py, y@, i);
            px = x@; py = y@;
        } @*/
    }
    (x_carry, y_carry)
}
