//@ item: integer/src/gcd/lehmer.rs :: highest_dword_normalized
fn highest_dword_normalized(x: &[Word], y: &[Word]) -> (DoubleWord, DoubleWord)
/*@
    requires
        // from the call sites (x >= y, both normalized; only used for x.len() >= MIN_DWORD_GUESS_LEN)
        3 <= x@.len() <= usize::MAX, 1 <= y@.len() <= x@.len(), x@[x@.len() - 1] != 0, val(x@) >= val(y@),
    ensures
        // C12 (Lehmer step): the two returned double words are the leading parts of x and y at one common weight k
        leh_top_ex(val(x@), val(y@), ret.0 as int, ret.1 as int),
        ret.0 >= ret.1,
        // an operand more than one word shorter makes the guess fail (quotient above SignedWord::MAX)
        x@.len() - y@.len() >= 2 ==> (ret.1 as int) * (SignedWord::MAX as int + 1) <= ret.0 as int,
@*/
{
    debug_assert!(x.len() >= 3);
    /*@
    let ghost n = x@.len() as int; let ghost ny = y@.len() as int; let ghost m = pw(n - 3);
    proof { lemma_leh_val_top3(x@); lemma_pw_pos(n - 3); }
    @*/
    let (x0, x_lo) = x.split_last().unwrap();
    let x12 = highest_dword(x_lo);
    /*@
    let ghost ry: int = if ny >= n - 2 { valn(y@, n - 3) } else { val(y@) };
    proof {
        if ny == n { lemma_leh_val_top3(y@); }
        else if ny == n - 1 { lemma_leh_val_top2(y@); }
        else if ny == n - 2 { lemma_leh_val_top1(y@); }
        else { lemma_valn_bound(y@, ny); lemma_leh_pw_mono(ny, n - 3); }
    }
    @*/
    let (y0, y12) = match x.len() - y.len() {
        0 => {
            let (y0, y_lo) = y.split_last().unwrap();
            (*y0, highest_dword(y_lo))
        }
        1 => (0, highest_dword(y)),
        2 => (0, extend_word(*y.last().unwrap())),
        _ => (0, 0),
    };
    /*@
    let ghost bb = B() * B();
    let ghost x3 = (*x0 as int) * bb + x12 as int; let ghost y3 = (y0 as int) * bb + y12 as int;
    proof {
        assert(0 * bb == 0);
        assert(val(x@) == x3 * m + valn(x@, n - 3));
        assert(val(y@) == y3 * m + ry) by { if ny < n - 2 { assert(0 * m == 0); } }
        lemma_leh_top_le(val(x@), val(y@), x3, y3, valn(x@, n - 3), ry, m);
        lemma_leh_top_word_le(*x0 as int, x12 as int, y0 as int, y12 as int);
        lemma_dw_normalize(*x0);
    }
    @*/
    let shift = x0.leading_zeros();
    /*@
    let ghost p = pow2(shift as int); let ghost pp = pow2(WORD_BITS as int - shift as int);
    proof {
        lemma_sh_pow2_add(shift as int, WORD_BITS as int - shift as int); lemma_sh_pow2_bits();
        lemma_sh_pow2_pos(shift as int); lemma_sh_pow2_pos(WORD_BITS as int - shift as int);
        assert((y0 as int) * p <= (*x0 as int) * p) by (nonlinear_arith) requires y0 as int <= *x0 as int, p >= 1;
        lemma_leh_dw_or(*x0, x12, shift); lemma_leh_dw_or(y0, y12, shift);
    }
    @*/
    let x_hi = extend_word(*x0) << (shift + WORD_BITS) | x12 >> (WORD_BITS - shift);
    let y_hi = extend_word(y0) << (shift + WORD_BITS) | y12 >> (WORD_BITS - shift);
    /*@ proof {
        lemma_leh_top_part3(val(x@), *x0 as int, x12 as int, valn(x@, n - 3), m, p, pp, x_hi as int);
        lemma_leh_top_part3(val(y@), y0 as int, y12 as int, ry, m, p, pp, y_hi as int);
        assert(pp * m >= 1) by (nonlinear_arith) requires pp >= 1, m >= 1;
        assert(leh_top(val(x@), val(y@), x_hi as int, y_hi as int, pp * m));
        lemma_leh_top_order(val(x@), val(y@), x_hi as int, y_hi as int, pp * m);
        if ny <= n - 2 {
            // y_hi == y12 / pp < p  and  x_hi >= (x0 * p) * B >= HALFB * B
            let lim1 = SignedWord::MAX as int + 1;
            assert((y0 as int) * p * B() == 0) by (nonlinear_arith) requires y0 as int == 0;
            lemma_leh_div_lt(y12 as int, p, pp);
            assert(((*x0 as int) * p) * B() >= lim1 * B()) by (nonlinear_arith) requires (*x0 as int) * p >= lim1, B() >= 1;
            lemma_leh_div_nonneg(x12 as int, pp);
            assert(p <= B()) by (nonlinear_arith) requires p * pp == B(), p >= 1, pp >= 1;
            assert((y_hi as int) * lim1 <= p * lim1) by (nonlinear_arith) requires 0 <= y_hi as int <= p, lim1 >= 0;
            assert(p * lim1 <= B() * lim1) by (nonlinear_arith) requires p <= B(), lim1 >= 0;
            assert(lim1 * B() == B() * lim1) by (nonlinear_arith);
        }
    } @*/
    (x_hi, y_hi)
}
