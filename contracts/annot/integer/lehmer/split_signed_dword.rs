//@ item: integer/src/primitive.rs :: split_signed_dword
pub const fn split_signed_dword(dw: SignedDoubleWord) -> (Word, SignedWord)
/*@ ensures ret.0 as int + (ret.1 as int) * B() == dw as int, @*/
{
    /*@ proof { lemma_leh_split_signed_bv(dw); } @*/
    (dw as Word, (dw >> WORD_BITS) as SignedWord)
}
