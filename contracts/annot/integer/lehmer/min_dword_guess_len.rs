//@ item: integer/src/gcd/lehmer.rs :: const MIN_DWORD_GUESS_LEN
const MIN_DWORD_GUESS_LEN: usize = 300;
