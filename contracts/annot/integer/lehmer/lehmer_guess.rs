//@ item: integer/src/gcd/lehmer.rs :: lehmer_guess
fn lehmer_guess(mut xbar: Word, mut ybar: Word) -> (Word, Word, Word, Word)
/*@
    requires xbar >= ybar,          // the function's own debug assertion
    ensures
        // C12 (Lehmer step): unimodular cofactor matrix, entries below SignedWord::MAX, the combination it defines is
        // non-negative and not larger than y for EVERY pair of operands with these leading words; identity on failure
        leh_guess_post(xbar as int, ybar as int, ret.0 as int, ret.1 as int, ret.2 as int, ret.3 as int, SignedWord::MAX as int),
@*/
/*@
        // exact Jebelean condition for BOTH rows (the second one was `xbar - c` before the repair 0fb363c: genuine defect)
        leh_guess_exact(xbar as int, ybar as int, ret.0 as int, ret.1 as int, ret.2 as int, ret.3 as int),
@*/
{
    debug_assert!(xbar >= ybar);
    const COEFF_LIMIT: Word = SignedWord::MAX as Word;

    /*@ let ghost X0 = xbar as int; let ghost Y0 = ybar as int; @*/
    let (mut a, mut b, mut c, mut d) = (1, 0, 0, 1);
    /*@ let ghost _ty: (Word, Word, Word, Word) = (a, b, c, d);      // pins the literal types before the invariant
    proof { lemma_leh_st_init(X0, Y0); } @*/
    while ybar != 0
    /*@
        invariant_except_break xbar >= ybar,
        invariant
            leh_st(X0, Y0, a as int, b as int, c as int, d as int, xbar as int, ybar as int),
            X0 <= Word::MAX, Y0 <= Word::MAX, COEFF_LIMIT == SignedWord::MAX as Word,
            a <= COEFF_LIMIT, b <= COEFF_LIMIT, c <= COEFF_LIMIT, d <= COEFF_LIMIT,
            b == 0 ==> a == 1 && c == 0 && d == 1,
            c == 0 ==> d == 1,
            b > 0 ==> xbar as int + a as int <= Y0,
            c > 0 ==> ybar as int + d as int <= Y0,
            d > c, b + 1 >= a,
            b == 0 || (c >= a && d >= b) || xbar as int + a as int <= ybar as int - c as int,
    @*/
    /*@
            b == 0 || (c >= a && d >= b && ybar as int + d as int <= xbar as int - b as int)
                || (a >= c && b >= d && xbar as int + a as int <= ybar as int - c as int),
    @*/
    /*@
        decreases ybar,
    @*/
    {
        /*@ proof {
            lemma_leh_quot(xbar as int, ybar as int);
            lemma_leh_half(X0, Y0, a as int, b as int, c as int, d as int, xbar as int, ybar as int, (xbar as int) / (ybar as int));
            lemma_leh_st_le(X0, Y0, a as int, b as int, c as int, d as int, xbar as int, ybar as int);
        } @*/
        let q = xbar / ybar;
        if q > COEFF_LIMIT {
            break;
        }

        let r = a + q * c;
        let s = b + q * d;
        let t = xbar - q * ybar;

        if r > COEFF_LIMIT || s > COEFF_LIMIT {
            break;
        }
        if t < s || t + r > ybar - c {
            break;
        }
        /*@ proof { lemma_leh_cols1(a as int, b as int, c as int, d as int, q as int); } @*/

        a = r;
        b = s;
        xbar = t;

        if xbar == b {
            break;
        }

        /*@ proof {
            lemma_leh_st_sym(X0, Y0, a as int, b as int, c as int, d as int, xbar as int, ybar as int);
            lemma_leh_quot(ybar as int, xbar as int);
            lemma_leh_half(Y0, X0, d as int, c as int, b as int, a as int, ybar as int, xbar as int, (ybar as int) / (xbar as int));
        } @*/
        let q = ybar / xbar;
        if q > COEFF_LIMIT {
            break;
        }

        let r = d + q * b;
        let s = c + q * a;
        let t = ybar - q * xbar;

        if r > COEFF_LIMIT || s > COEFF_LIMIT {
            break;
        }
        if t < s || t + r > xbar - b {
            break;
        }
        /*@ proof {
            lemma_leh_cols2(a as int, b as int, c as int, d as int, q as int);
            lemma_leh_st_sym(Y0, X0, r as int, s as int, b as int, a as int, t as int, xbar as int);
        } @*/

        d = r;
        c = s;
        ybar = t;

        if ybar == c {
            break;
        }
    }

    /*@ proof {
        lemma_leh_guess_fin(X0, Y0, a as int, b as int, c as int, d as int, xbar as int, ybar as int, SignedWord::MAX as int);
    } @*/
    (a, b, c, d)
}
