//@ item: integer/src/primitive.rs :: signed_extend_word
/*@ #[verifier::when_used_as_spec(leh_sew)] @*/
pub const fn signed_extend_word(word: Word) -> SignedDoubleWord
/*@ ensures ret as int == word as int, ret == leh_sew(word), @*/
{
    word as SignedDoubleWord
}
