//@ item: integer/src/gcd/lehmer.rs :: trim_leading_zeros
fn trim_leading_zeros(words: &mut [Word]) -> &mut [Word]
/*@
    requires old(words)@.len() <= usize::MAX,
    ensures
        // the returned slice is the prefix of `words` without the leading (top) zero words: same value, normalized;
        // writes through it land in the prefix of `words`, the words above stay (zero)
        ret@.len() <= old(words)@.len(),
        ret@ == old(words)@.subrange(0, ret@.len() as int),
        final(words)@ == final(ret)@ + old(words)@.subrange(ret@.len() as int, old(words)@.len() as int),
        forall|j: int| ret@.len() <= j < old(words)@.len() ==> old(words)@[j] == 0,
        ret@.len() > 0 ==> ret@[ret@.len() - 1] != 0,
        val(ret@) == val(old(words)@),
@*/
{
    /*@ let ghost w0 = words@; @*/
    words.split_at_mut(locate_top_word_plus_one(words)).0
    /*@ proof {
        lemma_valn_zero(w0, ret@.len() as int, w0.len() as int);
        lemma_valn_ext(w0, ret@, ret@.len() as int);
    } @*/
}
