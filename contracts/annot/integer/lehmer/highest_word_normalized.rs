//@ item: integer/src/gcd/lehmer.rs :: highest_word_normalized
fn highest_word_normalized(x: &[Word], y: &[Word]) -> (Word, Word)
/*@
    requires
        // from the call sites (gcd_in_place / gcd_ext_in_place keep x >= y, both normalized, y.len() >= 2 in the loop)
        2 <= x@.len() <= usize::MAX, 1 <= y@.len() <= x@.len(), x@[x@.len() - 1] != 0, val(x@) >= val(y@),
    ensures
        // C12 (Lehmer step): the two returned words are the leading parts of x and y at one common weight k
        leh_top_ex(val(x@), val(y@), ret.0 as int, ret.1 as int),
        ret.0 >= ret.1,
        // an operand more than one word shorter makes the guess fail (quotient above SignedWord::MAX)
        x@.len() - y@.len() >= 2 ==> (ret.1 as int) * (SignedWord::MAX as int + 1) <= ret.0 as int,
@*/
{
    /*@
    let ghost n = x@.len() as int; let ghost ny = y@.len() as int; let ghost m = pw(n - 2);
    proof { lemma_leh_val_top2(x@); lemma_pw_pos(n - 2); }
    @*/
    let x_hi2 = highest_dword(x);
    /*@
    let ghost ry: int = if ny >= n - 1 { valn(y@, n - 2) } else { val(y@) };
    proof {
        assert((x@[n - 1] as int) * B() >= B()) by (nonlinear_arith) requires x@[n - 1] as int >= 1, B() >= 1;
        if ny == n { lemma_leh_val_top2(y@); }
        else if ny == n - 1 { lemma_leh_val_top1(y@); }
        else { lemma_valn_bound(y@, ny); lemma_leh_pw_mono(ny, n - 2); assert(0 * m == 0); }
    }
    @*/
    let y_hi2 = match x.len() - y.len() {
        0 => highest_dword(y),
        1 => extend_word(*y.last().unwrap()),
        _ => 0,
    };
    /*@ proof {
        assert(val(y@) == (y_hi2 as int) * m + ry);
        lemma_leh_top_le(val(x@), val(y@), x_hi2 as int, y_hi2 as int, valn(x@, n - 2), ry, m);
        axiom_dd_lz(x_hi2); lemma_dd_normalize(x_hi2, dd_lz(x_hi2));
    } @*/
    let shift = x_hi2.leading_zeros();
    /*@
    let ghost p = pow2(shift as int); let ghost pp = pow2(WORD_BITS as int - shift as int);
    proof {
        lemma_sh_pow2_add(shift as int, WORD_BITS as int - shift as int); lemma_sh_pow2_bits();
        lemma_sh_pow2_pos(shift as int); lemma_sh_pow2_pos(WORD_BITS as int - shift as int);
        assert((y_hi2 as int) * p <= (x_hi2 as int) * p) by (nonlinear_arith) requires y_hi2 as int <= x_hi2 as int, p >= 1;
        lemma_sh_shl_mul_d(y_hi2, shift);
    }
    @*/
    let (_, x_hi) = split_dword(x_hi2 << shift);
    let (_, y_hi) = split_dword(y_hi2 << shift);
    /*@ proof {
        let xlo = ((x_hi2 as int) * p - (x_hi as int) * B()); let ylo = ((y_hi2 as int) * p - (y_hi as int) * B());
        lemma_leh_top_part(val(x@), x_hi2 as int, valn(x@, n - 2), m, p, pp, x_hi as int, xlo);
        lemma_leh_top_part(val(y@), y_hi2 as int, ry, m, p, pp, y_hi as int, ylo);
        assert(pp * m >= 1) by (nonlinear_arith) requires pp >= 1, m >= 1;
        assert(leh_top(val(x@), val(y@), x_hi as int, y_hi as int, pp * m));
        lemma_leh_top_order(val(x@), val(y@), x_hi as int, y_hi as int, pp * m);
        if y_hi2 == 0 { assert((y_hi as int) * B() >= B() || y_hi == 0) by (nonlinear_arith) requires y_hi as int >= 0, B() >= 1; }
    } @*/
    (x_hi, y_hi)
}
