//@ item: integer/src/gcd/lehmer.rs :: lehmer_step
pub(crate) fn lehmer_step(x: &mut [Word], y: &mut [Word], a: Word, b: Word, c: Word, d: Word)
/*@
    requires
        // the function's own debug assertions
        old(y)@.len() <= old(x)@.len() <= old(y)@.len() + 1, old(x)@.len() <= usize::MAX,
        a <= SignedWord::MAX as Word, b <= SignedWord::MAX as Word, c <= SignedWord::MAX as Word, d <= SignedWord::MAX as Word,
        // from the call sites (gcd_in_place / gcd_ext_in_place apply a successful lehmer_guess: lemma_leh_apply): the
        // combination is non-negative and fits the words of y; a >= 1
        a >= 1,
        0 <= (a as int) * val(old(x)@) - (b as int) * val(old(y)@) < pw(old(y)@.len() as int),
        0 <= (d as int) * val(old(y)@) - (c as int) * val(old(x)@) < pw(old(y)@.len() as int),
    ensures
        final(x)@.len() == old(x)@.len(), final(y)@.len() == old(y)@.len(),
        // C12 (Lehmer step): (x, y) <- (a x - b y, d y - c x)
        val(final(x)@) == (a as int) * val(old(x)@) - (b as int) * val(old(y)@),
        val(final(y)@) == (d as int) * val(old(y)@) - (c as int) * val(old(x)@),
@*/
{
    debug_assert!(x.len() >= y.len() && x.len() - y.len() <= 1);
    debug_assert!(a <= SignedWord::MAX as Word && b <= SignedWord::MAX as Word);
    debug_assert!(c <= SignedWord::MAX as Word && d <= SignedWord::MAX as Word);
    /*@
    let ghost x0 = x@; let ghost y0 = y@;
    let ghost n = y@.len() as int;
    let ghost (ai, bi, ci, di) = (a as int, b as int, c as int, d as int);
    @*/
    let (a, b) = (signed_extend_word(a), signed_extend_word(b));
    let (c, d) = (signed_extend_word(c), signed_extend_word(d));

    let (mut x_carry, mut y_carry) = (0, 0);
    /*@
    let ghost _ty: (SignedWord, SignedWord) = (x_carry, y_carry);
    let ghost mut px = x@; let ghost mut py = y@;
    proof { assert(0 * pw(0) == 0); assert(ai * 0 - bi * 0 == 0) by (nonlinear_arith); assert(di * 0 - ci * 0 == 0) by (nonlinear_arith); }
    @*/
    for (x_i, y_i) in x.iter_mut().zip(y.iter_mut())
    /*@
        invariant
            __n0 == n, 0 <= __i0 <= n, n == y0.len(), n <= x0.len() <= n + 1,
            x@.len() == x0.len(), y@.len() == y0.len(), px == x@, py == y@,
            a as int == ai, b as int == bi, c as int == ci, d as int == di,
            0 <= ai <= leh_lim(), 0 <= bi <= leh_lim(), 0 <= ci <= leh_lim(), 0 <= di <= leh_lim(),
            forall|j: int| __i0 <= j < x0.len() ==> #[trigger] x@[j] == x0[j],
            forall|j: int| __i0 <= j < y0.len() ==> #[trigger] y@[j] == y0[j],
            valn(x@, __i0 as int) + (x_carry as int) * pw(__i0 as int) == ai * valn(x0, __i0 as int) - bi * valn(y0, __i0 as int),
            valn(y@, __i0 as int) + (y_carry as int) * pw(__i0 as int) == di * valn(y0, __i0 as int) - ci * valn(x0, __i0 as int),
        decreases __n0 - __i0,
    @*/
    {
        /*@ let ghost i = __i0 as int - 1;
        proof {
            lemma_leh_prod_bound(ai, x0[i] as int); lemma_leh_prod_bound(bi, y0[i] as int);
            lemma_leh_prod_bound(di, y0[i] as int); lemma_leh_prod_bound(ci, x0[i] as int);
        } @*/
        let (sx_i, sy_i) = (signed_extend_word(*x_i), signed_extend_word(*y_i));
        let (x_new, cx) = split_signed_dword(a * sx_i - b * sy_i + x_carry as SignedDoubleWord);
        let (y_new, cy) = split_signed_dword(d * sy_i - c * sx_i + y_carry as SignedDoubleWord);
        /*@ proof {
            lemma_leh_step_acc(valn(px, i), x_carry as int, ai, bi, valn(x0, i), valn(y0, i), x0[i] as int, y0[i] as int,
                x_new as int, cx as int, pw(i));
            lemma_leh_step_acc(valn(py, i), y_carry as int, di, ci, valn(y0, i), valn(x0, i), y0[i] as int, x0[i] as int,
                y_new as int, cy as int, pw(i));
        } @*/
        x_carry = cx;
        y_carry = cy;
        *x_i = x_new;
        *y_i = y_new;
        /*@ proof {
            lemma_valn_ext(px, x@, i); lemma_valn_ext(py, y@, i);
            px = x@; py = y@;
        } @*/
    }
    /*@
    let ghost xc = x_carry as int; let ghost yc = y_carry as int; let ghost pn = pw(n);
    proof {
        lemma_valn_bound(x@, n); lemma_valn_bound(y@, n); lemma_pw_pos(n);
        assert(valn(x@, n) + xc * pn == ai * valn(x0, n) - bi * val(y0));
        assert(valn(y@, n) + yc * pn == di * val(y0) - ci * valn(x0, n));
        if x0.len() == n + 1 {
            lemma_leh_val_top(x0, n); lemma_leh_val_top(x@, n);
            lemma_leh_top_x(valn(x@, n), xc, ai, bi, valn(x0, n), val(y0), x0[n] as int, pn);
            lemma_leh_top_y(valn(y@, n), yc, ci, di, valn(x0, n), val(y0), x0[n] as int, pn);
            lemma_leh_prod_bound(ai, x0[n] as int);
            lemma_leh_prod_bound(ci, x0[n] as int);
            // Y' == valn(y, n) + (yc - c*t)*pn == valn(y, n)
            assert(ci * (valn(x0, n) + (x0[n] as int) * pn) == ci * valn(x0, n) + (ci * (x0[n] as int)) * pn) by (nonlinear_arith);
            assert(val(y@) == di * val(y0) - ci * val(x0));
            if x_carry == 0 {
                lemma_leh_prod_zero(ai, x0[n] as int);
                assert(xc * pn == 0) by (nonlinear_arith) requires xc == 0;
                assert((x0[n] as int) * pn == 0) by (nonlinear_arith) requires x0[n] as int == 0;
                assert(val(x@) == ai * val(x0) - bi * val(y0));
            } else {
                // X' == valn(x, n) + (xc + a*t)*pn == valn(x, n)
                assert(ai * (valn(x0, n) + (x0[n] as int) * pn) == ai * valn(x0, n) + (ai * (x0[n] as int)) * pn) by (nonlinear_arith);
                assert((xc + ai * (x0[n] as int)) * pn == xc * pn + (ai * (x0[n] as int)) * pn) by (nonlinear_arith);
                assert((xc + ai * (x0[n] as int)) * pn == 0) by (nonlinear_arith) requires xc + ai * (x0[n] as int) == 0;
                assert(valn(x@, n) == ai * val(x0) - bi * val(y0));
            }
        } else {
            lemma_leh_carry_zero(valn(x@, n), xc, pn);
            lemma_leh_carry_zero(valn(y@, n), yc, pn);
            assert(xc * pn == 0) by (nonlinear_arith) requires xc == 0;
            assert(yc * pn == 0) by (nonlinear_arith) requires yc == 0;
            assert(val(x@) == ai * val(x0) - bi * val(y0));
            assert(val(y@) == di * val(y0) - ci * val(x0));
        }
    } @*/

    // if the carry words are not zero, then at most one additional step is required
    if x_carry != 0 {
        /*@ let ghost x1 = x@; @*/
        let x_top = x.last_mut().unwrap();
        debug_assert_eq!(y_carry as SignedDoubleWord, c * signed_extend_word(*x_top));
        let (x_new, cx) =
            split_signed_dword(a * signed_extend_word(*x_top) + x_carry as SignedDoubleWord);
        debug_assert_eq!(cx, 0);
        *x_top = x_new;
        /*@ proof {
            lemma_leh_val_top(x@, n); lemma_valn_ext(x1, x@, n);
            assert((x_new as int) * pn == 0) by (nonlinear_arith) requires x_new as int == 0;
        } @*/
    }
}
