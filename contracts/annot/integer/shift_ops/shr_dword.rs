//@ item: integer/src/shift_ops.rs :: mod repr :: shr_dword
fn shr_dword(dword: DoubleWord, rhs: usize) -> Repr
/*@
    ensures ret.v() == (dword as int) / pow2(rhs as int),      // floor division by 2^rhs
@*/
{
    if rhs < DWORD_BITS_USIZE {
        /*@ proof { lemma_so_shr_div_d(dword, rhs as u32); } @*/
        Repr::from_dword(dword >> rhs)
    } else {
        /*@ proof {
            lemma_sh_pow2_bits(); lemma_sh_pow2_add(WORD_BITS as int, WORD_BITS as int);
            lemma_sh_pow2_mono(2 * WORD_BITS as int, rhs as int);
            vstd::arithmetic::div_mod::lemma_fundamental_div_mod_converse(dword as int, pow2(rhs as int), 0, dword as int);
        } @*/
        Repr::zero()
    }
}
