//@ item: integer/src/shift_ops.rs :: mod repr :: shl_one_spilled
fn shl_one_spilled(rhs: usize) -> Repr
/*@
    requires rhs >= DWORD_BITS_USIZE,
        rhs / WORD_BITS_USIZE + 1 <= max_capacity(),      // else too large to represent (documented panic)
    ensures ret.v() == pow2(rhs as int),                        // 1 << rhs
@*/
{
    debug_assert!(rhs >= DWORD_BITS_USIZE);
    let idx = rhs / WORD_BITS_USIZE;
    let mut buffer = Buffer::allocate(idx + 1);
    buffer.push_zeros(idx);
    /*@ let ghost z = buffer@; @*/
    buffer.push(1 << (rhs % WORD_BITS_USIZE));
    /*@ proof {
        let w = (1 as Word) << ((rhs % WORD_BITS_USIZE) as Word);
        let r = (rhs % WORD_BITS_USIZE) as u32;
        assert((1 as Word) << ((rhs % WORD_BITS_USIZE) as Word) == (1 as Word) << r) by (bit_vector)
            requires r as Word == (rhs % WORD_BITS_USIZE) as Word, r < WORD_BITS;
        lemma_sh_one_shl_w(r);
        let t = seq![w];
        assert(buffer@ =~= z + t);
        lemma_val1(t);
        lemma_so_val_zeros_front(z, t);
        lemma_so_shl_total(1, w as int, idx as int, r as int);
    } @*/
    Repr::from_buffer(buffer)
}
