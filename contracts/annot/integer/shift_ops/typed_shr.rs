//@ item: integer/src/shift_ops.rs :: mod repr :: impl Shr<usize> for TypedRepr :: shr
fn shr(self, rhs: usize) -> Repr
/*@ #[hoist(Self = TypedRepr)]
    ensures ret.v() == self.v() / pow2(rhs as int),                    // C09: >> (unsigned) is floor division by 2^rhs
@*/
{
    match self {
        Small(dword) => shr_dword(dword, rhs),
        Large(buffer) => shr_large(buffer, rhs),
    }
}
