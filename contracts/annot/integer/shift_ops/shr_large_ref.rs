//@ item: integer/src/shift_ops.rs :: mod repr :: shr_large_ref
pub(crate) fn shr_large_ref(words: &[Word], rhs: usize) -> Repr
/*@
    requires words@.len() <= max_capacity(),      // the word slice of a number
    ensures
        // C09: >> on an unsigned value is floor division by 2^rhs
        ret.v() == val(words@) / pow2(rhs as int),
@*/
{
    /*@ let ghost a0 = words@; @*/
    let shift_words = rhs / WORD_BITS_USIZE;
    let shift_bits = (rhs % WORD_BITS_USIZE) as u32;

    let words = &words[shift_words.min(words.len())..];
    /*@ proof {
        if shift_words >= a0.len() { lemma_so_shr_all(a0, rhs as int); }
        else { lemma_so_shr_total(a0, shift_words as int, shift_bits as int); }
    } @*/

    match words {
        [] => Repr::zero(),
        &[w] => /*@ proof { lemma_val1(words@); lemma_sh_shr_div_w(w, shift_bits); } @*/ Repr::from_word(w >> shift_bits),
        &[lo, hi] => /*@ proof { lemma_val2(words@); 
            assert forall|x: DoubleWord| #[trigger] (x >> shift_bits) as int == (x as int) / pow2(shift_bits as int) by {
                lemma_so_shr_div_d(x, shift_bits);
            } } @*/ Repr::from_dword(double_word(lo, hi) >> shift_bits),
        _ => {
            let mut buffer = Buffer::allocate(words.len());
            buffer.push_slice(words);
            /*@ proof { assert(buffer@ =~= words@); } @*/
            shift::shr_in_place(&mut buffer, shift_bits);
            Repr::from_buffer(buffer)
        }
    }
}
