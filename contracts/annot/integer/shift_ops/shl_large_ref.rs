//@ item: integer/src/shift_ops.rs :: mod repr :: shl_large_ref
pub(crate) fn shl_large_ref(words: &[Word], rhs: usize) -> Repr
/*@
    requires
        // otherwise the result is too large to represent (documented allocation panic)
        rhs / WORD_BITS_USIZE + words@.len() + 1 <= max_capacity(),
    ensures
        // C09: << is multiplication by 2^rhs
        ret.v() == val(words@) * pow2(rhs as int),
@*/
{
    let shift_words = rhs / WORD_BITS_USIZE;
    let shift_bits = (rhs % WORD_BITS_USIZE) as u32;

    let mut buffer = Buffer::allocate(shift_words + words.len() + 1);
    buffer.push_zeros(shift_words);
    /*@ let ghost z = buffer@; @*/
    buffer.push_slice(words);
    /*@ proof { assert(buffer@.subrange(shift_words as int, buffer@.len() as int) =~= words@); } @*/
    let carry = shift::shl_in_place(&mut buffer[shift_words..], shift_bits);
    /*@ let ghost s1 = buffer@.subrange(shift_words as int, buffer@.len() as int); @*/
    /*@ proof { assert(buffer@ =~= z + s1); } @*/
    buffer.push(carry);
    /*@ proof {
        assert(buffer@ =~= z + s1.push(carry));
        lemma_so_val_push(s1, carry);
        lemma_so_val_zeros_front(z, s1.push(carry));
        lemma_so_shl_total(val(words@), val(s1.push(carry)), shift_words as int, shift_bits as int);
    } @*/
    Repr::from_buffer(buffer)
}
