//@ item: integer/src/shift_ops.rs :: mod repr :: impl<'a> Shl<usize> for TypedReprRef<'a> :: shl
fn shl(self, rhs: usize) -> Repr
/*@ #[hoist(Self = TypedReprRef<'_>)]
    requires self.wf(),
        rhs / WORD_BITS_USIZE + self.nwords() + 1 <= max_capacity(),   // else too large to represent (documented panic)
    ensures ret.v() == self.v() * pow2(rhs as int),
@*/
{
    match self {
        RefSmall(0) => Repr::zero(),
        RefSmall(dword) => shl_dword(dword, rhs),
        RefLarge(words) => shl_large_ref(words, rhs),
    }
    /*@ proof { assert(0 * pow2(rhs as int) == 0); } @*/
}
