//@ item: integer/src/shift_ops.rs :: mod repr :: shl_dword
fn shl_dword(dword: DoubleWord, rhs: usize) -> Repr
/*@
    requires dword != 0,
        rhs / WORD_BITS_USIZE + 3 <= max_capacity(),      // else too large to represent (documented panic)
    ensures ret.v() == (dword as int) * pow2(rhs as int),     // << is multiplication by 2^rhs
@*/
{
    debug_assert!(dword != 0);

    if rhs <= dword.leading_zeros() as usize {
        /*@ proof {
            // dword < 2^(128 - lz) and rhs <= lz: nothing is shifted out
            assert forall|r: int| #![trigger pow2(2 * WORD_BITS - r)] rhs <= r <= 2 * WORD_BITS && (dword as int) < pow2(2 * WORD_BITS - r)
                implies (dword as int) * pow2(rhs as int) < B() * B() by {
                lemma_sh_pow2_mono(rhs as int, r);
                lemma_sh_pow2_add(r, 2 * WORD_BITS - r);
                lemma_bd_pow2_dbits();
                lemma_sh_pow2_pos(2 * WORD_BITS - r);
                let (x, p, q, t) = (dword as int, pow2(rhs as int), pow2(r), pow2(2 * WORD_BITS - r));
                assert(x * p < t * q) by (nonlinear_arith) requires 0 <= x < t, 1 <= p <= q;
                assert(t * q == q * t) by (nonlinear_arith);
            }
            if (dword as int) * pow2(rhs as int) < B() * B() { lemma_sh_shl_mul_d(dword, rhs as u32); }
        } @*/
        Repr::from_dword(dword << rhs)
    } else if dword == 1 {
        /*@ proof { assert forall|k: int| k >= 1 implies #[trigger] pow2(k) >= 2 by { lemma_sh_pow2_pos(k - 1); } } @*/
        shl_one_spilled(rhs)
    } else {
        shl_dword_spilled(dword, rhs)
    }
}
