//@ item: integer/src/shift_ops.rs :: mod repr :: shl_dword_spilled
fn shl_dword_spilled(dword: DoubleWord, rhs: usize) -> Repr
/*@
    requires rhs / WORD_BITS_USIZE + 3 <= max_capacity(),     // else too large to represent (documented panic)
    ensures ret.v() == (dword as int) * pow2(rhs as int),
@*/
{
    let shift_words = rhs / WORD_BITS_USIZE;
    let shift_bits = (rhs % WORD_BITS_USIZE) as u32;

    let (n0, n1, n2) = math::shl_dword(dword, shift_bits);
    let mut buffer = Buffer::allocate(shift_words + 3);
    buffer.push_zeros(shift_words);
    /*@ let ghost z = buffer@; @*/
    buffer.push(n0);
    buffer.push(n1);
    buffer.push(n2);
    /*@ proof {
        let t = seq![n0, n1, n2];
        assert(buffer@ =~= z + t);
        lemma_val2(seq![n0, n1]);
        assert(seq![n0, n1].push(n2) =~= t);
        lemma_so_val_push(seq![n0, n1], n2);
        assert(pw(2) == B() * B()) by { assert(pw(2) == B() * pw(1)); assert(pw(1) == B() * pw(0)); assert(pw(0) == 1); }
        lemma_so_val_zeros_front(z, t);
        lemma_so_shl_total(dword as int, val(t), shift_words as int, shift_bits as int);
    } @*/
    Repr::from_buffer(buffer)
}
