//@ item: integer/src/shift_ops.rs :: mod repr :: impl<'a> Shr<usize> for TypedReprRef<'a> :: shr
fn shr(self, rhs: usize) -> Repr
/*@ #[hoist(Self = TypedReprRef<'_>)]
    requires self.wf(),
    ensures ret.v() == self.v() / pow2(rhs as int),
@*/
{
    match self {
        RefSmall(dword) => shr_dword(dword, rhs),
        RefLarge(words) => shr_large_ref(words, rhs),
    }
}
