//@ item: integer/src/shift_ops.rs :: mod repr :: impl Shl<usize> for TypedRepr :: shl
fn shl(self, rhs: usize) -> Repr
/*@ #[hoist(Self = TypedRepr)]
    requires self.wf(),
        rhs / WORD_BITS_USIZE + self.nwords() + 1 <= max_capacity(),   // else too large to represent (documented panic)
    ensures ret.v() == self.v() * pow2(rhs as int),                    // C09: << is multiplication by 2^rhs
@*/
{
    match self {
        Small(0) => Repr::zero(),
        Small(dword) => shl_dword(dword, rhs),
        Large(buffer) => shl_large(buffer, rhs),
    }
    /*@ proof { assert(0 * pow2(rhs as int) == 0); } @*/
}
