//@ item: integer/src/shift_ops.rs :: mod repr :: shr_large
fn shr_large(mut buffer: Buffer, rhs: usize) -> Repr
/*@
    ensures
        // C09: >> on an unsigned value is floor division by 2^rhs
        ret.v() == val(buffer@) / pow2(rhs as int),
@*/
{
    /*@ let ghost a0 = buffer@; @*/
    let shift_words = rhs / WORD_BITS_USIZE;
    if shift_words >= buffer.len() {
        /*@ proof { lemma_so_shr_all(a0, rhs as int); } @*/
        return Repr::zero();
    }
    let shift_bits = (rhs % WORD_BITS_USIZE) as u32;
    buffer.erase_front(shift_words);
    shift::shr_in_place(&mut buffer, shift_bits);
    /*@ proof { lemma_so_shr_total(a0, shift_words as int, shift_bits as int); } @*/
    Repr::from_buffer(buffer)
}
