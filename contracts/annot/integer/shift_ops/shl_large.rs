//@ item: integer/src/shift_ops.rs :: mod repr :: shl_large
fn shl_large(mut buffer: Buffer, rhs: usize) -> Repr
/*@
    requires
        // otherwise the result is too large to represent (documented allocation panic)
        rhs / WORD_BITS_USIZE + buffer@.len() + 1 <= max_capacity(),
    ensures
        // C09: << is multiplication by 2^rhs
        ret.v() == val(buffer@) * pow2(rhs as int),
@*/
{
    /*@ let ghost a0 = buffer@; @*/
    let shift_words = rhs / WORD_BITS_USIZE;

    if buffer.capacity() < buffer.len() + shift_words + 1 {
        return shl_large_ref(&buffer, rhs);
    }

    let shift_bits = (rhs % WORD_BITS_USIZE) as u32;
    let carry = shift::shl_in_place(&mut buffer, shift_bits);
    /*@ let ghost s1 = buffer@; @*/
    buffer.push(carry);
    /*@ let ghost s2 = buffer@; @*/
    buffer.push_zeros_front(shift_words);
    /*@ proof {
        lemma_so_val_push(s1, carry);
        lemma_so_val_zeros_front(zeros(shift_words as int), s2);
        lemma_so_shl_total(val(a0), val(s2), shift_words as int, shift_bits as int);
    } @*/
    Repr::from_buffer(buffer)
}
