//@ item: integer/src/modular/add.rs :: sub_in_place_swap
fn sub_in_place_swap(ring: &ConstLargeDivisor, lhs: &ReducedLarge, rhs: &mut ReducedLarge)
/*@
    requires ring_wf(ring), red_valid(lhs, ring), red_valid(old(rhs), ring),
    ensures red_valid(final(rhs), ring),
        mod1(val(final(rhs).0@), val(lhs.0@) - val(old(rhs).0@), val(ring.normalized_divisor@)),
@*/
{
    debug_assert!(lhs.is_valid(ring) && rhs.is_valid(ring));
    let modulus = &ring.normalized_divisor;
    /*@ proof {
        lemma_valn_bound(lhs.0@, lhs.0@.len() as int);
        lemma_valn_bound(rhs.0@, rhs.0@.len() as int);
    } @*/
    let overflow = add::sub_same_len_in_place_swap(&lhs.0, &mut rhs.0);
    /*@ proof {
        lemma_valn_bound(rhs.0@, rhs.0@.len() as int);
        lemma_valn_bound(modulus@, modulus@.len() as int);
        lemma_b2i_mul(overflow, pw(modulus@.len() as int));
    } @*/
    if overflow {
        /*@ let ghost mid = rhs.0@; @*/
        let overflow2 = add::add_same_len_in_place(&mut rhs.0, modulus);
        /*@ proof {
            lemma_valn_bound(rhs.0@, rhs.0@.len() as int);
            lemma_b2i_mul(overflow2, pw(modulus@.len() as int));
            lemma_mod_sub_fix(val(lhs.0@), val(old(rhs).0@), val(modulus@), val(mid), val(rhs.0@), b2i(overflow2), pw(modulus@.len() as int));
        } @*/
        debug_assert!(overflow2);
    }
}
