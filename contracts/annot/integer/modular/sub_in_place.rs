//@ item: integer/src/modular/add.rs :: sub_in_place
fn sub_in_place(ring: &ConstLargeDivisor, lhs: &mut ReducedLarge, rhs: &ReducedLarge)
/*@
    requires ring_wf(ring), red_valid(old(lhs), ring), red_valid(rhs, ring),
    ensures red_valid(final(lhs), ring),
        mod1(val(final(lhs).0@), val(old(lhs).0@) - val(rhs.0@), val(ring.normalized_divisor@)),
@*/
{
    debug_assert!(lhs.is_valid(ring) && rhs.is_valid(ring));
    let modulus = &ring.normalized_divisor;
    /*@ proof {
        lemma_valn_bound(lhs.0@, lhs.0@.len() as int);
        lemma_valn_bound(rhs.0@, rhs.0@.len() as int);
    } @*/
    let overflow = add::sub_same_len_in_place(&mut lhs.0, &rhs.0);
    /*@ proof {
        lemma_valn_bound(lhs.0@, lhs.0@.len() as int);
        lemma_valn_bound(modulus@, modulus@.len() as int);
        lemma_b2i_mul(overflow, pw(modulus@.len() as int));
    } @*/
    if overflow {
        /*@ let ghost mid = lhs.0@; @*/
        let overflow2 = add::add_same_len_in_place(&mut lhs.0, modulus);
        /*@ proof {
            lemma_valn_bound(lhs.0@, lhs.0@.len() as int);
            lemma_b2i_mul(overflow2, pw(modulus@.len() as int));
            lemma_mod_sub_fix(val(old(lhs).0@), val(rhs.0@), val(modulus@), val(mid), val(lhs.0@), b2i(overflow2), pw(modulus@.len() as int));
        } @*/
        debug_assert!(overflow2);
    }
}
