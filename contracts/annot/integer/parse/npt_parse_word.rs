//@ item: integer/src/parse/non_power_two.rs :: parse_word
fn parse_word(src: &[u8], radix: Digit) -> Result<Word, ParseError>
/*@
    requires src@.len() <= usize::MAX, radix_ok(radix),
        src@.len() <= dpw(radix),          // "The length of the string must be at most digits_per_word" (debug-asserted below)
    ensures
        match ret {
            Ok(w) => all_digits(src@, radix as int) && w as int == digits_value(src@, radix as int),
            Err(e) => !all_digits(src@, radix as int) && e == ParseError::InvalidDigit,
        },
@*/
{
    /*@ proof { radix::ax_radix_info(radix); } @*/
    debug_assert!(radix::is_radix_valid(radix) && !radix.is_power_of_two());
    debug_assert!(src.len() <= radix::radix_info(radix).digits_per_word);

    let mut word: Word = 0;
    /*@ proof { lemma_dv_empty(src@.subrange(0, 0), radix as int); } @*/
    for byte in src.iter()
    /*@
        invariant
            __n0 == src@.len(), __i0 <= __n0, radix_ok(radix), src@.len() <= dpw(radix),
            all_digits(src@.subrange(0, __i0 as int), radix as int),
            word as int == digits_value(src@.subrange(0, __i0 as int), radix as int),
        decreases __n0 - __i0
    @*/
    {
        /*@ proof {
            lemma_all_digits_step(src@, __i0 as int - 1, radix as int);
            if !is_dig(*byte, radix as int) {
                lemma_all_digits_split(src@, __i0 as int, radix as int);
            }
        } @*/
        let digit = radix::digit_from_ascii_byte(*byte, radix).ok_or(ParseError::InvalidDigit)?;
        /*@ proof {
            lemma_dv_prefix_step(src@, __i0 as int - 1, radix as int);
            lemma_npt_word_step(src@.subrange(0, __i0 as int), radix, __i0 as int);
        } @*/
        word = word * (radix as Word) + (digit as Word);
    }
    /*@ proof { lemma_dv_whole(src@, radix as int); assert(src@.subrange(0, src@.len() as int) =~= src@); } @*/
    Ok(word)
}
