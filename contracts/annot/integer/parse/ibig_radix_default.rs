//@ item: integer/src/parse/mod.rs :: impl IBig :: from_str_with_radix_default
pub fn from_str_with_radix_default(
    src: &str,
    default_radix: Digit,
) -> Result<(IBig, Digit), ParseError>
/*@
    requires 2 <= default_radix <= 36,            // NOT checked by the code (see the unit header: undocumented panic otherwise)
        src.b().len() <= max_capacity(),          // resource: see UBig::from_str_radix_no_sign
    ensures
        // "`src` may contain an '+' or `-` prefix before the radix prefix"
        ires2_is(ret, is_neg(src.b()), prefix_radix(drop_sign(src.b()), default_radix as int),
            body_result(drop_prefix(drop_sign(src.b())), prefix_radix(drop_sign(src.b()), default_radix as int))),
@*/
{
        /*@ let ghost s0 = src.b(); @*/
        let (src, sign) = match src.strip_prefix('-') {
            Some(s) => (s, Negative),
            None => (src.strip_prefix('+').unwrap_or(src), Positive),
        };
        /*@ proof {
            lemma_starts1(s0, PLUS()); lemma_starts1(s0, MINUS());
            assert(src.b() == drop_sign(s0));
            let r = prefix_radix(src.b(), default_radix as int);
            if text_ok(drop_prefix(src.b()), r) { lemma_text_value_nonneg(drop_prefix(src.b()), r); }
        } @*/
        let (mag, radix) = UBig::from_str_with_radix_prefix_no_sign(src, default_radix)?;
        Ok((IBig(mag.0.with_sign(sign)), radix))
}
