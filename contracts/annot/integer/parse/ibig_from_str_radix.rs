//@ item: integer/src/parse/mod.rs :: impl IBig :: from_str_radix
pub fn from_str_radix(mut src: &str, radix: u32) -> Result<IBig, ParseError>
/*@
    requires src.b().len() <= max_capacity(),         // resource: see UBig::from_str_radix_no_sign
    ensures
        !(2 <= radix <= 36) ==> ret is Err && ret->Err_0 == ParseError::UnsupportedRadix,
        // "The string may contain a `+` or `-` prefix"
        2 <= radix <= 36 ==> ires_is(ret, is_neg(src.b()), body_result(drop_sign(src.b()), radix as int)),
@*/
{
        if !is_radix_valid(radix) {
            return Err(ParseError::UnsupportedRadix);
        }

        /*@ let ghost s0 = src.b(); @*/
        let sign = match src.strip_prefix('-') {
            Some(s) => {
                src = s;
                Negative
            }
            None => {
                src = src.strip_prefix('+').unwrap_or(src);
                Positive
            }
        };
        /*@ proof {
            lemma_starts1(s0, PLUS()); lemma_starts1(s0, MINUS());
            assert(src.b() == drop_sign(s0));
            if text_ok(src.b(), radix as int) { lemma_text_value_nonneg(src.b(), radix as int); }
        } @*/
        let mag = UBig::from_str_radix_no_sign(src, radix)?;
        Ok(IBig(mag.0.with_sign(sign)))
}
