//@ item: integer/src/parse/power_two.rs :: parse
pub fn parse(src: &str, radix: Digit) -> Result<UBig, ParseError>
/*@
    requires radix_p2(radix),
        src.b().len() * log_radix(radix) <= WORD_BITS * max_capacity(),     // resource, see parse_large
    ensures
        match ret {
            Ok(u) => text_ok(src.b(), radix as int) && u.0.v() == text_value(src.b(), radix as int),
            Err(e) => !text_ok(src.b(), radix as int) && e == ParseError::InvalidDigit,
        },
@*/
{
    /*@ proof { lemma_tz_radix(radix); } @*/
    debug_assert!(radix::is_radix_valid(radix) && radix.is_power_of_two());

    let digits_per_word = (WORD_BITS / radix.trailing_zeros()) as usize;
    if src.len() <= digits_per_word {
        Ok(parse_word(src, radix)?.into())
    } else {
        parse_large(src, radix)
    }
}
