//@ item: integer/src/parse/power_two.rs :: parse_large
fn parse_large(src: &str, radix: Digit) -> Result<UBig, ParseError>
/*@
    requires radix_p2(radix),
        src.b().len() > 0,                     // from the call site: more than digits_per_word >= 1 characters (`num_bits - 1`)
        // resource: the bits of the text can be counted in a usize and held by one Buffer; beyond that the function panics
        // with "the number to be parsed is too large" (`expect`) resp. in Buffer::allocate
        src.b().len() * log_radix(radix) <= WORD_BITS * max_capacity(),
    ensures
        match ret {
            Ok(u) => text_ok(src.b(), radix as int) && u.0.v() == text_value(src.b(), radix as int),
            Err(e) => !text_ok(src.b(), radix as int) && e == ParseError::InvalidDigit,
        },
@*/
{
    /*@ proof { lemma_tz_radix(radix); } @*/
    debug_assert!(radix::is_radix_valid(radix) && radix.is_power_of_two());

    let log_radix = radix.trailing_zeros();
    /*@ let ghost s = src.b();
        proof {
            let (a, l) = (s.len() as int, log_radix as int);
            assert(a * l >= 1) by (nonlinear_arith) requires a >= 1, l >= 1;
        } @*/
    #[allow(clippy::redundant_closure)]
    let num_bits = src
        .len()
        .checked_mul(log_radix as usize)
        .expect("the number to be parsed is too large");
    let mut buffer = Buffer::allocate((num_bits - 1) / WORD_BITS_USIZE + 1);
    let mut bits = 0;
    let mut word = 0;
    /*@ proof { lemma_p2_init(s, radix, buffer@); } @*/
    for byte in src.as_bytes().iter().rev()
    /*@
        invariant
            __n0 == s.len(), __i0 <= __n0, s == src.b(), radix_p2(radix),
            log_radix as int == radix::log_radix(radix), num_bits as int == s.len() * log_radix,
            buffer.capacity() as int >= (num_bits - 1) / (WORD_BITS as int) + 1,
            bits < WORD_BITS,
            p2_inv(s.subrange(__n0 - __i0, __n0 as int), radix, buffer@, word, bits as int),
        decreases __n0 - __i0
    @*/
    {
        /*@ let ghost j = __n0 - __i0; @*/
        if *byte == b'_' {
            /*@ proof { lemma_p2_skip(s, j, radix, buffer@, word, bits as int); } @*/
            continue;
        }
        /*@ proof { if !is_dig(*byte, radix as int) { lemma_p2_bad(s, j, radix as int); } } @*/
        let digit = radix::digit_from_ascii_byte(*byte, radix).ok_or(ParseError::InvalidDigit)?;
        /*@ let ghost (b0, w0) = (buffer@, word);
            proof {
                if (bits as int) + (log_radix as int) < WORD_BITS as int {
                    lemma_p2_digit(s, j, radix, b0, w0, bits, digit);
                } else {
                    lemma_p2_digit_carry(s, j, radix, b0, w0, bits, digit);
                    lemma_p2_bits_bound(s.subrange(j, __n0 as int), radix, b0.push(w0 | ((digit as Word) << bits)),
                        (digit as Word) >> ((WORD_BITS - bits) as u32), bits + log_radix - WORD_BITS);
                    lemma_p2_room(num_bits as int, s.len() as int, __n0 - j, log_radix as int, b0.len() as int + 1,
                        bits + log_radix - WORD_BITS);
                }
            } @*/
        word |= (digit as Word) << bits;
        let new_bits = bits + log_radix;
        if new_bits >= WORD_BITS {
            buffer.push(word);
            word = (digit as Word) >> (WORD_BITS - bits);
            bits = new_bits - WORD_BITS;
        } else {
            bits = new_bits;
        }
    }
    /*@ proof {
        lemma_p2_fin_large(s, radix, buffer@, word, bits as int);
        assert(s.subrange(0, s.len() as int) =~= s);
        lemma_p2_bits_bound(s, radix, buffer@, word, bits as int);
        if bits > 0 {
            lemma_p2_room(num_bits as int, s.len() as int, s.len() as int, log_radix as int, buffer@.len() as int, bits as int);
        }
    } @*/
    if bits > 0 {
        buffer.push(word);
    }
    Ok(UBig(Repr::from_buffer(buffer)))
}
