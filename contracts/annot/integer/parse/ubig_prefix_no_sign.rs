//@ item: integer/src/parse/mod.rs :: impl UBig :: from_str_with_radix_prefix_no_sign
fn from_str_with_radix_prefix_no_sign(
    src: &str,
    default_radix: Digit,
) -> Result<(UBig, Digit), ParseError>
/*@
    requires 2 <= default_radix <= 36,            // NOT checked by the code (see the unit header: undocumented panic otherwise)
        src.b().len() <= max_capacity(),          // resource: see from_str_radix_no_sign
    ensures
        ures2_is(ret, prefix_radix(src.b(), default_radix as int),
            body_result(drop_prefix(src.b()), prefix_radix(src.b(), default_radix as int))),
@*/
{
        /*@ proof { lemma_prefix_lits(); lemma_prefixes_differ(src.b()); } @*/
        if let Some(bin) = src.strip_prefix("0b") {
            UBig::from_str_radix_no_sign(bin, 2).map(|v| /*@ -> (r: (UBig, Digit)) ensures r == (v, 2u32) @*/ (v, 2))
        } else if let Some(oct) = src.strip_prefix("0o") {
            UBig::from_str_radix_no_sign(oct, 8).map(|v| /*@ -> (r: (UBig, Digit)) ensures r == (v, 8u32) @*/ (v, 8))
        } else if let Some(hex) = src.strip_prefix("0x") {
            UBig::from_str_radix_no_sign(hex, 16).map(|v| /*@ -> (r: (UBig, Digit)) ensures r == (v, 16u32) @*/ (v, 16))
        } else {
            UBig::from_str_radix_no_sign(src, default_radix).map(|v| /*@ -> (r: (UBig, Digit)) ensures r == (v, default_radix) @*/ (v, default_radix))
        }
}
