//@ item: integer/src/parse/non_power_two.rs :: parse
pub fn parse(src: &str, radix: Digit) -> Result<UBig, ParseError>
/*@
    requires radix_ok(radix),
    ensures
        match ret {
            Ok(u) => text_ok(src.b(), radix as int) && u.0.v() == text_value(src.b(), radix as int),
            Err(e) => !text_ok(src.b(), radix as int) && e == ParseError::InvalidDigit,
        },
@*/
{
    /*@ proof { radix::ax_radix_info(radix); lemma_dpw_bits(radix); } @*/
    debug_assert!(radix::is_radix_valid(radix) && !radix.is_power_of_two());
    let radix_info = radix::radix_info(radix);
    let mut bytes = src.as_bytes();
    let stripped: vec::Vec<u8>;

    // strip all underscores if detected
    if bytes.contains(&b'_') {
        stripped = bytes.iter().copied().filter(|&c| c != b'_').collect();
        bytes = &stripped;
    }
    /*@ proof {
        lemma_strip_len(src.b());
        if no_us(src.b()) { lemma_strip_none(src.b()); }
        assert(bytes@ == strip_us(src.b()));
        lemma_text_ok_strip(src.b(), radix as int);
    } @*/

    if bytes.len() <= radix_info.digits_per_word {
        Ok(parse_word(bytes, radix)?.into())
    } else if bytes.len() <= CHUNK_LEN * radix_info.digits_per_word {
        parse_chunk(bytes, radix)
    } else {
        parse_large(bytes, radix)
    }
}
