//@ item: integer/src/parse/mod.rs :: impl UBig :: from_str_radix_no_sign
fn from_str_radix_no_sign(mut src: &str, radix: Digit) -> Result<UBig, ParseError>
/*@
    requires 2 <= radix <= 36,                   // debug-asserted below; every caller has checked the radix
        src.b().len() <= max_capacity(),         // resource: the words of the result fit one Buffer (power_two::parse_large)
    ensures ures_is(ret, body_result(src.b(), radix as int)),
@*/
{
        debug_assert!(radix::is_radix_valid(radix));
        /*@ let ghost s0 = src.b(); @*/
        if src.bytes().all(|b| b == b'_') {
            // empty, or nothing but digit separators
            return Err(ParseError::NoDigits);
        }

        while let Some(src2) = src.strip_prefix('0')
        /*@
            invariant 2 <= radix <= 36, !only_us(s0), src.b().len() <= s0.len(), s0.len() <= max_capacity(),
                text_ok(src.b(), radix as int) == text_ok(s0, radix as int),
                text_value(src.b(), radix as int) == text_value(s0, radix as int),
            decreases src.b().len()
        @*/
        {
            /*@ proof { lemma_strip_zero(src.b(), src2.b(), radix as int); } @*/
            src = src2;
        }

        /*@ proof {
            lemma_radix_class(radix);
            let (a, l) = (src.b().len() as int, log_radix(radix));
            assert(a * l <= WORD_BITS * max_capacity()) by (nonlinear_arith) requires 0 <= a <= max_capacity(), 1 <= l <= 5, WORD_BITS >= 32;
        } @*/
        if radix.is_power_of_two() {
            power_two::parse(src, radix)
        } else {
            non_power_two::parse(src, radix)
        }
}
