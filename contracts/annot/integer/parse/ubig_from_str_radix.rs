//@ item: integer/src/parse/mod.rs :: impl UBig :: from_str_radix
pub fn from_str_radix(src: &str, radix: u32) -> Result<UBig, ParseError>
/*@
    requires src.b().len() <= max_capacity(),         // resource: see from_str_radix_no_sign
    ensures
        !(2 <= radix <= 36) ==> ret is Err && ret->Err_0 == ParseError::UnsupportedRadix,
        // "`src` may contain an optional `+` prefix"
        2 <= radix <= 36 ==> ures_is(ret, body_result(drop_plus(src.b()), radix as int)),
@*/
{
        if !is_radix_valid(radix) {
            return Err(ParseError::UnsupportedRadix);
        }
        /*@ let ghost s0 = src.b(); @*/
        let src = src.strip_prefix('+').unwrap_or(src);
        /*@ proof { lemma_starts1(s0, PLUS()); assert(src.b() == drop_plus(s0)); } @*/
        UBig::from_str_radix_no_sign(src, radix)
}
