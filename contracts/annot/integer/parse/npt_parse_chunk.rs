//@ item: integer/src/parse/non_power_two.rs :: parse_chunk
fn parse_chunk(bytes: &[u8], radix: Digit) -> Result<UBig, ParseError>
/*@
    requires bytes@.len() <= usize::MAX, radix_ok(radix),
        bytes@.len() <= CHUNK_LEN * dpw(radix),     // "The length of input is limited to CHUNK_LEN * digits_per_word"
    ensures
        match ret {
            Ok(u) => all_digits(bytes@, radix as int) && u.0.v() == digits_value(bytes@, radix as int),
            Err(e) => !all_digits(bytes@, radix as int) && e == ParseError::InvalidDigit,
        },
@*/
{
    /*@ proof { radix::ax_radix_info(radix); lemma_dpw_bits(radix); } @*/
    debug_assert!(radix::is_radix_valid(radix) && !radix.is_power_of_two());
    let radix_info = radix::radix_info(radix);
    debug_assert!(bytes.len() <= CHUNK_LEN * radix_info.digits_per_word);

    let groups = bytes.rchunks(radix_info.digits_per_word);
    /*@ let ghost (len, n) = (bytes@.len() as int, dpw(radix));
        proof {
            if len > 0 { lemma_rc_nonempty(len, n); lemma_rc_tiling(len, n, 0); } else { lemma_rc_empty(n); }
            lemma_dv_empty(bytes@.subrange(0, 0), radix as int);
        } @*/
    let mut buffer = Buffer::allocate(groups.len());
    /*@ proof { lemma_val_empty(buffer@); } @*/
    for group in groups.rev()
    /*@
        invariant
            __n0 as int == rc_count(len, n), __i0 <= __n0, radix_ok(radix), len == bytes@.len(), n == dpw(radix), len <= usize::MAX,
            groups.v@ == bytes@, groups.n as int == n, radix_info == radix::spec_radix_info(radix),
            1 <= n < WORD_BITS, len <= CHUNK_LEN * n,
            buffer@.len() <= __i0, buffer.capacity() >= __n0, __n0 <= len,
            all_digits(bytes@.subrange(0, rc_end(len, n, __i0 as int)), radix as int),
            val(buffer@) == digits_value(bytes@.subrange(0, rc_end(len, n, __i0 as int)), radix as int),
        decreases __n0 - __i0
    @*/
    {
        /*@ let ghost k = __i0 as int - 1;
            let ghost (lo, hi) = (rc_end(len, n, k), rc_end(len, n, k + 1));
            let ghost b0 = buffer@;
            proof {
                radix::ax_radix_info(radix);
                lemma_rc_tiling(len, n, k);
                lemma_chunk_group(bytes@, lo, hi, radix as int);
            } @*/
        let next = parse_word(group, radix)?;
        let carry = mul::mul_word_in_place_with_carry(&mut buffer, radix_info.range_per_word, next);
        /*@ let ghost b1 = buffer@;
            proof {
                lemma_chunk_step(bytes@, lo, hi, radix, k, val(b0), val(b1), carry as int, next as int, b0.len() as int);
            } @*/
        if carry != 0 {
            /*@ proof { lemma_val_push(b1, carry); } @*/
            buffer.push(carry);
        }
    }
    /*@ proof {
        if len > 0 { lemma_rc_nonempty(len, n); lemma_rc_tiling(len, n, __n0 as int - 1); } else { lemma_rc_empty(n); }
        assert(bytes@.subrange(0, len) =~= bytes@);
    } @*/
    Ok(UBig(Repr::from_buffer(buffer)))
}
