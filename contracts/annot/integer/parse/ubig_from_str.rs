//@ item: integer/src/parse/mod.rs :: impl FromStr for UBig :: from_str
fn from_str(s: &str) -> Result<UBig, ParseError>
/*@ #[hoist(Self = UBig, Name = ubig_from_str)]
    requires s.b().len() <= max_capacity(),          // resource: see UBig::from_str_radix_no_sign
    ensures ures_is(ret, body_result(drop_plus(s.b()), 10)),
@*/
{
        UBig::from_str_radix(s, 10)
}
