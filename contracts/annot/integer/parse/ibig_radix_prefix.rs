//@ item: integer/src/parse/mod.rs :: impl IBig :: from_str_with_radix_prefix
pub fn from_str_with_radix_prefix(src: &str) -> Result<(IBig, Digit), ParseError>
/*@
    requires src.b().len() <= max_capacity(),          // resource: see UBig::from_str_radix_no_sign
    ensures
        ires2_is(ret, is_neg(src.b()), prefix_radix(drop_sign(src.b()), 10),
            body_result(drop_prefix(drop_sign(src.b())), prefix_radix(drop_sign(src.b()), 10))),
@*/
{
        IBig::from_str_with_radix_default(src, 10)
}
