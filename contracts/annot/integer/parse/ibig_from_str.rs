//@ item: integer/src/parse/mod.rs :: impl FromStr for IBig :: from_str
fn from_str(s: &str) -> Result<IBig, ParseError>
/*@ #[hoist(Self = IBig, Name = ibig_from_str)]
    requires s.b().len() <= max_capacity(),          // resource: see UBig::from_str_radix_no_sign
    ensures ires_is(ret, is_neg(s.b()), body_result(drop_sign(s.b()), 10)),
@*/
{
        IBig::from_str_radix(s, 10)
}
