//@ item: integer/src/parse/mod.rs :: impl UBig :: from_str_with_radix_prefix
pub fn from_str_with_radix_prefix(src: &str) -> Result<(UBig, Digit), ParseError>
/*@
    requires src.b().len() <= max_capacity(),          // resource: see from_str_radix_no_sign
    ensures
        // "equivalent to from_str_with_radix_default with 10 as the default radix"
        ures2_is(ret, prefix_radix(drop_plus(src.b()), 10),
            body_result(drop_prefix(drop_plus(src.b())), prefix_radix(drop_plus(src.b()), 10))),
@*/
{
        UBig::from_str_with_radix_default(src, 10)
}
