//@ item: integer/src/parse/mod.rs :: impl UBig :: from_str_with_radix_default
pub fn from_str_with_radix_default(
    src: &str,
    default_radix: Digit,
) -> Result<(UBig, Digit), ParseError>
/*@
    requires 2 <= default_radix <= 36,            // NOT checked by the code (see the unit header: undocumented panic otherwise)
        src.b().len() <= max_capacity(),          // resource: see from_str_radix_no_sign
    ensures
        // "`src` may contain an optional `+` before the radix prefix"
        ures2_is(ret, prefix_radix(drop_plus(src.b()), default_radix as int),
            body_result(drop_prefix(drop_plus(src.b())), prefix_radix(drop_plus(src.b()), default_radix as int))),
@*/
{
        /*@ let ghost s0 = src.b(); @*/
        let src = src.strip_prefix('+').unwrap_or(src);
        /*@ proof { lemma_starts1(s0, PLUS()); assert(src.b() == drop_plus(s0)); } @*/
        UBig::from_str_with_radix_prefix_no_sign(src, default_radix)
}
