//@ item: integer/src/parse/power_two.rs :: parse_word
fn parse_word(src: &str, radix: Digit) -> Result<Word, ParseError>
/*@
    requires radix_p2(radix),
        // "The length of the string must be at most digits_per_word(radix)": floor(WORD_BITS / log2(radix)) characters
        src.b().len() <= WORD_BITS as int / log_radix(radix),
    ensures
        match ret {
            Ok(w) => text_ok(src.b(), radix as int) && w as int == text_value(src.b(), radix as int),
            Err(e) => !text_ok(src.b(), radix as int) && e == ParseError::InvalidDigit,
        },
@*/
{
    /*@ proof { lemma_tz_radix(radix); } @*/
    debug_assert!(radix::is_radix_valid(radix) && radix.is_power_of_two());
    debug_assert!(src.len() <= (WORD_BITS / radix.trailing_zeros()) as usize);

    let log_radix = radix.trailing_zeros();
    let mut word = 0;
    let mut bits = 0;
    /*@ let ghost s = src.b();
        let ghost done = Seq::<Word>::empty();
        proof { lemma_p2_init(s, radix, done); } @*/
    for byte in src.as_bytes().iter().rev()
    /*@
        invariant
            __n0 == s.len(), __i0 <= __n0, s == src.b(), radix_p2(radix), done.len() == 0,
            s.len() <= WORD_BITS as int / radix::log_radix(radix), log_radix as int == radix::log_radix(radix),
            p2_inv(s.subrange(__n0 - __i0, __n0 as int), radix, done, word, bits as int),
        decreases __n0 - __i0
    @*/
    {
        /*@ let ghost j = __n0 - __i0; @*/
        if *byte == b'_' {
            /*@ proof { lemma_p2_skip(s, j, radix, done, word, bits as int); } @*/
            continue;
        }
        /*@ proof { if !is_dig(*byte, radix as int) { lemma_p2_bad(s, j, radix as int); } } @*/
        let digit = radix::digit_from_ascii_byte(*byte, radix).ok_or(ParseError::InvalidDigit)?;
        /*@ proof {
            lemma_p2_bits_bound(s.subrange(j + 1, __n0 as int), radix, done, word, bits as int);
            lemma_p2_word_room(radix, s.len() as int, __n0 - j - 1, done, bits as int);
            lemma_p2_digit(s, j, radix, done, word, bits, digit);
        } @*/
        word |= (digit as Word) << bits;
        bits += log_radix;
    }
    /*@ proof { lemma_p2_fin_word(s, radix, done, word, bits as int); } @*/
    Ok(word)
}
