//@ item: integer/src/parse/non_power_two.rs :: parse_large_divide_conquer
fn parse_large_divide_conquer(
    bytes: &[u8],
    radix: Digit,
    chunk_bytes: usize,
    radix_powers: &[UBig],
) -> Result<UBig, ParseError>
/*@ #[ref_operand(radix_power)]
    requires bytes@.len() <= usize::MAX, radix_powers@.len() <= usize::MAX, radix_ok(radix),
        chunk_bytes as int == CHUNK_LEN * dpw(radix),
        // "`radix_powers` contains radix^n for n = chunk digits << i"
        rp_ok(radix_powers@, radix as int, chunk_bytes as int),
        // debug-asserted below: the powers reach the length of the text; `chunk_bytes << len` is a usize
        radix_powers@.len() < usize::BITS,
        chunk_bytes * pow2(radix_powers@.len() as int) <= usize::MAX,
        bytes@.len() <= chunk_bytes * pow2(radix_powers@.len() as int),
    ensures
        match ret {
            Ok(u) => all_digits(bytes@, radix as int) && u.0.v() == digits_value(bytes@, radix as int),
            Err(e) => !all_digits(bytes@, radix as int) && e == ParseError::InvalidDigit,
        },
    decreases radix_powers@.len()
@*/
{
    /*@ let ghost rp0 = radix_powers@;
        let ghost k = rp0.len() as int;
        proof { lemma_usize_shl(chunk_bytes, radix_powers.len()); assert(pow2(0) == 1); } @*/
    debug_assert!(bytes.len() <= chunk_bytes << radix_powers.len());

    match radix_powers.split_last() {
        None => parse_chunk(bytes, radix),
        Some((radix_power, radix_powers)) => {
            /*@ proof {
                lemma_rp_prefix(rp0, radix as int, chunk_bytes as int);
                lemma_sh_pow2_pos(k - 1);
                assert(pow2(k) == 2 * pow2(k - 1));
                assert(chunk_bytes * pow2(k) == 2 * (chunk_bytes * pow2(k - 1))) by (nonlinear_arith)
                    requires pow2(k) == 2 * pow2(k - 1);
                assert(chunk_bytes * pow2(k - 1) >= 0) by (nonlinear_arith) requires chunk_bytes >= 0, pow2(k - 1) >= 1;
                lemma_usize_shl(chunk_bytes, radix_powers.len());
            } @*/
            let bytes_lo_len = chunk_bytes << radix_powers.len();
            if bytes.len() <= bytes_lo_len {
                parse_large_divide_conquer(bytes, radix, chunk_bytes, radix_powers)
            } else {
                let (bytes_hi, bytes_lo) = bytes.split_at(bytes.len() - bytes_lo_len);
                /*@ proof { lemma_all_digits_split(bytes@, bytes@.len() - bytes_lo_len, radix as int); } @*/
                let res_hi =
                    parse_large_divide_conquer(bytes_hi, radix, chunk_bytes, radix_powers)?;
                let res_lo =
                    parse_large_divide_conquer(bytes_lo, radix, chunk_bytes, radix_powers)?;
                /*@ proof {
                    lemma_dv_bound(bytes_hi@, radix as int);
                    lemma_dv_bound(bytes_lo@, radix as int);
                    lemma_ipow_pos(radix as int, bytes_lo_len as int);
                    let (vh, vl, p) = (res_hi.0.v(), res_lo.0.v(), radix_power.0.v());
                    lemma_dc_split(bytes@, radix, bytes_lo_len as int, vh, vl, p);
                    assert(vh * p >= 0) by (nonlinear_arith) requires vh >= 0, p >= 1;
                } @*/
                Ok(res_hi * radix_power + res_lo)
            }
        }
    }
}
