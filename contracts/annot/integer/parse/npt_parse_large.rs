//@ item: integer/src/parse/non_power_two.rs :: parse_large
fn parse_large(bytes: &[u8], radix: Digit) -> Result<UBig, ParseError>
/*@ #[ref_operand(prev)]
    requires radix_ok(radix),
        bytes@.len() <= isize::MAX,                 // language invariant of slices (size in bytes <= isize::MAX)
        bytes@.len() > CHUNK_LEN * dpw(radix),      // debug-asserted below; from the call site in `parse`
    ensures
        match ret {
            Ok(u) => all_digits(bytes@, radix as int) && u.0.v() == digits_value(bytes@, radix as int),
            Err(e) => !all_digits(bytes@, radix as int) && e == ParseError::InvalidDigit,
        },
@*/
{
    /*@ proof { radix::ax_radix_info(radix); lemma_dpw_bits(radix); } @*/
    debug_assert!(radix::is_radix_valid(radix) && !radix.is_power_of_two());
    let radix_info = radix::radix_info(radix);
    let chunk_bytes = CHUNK_LEN * radix_info.digits_per_word;
    debug_assert!(bytes.len() > chunk_bytes);

    // Calculate radix^(CHUNK_LEN<<i).
    /*@ proof { lemma_large_first_power(radix); } @*/
    let mut radix_powers = vec![UBig::from(radix_info.range_per_word).pow(CHUNK_LEN)];

    // while (chunk_bytes << radix_powers.len()) < bytes.len()
    // To avoid overflow:
    /*@ proof { assert(pow2(0) == 1); } @*/
    while chunk_bytes <= (bytes.len() - 1) >> radix_powers.len()
    /*@
        invariant
            radix_ok(radix), chunk_bytes as int == CHUNK_LEN * dpw(radix), 1 <= dpw(radix) < WORD_BITS,
            chunk_bytes < bytes@.len() <= isize::MAX,
            1 <= radix_powers@.len() < usize::BITS,
            rp_ok(radix_powers@, radix as int, chunk_bytes as int),
            // the previous test succeeded: chunk_bytes << (len - 1) <= bytes.len() - 1
            chunk_bytes * pow2(radix_powers@.len() - 1) <= bytes@.len() - 1,
        decreases usize::BITS - radix_powers@.len()
    @*/
    {
        /*@ proof { lemma_large_loop(chunk_bytes, (bytes.len() - 1) as usize, radix_powers.len()); } @*/
        let prev = radix_powers.last().unwrap();
        /*@ proof {
            lemma_ipow_pos(radix as int, chunk_bytes * pow2(radix_powers@.len() - 1));
        } @*/
        let new = prev * prev;
        /*@ proof { lemma_rp_push(radix_powers@, radix as int, chunk_bytes as int, new); } @*/
        radix_powers.push(new);
    }
    /*@ proof { lemma_large_exit(chunk_bytes, (bytes.len() - 1) as usize, radix_powers.len()); } @*/

    parse_large_divide_conquer(bytes, radix, chunk_bytes, &radix_powers)
}
