//@ item: integer/src/pow.rs :: impl IBig :: pow
pub fn pow(&self, exp: usize) -> IBig
/*@ #[hoist(Self = IBig, Name = ibig_pow)]
    requires pow_fits(iabs(self.0.v()), exp as int),   // resource: see UBig::pow
    ensures ret.0.v() == ipow(self.0.v(), exp as int),
@*/
{
        let (sign, mag) = self.as_sign_repr();
        let sign = if sign == Negative && exp % 2 == 1 {
            Negative
        } else {
            Positive
        };

        // remove factor 2 before actual powering
        let shift = mag.trailing_zeros().unwrap_or(0);
        /*@ proof {
            let v = iabs(self.0.v());
            let n = choose|n: int| n >= 2 && #[trigger] pw(n) > v && 2 * (n * exp) <= max_capacity();
            lemma_ipow_neg(v, exp as int);
            lemma_ipow_nonneg(v, exp as int);
            if shift != 0 {
                lemma_pow_shift(v, shift as int, exp as int, n);
                let m = v / pow2(shift as int);
                assert forall|x: TypedReprRef| #[trigger] x.wf() && x.v() == m implies 2 * (x.nwords() * exp) <= max_capacity() by {
                    lemma_nwords_le(x, n);
                    lemma_mul_mono(exp as int, x.nwords(), n);
                    assert(x.nwords() * exp == exp * x.nwords() && n * exp == exp * n) by (nonlinear_arith);
                }
            } else {
                lemma_nwords_le(mag, n);
                lemma_mul_mono(exp as int, mag.nwords(), n);
                assert(mag.nwords() * exp == exp * mag.nwords() && n * exp == exp * n) by (nonlinear_arith);
            }
        } @*/
        let result = if shift != 0 {
            let total_shift = match exp.checked_mul(shift) {
                Some(n) => n,
                None => panic_allocate_too_much(),
            };
            mag.shr(shift)
                .as_typed()
                .pow(exp)
                .into_typed()
                .shl(total_shift)
        } else {
            mag.pow(exp)
        };
        IBig(result.with_sign(sign))
}
