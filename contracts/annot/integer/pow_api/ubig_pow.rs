//@ item: integer/src/pow.rs :: impl UBig :: pow
pub fn pow(&self, exp: usize) -> UBig
/*@ #[hoist(Self = UBig, Name = ubig_pow)]
    requires self.0.v() >= 0,                          // invariant of UBig
        pow_fits(self.0.v(), exp as int),              // resource: the result has up to nwords * exp words.  WITHOUT it
                                                       // result does not fit into memory (then `exp.checked_mul(shift)` may fail: allocation panic)
    ensures ret.0.v() == ipow(self.0.v(), exp as int),
@*/
{
        // remove factor 2 before actual powering
        let shift = self.trailing_zeros().unwrap_or(0);
        /*@ proof {
            let v = self.0.v();
            let n = choose|n: int| n >= 2 && #[trigger] pw(n) > v && 2 * (n * exp) <= max_capacity();
            if shift != 0 {
                lemma_pow_shift(v, shift as int, exp as int, n);
                let m = v / pow2(shift as int);
                assert forall|x: TypedReprRef| #[trigger] x.wf() && x.v() == m implies 2 * (x.nwords() * exp) <= max_capacity() by {
                    lemma_nwords_le(x, n);
                    lemma_mul_mono(exp as int, x.nwords(), n);
                    assert(x.nwords() * exp == exp * x.nwords() && n * exp == exp * n) by (nonlinear_arith);
                }
            } else {
                assert forall|x: TypedReprRef| #[trigger] x.wf() && x.v() == v implies 2 * (x.nwords() * exp) <= max_capacity() by {
                    lemma_nwords_le(x, n);
                    lemma_mul_mono(exp as int, x.nwords(), n);
                    assert(x.nwords() * exp == exp * x.nwords() && n * exp == exp * n) by (nonlinear_arith);
                }
            }
        } @*/
        let result = if shift != 0 {
            let total_shift = match exp.checked_mul(shift) {
                Some(n) => n,
                None => panic_allocate_too_much(),
            };
            self.repr()
                .shr(shift)
                .as_typed()
                .pow(exp)
                .into_typed()
                .shl(total_shift)
        } else {
            self.repr().pow(exp)
        };
        UBig(result)
}
