//@ item: integer/src/ubig.rs :: impl Clone for UBig :: clone_from
fn clone_from(&mut self, source: &UBig)
/*@
    ensures
        // C15: whatever the destination held, it is left with the value of the source (as `source.clone()`)
        final(self).v() == source.v(),
@*/
{
        self.0.clone_from(&source.0)
    }
