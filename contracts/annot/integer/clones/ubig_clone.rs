//@ item: integer/src/ubig.rs :: impl Clone for UBig :: clone
fn clone(&self) -> UBig
/*@
    ensures
        // C05 / C15: a clone has the value of its source
        ret.v() == self.v(),
@*/
{
        UBig(self.0.clone())
    }
