//@ item: integer/src/ibig.rs :: impl Clone for IBig :: clone
fn clone(&self) -> IBig
/*@
    ensures
        // C05 / C15: a clone has the value of its source
        ret.v() == self.v(),
@*/
{
        IBig(self.0.clone())
    }
