//@ item: integer/src/ibig.rs :: impl Clone for IBig :: clone_from
fn clone_from(&mut self, source: &IBig)
/*@
    ensures
        // C15: whatever the destination held, it is left with the value of the source (as `source.clone()`)
        final(self).v() == source.v(),
@*/
{
        self.0.clone_from(&source.0)
    }
