//@ item: integer/src/sqr/mod.rs :: sqr
// TRUSTED CONTRACT (only ever used through `//@@ SIG`): "b = a * a, b must be filled with zeros" (its doc comment); the
// implementations behind it (sqr::simple::square, mul::add_signed_mul_same_len with Karatsuba / Toom-3) are bounded-
// checked only.
pub fn sqr(b: &mut [Word], a: &[Word], memory: &mut Memory)
/*@
    requires a@.len() >= 2, old(b)@.len() == a@.len() * 2,    // the function's own debug assertions
        forall|i: int| 0 <= i < old(b)@.len() ==> old(b)@[i] == 0,
    ensures final(b)@.len() == old(b)@.len(),
        val(final(b)@) == val(a@) * val(a@),
@*/
{
    debug_assert!(a.len() >= 2, "use native multiplication when a is small");
    debug_assert!(b.len() == a.len() * 2);
    debug_assert!(b.iter().all(|&v| v == 0));

    if a.len() <= MAX_LEN_SIMPLE {
        simple::square(b, a);
    } else {
        debug_assert_zero!(mul::add_signed_mul_same_len(b, Sign::Positive, a, a, memory));
    }
}
