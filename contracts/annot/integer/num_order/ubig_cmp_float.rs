//@ item: integer/src/third_party/num_order.rs :: macro impl_num_ord_ubig_with_float#0 :: impl NumOrd<$t> for UBig :: num_partial_cmp
fn num_partial_cmp(&self, other: &$t) -> Option<Ordering>
/*@ #[hoist(Self = UBig)] @*/
/*@[f32]
    ensures // C14: the ordering of the exact real values; NaN is incomparable
        ret == cmp_int_float(self.v(), f32_nan(*other), f32_inf(*other), f32_neg(*other), f32_man(*other), f32_exp(*other)),
@*/
/*@[f64]
    ensures // C14: the ordering of the exact real values; NaN is incomparable
        ret == cmp_int_float(self.v(), f64_nan(*other), f64_inf(*other), f64_neg(*other), f64_man(*other), f64_exp(*other)),
@*/
{
                /*@[f32]
                let ghost x = self.v(); let ghost m = f32_man(*other); let ghost e = f32_exp(*other);
                let ghost digits = 24int; let ghost maxe = 128int;
                proof { ax_f32_model(*other); }
                @*/
                /*@[f64]
                let ghost x = self.v(); let ghost m = f64_man(*other); let ghost e = f64_exp(*other);
                let ghost digits = 53int; let ghost maxe = 1024int;
                proof { ax_f64_model(*other); }
                @*/
                /*@ let ghost ae: nat = (if e >= 0 { e } else { -e }) as nat; @*/
                /*@ proof { ax_blen(x); ax_blen(rabs(m)); lemma_no_neg(x, if m <= 0 { m } else { 0 }, ae); vstd::arithmetic::power2::lemma2_to64(); } @*/
                // step0: compare with nan and 0
                if other.is_nan() {
                    return None;
                } else if *other == 0. {
                    /*@[f32] proof { ax_f32_eq_zero(*other, true); } @*/
                    /*@[f64] proof { ax_f64_eq_zero(*other, true); } @*/
                    /*@ proof { assert(0 * pow2(ae) == 0); } @*/
                    return match self.is_zero() {
                        true => Some(Ordering::Equal),
                        false => Some(Ordering::Greater)
                    };
                }
                /*@[f32] proof { ax_f32_eq_zero(*other, false); } @*/
                /*@[f64] proof { ax_f64_eq_zero(*other, false); } @*/

                // step1: compare sign
                if other.sign() == Sign::Negative {
                    return Some(Ordering::Greater);
                }

                // step2: compare with infinity
                if other.is_infinite() {
                    return Some(Ordering::Less);
                }

                // step3: test if the integer is bigger than the max float value
                let self_bits = self.bit_len();
                /*@ proof {
                    // |man| < 2^digits, exp <= maxe - digits: a finite float never reaches 2^maxe, i.e. an integer with more
                    // than maxe bits (>= 2^maxe) exceeds every finite float; one with exactly maxe bits need not
                    if self_bits as int > maxe { lemma_no_bigger(x, self_bits as int, m, digits, e); }
                } @*/
                if self_bits > (<$t>::MANTISSA_DIGITS as usize + <$t>::MAX_EXP as usize) {
                    return Some(Ordering::Greater);
                }

                // step4: decode the float and compare the bits
                let (man, exp) = other.decode().unwrap();
                /*@ proof { lemma_blen_le(rabs(m), digits as nat); } @*/
                let other_bits = man.bit_len() as isize + exp as isize;
                /*@ proof {
                    let km = blen(m);
                    if other_bits < 0 {
                        if x != 0 { lemma_no_bigger(x, 1, m, km, e); }
                        assert(0 * pow2(ae) == 0);
                    } else if self_bits as int > other_bits as int {
                        lemma_no_bigger(x, self_bits as int, m, km, e);
                    } else if (self_bits as int) < other_bits as int {
                        lemma_no_smaller(x, self_bits as int, m, km, e);
                    }
                } @*/
                if other_bits < 0 {
                    // |other| < 1/2: any non-zero integer is greater
                    return Some(if self.is_zero() {
                        Ordering::Less
                    } else {
                        Ordering::Greater
                    });
                } else if self_bits > other_bits as usize {
                    return Some(Ordering::Greater);
                } else if self_bits < other_bits as usize {
                    return Some(Ordering::Less);
                }

                // step5: do the final comparison
                if exp >= 0 {
                    let shifted = UBig::from(man.unsigned_abs()) << exp as usize;
                    self.partial_cmp(&shifted)
                } else {
                    (self << (-exp as usize)).partial_cmp(&UBig::from(man.unsigned_abs()))
                }
            }
