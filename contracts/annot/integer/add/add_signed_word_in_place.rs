//@ item: integer/src/add.rs :: add_signed_word_in_place
pub fn add_signed_word_in_place(words: &mut [Word], rhs: SignedWord) -> SignedWord
/*@
    requires old(words)@.len() <= usize::MAX,
    ensures final(words)@.len() == old(words)@.len(),
        val(final(words)@) + (ret as int) * pw(old(words)@.len() as int) == val(old(words)@) + rhs as int,
        old(words)@.len() >= 1 ==> -1 <= ret <= 1,
@*/
{
    if rhs == 0 || words.is_empty() {
        /*@ proof {
            assert(pw(0) == 1);
            let p = pw(old(words)@.len() as int);
            let r = rhs as int;
            assert(r * p == r) by (nonlinear_arith) requires r == 0 || p == 1;
        } @*/
        return rhs;
    }
    match rhs.to_sign_magnitude() {
        (Positive, u) => SignedWord::from(add_word_in_place(words, u)),
        (Negative, u) => -SignedWord::from(sub_word_in_place(words, u)),
    }
    /*@ proof {
        let p = pw(old(words)@.len() as int);
        assert((ret as int) * p == if ret == 1 { p } else if ret == -1 { -p } else { 0 }) by (nonlinear_arith)
            requires -1 <= ret <= 1;
    } @*/
}
