//@ item: integer/src/add.rs :: sub_same_len_in_place
pub fn sub_same_len_in_place(lhs: &mut [Word], rhs: &[Word]) -> bool
/*@
    requires old(lhs)@.len() == rhs@.len(), rhs@.len() <= usize::MAX,
    ensures final(lhs)@.len() == old(lhs)@.len(),
        val(final(lhs)@) - b2i(ret) * pw(rhs@.len() as int) == val(old(lhs)@) - val(rhs@),
@*/
{
    debug_assert!(lhs.len() == rhs.len());
    let mut borrow = false;
    for (a, b) in lhs.iter_mut().zip(rhs.iter())
    /*@
        invariant
            __n0 == lhs@.len(), lhs@.len() == old(lhs)@.len(), lhs@.len() == rhs@.len(), __i0 <= __n0,
            valn(lhs@, __i0 as int) - b2i(borrow) * pw(__i0 as int)
                == valn(old(lhs)@, __i0 as int) - valn(rhs@, __i0 as int),
            forall|j: int| __i0 <= j < __n0 ==> lhs@[j] == old(lhs)@[j],
        decreases __n0 - __i0
    @*/
    {
        /*@ let ghost c0 = borrow; @*/
        let (diff, borrow1) = arch::add::sub_with_borrow(*a, *b, borrow);
        *a = diff;
        borrow = borrow1;
        /*@ proof {
            let i = __i0 as int - 1;
            lemma_valn_ext(__w0, lhs@, i);
            lemma_borrow_step(__w0[i] as int, rhs@[i] as int, b2i(c0), diff as int, b2i(borrow1), pw(i));
        } @*/
    }
    borrow
}
