//@ item: integer/src/add.rs :: add_same_len_in_place
pub fn add_same_len_in_place(words: &mut [Word], rhs: &[Word]) -> bool
/*@
    requires old(words)@.len() == rhs@.len(), rhs@.len() <= usize::MAX,
    ensures final(words)@.len() == old(words)@.len(),
        val(final(words)@) + b2i(ret) * pw(rhs@.len() as int) == val(old(words)@) + val(rhs@),
@*/
{
    debug_assert!(words.len() == rhs.len());

    let mut carry = false;
    for (a, b) in words.iter_mut().zip(rhs.iter())
    /*@
        invariant
            __n0 == words@.len(), words@.len() == old(words)@.len(), words@.len() == rhs@.len(), __i0 <= __n0,
            valn(words@, __i0 as int) + b2i(carry) * pw(__i0 as int)
                == valn(old(words)@, __i0 as int) + valn(rhs@, __i0 as int),
            forall|j: int| __i0 <= j < __n0 ==> words@[j] == old(words)@[j],
        decreases __n0 - __i0
    @*/
    {
        /*@ let ghost c0 = carry; @*/
        let (sum, c) = arch::add::add_with_carry(*a, *b, carry);
        *a = sum;
        carry = c;
        /*@ proof {
            let i = __i0 as int - 1;
            lemma_valn_ext(__w0, words@, i);
            lemma_carry_step(__w0[i] as int, rhs@[i] as int, b2i(c0), sum as int, b2i(c), pw(i));
        } @*/
    }
    carry
}
