//@ item: integer/src/add.rs :: add_signed_in_place
pub fn add_signed_in_place(words: &mut [Word], sign: Sign, rhs: &[Word]) -> SignedWord
/*@
    requires rhs@.len() <= old(words)@.len() <= usize::MAX,
    ensures final(words)@.len() == old(words)@.len(), -1 <= ret <= 1,
        val(final(words)@) + (ret as int) * pw(old(words)@.len() as int) == val(old(words)@) + sgn(sign) * val(rhs@),
@*/
{
    debug_assert!(words.len() >= rhs.len());
    match sign {
        Positive => SignedWord::from(add_in_place(words, rhs)),
        Negative => -SignedWord::from(sub_in_place(words, rhs)),
    }
    /*@ proof {
        let p = pw(old(words)@.len() as int);
        assert((ret as int) * p == if ret == 1 { p } else if ret == -1 { -p } else { 0 }) by (nonlinear_arith)
            requires -1 <= ret <= 1;
    } @*/
}
