//@ item: integer/src/add.rs :: add_one_in_place
pub fn add_one_in_place(words: &mut [Word]) -> bool
/*@
    requires old(words)@.len() <= usize::MAX,
    ensures final(words)@.len() == old(words)@.len(),
        val(final(words)@) + b2i(ret) * pw(old(words)@.len() as int) == val(old(words)@) + 1,
@*/
{
    for word in words
    /*@
        invariant
            __n0 == words@.len(), words@.len() == old(words)@.len(), __i0 <= __n0,
            forall|j: int| 0 <= j < __i0 ==> words@[j] == 0 && old(words)@[j] == Word::MAX,
            forall|j: int| __i0 <= j < __n0 ==> words@[j] == old(words)@[j],
        decreases __n0 - __i0
    @*/
    {
        let (a, overflow) = word.overflowing_add(1);
        *word = a;
        if !overflow {
            /*@ proof { lemma_add_one_done(old(words)@, words@, __i0 as int - 1); } @*/
            return false;
        }
    }
    /*@ proof { lemma_add_one_all(old(words)@, words@, __n0 as int); } @*/
    true
}
