//@ item: integer/src/add.rs :: sub_dword_in_place
pub fn sub_dword_in_place(words: &mut [Word], rhs: DoubleWord) -> bool
/*@
    requires 2 <= old(words)@.len() <= usize::MAX,
    ensures final(words)@.len() == old(words)@.len(),
        val(final(words)@) - b2i(ret) * pw(old(words)@.len() as int) == val(old(words)@) - rhs as int,
@*/
{
    /*@ proof { lemma_val_split(old(words)@, 2); lemma_val2(old(words)@.subrange(0, 2)); } @*/
    let (word_0, words_hi) = words.split_first_mut().unwrap();
    let (word_1, words_hi) = words_hi.split_first_mut().unwrap();
    let (b0, b1) = split_dword(rhs);
    let (s0, borrow) = word_0.overflowing_sub(b0);
    *word_0 = s0;
    let (s1, borrow) = sub_with_borrow(*word_1, b1, borrow);
    *word_1 = s1;
    /*@ let ghost hi0 = words_hi@; @*/
    borrow && sub_one_in_place(words_hi)
    /*@ proof {
        lemma_val_split(words@, 2); lemma_val2(words@.subrange(0, 2));
        assert(words@.subrange(2, words@.len() as int) =~= words_hi@);
        assert(old(words)@.subrange(2, words@.len() as int) =~= hi0);
        lemma_pw_add(2, words@.len() as int - 2);
        assert(pw(2) == B() * B()) by { assert(pw(2) == B() * pw(1)); assert(pw(1) == B() * pw(0)); assert(pw(0) == 1); }
        lemma_lo_hi_sub(words@[0] as int + (words@[1] as int) * B(), old(words)@[0] as int + (old(words)@[1] as int) * B(), rhs as int, b2i(borrow), val(words_hi@), val(hi0), b2i(ret), B() * B(), pw(words@.len() as int - 2));
    } @*/
}
