//@ item: integer/src/add.rs :: sub_one_in_place
pub fn sub_one_in_place(words: &mut [Word]) -> bool
/*@
    requires old(words)@.len() <= usize::MAX,
    ensures final(words)@.len() == old(words)@.len(),
        val(final(words)@) - b2i(ret) * pw(old(words)@.len() as int) == val(old(words)@) - 1,
@*/
{
    for word in words
    /*@
        invariant
            __n0 == words@.len(), words@.len() == old(words)@.len(), __i0 <= __n0,
            forall|j: int| 0 <= j < __i0 ==> words@[j] == Word::MAX && old(words)@[j] == 0,
            forall|j: int| __i0 <= j < __n0 ==> words@[j] == old(words)@[j],
        decreases __n0 - __i0
    @*/
    {
        let (a, borrow) = word.overflowing_sub(1);
        *word = a;
        if !borrow {
            /*@ proof { lemma_add_one_done(words@, old(words)@, __i0 as int - 1); } @*/
            return false;
        }
    }
    /*@ proof { lemma_add_one_all(words@, old(words)@, __n0 as int); } @*/
    true
}
