//@ item: integer/src/add.rs :: sub_in_place_with_sign
/*@ #[verifier::spinoff_prover] @*/
pub fn sub_in_place_with_sign(lhs: &mut [Word], rhs: &[Word]) -> Sign
/*@
    requires rhs@.len() <= old(lhs)@.len() <= usize::MAX,
    ensures final(lhs)@.len() == old(lhs)@.len(),
        sgn(ret) * val(final(lhs)@) == val(old(lhs)@) - val(rhs@),
        val(old(lhs)@) == val(rhs@) ==> ret == Sign::Positive,
@*/
{
    debug_assert!(lhs.len() >= rhs.len());
    let mut lhs_len = lhs.len();
    while lhs_len != 0 && lhs[lhs_len - 1] == 0
    /*@
        invariant lhs_len <= lhs@.len(), lhs@ == old(lhs)@,
            forall|j: int| lhs_len <= j < lhs@.len() ==> lhs@[j] == 0,
        decreases lhs_len
    @*/
    {
        lhs_len -= 1;
    }
    let mut rhs_len = rhs.len();
    while rhs_len != 0 && rhs[rhs_len - 1] == 0
    /*@
        invariant rhs_len <= rhs@.len(),
            forall|j: int| rhs_len <= j < rhs@.len() ==> rhs@[j] == 0,
        decreases rhs_len
    @*/
    {
        rhs_len -= 1;
    }
    /*@ proof {
        lemma_valn_zero(lhs@, lhs_len as int, lhs@.len() as int);
        lemma_valn_zero(rhs@, rhs_len as int, rhs@.len() as int);
    } @*/
    match lhs_len.cmp(&rhs_len) {
        Greater => {
            /*@ proof {
                lemma_swsg_greater_pre(lhs@, rhs@, lhs_len as int, rhs_len as int);
            } @*/
            let overflow = sub_in_place(&mut lhs[..lhs_len], &rhs[..rhs_len]);
            /*@ proof {
                lemma_swsg_greater_post(old(lhs)@, lhs@, rhs@, lhs_len as int, rhs_len as int, b2i(overflow));
            } @*/
            debug_assert!(!overflow);
            Positive
        }
        Less => {
            /*@ proof {
                lemma_swsg_greater_pre(rhs@, lhs@, rhs_len as int, lhs_len as int);
            } @*/
            let borrow = sub_same_len_in_place_swap(&rhs[..lhs_len], &mut lhs[..lhs_len]);
            /*@ let ghost lhs1 = lhs@; @*/
            lhs[lhs_len..rhs_len].copy_from_slice(&rhs[lhs_len..rhs_len]);
            /*@ let ghost lhs2 = lhs@;
                proof {
                    assert(lhs2.subrange(lhs_len as int, rhs_len as int) =~= rhs@.subrange(lhs_len as int, rhs_len as int));
                    lemma_swsg_less_mid(rhs@, lhs_len as int, rhs_len as int);
                } @*/
            if borrow {
                let overflow = sub_one_in_place(&mut lhs[lhs_len..rhs_len]);
                /*@ proof {
                    lemma_valn_bound(lhs@.subrange(lhs_len as int, rhs_len as int), rhs_len as int - lhs_len as int);
                } @*/
                debug_assert!(!overflow);
            }
            /*@ proof {
                lemma_swsg_less_post(old(lhs)@, lhs1, lhs@, rhs@, lhs_len as int, rhs_len as int, b2i(borrow));
            } @*/
            Negative
        }
        Equal => {
            let mut n = lhs_len;
            while n != 0
            /*@
                invariant n <= lhs_len, lhs_len == rhs_len, lhs_len <= rhs@.len(), rhs@.len() <= lhs@.len(),
                    lhs@.len() == old(lhs)@.len(),
                    forall|j: int| 0 <= j < n ==> lhs@[j] == old(lhs)@[j],
                    forall|j: int| n <= j < lhs_len ==> lhs@[j] == 0,
                    forall|j: int| n <= j < lhs_len ==> old(lhs)@[j] == rhs@[j],
                    forall|j: int| lhs_len <= j < lhs@.len() ==> lhs@[j] == 0,
                    forall|j: int| lhs_len <= j < lhs@.len() ==> old(lhs)@[j] == 0,
                    forall|j: int| rhs_len <= j < rhs@.len() ==> rhs@[j] == 0,
                    val(old(lhs)@) == valn(old(lhs)@, lhs_len as int), val(rhs@) == valn(rhs@, rhs_len as int),
                decreases n
            @*/
            {
                match lhs[n - 1].cmp(&rhs[n - 1]) {
                    Greater => {
                        /*@ let ghost lhs1 = lhs@; @*/
                        let overflow = sub_same_len_in_place(&mut lhs[..n], &rhs[..n]);
                        /*@ proof {
                            lemma_swsg_equal_post(old(lhs)@, lhs1, lhs@, rhs@, n as int, lhs_len as int, b2i(overflow));
                        } @*/
                        debug_assert!(!overflow);
                        return Positive;
                    }
                    Less => {
                        /*@ let ghost lhs1 = lhs@; @*/
                        let overflow = sub_same_len_in_place_swap(&rhs[..n], &mut lhs[..n]);
                        /*@ proof {
                            lemma_swsg_equal_post_swap(old(lhs)@, lhs1, lhs@, rhs@, n as int, lhs_len as int, b2i(overflow));
                        } @*/
                        debug_assert!(!overflow);
                        return Negative;
                    }
                    Equal => {
                        n -= 1;
                        lhs[n] = 0;
                    }
                }
            }
            // Zero.
            /*@ proof {
                lemma_swsg_equal_zero(old(lhs)@, lhs@, rhs@, lhs_len as int);
            } @*/
            Positive
        }
    }
}
