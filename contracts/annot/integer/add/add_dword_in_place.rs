//@ item: integer/src/add.rs :: add_dword_in_place
pub fn add_dword_in_place(words: &mut [Word], rhs: DoubleWord) -> bool
/*@
    requires 2 <= old(words)@.len() <= usize::MAX,
    ensures final(words)@.len() == old(words)@.len(),
        val(final(words)@) + b2i(ret) * pw(old(words)@.len() as int) == val(old(words)@) + rhs as int,
@*/
{
    /*@ proof { lemma_val_split(old(words)@, 2); lemma_val2(old(words)@.subrange(0, 2)); } @*/
    let (word_0, words_hi) = words.split_first_mut().unwrap();
    let (word_1, words_hi) = words_hi.split_first_mut().unwrap();
    let (b0, b1) = split_dword(rhs);
    let (s0, carry) = word_0.overflowing_add(b0);
    *word_0 = s0;
    let (s1, carry) = add_with_carry(*word_1, b1, carry);
    *word_1 = s1;
    /*@ let ghost hi0 = words_hi@; @*/
    carry && add_one_in_place(words_hi)
    /*@ proof {
        lemma_val_split(words@, 2); lemma_val2(words@.subrange(0, 2));
        assert(words@.subrange(2, words@.len() as int) =~= words_hi@);
        assert(old(words)@.subrange(2, words@.len() as int) =~= hi0);
        lemma_pw_add(2, words@.len() as int - 2);
        assert(pw(2) == B() * B()) by { assert(pw(2) == B() * pw(1)); assert(pw(1) == B() * pw(0)); assert(pw(0) == 1); }
        lemma_lo_hi(words@[0] as int + (words@[1] as int) * B(), old(words)@[0] as int + (old(words)@[1] as int) * B(), rhs as int, b2i(carry), val(words_hi@), val(hi0), b2i(ret), B() * B(), pw(words@.len() as int - 2));
    } @*/
}
