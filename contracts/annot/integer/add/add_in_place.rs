//@ item: integer/src/add.rs :: add_in_place
pub fn add_in_place(lhs: &mut [Word], rhs: &[Word]) -> bool
/*@
    requires rhs@.len() <= old(lhs)@.len() <= usize::MAX,
    ensures final(lhs)@.len() == old(lhs)@.len(),
        val(final(lhs)@) + b2i(ret) * pw(old(lhs)@.len() as int) == val(old(lhs)@) + val(rhs@),
@*/
{
    /*@ proof { lemma_val_split(old(lhs)@, rhs@.len() as int); } @*/
    let (lhs_lo, lhs_hi) = lhs.split_at_mut(rhs.len());
    /*@ let ghost hi0 = lhs_hi@; let ghost lo0 = lhs_lo@; @*/
    let carry = add_same_len_in_place(lhs_lo, rhs);
    carry && add_one_in_place(lhs_hi)
    /*@ proof {
        let k = rhs@.len() as int;
        lemma_val_split(lhs@, k);
        assert(lhs@.subrange(0, k) =~= lhs_lo@);
        assert(lhs@.subrange(k, lhs@.len() as int) =~= lhs_hi@);
        assert(old(lhs)@.subrange(0, k) =~= lo0);
        assert(old(lhs)@.subrange(k, lhs@.len() as int) =~= hi0);
        lemma_pw_add(k, lhs@.len() as int - k);
        lemma_lo_hi(val(lhs_lo@), val(lo0), val(rhs@), b2i(carry), val(lhs_hi@), val(hi0), b2i(ret), pw(k), pw(lhs@.len() as int - k));
    } @*/
}
