//@ item: integer/src/add.rs :: sub_same_len_in_place_swap
pub fn sub_same_len_in_place_swap(lhs: &[Word], rhs: &mut [Word]) -> bool
/*@
    requires old(rhs)@.len() == lhs@.len(), lhs@.len() <= usize::MAX,
    ensures final(rhs)@.len() == old(rhs)@.len(),
        val(final(rhs)@) - b2i(ret) * pw(lhs@.len() as int) == val(lhs@) - val(old(rhs)@),
@*/
{
    debug_assert!(lhs.len() == rhs.len());
    let mut borrow = false;
    for (a, b) in lhs.iter().zip(rhs.iter_mut())
    /*@
        invariant
            __n0 == rhs@.len(), rhs@.len() == old(rhs)@.len(), lhs@.len() == rhs@.len(), __i0 <= __n0,
            valn(rhs@, __i0 as int) - b2i(borrow) * pw(__i0 as int)
                == valn(lhs@, __i0 as int) - valn(old(rhs)@, __i0 as int),
            forall|j: int| __i0 <= j < __n0 ==> rhs@[j] == old(rhs)@[j],
        decreases __n0 - __i0
    @*/
    {
        /*@ let ghost c0 = borrow; @*/
        let (diff, borrow1) = arch::add::sub_with_borrow(*a, *b, borrow);
        *b = diff;
        borrow = borrow1;
        /*@ proof {
            let i = __i0 as int - 1;
            lemma_valn_ext(__w0, rhs@, i);
            lemma_borrow_step(lhs@[i] as int, __w0[i] as int, b2i(c0), diff as int, b2i(borrow1), pw(i));
        } @*/
    }
    borrow
}
