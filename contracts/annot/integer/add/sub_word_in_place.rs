//@ item: integer/src/add.rs :: sub_word_in_place
pub fn sub_word_in_place(words: &mut [Word], rhs: Word) -> bool
/*@
    requires 1 <= old(words)@.len() <= usize::MAX,
    ensures final(words)@.len() == old(words)@.len(),
        val(final(words)@) - b2i(ret) * pw(old(words)@.len() as int) == val(old(words)@) - rhs as int,
@*/
{
    /*@ proof { lemma_val_split(old(words)@, 1); lemma_val1(old(words)@.subrange(0, 1)); } @*/
    let (word_0, words_hi) = words.split_first_mut().unwrap();
    let (a, borrow) = word_0.overflowing_sub(rhs);
    *word_0 = a;
    /*@ let ghost hi0 = words_hi@; @*/
    borrow && sub_one_in_place(words_hi)
    /*@ proof {
        lemma_val_split(words@, 1); lemma_val1(words@.subrange(0, 1));
        assert(words@.subrange(1, words@.len() as int) =~= words_hi@);
        assert(old(words)@.subrange(1, words@.len() as int) =~= hi0);
        lemma_pw_add(1, words@.len() as int - 1);
        assert(pw(1) == B()) by { assert(pw(1) == B() * pw(0)); assert(pw(0) == 1); }
        lemma_lo_hi_sub(words@[0] as int, old(words)@[0] as int, rhs as int, b2i(borrow), val(words_hi@), val(hi0), b2i(ret), B(), pw(words@.len() as int - 1));
    } @*/
}
