//@ item: integer/src/div/mod.rs :: div_rem_unshifted_in_place
pub(crate) fn div_rem_unshifted_in_place(
    lhs: &mut [Word],
    rhs: &[Word],
    shift: u32,
    fast_div_rhs_top: FastDivideNormalized2,
    memory: &mut Memory,
) -> Word
/*@
    requires
        rhs@.len() <= old(lhs)@.len() <= usize::MAX, div_prepared(rhs@, fast_div_rhs_top),
        // `2 * n` is computed in usize by the divide-and-conquer branch: true of every real slice of words
        2 * rhs@.len() <= usize::MAX, shift < WORD_BITS,
    ensures
        final(lhs)@.len() == old(lhs)@.len(),
        // (a << shift) == q*b + r with q = [quotient words in lhs[n..], ret], r = lhs[..n] < b
        val(old(lhs)@) * pow2(shift as int)
            == (val(final(lhs)@.subrange(rhs@.len() as int, old(lhs)@.len() as int))
                + (ret as int) * pw(old(lhs)@.len() - rhs@.len())) * val(rhs@)
            + val(final(lhs)@.subrange(0, rhs@.len() as int)),
        val(final(lhs)@.subrange(0, rhs@.len() as int)) < val(rhs@),
@*/
{
    // prerequisite: let (shift, fast_div_rhs_top) = normalize(rhs);
    let lhs_carry = shift::shl_in_place(lhs, shift);
    /*@
    let ghost n = rhs@.len() as int;
    let ghost len = lhs@.len() as int;
    let ghost rr = val(rhs@);
    let ghost s1 = lhs@;
    let ghost t1 = s1.subrange(len - n, len);
    proof {
        lemma_ds_normalized_half(rhs@, fast_div_rhs_top.divisor());
        lemma_valn_bound(t1, n);
        lemma_sh_pow2_mono(shift as int, WORD_BITS as int - 1);
        lemma_sh_pow2_bits();
        assert(pow2(WORD_BITS as int) == 2 * pow2(WORD_BITS as int - 1));
        lemma_dg_carry_fits(lhs_carry as int, val(t1), pw(n), rr, pow2(shift as int));
        lemma_ds_split_top(s1, len - n);
    }
    @*/
    let mut q_top = if lhs_carry > 0 {
        div_rem_highest_word(lhs_carry, lhs, rhs, fast_div_rhs_top)
    } else {
        0
    };
    /*@
    let ghost s2 = lhs@;
    let ghost t2 = s2.subrange(len - n, len);
    let ghost q0 = q_top as int;
    proof {
        lemma_ds_split_top(s2, len - n);
        lemma_valn_ext(s1, s2, len - n);
        if lhs_carry == 0 { assert(s2 =~= s1); assert(q0 * rr == 0) by (nonlinear_arith) requires q0 == 0; }
        // (carry*B^n + T1) == q0*R + T2, and carry > 0 ==> T2 < R
        assert((lhs_carry as int) * pw(n) + val(t1) == q0 * rr + val(t2));
    }
    @*/
    let overflow = div_rem_in_place(lhs, rhs, fast_div_rhs_top, memory);
    /*@ proof {
        lemma_pw_add(len - n, n);
        lemma_dg_unshifted(val(old(lhs)@) * pow2(shift as int), lhs_carry as int, val(s1), valn(s1, len - n), val(t1),
            val(s2), val(t2), q0, rr, val(lhs@.subrange(n, len)), b2i(overflow), val(lhs@.subrange(0, n)),
            pw(len - n), pw(n), pw(len));
    } @*/
    q_top += overflow as Word;
    q_top
}
