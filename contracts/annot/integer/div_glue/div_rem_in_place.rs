//@ item: integer/src/div/mod.rs :: div_rem_in_place
pub(crate) fn div_rem_in_place(
    lhs: &mut [Word],
    rhs: &[Word],
    fast_div_rhs_top: FastDivideNormalized2,
    memory: &mut Memory,
) -> bool
/*@
    requires
        rhs@.len() <= old(lhs)@.len() <= usize::MAX, div_prepared(rhs@, fast_div_rhs_top),
        // `2 * n` is computed in usize by the divide-and-conquer branch: true of every real slice of words
        2 * rhs@.len() <= usize::MAX,
    ensures
        final(lhs)@.len() == old(lhs)@.len(),
        // a == q*b + r with q = [quotient words in lhs[n..], carry], r = lhs[..n] < b
        val(old(lhs)@) == (val(final(lhs)@.subrange(rhs@.len() as int, old(lhs)@.len() as int))
                + b2i(ret) * pw(old(lhs)@.len() - rhs@.len())) * val(rhs@)
            + val(final(lhs)@.subrange(0, rhs@.len() as int)),
        val(final(lhs)@.subrange(0, rhs@.len() as int)) < val(rhs@),
        ret == (val(old(lhs)@.subrange(old(lhs)@.len() - rhs@.len(), old(lhs)@.len() as int)) >= val(rhs@)),
@*/
{
    /*@ proof { reveal(div_post); } @*/
    debug_assert!(lhs.len() >= rhs.len() && rhs.len() >= 2);

    if rhs.len() <= THRESHOLD_SIMPLE || lhs.len() - rhs.len() <= THRESHOLD_SIMPLE {
        simple::div_rem_in_place(lhs, rhs, fast_div_rhs_top)
    } else {
        divide_conquer::div_rem_in_place(lhs, rhs, fast_div_rhs_top, memory)
    }
}
