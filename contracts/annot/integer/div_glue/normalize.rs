//@ item: integer/src/div/mod.rs :: normalize
pub(crate) fn normalize(words: &mut [Word]) -> (u32, FastDivideNormalized2)
/*@
    requires 2 <= old(words)@.len() <= usize::MAX, old(words)@[old(words)@.len() - 1] != 0,
    ensures final(words)@.len() == old(words)@.len(),
        ret.0 < WORD_BITS,
        val(final(words)@) == val(old(words)@) * pow2(ret.0 as int),
        div_prepared(final(words)@, ret.1),
@*/
{
    let shift = words.last().unwrap().leading_zeros();
    /*@
    let ghost n = words@.len() as int;
    let ghost top = words@[n - 1];
    proof {
        lemma_dw_normalize(top);
        lemma_ds_top1(words@);
    }
    @*/
    debug_assert_zero!(shift::shl_in_place(words, shift));
    /*@ proof {
        lemma_ds_top1(words@);
        lemma_sh_pow2_add(shift as int, (WORD_BITS - shift) as int);
        lemma_sh_pow2_bits();
        lemma_sh_pow2_pos((WORD_BITS - shift) as int);
        lemma_dg_normalize(val(old(words)@), valn(old(words)@, n - 1), top as int, pow2(shift as int),
            pow2((WORD_BITS - shift) as int), pw(n - 1), __zchk0 as int, val(words@), valn(words@, n - 1), words@[n - 1] as int);
    } @*/
    let top_words = highest_dword(words);
    /*@ proof {
        lemma_dg_top_dword(words@[n - 2] as int, words@[n - 1] as int);
    } @*/
    (shift, FastDivideNormalized2::new(top_words))
}
