//@ item: integer/src/mul_ops.rs :: macro impl_ibig_mul#0 :: @arm
/*@ requires mag0.wf(), mag1.wf(),
        mag0.nwords() + mag1.nwords() <= max_capacity(),      // resource: length of the product buffer
    ensures ret.0.v() == sv(sign0, mag0.v()) * sv(sign1, mag1.v()), @*/
        /*@ proof { mag0.lemma_nonneg(); mag1.lemma_nonneg(); lemma_sv_mul(sign0, sign1, mag0.v(), mag1.v()); } @*/
        IBig($mag0.mul($mag1).with_sign($sign0 * $sign1))
