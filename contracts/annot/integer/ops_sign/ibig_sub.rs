//@ item: integer/src/add_ops.rs :: macro impl_ibig_sub#0 :: @arm
/*@ requires mag0.wf(), mag1.wf(),
        mag0.nwords() < max_capacity(), mag1.nwords() < max_capacity(),   // resource: the sum may need one more word
    ensures ret.0.v() == sv(sign0, mag0.v()) - sv(sign1, mag1.v()), @*/
        /*@ proof { mag0.lemma_nonneg(); mag1.lemma_nonneg(); } @*/
        match ($sign0, $sign1) {
            (Positive, Positive) => IBig($mag0.sub_signed($mag1)),
            (Positive, Negative) => IBig($mag0.add($mag1)),
            (Negative, Positive) => IBig($mag0.add($mag1).with_sign(Negative)),
            (Negative, Negative) => IBig($mag1.sub_signed($mag0)),
        }
