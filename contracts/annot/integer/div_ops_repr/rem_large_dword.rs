//@ item: integer/src/div_ops.rs :: mod repr :: rem_large_dword
fn rem_large_dword(lhs: &[Word], rhs: DoubleWord) -> Repr
/*@[!must_panic]
    requires rhs != 0, 2 <= lhs@.len() <= usize::MAX,
    ensures is_remainder(val(lhs@), rhs as int, ret.v()),      // the r of a == q*b + r, 0 <= r < b
@*/
/*@[must_panic] requires rhs == 0, ensures false, @*/
{
    /*@[!must_panic] proof { lemma_valn_bound(lhs@, lhs@.len() as int); lemma_dor_divmod(val(lhs@), rhs as int); } @*/
    if rhs == 0 {
        panic_divide_by_0();
    }
    if let Some(word) = shrink_dword(rhs) {
        Repr::from_word(div::rem_by_word(lhs, word))
    } else {
        Repr::from_dword(div::rem_by_dword(lhs, rhs))
    }
}
