//@ item: integer/src/div_ops.rs :: mod repr :: rem_large
pub(crate) fn rem_large(mut lhs: Buffer, mut rhs: Buffer) -> Repr
/*@
    requires
        3 <= rhs@.len() <= lhs@.len(), rhs@[rhs@.len() - 1] != 0,       // both operands are `Large`
        lhs@.len() < max_capacity(),                                   // resource: room for the top quotient word
    ensures is_remainder(val(lhs@), val(rhs@), ret.v()),                // the r of a == q*b + r, 0 <= r < b
@*/
{
    /*@ let ghost a = val(lhs@); let ghost b = val(rhs@); @*/
    let shift = div_rem_in_lhs(&mut lhs, &mut rhs);
    let n = rhs.len();
    /*@ let ghost rs = val(lhs@.subrange(0, n as int)); let ghost l1 = lhs@; @*/
    rhs.copy_from_slice(&lhs[..n]);
    /*@ proof {
        assert(rhs@ =~= l1.subrange(0, n as int));
        lemma_sh_pow2_pos(shift as int);
        lemma_valn_bound(l1.subrange(0, n as int), n as int);
        lemma_dg_unshift_rem(a, b, val(l1.subrange(n as int, l1.len() as int)), rs, pow2(shift as int));
    } @*/
    debug_assert_zero!(shift::shr_in_place(&mut rhs, shift));
    /*@ proof {
        lemma_sh_pow2_pos((WORD_BITS - shift) as int);
        assert(__zchk0 == 0) by (nonlinear_arith)
            requires __zchk0 as int == (rs % pow2(shift as int)) * pow2((WORD_BITS - shift) as int), rs % pow2(shift as int) == 0;
    } @*/
    Repr::from_buffer(rhs)
}
