//@ item: integer/src/div_ops.rs :: mod repr :: div_rem_dword
fn div_rem_dword(lhs: DoubleWord, rhs: DoubleWord) -> (Repr, Repr)
/*@[!must_panic]
    requires rhs != 0,
    ensures is_div_rem(lhs as int, rhs as int, ret.0.v(), ret.1.v()),      // a == q*b + r, 0 <= r < b
@*/
/*@[must_panic] requires rhs == 0, ensures false, @*/
{
    /*@[!must_panic] proof { lemma_dor_divmod(lhs as int, rhs as int); } @*/
    // If division works, remainder also works.
    match lhs.checked_div(rhs) {
        Some(res) => (Repr::from_dword(res), Repr::from_dword(lhs % rhs)),
        None => panic_divide_by_0(),
    }
}
