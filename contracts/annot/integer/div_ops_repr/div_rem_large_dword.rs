//@ item: integer/src/div_ops.rs :: mod repr :: div_rem_large_dword
fn div_rem_large_dword(mut buffer: Buffer, rhs: DoubleWord) -> (Repr, Repr)
/*@[!must_panic]
    requires rhs != 0, buffer@.len() >= 2,
    ensures is_div_rem(val(buffer@), rhs as int, ret.0.v(), ret.1.v()),      // a == q*b + r, 0 <= r < b
@*/
/*@[must_panic] requires rhs == 0, ensures false, @*/
{
    /*@ let ghost a = val(buffer@); @*/
    if rhs == 0 {
        panic_divide_by_0();
    }
    if let Some(word) = shrink_dword(rhs) {
        let rem = div::div_by_word_in_place(&mut buffer, word);
        (Repr::from_buffer(buffer), Repr::from_word(rem))
    } else {
        let rem = div::div_by_dword_in_place(&mut buffer, rhs);
        (Repr::from_buffer(buffer), Repr::from_dword(rem))
    }
}
