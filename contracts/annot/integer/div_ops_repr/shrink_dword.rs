//@ item: integer/src/primitive.rs :: shrink_dword
pub const fn shrink_dword(dw: DoubleWord) -> Option<Word>
/*@
    ensures (ret is Some) == ((dw as int) < B()), ret is Some ==> ret.unwrap() as int == dw as int,
@*/
{
    let (lo, hi) = split_dword(dw);
    /*@ proof {
        assert(((lo as int) + (hi as int) * B() < B()) == (hi == 0)) by (nonlinear_arith)
            requires 0 <= lo as int, (lo as int) < B(), 0 <= hi as int;
    } @*/
    if hi == 0 {
        Some(lo)
    } else {
        None
    }
}
