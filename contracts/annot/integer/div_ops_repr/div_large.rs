//@ item: integer/src/div_ops.rs :: mod repr :: div_large
fn div_large(mut lhs: Buffer, mut rhs: Buffer) -> Repr
/*@
    requires
        3 <= rhs@.len() <= lhs@.len(), rhs@[rhs@.len() - 1] != 0,       // both operands are `Large`
        lhs@.len() < max_capacity(),                                   // resource: room for the top quotient word
    ensures is_quotient(val(lhs@), val(rhs@), ret.v()),                 // the q of a == q*b + r, 0 <= r < b
@*/
{
    /*@ let ghost a = val(lhs@); let ghost b = val(rhs@); @*/
    let _shift = div_rem_in_lhs(&mut lhs, &mut rhs);
    /*@ proof {
        let n = rhs@.len() as int;
        lemma_sh_pow2_pos(_shift as int);
        lemma_valn_bound(lhs@.subrange(0, n), n as int);
        lemma_dg_unshift_rem(a, b, val(lhs@.subrange(n, lhs@.len() as int)), val(lhs@.subrange(0, n)), pow2(_shift as int));
    } @*/
    lhs.erase_front(rhs.len());
    Repr::from_buffer(lhs)
}
