//@ item: integer/src/error.rs :: panic_divide_by_0
// Rule D4: the crate's diverging panic helper.  In the default ("total") variant its precondition is `false`: a
// verified caller proves the panic unreachable under its own precondition (divisor != 0).  In the `must_panic`
// variant it ensures `false` (it never returns), so a caller with contract `requires divisor == 0 ensures false`
// proves that no normal return is possible: division by zero panics.
pub(crate) const fn panic_divide_by_0() -> !
/*@[!must_panic] requires false, @*/
/*@[must_panic] ensures false, @*/
{
    panic!("divisor must not be 0")
}
