//@ item: integer/src/div_ops.rs :: mod repr :: rem_dword
fn rem_dword(lhs: DoubleWord, rhs: DoubleWord) -> Repr
/*@[!must_panic]
    requires rhs != 0,
    ensures is_remainder(lhs as int, rhs as int, ret.v()),      // the r of a == q*b + r, 0 <= r < b
@*/
/*@[must_panic] requires rhs == 0, ensures false, @*/
{
    /*@[!must_panic] proof { lemma_dor_divmod(lhs as int, rhs as int); } @*/
    match lhs.checked_rem(rhs) {
        Some(res) => Repr::from_dword(res),
        None => panic_divide_by_0(),
    }
}
