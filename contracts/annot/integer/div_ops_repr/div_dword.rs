//@ item: integer/src/div_ops.rs :: mod repr :: div_dword
fn div_dword(lhs: DoubleWord, rhs: DoubleWord) -> Repr
/*@[!must_panic]
    requires rhs != 0,
    ensures is_quotient(lhs as int, rhs as int, ret.v()),       // the q of a == q*b + r, 0 <= r < b
@*/
/*@[must_panic] requires rhs == 0, ensures false, @*/
{
    /*@[!must_panic] proof { lemma_dor_divmod(lhs as int, rhs as int); } @*/
    match lhs.checked_div(rhs) {
        Some(res) => Repr::from_dword(res),
        None => panic_divide_by_0(),
    }
}
