//@ item: integer/src/div_ops.rs :: mod repr :: div_rem_in_lhs
fn div_rem_in_lhs(lhs: &mut Buffer, rhs: &mut Buffer) -> u32
/*@
    requires
        2 <= old(rhs)@.len() <= old(lhs)@.len(), old(rhs)@[old(rhs)@.len() - 1] != 0,
        old(lhs)@.len() >= 3 || old(lhs)@.len() < old(lhs).capacity(),
        old(lhs)@.len() < max_capacity(),             // resource: room for the top quotient word
    ensures
        ret < WORD_BITS,
        final(rhs)@.len() == old(rhs)@.len(),
        val(final(rhs)@) == val(old(rhs)@) * pow2(ret as int),           // rhs normalized in place
        old(lhs)@.len() <= final(lhs)@.len() <= old(lhs)@.len() + 1,
        // (a << shift) == q * (b << shift) + r, r < (b << shift):  lhs = [r (n words), q]
        val(old(lhs)@) * pow2(ret as int)
            == val(final(lhs)@.subrange(old(rhs)@.len() as int, final(lhs)@.len() as int)) * val(final(rhs)@)
                + val(final(lhs)@.subrange(0, old(rhs)@.len() as int)),
        val(final(lhs)@.subrange(0, old(rhs)@.len() as int)) < val(final(rhs)@),
@*/
{
    let mut allocation =
        MemoryAllocation::new(div::memory_requirement_exact(lhs.len(), rhs.len()));
    let (shift, fast_div_top) = div::normalize(rhs);
    /*@ let ghost n = rhs@.len() as int; let ghost len = lhs@.len() as int; @*/
    let quo_carry = div::div_rem_unshifted_in_place(
        lhs,
        rhs,
        shift,
        fast_div_top,
        &mut allocation.memory(),
    );
    /*@ let ghost l1 = lhs@; @*/
    lhs.push_resizing(quo_carry);
    /*@ proof {
        let l2 = lhs@;
        assert(l2.subrange(0, n) =~= l1.subrange(0, n));
        if quo_carry != 0 {
            let hi = l2.subrange(n, len + 1);
            assert(hi =~= l1.subrange(n, len).push(quo_carry));
            lemma_ds_top1(hi);
            lemma_valn_ext(hi, l1.subrange(n, len), len - n);
        } else {
            assert(l2.subrange(n, len) =~= l1.subrange(n, len));
            assert((quo_carry as int) * pw(len - n) == 0) by (nonlinear_arith) requires quo_carry as int == 0;
        }
    } @*/
    shift
}
