//@ item: integer/src/root_ops.rs :: mod repr :: sqrt_rem_large
fn sqrt_rem_large(words: &[Word], root_only: bool) -> (Repr, Repr)
/*@
    requires large_wf(words@),              // from the call sites: the words of a `Large` operand
        words@.len() + 3 <= max_capacity(),                 // resource: the normalising shift may add two words
    ensures
        // C12: the root truncated toward zero, and value - root^2
        is_sqrt(val(words@), ret.0.v()),
        !root_only ==> is_sqrt_rem(val(words@), ret.0.v(), ret.1.v()),
@*/
{
    /*@
    let ghost v = val(words@);
    let ghost len = words@.len() as int;
    let ghost top = words@[len - 1];
    let ghost lz = gcdo_lz(top);
    proof {
        lemma_dw_normalize(top);
        lemma_gcdo_even_mask(lz);
        let wl = words@.len() as usize;
        assert((wl & 1) == wl % 2) by (bit_vector);
        lemma_gcdo_root_norm(words@, lz as int, (lz & !1u32) as int, (WORD_BITS as int) * (len % 2) + (lz & !1u32) as int, (len + 1) / 2);
        lemma_gcdo_top_ge(words@);
    }
    @*/
    // first shift the words so that there are even words and
    // the top word is normalized. Note: shift <= 2 * WORD_BITS - 2
    let shift = WORD_BITS_USIZE * (words.len() & 1)
        + (words.last().unwrap().leading_zeros() & !1) as usize;
    let n = (words.len() + 1) / 2;
    /*@ let ghost h = (shift / 2) as int; let ghost hh = pow2(h); let ghost pp = pow2(shift as int); @*/
    /*@ proof {
        lemma_sh_pow2_pos(shift as int);
        lemma_sh_pow2_add(h, h);
        lemma_sh_pow2_pos(h);
        lemma_sh_pow2_mono(h, (WORD_BITS as int) - 1);
        lemma_sh_pow2_bits();
        assert(pow2((WORD_BITS as int)) == 2 * pow2((WORD_BITS as int) - 1));
        assert(v * pp >= 0) by (nonlinear_arith) requires v >= 0, pp >= 1;
    } @*/
    let mut buffer = shift_ops::repr::shl_large_ref(words, shift).into_buffer();
    /*@ proof { lemma_gcdo_root_len(buffer@, 2 * n); } @*/
    let mut out = Buffer::allocate(n);
    out.push_zeros(n);

    let mut allocation = MemoryAllocation::new(root::memory_requirement_sqrt_rem(n));
    let r_top = root::sqrt_rem(&mut out, &mut buffer, &mut allocation.memory());
    /*@
    let ghost s = val(out@);
    let ghost buf1 = buffer@;
    let ghost rlo = val(buf1.subrange(0, n as int));
    let ghost r = rlo + b2i(r_top) * pw(n as int);
    let ghost s1 = s / hh;
    let ghost s0v = s % hh;
    let ghost rp = r + 2 * s * s0v - s0v * s0v;
    proof {
        lemma_valn_bound(out@, n as int);
        lemma_valn_bound(buf1.subrange(0, n as int), n as int);
        vstd::arithmetic::div_mod::lemma_fundamental_div_mod(s, hh);
        vstd::arithmetic::div_mod::lemma_mod_bound(s, hh);
        vstd::arithmetic::div_mod::lemma_div_pos_is_pos(s, hh);
        assert(hh * s1 == s1 * hh) by (nonlinear_arith);
        lemma_gcdo_root_unnorm(v, hh, s, r, s1, s0v);
        // rp < B^(n+1)
        assert(2 * s * hh < B() * pw(n as int)) by (nonlinear_arith) requires 0 <= s < pw(n as int), 1 <= hh, 2 * hh <= B();
    }
    @*/

    // afterwards, s = out[..], r = buffer[..n] + r_top << n*WORD_BITS
    // then recover the result if shift != 0
    if shift != 0 {
        // to get the final result, let s0 = s mod 2^(shift/2), then
        // 2^shift*n = (s-s0)^2 + 2s*s0 - s0^2 + r, so final r = (r + 2s*s0 - s0^2) / 2^shift
        if !root_only {
            /*@ proof {
                let hu = (shift / 2) as u32;
                assert((1 as Word) << (shift / 2) == (1 as Word) << hu);
                lemma_sh_one_shl_w(hu);
                lemma_dw_mask_mod(out@[0], (1 as Word) << hu, hu);
                lemma_dw_low_word_mod(out@, hh, h);
            } @*/
            let s0 = out[0] & ((1 << (shift / 2)) - 1);
            /*@ proof {
                assert(s0 as int == s0v);
                assert((s0 as int) * (s0 as int) < B() * B()) by (nonlinear_arith) requires 0 <= s0 as int, (s0 as int) < B();
                assert((2 * s0v) * s < (B() - 2) * pw(n as int)) by (nonlinear_arith)
                    requires 0 <= s < pw(n as int), 0 <= s0v, 2 * s0v + 2 <= B(), B() >= 4;
            } @*/
            let c1 = mul::add_mul_word_in_place(&mut buffer[..n], 2 * s0, &out);
            /*@ let ghost buf2 = buffer@; @*/
            let c2 =
                add::sub_dword_in_place(&mut buffer[..n], extend_word(s0) * extend_word(s0));
            /*@ let ghost buf3 = buffer@; @*/
            /*@ proof {
                lemma_valn_bound(buf2.subrange(0, n as int), n as int);
                lemma_valn_bound(buf3.subrange(0, n as int), n as int);
                assert((2 * s0v) * s == 2 * s * s0v) by (nonlinear_arith);
                lemma_gcdo_root_top(rlo, val(buf2.subrange(0, n as int)), val(buf3.subrange(0, n as int)), b2i(r_top),
                    c1 as int, b2i(c2), pw(n as int), (2 * s0v) * s, s0v * s0v, rp);
            } @*/
            buffer[n] = r_top as Word + c1 - c2 as Word;
            /*@ proof {
                let b4 = buffer@;
                assert(b4.subrange(0, n as int) =~= buf3.subrange(0, n as int));
                lemma_val_split(b4.subrange(0, n + 1), n as int);
                assert(b4.subrange(0, n + 1).subrange(0, n as int) =~= b4.subrange(0, n as int));
                lemma_val1(b4.subrange(0, n + 1).subrange(n as int, n + 1));
                assert(pw(n as int) * (b4[n as int] as int) == (b4[n as int] as int) * pw(n as int)) by (nonlinear_arith);
                assert(val(b4.subrange(0, n + 1)) == rp);
            } @*/
        }

        // s >>= shift/2, r >>= shift
        let _ = shift::shr_in_place(&mut out, shift as u32 / 2);
        if !root_only {
            /*@ let ghost b4 = buffer@; let ghost q = v - s1 * s1; @*/
            if shift >= WORD_BITS_USIZE {
                /*@ proof {
                    let e = pow2(shift - (WORD_BITS as int));
                    lemma_sh_pow2_add((WORD_BITS as int), shift - (WORD_BITS as int));
                    lemma_sh_pow2_pos(shift - (WORD_BITS as int));
                    lemma_gcdo_root_shr2(rp, q, B(), e);
                    lemma_val_split(b4, n + 1);
                } @*/
                shift::shr_in_place_one_word(&mut buffer);
                /*@ let ghost b5 = buffer@; @*/
                buffer.truncate(n);
                /*@ proof {
                    // val(b5)*B + low == rp + B^(n+1)*G  with B | rp:  val(b5) == rp/B + B^n*G, and its n low words are rp/B
                    let g = val(b4.subrange(n + 1, 2 * n));
                    lemma_val_split(b5, n as int);
                    lemma_valn_bound(b5.subrange(0, n as int), n as int);
                    lemma_valn_bound(b5.subrange(n as int, 2 * n), n as int);
                    lemma_valn_bound(b4.subrange(n + 1, 2 * n), n - 1);
                    assert(pw(n + 1) == B() * pw(n as int));
                    lemma_gcdo_root_shr_word(val(b5), val(b5.subrange(0, n as int)), val(b5.subrange(n as int, 2 * n)),
                        rp, g, pw(n as int), val(b4) - val(b5) * B());
                } @*/
            } else {
                buffer.truncate(n + 1);
                /*@ proof {
                    lemma_sh_pow2_pos(shift as int);
                    lemma_gcdo_root_shr2(rp, q, pp, 1);
                    assert(pow2(0) == 1);
                } @*/
            }
            let _ = shift::shr_in_place(&mut buffer, shift as u32 % WORD_BITS);
        }
    } else if !root_only {
        /*@ proof {
            assert(pow2(0) == 1);
            assert(hh == 1 && pp == 1);
            assert(s0v == 0 && s1 == s);
            assert(v * (hh * hh) == v);
        } @*/
        buffer[n] = r_top as Word;
        buffer.truncate(n + 1);
        /*@ proof {
            let b4 = buffer@;
            assert(b4.subrange(0, n as int) =~= buf1.subrange(0, n as int));
            lemma_val_split(b4, n as int);
            lemma_val1(b4.subrange(n as int, n + 1));
            assert(pw(n as int) * (b4[n as int] as int) == (b4[n as int] as int) * pw(n as int)) by (nonlinear_arith);
        } @*/
    }
    /*@ proof {
        if shift == 0 {
            assert(pow2(0) == 1);
            vstd::arithmetic::div_mod::lemma_div_basics(s);
        }
    } @*/

    (Repr::from_buffer(out), Repr::from_buffer(buffer))
}
