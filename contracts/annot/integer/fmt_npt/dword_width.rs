//@ item: integer/src/fmt/non_power_two.rs :: impl PreparedForFormatting for PreparedDword :: width
fn width(&self) -> usize
/*@ #[hoist(Self = PreparedDword, Name = dword_width)]
    requires dword_wf(*self),
    ensures ret as int == dword_digits(*self),
@*/
{
        radix::MAX_DWORD_DIGITS_NON_POW_2 - self.start_index
    }
