//@ item: integer/src/fmt/non_power_two.rs :: impl PreparedForFormatting for PreparedMedium :: width
fn width(&self) -> usize
/*@ #[hoist(Self = PreparedMedium, Name = medium_width)]
    requires medium_wf(*self),
        medium_digits(*self) <= usize::MAX,   // the digit count of a number that fits in memory (call sites: <= CHUNK_LEN words)
    ensures ret as int == medium_digits(*self),
@*/
{
        /*@ proof { broadcast use radix::ax_dpw; } @*/
        let radix_info = radix::radix_info(self.radix);
        /*@ proof {
            let (n, d) = (self.num_low_groups as int, dpw(self.radix));
            assert(0 <= n * d) by (nonlinear_arith) requires n >= 0, d >= 1;
        } @*/
        self.top_group.width() + self.num_low_groups * radix_info.digits_per_word
    }
