//@ item: integer/src/fmt/non_power_two.rs :: impl InRadixWriter<'_> :: fmt_non_power_two
pub fn fmt_non_power_two(&self, f: &mut Formatter) -> fmt::Result
/*@
    requires radix_ok(self.radix),       // debug_assert of the function; fmt() only comes here for such radices
        mag_wf(self.magnitude),
    // (no postcondition: the obligations are the preconditions of the constructors and of format_prepared -- every
    //  prepared number handed to the layout code satisfies its invariant and stands for self.magnitude)
@*/
{
        debug_assert!(radix::is_radix_valid(self.radix) && !self.radix.is_power_of_two());
        /*@ proof { broadcast use radix::ax_dpw; } @*/

        if let RefSmall(dword) = self.magnitude {
            if let Some(word) = shrink_dword(dword) {
                let mut prepared = PreparedWord::new(word, self.radix, 1);
                return self.format_prepared(f, &mut prepared);
            } else {
                let mut prepared = PreparedDword::new(dword, self.radix);
                return self.format_prepared(f, &mut prepared);
            }
        }

        let radix_info = radix::radix_info(self.radix);
        /*@ proof {
            let d = radix_info.digits_per_word as int + 1;
            match self.magnitude {
                TypedReprRef::RefLarge(w) => {
                    let n = w@.len() as int;
                    assert(n * d <= n * 64) by (nonlinear_arith) requires n >= 0, 0 <= d <= 64;
                }
                TypedReprRef::RefSmall(_) => {}
            }
        } @*/
        let max_digits = self.magnitude.len() * (radix_info.digits_per_word + 1);
        if max_digits <= CHUNK_LEN * radix_info.digits_per_word {
            /*@ proof {
                match self.magnitude {
                    TypedReprRef::RefLarge(w) => {
                        lemma_valn_bound(w@, w@.len() as int);
                        lemma_medium_dispatch(self.radix, val(w@), w@.len() as int);
                    }
                    TypedReprRef::RefSmall(d) => {}
                }
            } @*/
            let mut prepared = PreparedMedium::new(self.magnitude, self.radix);
            self.format_prepared(f, &mut prepared)
        } else {
            let mut prepared = PreparedLarge::new(self.magnitude, self.radix);
            self.format_prepared(f, &mut prepared)
        }
    }
