//@ item: integer/src/fmt/non_power_two.rs :: impl PreparedWord :: new
fn new(mut word: Word, radix: Digit, min_digits: usize) -> PreparedWord
/*@
    requires radix_ok(radix),
        min_digits <= radix::MAX_WORD_DIGITS_NON_POW_2,      // call sites: 1 or digits_per_word
    ensures word_wf(ret),
        // C07: the stored digits are the positional representation of the word in this radix ...
        dval(ret.digits@, ret.start_index as int, radix::MAX_WORD_DIGITS_NON_POW_2 as int, radix as int) == word as int,
        digits_ok(ret.digits@, ret.start_index as int, radix::MAX_WORD_DIGITS_NON_POW_2 as int, radix as int),
        // ... padded with zeros to min_digits and not a digit more: a longer string starts with a non-zero digit
        word_digits(ret) >= min_digits,
        word_digits(ret) > min_digits ==> ret.digits@[ret.start_index as int] != 0,
@*/
{
        debug_assert!(radix::is_radix_valid(radix) && !radix.is_power_of_two());
        let radix_info = radix::radix_info(radix);

        let mut prepared = PreparedWord {
            digits: [0; radix::MAX_WORD_DIGITS_NON_POW_2],
            start_index: radix::MAX_WORD_DIGITS_NON_POW_2,
        };

        let max_start = radix::MAX_WORD_DIGITS_NON_POW_2 - min_digits;
        /*@
        let ghost w0 = word as int;
        let ghost r = radix as int;
        let ghost mx = radix::MAX_WORD_DIGITS_NON_POW_2 as int;
        proof { lemma_word_below_max_digits(r); assert(w0 * ipow(r, 0) == w0); }
        @*/
        while prepared.start_index > max_start || word != 0
        /*@ invariant
            r == radix as int, 3 <= r <= 36, mx == radix::MAX_WORD_DIGITS_NON_POW_2 as int,
            radix_info.fast_div_radix.divisor() == r,
            max_start as int == mx - min_digits as int,
            prepared.start_index <= mx,
            // what is left of the word still fits below the digits already produced
            (word as int) < ipow(r, prepared.start_index as int),
            w0 == (word as int) * ipow(r, mx - prepared.start_index as int) + dval(prepared.digits@, prepared.start_index as int, mx, r),
            digits_ok(prepared.digits@, prepared.start_index as int, mx, r),
            prepared.start_index < max_start ==> (word != 0 || prepared.digits@[prepared.start_index as int] != 0),
          decreases prepared.start_index
        @*/
        {
            /*@
            let ghost s0 = prepared.start_index as int;
            let ghost d0 = prepared.digits@;
            let ghost wd = word as int;
            proof { if s0 == 0 { assert(ipow(r, 0) == 1); } }
            @*/
            let (new_word, d) = radix_info.fast_div_radix.div_rem(word, radix as _);
            word = new_word;
            prepared.start_index -= 1;
            prepared.digits[prepared.start_index] = d as u8;
            /*@ proof {
                let q = wd / r;
                let dd = wd % r;
                let p = ipow(r, mx - s0);
                assert(wd == r * q + dd && 0 <= dd < r) by (nonlinear_arith) requires q == wd / r, dd == wd % r, r >= 3, wd >= 0;
                // the remaining quotient is below r^(s0 - 1)
                let pp = ipow(r, s0 - 1);
                lemma_ipow_pos(r, s0 - 1);
                assert(q < pp) by (nonlinear_arith) requires wd == r * q + dd, dd >= 0, wd < r * pp, r >= 3;
                // the new digit goes in front of the old ones
                lemma_dval_ext(d0, prepared.digits@, s0, mx, r);
                assert(ipow(r, mx - (s0 - 1)) == r * p);
                assert(wd * p + dval(d0, s0, mx, r) == q * (r * p) + (dd * p + dval(d0, s0, mx, r))) by (nonlinear_arith)
                    requires wd == r * q + dd;
                assert(prepared.digits@[s0 - 1] as int == dd);
                assert forall|k: int| s0 - 1 <= k < mx implies (#[trigger] prepared.digits@[k] as int) < r by {
                    if k >= s0 { assert(prepared.digits@[k] == d0[k]); }
                }
                // no superfluous leading zero: beyond the padding a digit is produced only from a non-zero word
                if s0 - 1 < max_start as int && q == 0 {
                    assert(dd == wd) by (nonlinear_arith) requires wd == r * q + dd, q == 0;
                    assert(wd != 0);
                }
            } @*/
        }

        prepared
    }
