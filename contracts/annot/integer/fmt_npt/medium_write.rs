//@ item: integer/src/fmt/non_power_two.rs :: impl PreparedForFormatting for PreparedMedium :: write
fn write(&mut self, digit_writer: &mut DigitWriter) -> fmt::Result
/*@ #[hoist(Self = PreparedMedium, Name = medium_write)]
    requires medium_inv(*old(self)),
    ensures *final(self) == *old(self),
        // C07: what reaches the digit writer is a digit string of exactly medium_digits (= width()) digits below the
        // radix whose positional value is the number the structure stands for; it begins with the top group's digits
        ret is Ok ==> ({
            let (pre, out, r) = (old(digit_writer)@, final(digit_writer)@, old(self).radix as int);
            &&& out.len() == pre.len() + medium_digits(*old(self))
            &&& out.subrange(0, pre.len() as int) == pre
            &&& digits_ok(out, pre.len() as int, out.len() as int, r)
            &&& dval(out, pre.len() as int, out.len() as int, r) == medium_value(*old(self))
            &&& forall|p: int| pre.len() <= p < pre.len() + word_digits(old(self).top_group) ==>
                    #[trigger] out[p] == old(self).top_group.digits@[p - pre.len() + old(self).top_group.start_index as int]
        }),
@*/
{
        /*@
        let ghost me = *self;
        let ghost pre = digit_writer@;
        let ghost r = self.radix as int;
        let ghost a = pre.len() as int;
        let ghost mx = radix::MAX_WORD_DIGITS_NON_POW_2 as int;
        let ghost k = self.num_low_groups as int;
        proof { broadcast use radix::ax_dpw; }
        @*/
        let radix_info = radix::radix_info(self.radix);

        self.top_group.write(digit_writer)?;
        /*@ proof {
            let out = digit_writer@;
            let td = me.top_group.digits@;
            let ts = me.top_group.start_index as int;
            assert(out.len() == a + (mx - ts));
            assert forall|p: int| a <= p < a + (mx - ts) implies #[trigger] out[p] == td[p - a + ts] by {}
            lemma_dval_shift(out, a, td, ts, mx - ts, r);
            assert forall|q: int| a <= q < out.len() implies (#[trigger] out[q] as int) < r by { assert(out[q] == td[q - a + ts]); }
            assert(out.subrange(0, a) =~= pre);
            assert(ipow(rpw(me.radix), 0) == 1);
            assert(dval(td, ts, mx, r) * 1 == dval(td, ts, mx, r));
        } @*/

        for group_word in self.low_groups[..self.num_low_groups].iter().rev()
        /*@ invariant
            *self == me, *old(self) == me, medium_inv(me), r == me.radix as int, 3 <= r <= 36, a == pre.len(), mx == radix::MAX_WORD_DIGITS_NON_POW_2 as int,
            k == me.num_low_groups as int, __n0 as int == k, __i0 <= __n0,
            radix_info.digits_per_word as int == dpw(me.radix), 1 <= dpw(me.radix) < mx, rpw(me.radix) == ipow(r, dpw(me.radix)),
            digit_writer@.len() == a + word_digits(me.top_group) + (__i0 as int) * dpw(me.radix),
            digit_writer@.subrange(0, a) == pre,
            digits_ok(digit_writer@, a, digit_writer@.len() as int, r),
            dval(digit_writer@, a, digit_writer@.len() as int, r) == medium_partial(me, __i0 as int),
            forall|p: int| a <= p < a + word_digits(me.top_group) ==> #[trigger] digit_writer@[p] == me.top_group.digits@[p - a + me.top_group.start_index as int],
          decreases __n0 - __i0
        @*/
        {
            /*@
            let ghost out0 = digit_writer@;
            let ghost j = __i0 as int - 1;
            let ghost g = *group_word;
            proof {
                assert(g == me.low_groups@[k - j - 1]);
                assert((g as int) < rpw(me.radix));
            }
            @*/
            let mut prepared =
                PreparedWord::new(*group_word, self.radix, radix_info.digits_per_word);
            /*@
            let ghost pd = prepared.digits@;
            let ghost ps = prepared.start_index as int;
            let ghost n = dpw(me.radix);
            proof {
                // exactly digits_per_word digits: a longer string would start with a non-zero digit and be >= r^n > g
                if mx - ps > n {
                    lemma_dval_leading(pd, ps, mx, r);
                    lemma_ipow_exp_mono(r, n, mx - ps - 1);
                }
                assert(mx - ps == n);
            }
            @*/
            prepared.write(digit_writer)?;
            /*@ proof {
                let out = digit_writer@;
                assert(out.len() == out0.len() + n);
                assert forall|i: int| a <= i < out0.len() implies out[i] == out0[i] by {}
                assert forall|p: int| out0.len() <= p < out0.len() + n implies #[trigger] out[p] == pd[p - out0.len() + ps] by {}
                lemma_dval_append(out0, out, a, out0.len() as int, pd, ps, n, r);
                lemma_medium_partial_step(me, j);
                assert forall|q: int| a <= q < out.len() implies (#[trigger] out[q] as int) < r by {
                    if q >= out0.len() { assert(out[q] == pd[q - out0.len() + ps]); } else { assert(out[q] == out0[q]); }
                }
                assert(out.subrange(0, a) =~= pre);
                assert((j + 1) * n == j * n + n) by (nonlinear_arith);
                assert forall|p: int| a <= p < a + word_digits(me.top_group) implies #[trigger] out[p] == me.top_group.digits@[p - a + me.top_group.start_index as int] by {
                    assert(out[p] == out0[p]);
                }
            } @*/
        }
        /*@ proof {
            let n = dpw(me.radix);
            assert(k * n == (me.num_low_groups as int) * dpw(me.radix));
        } @*/
        Ok(())
    }
