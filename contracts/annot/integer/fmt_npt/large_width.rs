//@ item: integer/src/fmt/non_power_two.rs :: impl PreparedForFormatting for PreparedLarge :: width
fn width(&self) -> usize
/*@ #[hoist(Self = PreparedLarge, Name = large_width)]
    requires large_wf(*self),
        large_digits(*self) <= usize::MAX,    // the digit count of a number that fits in memory (fmt/mod.rs:325-326)
    ensures ret as int == large_digits(*self),   // C07: top chunk + the full width of every big chunk AT ITS STORED LEVEL
@*/
{
        /*@ proof {
            broadcast use radix::ax_dpw;
            lemma_cf_chunks_mono(self.radix, self.big_chunks@, 0, self.big_chunks@.len() as int);
        } @*/
        let mut num_digits = self.top_chunk.width();
        let radix_info = radix::radix_info(self.radix);
        for (i, _) in &self.big_chunks
        /*@ invariant
            __n0 == self.big_chunks@.len(), __i0 <= __n0,
            large_wf(*self), large_digits(*self) <= usize::MAX,
            radix_info.digits_per_word as int == dpw(self.radix), 1 <= dpw(self.radix) < WORD_BITS,
            num_digits as int == medium_digits(self.top_chunk) + chunks_digits(self.radix, self.big_chunks@, __i0 as int),
          decreases __n0 - __i0
        @*/
        {
            /*@ proof {
                let s = self.big_chunks@;
                lemma_cf_chunks_mono(self.radix, s, __i0 as int, __n0 as int);
                lemma_cf_chunks_mono(self.radix, s, 0, __i0 as int - 1);
                // the STORED level of this chunk (the annotations never mention the loop variable: a change of what it
                // is bound to must show up as a failed obligation, not as a type error)
                let lv: usize = s[__i0 as int - 1].0;
                // this summand alone is at most the total, hence fits: the shift is the multiplication by 2^level
                let x: usize = (radix_info.digits_per_word * CHUNK_LEN) as usize;
                assert(x as int == dpw(self.radix) * (CHUNK_LEN as int));
                assert(level_digits(self.radix, lv as int) == (x as int) * pow2(lv as int));
                lemma_cf_shl_mul(x, lv);
            } @*/
            num_digits += (radix_info.digits_per_word * CHUNK_LEN) << i;
        }
        num_digits
    }
