//@ item: integer/src/fmt/non_power_two.rs :: repr_to_chunk_buffer
fn repr_to_chunk_buffer(x: TypedReprRef<'_>) -> ([Word; CHUNK_LEN], usize)
/*@
    requires x.chunk_wf(),
    ensures 1 <= ret.1 <= CHUNK_LEN,
        val(ret.0@.subrange(0, ret.1 as int)) == x.v(),
        ret.1 > 1 ==> ret.0@[ret.1 as int - 1] != 0,
@*/
{
    let mut buffer = [0; CHUNK_LEN];

    match x {
        TypedReprRef::RefSmall(dword) => {
            let (lo, hi) = split_dword(dword);
            buffer[0] = lo;
            if hi != 0 {
                buffer[1] = hi;
                /*@ proof { lemma_val2(buffer@.subrange(0, 2)); } @*/
                (buffer, 2)
            } else {
                /*@ proof { lemma_val1(buffer@.subrange(0, 1)); assert(0 * B() == 0); } @*/
                (buffer, 1)
            }
        }
        TypedReprRef::RefLarge(words) => {
            let buffer_len = words.len();
            buffer[..buffer_len].copy_from_slice(words);
            /*@ proof { assert(buffer@.subrange(0, buffer_len as int) =~= words@); } @*/
            (buffer, buffer_len)
        }
    }
}
