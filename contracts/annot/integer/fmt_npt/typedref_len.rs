//@ item: integer/src/repr.rs :: impl<'a> TypedReprRef<'a> :: len
pub fn len(&self) -> usize
/*@
    ensures match *self {
        TypedReprRef::RefSmall(d) => ret == (if d == 0 { 0usize } else if (d as int) < B() { 1usize } else { 2usize }),
        TypedReprRef::RefLarge(w) => ret == w@.len(),
    },
@*/
{
        match self {
            Self::RefSmall(dword) => {
                if *dword == 0 {
                    0
                } else if *dword <= Word::MAX as DoubleWord {
                    1
                } else {
                    2
                }
            }
            Self::RefLarge(words) => words.len(),
        }
    }
