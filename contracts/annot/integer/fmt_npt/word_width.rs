//@ item: integer/src/fmt/non_power_two.rs :: impl PreparedForFormatting for PreparedWord :: width
fn width(&self) -> usize
/*@ #[hoist(Self = PreparedWord, Name = word_width)]
    requires word_wf(*self),
    ensures ret as int == word_digits(*self),      // C07: the number of entries of digits[start_index..] that write() emits
@*/
{
        radix::MAX_WORD_DIGITS_NON_POW_2 - self.start_index
    }
