//@ item: integer/src/add_ops.rs :: mod repr :: sub_large_ref_val
pub(crate) fn sub_large_ref_val(lhs: &[Word], mut rhs: Buffer) -> Repr
/*@[!must_panic]
    requires val(lhs@) >= val(rhs@),
        // call sites: rhs is a `Large` magnitude (>= 3 words, no leading zero word): see sub_large; with fewer than
        // 2 words the capacity could be too small for the appended words
        normalized(rhs@) || rhs@.len() <= lhs@.len(), rhs@.len() >= 2,
        lhs@.len() <= max_capacity(),             // resource (lhs is the word slice of some Buffer)
    ensures ret.v() == val(lhs@) - val(rhs@),
@*/
/*@[must_panic]
    requires val(lhs@) < val(rhs@), rhs@.len() >= 2, lhs@.len() <= max_capacity(),
    ensures false,
@*/
{
    /*@ let ghost r0 = rhs@;
        proof { if lhs@.len() < r0.len() && normalized(r0) { lemma_shorter_is_less(lhs@, r0); } } @*/
    let n = rhs.len();
    if lhs.len() < n {
        panic_negative_ubig();
    }
    let borrow = add::sub_same_len_in_place_swap(&lhs[..n], &mut rhs);
    /*@ let ghost r1 = rhs@; @*/
    rhs.ensure_capacity(lhs.len());
    rhs.push_slice(&lhs[n..]);
    /*@ let ghost r2 = rhs@;
        proof {
            assert(r2 == r1 + lhs@.subrange(n as int, lhs@.len() as int));
            assert(r2.subrange(n as int, r2.len() as int) =~= lhs@.subrange(n as int, lhs@.len() as int));
        } @*/
    if borrow && add::sub_one_in_place(&mut rhs[n..]) {
        /*@ proof {
            assert(forall|j: int| 0 <= j < n ==> #[trigger] rhs@[j] == r2[j]);
            lemma_sub_ref_val_fin(lhs@, r0, r1, rhs@, n as int, 1, 1);
            lemma_valn_bound(rhs@, rhs@.len() as int);
            lemma_no_borrow(val(rhs@), 1, pw(lhs@.len() as int), val(lhs@) - val(r0));
        } @*/
        panic_negative_ubig();
    }
    /*@ proof {
        assert(forall|j: int| 0 <= j < n ==> #[trigger] rhs@[j] == r2[j]);
        if !borrow { assert(rhs@ == r2); }
        lemma_sub_ref_val_fin(lhs@, r0, r1, rhs@, n as int, b2i(borrow), 0);
        lemma_valn_bound(rhs@, rhs@.len() as int);
        lemma_no_borrow(val(rhs@), 0, pw(lhs@.len() as int), val(lhs@) - val(r0));
    } @*/
    Repr::from_buffer(rhs)
}
