//@ item: integer/src/add_ops.rs :: mod repr_signed :: impl<'r> SubSigned<TypedReprRef<'r>> for TypedRepr :: sub_signed
fn sub_signed(self, rhs: TypedReprRef) -> Self::Output
/*@ #[hoist(Self = TypedRepr, Name = typed_sub_signed_vr, Output = Repr)]
    requires self.wf(), rhs.wf(),
    ensures ret.v() == self.v() - rhs.v(),
@*/
{
        /*@ proof { lemma_typed_range(self); lemma_typedref_range(rhs); } @*/
            match (self, rhs) {
                (Small(dword0), RefSmall(dword1)) => sub_dword(dword0, dword1),
                (Small(dword0), RefLarge(words1)) => sub_large_dword(words1.into(), dword0).neg(),
                (Large(buffer0), RefSmall(dword1)) => sub_large_dword(buffer0, dword1),
                (Large(buffer0), RefLarge(words1)) => sub_large(buffer0, words1),
            }
        }
