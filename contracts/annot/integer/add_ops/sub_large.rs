//@ item: integer/src/add_ops.rs :: mod repr :: sub_large
pub(crate) fn sub_large(mut lhs: Buffer, rhs: &[Word]) -> Repr
/*@[!must_panic]
    requires val(lhs@) >= val(rhs@),
        // call sites: rhs is a `Large` magnitude (no leading zero word).  A longer rhs with leading zeros could be
        // numerically smaller, yet the length test below would panic.
        normalized(rhs@) || rhs@.len() <= lhs@.len(),
    ensures ret.v() == val(lhs@) - val(rhs@),
@*/
/*@[must_panic]
    requires val(lhs@) < val(rhs@),
    ensures false,
@*/
{
    /*@ let ghost l0 = lhs@;
        proof { if l0.len() < rhs@.len() && normalized(rhs@) { lemma_shorter_is_less(l0, rhs@); } } @*/
    if lhs.len() < rhs.len() || add::sub_in_place(&mut lhs, rhs) {
        /*@ proof {
            if l0.len() >= rhs@.len() {
                lemma_valn_bound(lhs@, lhs@.len() as int);
                lemma_no_borrow(val(lhs@), 1, pw(l0.len() as int), val(l0) - val(rhs@));
            }
        } @*/
        panic_negative_ubig();
    }
    /*@ proof {
        lemma_valn_bound(lhs@, lhs@.len() as int);
        lemma_no_borrow(val(lhs@), 0, pw(l0.len() as int), val(l0) - val(rhs@));
    } @*/
    Repr::from_buffer(lhs)
}
