//@ item: integer/src/add_ops.rs :: mod repr :: sub_large_dword
pub(crate) fn sub_large_dword(mut lhs: Buffer, rhs: DoubleWord) -> Repr
/*@
    // precondition from the call sites: lhs holds a `Large` magnitude (>= 3 words, top word non-zero, hence
    // >= B^2 > rhs); the function itself only debug-asserts the absence of a borrow
    requires lhs@.len() >= 2, val(lhs@) >= rhs as int,
    ensures ret.v() == val(lhs@) - rhs as int,
@*/
{
    /*@ let ghost l0 = lhs@; @*/
    let overflow = add::sub_dword_in_place(&mut lhs, rhs);
    /*@ proof { lemma_valn_bound(lhs@, lhs@.len() as int);
        lemma_no_borrow(val(lhs@), b2i(overflow), pw(l0.len() as int), val(l0) - rhs as int); } @*/
    debug_assert!(!overflow);
    Repr::from_buffer(lhs)
}
