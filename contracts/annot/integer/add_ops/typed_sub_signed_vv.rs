//@ item: integer/src/add_ops.rs :: mod repr_signed :: impl SubSigned<TypedRepr> for TypedRepr :: sub_signed
fn sub_signed(self, rhs: TypedRepr) -> Self::Output
/*@ #[hoist(Self = TypedRepr, Name = typed_sub_signed_vv, Output = Repr)]
    requires self.wf(), rhs.wf(),
    ensures ret.v() == self.v() - rhs.v(),
@*/
{
        /*@ proof { lemma_typed_range(self); lemma_typed_range(rhs); } @*/
            match (self, rhs) {
                (Small(dword0), Small(dword1)) => sub_dword(dword0, dword1),
                (Small(dword0), Large(buffer1)) => sub_large_dword(buffer1, dword0).neg(),
                (Large(buffer0), Small(dword1)) => sub_large_dword(buffer0, dword1),
                (Large(buffer0), Large(buffer1)) => {
                    if buffer0.len() >= buffer1.len() {
                        sub_large(buffer0, &buffer1)
                    } else {
                        sub_large(buffer1, &buffer0).neg()
                    }
                }
            }
        }
