//@ item: integer/src/add_ops.rs :: mod repr :: impl<'a> TypedReprRef<'a> :: sub_one
pub fn sub_one(self) -> Repr
/*@ #[hoist(Self = TypedReprRef, Name = typedref_sub_one)]
    requires self.wf(), self.v() >= 1,      // `dword - 1`: arithmetic-overflow panic (debug) / wrap-around (release) for zero
    ensures ret.v() == self.v() - 1,
@*/
{
        /*@ proof { lemma_typedref_range(self); } @*/
            match self {
                RefSmall(dword) => Repr::from_dword(dword - 1),
                RefLarge(buffer) => sub_large_one(buffer.into()),
            }
        }
