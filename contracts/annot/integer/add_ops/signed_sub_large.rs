//@ item: integer/src/add_ops.rs :: mod repr_signed :: sub_large
fn sub_large(mut lhs: Buffer, rhs: &[Word]) -> Repr
/*@
    requires
        // call sites: both operands are `Large` magnitudes (>= 3 words, no leading zero word).  Only the "rhs longer"
        // path needs it: it forwards to the UNSIGNED rhs - lhs, which panics unless rhs >= lhs numerically
        rhs@.len() <= lhs@.len() || (normalized(rhs@) && lhs@.len() >= 2 && rhs@.len() <= max_capacity()),
    ensures ret.v() == val(lhs@) - val(rhs@),
@*/
{
    /*@ let ghost l0 = lhs@; @*/
    if lhs.len() >= rhs.len() {
        let sign = add::sub_in_place_with_sign(&mut lhs, rhs);
        /*@ proof { lemma_sgn_cases(sign, val(lhs@)); lemma_valn_bound(lhs@, lhs@.len() as int); } @*/
        Repr::from_buffer(lhs).with_sign(sign)
    } else {
        /*@ proof { lemma_shorter_is_less(l0, rhs@); } @*/
        super::repr::sub_large_ref_val(rhs, lhs).with_sign(Negative)
    }
}
