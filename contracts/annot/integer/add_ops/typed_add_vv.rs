//@ item: integer/src/add_ops.rs :: mod repr :: impl Add<TypedRepr> for TypedRepr :: add
fn add(self, rhs: TypedRepr) -> Repr
/*@ #[hoist(Self = TypedRepr, Name = typed_add_vv, Output = Repr)]
    requires self.wf(), rhs.wf(),
        self.nwords() < max_capacity(), rhs.nwords() < max_capacity(),   // resource: the sum may need one more word
    ensures ret.v() == self.v() + rhs.v(),
@*/
{
        /*@ proof { lemma_typed_range(self); lemma_typed_range(rhs); } @*/
            match (self, rhs) {
                (Small(dword0), Small(dword1)) => add_dword(dword0, dword1),
                (Small(dword0), Large(buffer1)) => add_large_dword(buffer1, dword0),
                (Large(buffer0), Small(dword1)) => add_large_dword(buffer0, dword1),
                (Large(buffer0), Large(buffer1)) => {
                    if buffer0.len() >= buffer1.len() {
                        add_large(buffer0, &buffer1)
                    } else {
                        add_large(buffer1, &buffer0)
                    }
                }
            }
        }
