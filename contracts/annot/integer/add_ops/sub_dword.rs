//@ item: integer/src/add_ops.rs :: mod repr :: sub_dword
fn sub_dword(a: DoubleWord, b: DoubleWord) -> Repr
/*@[!must_panic] requires a >= b, ensures ret.v() == a as int - b as int, @*/
/*@[must_panic] requires a < b, ensures false, @*/
{
    match a.checked_sub(b) {
        Some(res) => Repr::from_dword(res),
        None => panic_negative_ubig(),
    }
}
