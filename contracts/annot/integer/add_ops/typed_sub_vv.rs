//@ item: integer/src/add_ops.rs :: mod repr :: impl Sub<TypedRepr> for TypedRepr :: sub
fn sub(self, rhs: TypedRepr) -> Repr
/*@ #[hoist(Self = TypedRepr, Name = typed_sub_vv, Output = Repr)] @*/
/*@[!must_panic]
    requires self.wf(), rhs.wf(), self.v() >= rhs.v(),
    ensures ret.v() == self.v() - rhs.v(),
@*/
/*@[must_panic]
    requires self.wf(), rhs.wf(), self.v() < rhs.v(),
    ensures false,
@*/
{
        /*@ proof { lemma_typed_range(self); lemma_typed_range(rhs); } @*/
            match (self, rhs) {
                (Small(dword0), Small(dword1)) => sub_dword(dword0, dword1),
                (Small(_), Large(_)) => panic_negative_ubig(),
                (Large(buffer0), Small(dword1)) => sub_large_dword(buffer0, dword1),
                (Large(buffer0), Large(buffer1)) => sub_large(buffer0, &buffer1),
            }
        }
