//@ item: integer/src/add_ops.rs :: mod repr_signed :: sub_large_dword
fn sub_large_dword(lhs: Buffer, rhs: DoubleWord) -> Repr
/*@
    // call sites: lhs holds a `Large` magnitude (see repr::sub_large_dword)
    requires lhs@.len() >= 2, val(lhs@) >= rhs as int,
    ensures ret.v() == val(lhs@) - rhs as int,
@*/
{
    super::repr::sub_large_dword(lhs, rhs)
}
