//@ item: integer/src/add_ops.rs :: mod repr :: impl TypedRepr :: sub_one
pub fn sub_one(self) -> Repr
/*@ #[hoist(Self = TypedRepr, Name = typed_sub_one)]
    requires self.wf(), self.v() >= 1,      // `dword - 1`: arithmetic-overflow panic (debug) / wrap-around (release) for zero
    ensures ret.v() == self.v() - 1,
@*/
{
        /*@ proof { lemma_typed_range(self); } @*/
            match self {
                Small(dword) => Repr::from_dword(dword - 1),
                Large(buffer) => sub_large_one(buffer),
            }
        }
