//@ item: integer/src/add_ops.rs :: mod repr_signed :: sub_dword
fn sub_dword(lhs: DoubleWord, rhs: DoubleWord) -> Repr
/*@ ensures ret.v() == lhs as int - rhs as int, @*/
{
    let (val, overflow) = lhs.overflowing_sub(rhs);
    if !overflow {
        Repr::from_dword(val)
    } else {
        Repr::from_dword(val.wrapping_neg()).neg()
    }
}
