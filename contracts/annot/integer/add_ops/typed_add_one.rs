//@ item: integer/src/add_ops.rs :: mod repr :: impl TypedRepr :: add_one
pub fn add_one(self) -> Repr
/*@ #[hoist(Self = TypedRepr, Name = typed_add_one)]
    requires self.wf(), self.nwords() < max_capacity(),   // resource: the result may need one more word
    ensures ret.v() == self.v() + 1,
@*/
{
        /*@ proof { lemma_typed_range(self); } @*/
            match self {
                Small(dword) => add_dword(dword, 1),
                Large(buffer) => add_large_one(buffer),
            }
        }
