//@ item: integer/src/add_ops.rs :: mod repr :: impl<'l, 'r> Add<TypedReprRef<'r>> for TypedReprRef<'l> :: add
fn add(self, rhs: TypedReprRef) -> Repr
/*@ #[hoist(Self = TypedReprRef, Name = typed_add_rr, Output = Repr)]
    requires self.wf(), rhs.wf(),
        self.nwords() < max_capacity(), rhs.nwords() < max_capacity(),   // resource: the sum may need one more word
    ensures ret.v() == self.v() + rhs.v(),
@*/
{
        /*@ proof { lemma_typedref_range(self); lemma_typedref_range(rhs); } @*/
            match (self, rhs) {
                (RefSmall(dword0), RefSmall(dword1)) => add_dword(dword0, dword1),
                (RefSmall(dword0), RefLarge(words1)) => add_large_dword(words1.into(), dword0),
                (RefLarge(words0), RefSmall(dword1)) => add_large_dword(words0.into(), dword1),
                (RefLarge(words0), RefLarge(words1)) => {
                    if words0.len() >= words1.len() {
                        add_large(words0.into(), words1)
                    } else {
                        add_large(words1.into(), words0)
                    }
                }
            }
        }
