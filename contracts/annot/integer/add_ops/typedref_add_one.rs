//@ item: integer/src/add_ops.rs :: mod repr :: impl<'a> TypedReprRef<'a> :: add_one
pub fn add_one(self) -> Repr
/*@ #[hoist(Self = TypedReprRef, Name = typedref_add_one)]
    requires self.wf(), self.nwords() < max_capacity(),   // resource: the result may need one more word
    ensures ret.v() == self.v() + 1,
@*/
{
        /*@ proof { lemma_typedref_range(self); } @*/
            match self {
                RefSmall(dword) => add_dword(dword, 1),
                RefLarge(buffer) => add_large_one(buffer.into()),
            }
        }
