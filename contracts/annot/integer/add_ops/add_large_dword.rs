//@ item: integer/src/add_ops.rs :: mod repr :: add_large_dword
fn add_large_dword(mut buffer: Buffer, rhs: DoubleWord) -> Repr
/*@
    requires buffer@.len() >= 3,                   // the function's own debug assertion (a `Large` magnitude)
        buffer@.len() < max_capacity(),            // resource: beyond it the real push_resizing panics (allocation limit)
    ensures ret.v() == val(buffer@) + rhs as int,
@*/
{
    debug_assert!(buffer.len() >= 3);
    /*@ let ghost b0 = buffer@; @*/
    if add::add_dword_in_place(&mut buffer, rhs) {
        /*@ let ghost b1 = buffer@; @*/
        buffer.push_resizing(1);
        /*@ proof { lemma_val_push(b1, 1); } @*/
    }
    Repr::from_buffer(buffer)
}
