//@ item: integer/src/add_ops.rs :: mod repr :: impl<'r> Add<TypedReprRef<'r>> for TypedRepr :: add
fn add(self, rhs: TypedReprRef) -> Repr
/*@ #[hoist(Self = TypedRepr, Name = typed_add_vr, Output = Repr)]
    requires self.wf(), rhs.wf(),
        self.nwords() < max_capacity(), rhs.nwords() < max_capacity(),   // resource: the sum may need one more word
    ensures ret.v() == self.v() + rhs.v(),
@*/
{
            // add is commutative
            rhs.add(self)
        }
