//@ item: integer/src/add_ops.rs :: mod repr_signed :: impl<'l, 'r> SubSigned<TypedReprRef<'r>> for TypedReprRef<'l> :: sub_signed
fn sub_signed(self, rhs: TypedReprRef<'r>) -> Repr
/*@ #[hoist(Self = TypedReprRef, Name = typed_sub_signed_rr, Output = Repr, Generics = ['r])]
    requires self.wf(), rhs.wf(),
    ensures ret.v() == self.v() - rhs.v(),
@*/
{
        /*@ proof { lemma_typedref_range(self); lemma_typedref_range(rhs); } @*/
            match (self, rhs) {
                (RefSmall(dword0), RefSmall(dword1)) => sub_dword(dword0, dword1),
                (RefSmall(dword0), RefLarge(buffer1)) => {
                    sub_large_dword(buffer1.into(), dword0).neg()
                }
                (RefLarge(words0), RefSmall(words1)) => sub_large_dword(words0.into(), words1),
                (RefLarge(words0), RefLarge(words1)) => {
                    if words0.len() >= words1.len() {
                        sub_large(words0.into(), words1)
                    } else {
                        sub_large(words1.into(), words0).neg()
                    }
                }
            }
        }
