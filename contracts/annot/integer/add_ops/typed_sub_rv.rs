//@ item: integer/src/add_ops.rs :: mod repr :: impl<'l> Sub<TypedRepr> for TypedReprRef<'l> :: sub
fn sub(self, rhs: TypedRepr) -> Repr
/*@ #[hoist(Self = TypedReprRef, Name = typed_sub_rv, Output = Repr)] @*/
/*@[!must_panic]
    requires self.wf(), rhs.wf(), self.v() >= rhs.v(),
    ensures ret.v() == self.v() - rhs.v(),
@*/
/*@[must_panic]
    requires self.wf(), rhs.wf(), self.v() < rhs.v(),
    ensures false,
@*/
{
        /*@ proof { lemma_typedref_range(self); lemma_typed_range(rhs); } @*/
            match (self, rhs) {
                (RefSmall(dword0), Small(dword1)) => sub_dword(dword0, dword1),
                (RefSmall(_), Large(_)) => panic_negative_ubig(),
                (RefLarge(buffer0), Small(dword1)) => sub_large_dword(buffer0.into(), dword1),
                (RefLarge(buffer0), Large(buffer1)) => sub_large_ref_val(buffer0, buffer1),
            }
        }
