//@ item: integer/src/add_ops.rs :: mod repr :: add_dword
fn add_dword(a: DoubleWord, b: DoubleWord) -> Repr
/*@ ensures ret.v() == a as int + b as int, @*/
{
    let (res, overflow) = a.overflowing_add(b);
    if overflow {
        // spilled
        let (lo, hi) = split_dword(res);
        let mut buffer = Buffer::allocate(3);
        buffer.push(lo);
        buffer.push(hi);
        buffer.push(1);
        /*@ proof { lemma_val3(buffer@); } @*/
        Repr::from_buffer(buffer)
    } else {
        Repr::from_dword(res)
    }
}
