//@ item: integer/src/add_ops.rs :: mod repr :: impl<'l, 'r> Sub<TypedReprRef<'r>> for TypedReprRef<'l> :: sub
fn sub(self, rhs: TypedReprRef) -> Repr
/*@ #[hoist(Self = TypedReprRef, Name = typed_sub_rr, Output = Repr)] @*/
/*@[!must_panic]
    requires self.wf(), rhs.wf(), self.v() >= rhs.v(),
    ensures ret.v() == self.v() - rhs.v(),
@*/
/*@[must_panic]
    requires self.wf(), rhs.wf(), self.v() < rhs.v(),
    ensures false,
@*/
{
        /*@ proof { lemma_typedref_range(self); lemma_typedref_range(rhs); } @*/
            match (self, rhs) {
                (RefSmall(dword0), RefSmall(dword1)) => sub_dword(dword0, dword1),
                (RefSmall(_), RefLarge(_)) => panic_negative_ubig(),
                (RefLarge(buffer0), RefSmall(dword1)) => sub_large_dword(buffer0.into(), dword1),
                (RefLarge(buffer0), RefLarge(buffer1)) => sub_large(buffer0.into(), buffer1),
            }
        }
