//@ item: integer/src/add_ops.rs :: mod repr :: sub_large_one
fn sub_large_one(mut buffer: Buffer) -> Repr
/*@
    requires val(buffer@) >= 1,                    // call sites: a `Large` magnitude is >= B^2
    ensures ret.v() == val(buffer@) - 1,
@*/
{
    /*@ let ghost b0 = buffer@; @*/
    let overflow = add::sub_one_in_place(&mut buffer);
    /*@ proof { lemma_valn_bound(buffer@, buffer@.len() as int);
        lemma_no_borrow(val(buffer@), b2i(overflow), pw(b0.len() as int), val(b0) - 1); } @*/
    debug_assert!(!overflow);
    Repr::from_buffer(buffer)
}
