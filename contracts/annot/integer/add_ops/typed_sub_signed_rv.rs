//@ item: integer/src/add_ops.rs :: mod repr_signed :: impl<'l> SubSigned<TypedRepr> for TypedReprRef<'l> :: sub_signed
fn sub_signed(self, rhs: TypedRepr) -> Self::Output
/*@ #[hoist(Self = TypedReprRef, Name = typed_sub_signed_rv, Output = Repr)]
    requires self.wf(), rhs.wf(),
    ensures ret.v() == self.v() - rhs.v(),
@*/
{
        /*@ proof { lemma_typedref_range(self); lemma_typed_range(rhs); } @*/
            match (self, rhs) {
                (RefSmall(dword0), Small(dword1)) => sub_dword(dword0, dword1),
                (RefSmall(dword0), Large(buffer1)) => sub_large_dword(buffer1, dword0).neg(),
                (RefLarge(words0), Small(dword1)) => sub_large_dword(words0.into(), dword1),
                (RefLarge(words0), Large(buffer1)) => sub_large(buffer1, words0).neg(),
            }
        }
