//@ item: integer/src/add_ops.rs :: mod repr :: add_large
fn add_large(mut buffer: Buffer, rhs: &[Word]) -> Repr
/*@
    requires
        // resource: the sum needs max(len) + 1 words; beyond MAX_CAPACITY the real code panics (allocation limit)
        buffer@.len() < max_capacity(), rhs@.len() < max_capacity(),
        // call sites: `buffer` holds a `Large` magnitude (>= 3 words).  With fewer than 2 words the capacity could be
        // too small for the appended words (ensure_capacity / push_resizing do not grow a buffer up to 2 words)
        buffer@.len() >= 2,
    ensures ret.v() == val(buffer@) + val(rhs@),
@*/
{
    /*@ let ghost b0 = buffer@; @*/
    let n = buffer.len().min(rhs.len());
    let overflow = add::add_same_len_in_place(&mut buffer[..n], &rhs[..n]);
    /*@ let ghost b1 = buffer@; @*/
    if rhs.len() > n {
        buffer.ensure_capacity(rhs.len());
        buffer.push_slice(&rhs[n..]);
    }
    /*@ let ghost b2 = buffer@;
        proof { lemma_add_large_mid(b0, rhs@, b1, b2, n as int, b2i(overflow)); } @*/
    if overflow && add::add_one_in_place(&mut buffer[n..]) {
        /*@ let ghost b3 = buffer@; @*/
        buffer.push_resizing(1);
        /*@ proof {
            lemma_val_push(b3, 1);
            lemma_add_large_fin(b0, rhs@, b2, b3, n as int, 1, 1);
        } @*/
    }
    /*@ proof {
        if buffer@.len() == b2.len() {
            lemma_add_large_fin(b0, rhs@, b2, buffer@, n as int, b2i(overflow), 0);
        }
    } @*/
    Repr::from_buffer(buffer)
}
