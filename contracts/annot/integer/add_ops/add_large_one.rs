//@ item: integer/src/add_ops.rs :: mod repr :: add_large_one
fn add_large_one(mut buffer: Buffer) -> Repr
/*@
    requires buffer@.len() >= 2,                   // call sites: a `Large` magnitude (>= 3 words)
        buffer@.len() < max_capacity(),            // resource: allocation limit of push_resizing
    ensures ret.v() == val(buffer@) + 1,
@*/
{
    if add::add_one_in_place(&mut buffer) {
        /*@ let ghost b1 = buffer@; @*/
        buffer.push_resizing(1);
        /*@ proof { lemma_val_push(b1, 1); } @*/
    }
    Repr::from_buffer(buffer)
}
