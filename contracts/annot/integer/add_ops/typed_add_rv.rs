//@ item: integer/src/add_ops.rs :: mod repr :: impl<'l> Add<TypedRepr> for TypedReprRef<'l> :: add
fn add(self, rhs: TypedRepr) -> Repr
/*@ #[hoist(Self = TypedReprRef, Name = typed_add_rv, Output = Repr)]
    requires self.wf(), rhs.wf(),
        self.nwords() < max_capacity(), rhs.nwords() < max_capacity(),   // resource: the sum may need one more word
    ensures ret.v() == self.v() + rhs.v(),
@*/
{
        /*@ proof { lemma_typedref_range(self); lemma_typed_range(rhs); } @*/
            match (self, rhs) {
                (RefSmall(dword0), Small(dword1)) => add_dword(dword0, dword1),
                (RefSmall(dword0), Large(buffer1)) => add_large_dword(buffer1, dword0),
                (RefLarge(words0), Small(dword1)) => add_large_dword(words0.into(), dword1),
                (RefLarge(words0), Large(buffer1)) => add_large(buffer1, words0),
            }
        }
