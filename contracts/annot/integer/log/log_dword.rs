//@ item: integer/src/log.rs :: mod repr :: log_dword
fn log_dword(target: DoubleWord, base: DoubleWord) -> (usize, Repr)
/*@ #[float_est(est)] #[assert_guard]
    requires base > 1,                      // own debug assertion; ilog(_, 0 | 1) panics before (documented)
        target != 0,                        // ilog(0, _) panics (documented)
    ensures
        // C12: base^e <= target < base^(e+1), and the power itself
        lpw(base as int, ret.0 as nat) <= target as int, (target as int) < lpw(base as int, (ret.0 + 1) as nat),
        ret.1.v() == lpw(base as int, ret.0 as nat),
@*/
{
    debug_assert!(base > 1);
    /*@ proof {
        lemma_lpw_1(base as int);
        assert(lpw(base as int, 2) == (base as int) * lpw(base as int, 1));
        assert((base as int) * (base as int) > base as int) by (nonlinear_arith) requires base as int >= 2;
    } @*/

    // shortcuts
    match target {
        0 => panic_invalid_log_oprand(),
        1 => return (0, Repr::one()),
        i if i < base => return (0, Repr::one()),
        i if i == base => return (1, Repr::from_dword(base)),
        _ => {}
    }

    let log2_self = target.log2_bounds().0;
    let log2_base = base.log2_bounds().1;

    let mut est = (log2_self / log2_base) as u32; // float to int is underestimate
    let mut est_pow = base.pow(est);
    assert!(est_pow <= target);
    /*@ proof { lemma_lpw_est_small(base as int, est as nat, target as int); lemma_lpw_ge(base as int, est as nat); } @*/

    while let Some(next_pow) = est_pow.checked_mul(base)
    /*@
        invariant base > 1, target >= 1, est < 2 * WORD_BITS, est_pow >= 1,
            est_pow as int == lpw(base as int, est as nat), est_pow <= target,
        ensures est < 2 * WORD_BITS, est_pow as int == lpw(base as int, est as nat), est_pow <= target,
            (target as int) < lpw(base as int, (est + 1) as nat),
        decreases target - est_pow,
    @*/
    {
        /*@ proof {
            assert(lpw(base as int, (est + 1) as nat) == (base as int) * lpw(base as int, est as nat));
            assert((est_pow as int) * (base as int) == (base as int) * (est_pow as int)) by (nonlinear_arith);
            assert((est_pow as int) * (base as int) > est_pow as int) by (nonlinear_arith) requires est_pow as int >= 1, base as int >= 2;
            if next_pow <= target { lemma_lpw_est_small(base as int, (est + 1) as nat, target as int); }
        } @*/
        let cmp = next_pow.cmp(&target);
        if cmp.is_le() {
            est_pow = next_pow;
            est += 1;
        }
        if cmp.is_ge() {
            /*@ proof {
                if next_pow > target { } else {
                    // next_pow == target: est was advanced; the following power is strictly larger
                    assert(lpw(base as int, (est + 1) as nat) == (base as int) * lpw(base as int, est as nat));
                    assert((base as int) * (est_pow as int) > est_pow as int) by (nonlinear_arith) requires est_pow as int >= 1, base as int >= 2;
                }
            } @*/
            break;
        }
    }
    /*@ proof {
        // loop left through `None`: est_pow * base does not fit a double word, hence exceeds target
        assert(lpw(base as int, (est + 1) as nat) == (base as int) * lpw(base as int, est as nat));
    } @*/
    (est as usize, Repr::from_dword(est_pow))
}
