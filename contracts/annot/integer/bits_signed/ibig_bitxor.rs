//@ item: integer/src/bits.rs :: macro impl_ibig_bitxor#0 :: @arm
/*@ requires sign0 == Sign::Negative ==> mag0.v() >= 1, sign1 == Sign::Negative ==> mag1.v() >= 1,   // zero is stored as +0
        mag0.v() >= 0, mag1.v() >= 0,
    ensures
        // C09: every two's complement digit (infinitely many sign bits) of the result is the XOR of the operands' digits
        forall|i: int| i >= 0 ==> #[trigger] nbit(ret.0.v(), i) == (nbit(sv(sign0, mag0.v()), i) != nbit(sv(sign1, mag1.v()), i)), @*/
        match ($sign0, $sign1) {
            (Positive, Positive) => IBig($mag0.bitxor($mag1)),
            (Positive, Negative) => !IBig($mag0.bitxor($mag1.sub_one().into_typed())),
            (Negative, Positive) => !IBig($mag0.sub_one().into_typed().bitxor($mag1)),
            (Negative, Negative) => IBig(
                $mag0
                    .sub_one()
                    .into_typed()
                    .bitxor($mag1.sub_one().into_typed()),
            ),
        }
/*@ proof {
    let a = sv(sign0, mag0.v()); let b = sv(sign1, mag1.v()); let r = ret.0.v();
    assert forall|i: int| i >= 0 implies #[trigger] nbit(r, i) == (nbit(a, i) != nbit(b, i)) by {
        if sign0 == Sign::Negative { lemma_bs_compl(a, mag0.v() - 1, i); }
        if sign1 == Sign::Negative { lemma_bs_compl(b, mag1.v() - 1, i); }
        lemma_bs_compl(r, -r - 1, i);
    }
} @*/
