//@ item: integer/src/bits.rs :: impl Not for IBig :: not
fn not(self) -> IBig
/*@ #[hoist(Self = IBig)]
    ensures
        // C09: ! complements every two's complement digit (infinitely many sign bits), i.e. !x == -x - 1
        ret.0.v() == -self.0.v() - 1,
        forall|i: int| i >= 0 ==> #[trigger] nbit(ret.0.v(), i) == !nbit(self.0.v(), i),
@*/
{
    let (sign, mag) = self.into_sign_repr();
    match sign {
        Positive => IBig(mag.add_one().with_sign(Negative)),
        Negative => IBig(mag.sub_one().with_sign(Positive)),
    }
    /*@ proof {
        assert forall|i: int| i >= 0 implies #[trigger] nbit(ret.0.v(), i) == !nbit(self.0.v(), i) by {
            lemma_bs_compl(ret.0.v(), self.0.v(), i);
        }
    } @*/
}
