//@ item: integer/src/shift_ops.rs :: impl Shr<usize> for IBig :: shr
fn shr(self, rhs: usize) -> IBig
/*@ #[hoist(Self = IBig)]
    ensures
        // C09: >> on IBig is the arithmetic shift, i.e. floor division by 2^rhs (Verus `/` by a positive divisor is floor)
        ret.0.v() == self.0.v() / pow2(rhs as int),
@*/
{
    let (sign, mag) = self.into_sign_repr();
    /*@ proof { lemma_sh_pow2_pos(rhs as int); lemma_bs_floor_neg(mag.v(), pow2(rhs as int)); } @*/
    match sign {
        Positive => IBig(mag >> rhs),
        Negative => {
            let b = mag.as_ref().are_low_bits_nonzero(rhs);
            -IBig(mag >> rhs) - IBig::from(b)
        }
    }
}
