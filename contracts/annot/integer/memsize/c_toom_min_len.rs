//@ item: integer/src/mul/toom_3.rs :: const MIN_LEN
const MIN_LEN: usize = 16;
