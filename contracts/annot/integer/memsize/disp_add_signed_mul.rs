//@ item: integer/src/mul/mod.rs :: add_signed_mul
// RESOURCE contract of the general dispatcher: gneed(min(|a|, |b|)) Words of scratch are enough whatever the strategy.
// (This is the function of the seeded change C01_r2_3: `<= THRESHOLD_KARATSUBA` -> `<` sends a 192-word factor to Toom-3,
// whose tneed(192) = 620 Words exceed the gneed(192) = kneed(192) = 336 the caller reserved.)
pub fn add_signed_mul<'a>(
    c: &mut [Word],
    sign: Sign,
    mut a: &'a [Word],
    mut b: &'a [Word],
    memory: &mut Memory,
) -> SignedWord
/*@
    requires old(c)@.len() == a@.len() + b@.len(), old(c)@.len() <= usize::MAX,
        3 * old(c)@.len() + 4 <= SignedWord::MAX,
        mem_ok(*old(memory), gneed(imin(a@.len() as int, b@.len() as int))),
    ensures final(c)@.len() == old(c)@.len(), -rbnd(old(c)@.len() as int) <= ret <= rbnd(old(c)@.len() as int),
        mem_same(*final(memory), *old(memory)),
    decreases (if a@.len() < b@.len() { a@.len() } else { b@.len() }), a@.len() + b@.len(), 3int
@*/
{
    debug_assert!(c.len() == a.len() + b.len());

    if a.len() < b.len() {
        mem::swap(&mut a, &mut b);
    }
    /*@ proof {
        let nb = b@.len() as int;
        lemma_mn_need_pos(nb);
        lemma_mn_gneed_mono(nb - 1, nb);
        assert(gneed(nb) == imax(need(nb), gneed(nb - 1)) || nb <= 0);
    } @*/

    if b.len() <= THRESHOLD_SIMPLE {
        simple::add_signed_mul(c, sign, a, b, memory)
    } else if b.len() <= THRESHOLD_KARATSUBA {
        karatsuba::add_signed_mul(c, sign, a, b, memory)
    } else {
        toom_3::add_signed_mul(c, sign, a, b, memory)
    }
}
