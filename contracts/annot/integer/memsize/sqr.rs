//@ item: integer/src/sqr/mod.rs :: sqr
// RESOURCE contract: nothing up to MAX_LEN_SIMPLE = 30 words (schoolbook squaring), need(|a|) above (the multiplication
// dispatcher on a x a).
pub fn sqr(b: &mut [Word], a: &[Word], memory: &mut Memory)
/*@
    requires a@.len() >= 2, old(b)@.len() == a@.len() * 2, old(b)@.len() <= usize::MAX,   // the function's own debug assertions
        forall|i: int| 0 <= i < old(b)@.len() ==> old(b)@[i] == 0,
        mem_ok(*old(memory), sqr_need(a@.len() as int)),
    ensures final(b)@.len() == old(b)@.len(),
        mem_same(*final(memory), *old(memory)),
@*/
{
    debug_assert!(a.len() >= 2, "use native multiplication when a is small");
    debug_assert!(b.len() == a.len() * 2);
    debug_assert!(b.iter().all(|&v| v == 0));

    if a.len() <= MAX_LEN_SIMPLE {
        simple::square(b, a);
    } else {
        debug_assert_zero!(mul::add_signed_mul_same_len(b, Sign::Positive, a, a, memory));
    }
}
