//@ item: integer/src/div/mod.rs :: const THRESHOLD_SIMPLE
const THRESHOLD_SIMPLE: usize = 32;
