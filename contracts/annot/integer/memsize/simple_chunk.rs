//@ item: integer/src/mul/simple.rs :: add_signed_mul_chunk
// RESOURCE contract: the schoolbook kernel does not touch the scratch memory at all.
fn add_signed_mul_chunk(
    c: &mut [Word],
    sign: Sign,
    a: &[Word],
    b: &[Word],
    _memory: &mut Memory,
) -> SignedWord
/*@
    requires a@.len() >= b@.len(), old(c)@.len() == a@.len() + b@.len(), old(c)@.len() <= usize::MAX,
    ensures final(c)@.len() == old(c)@.len(), -1 <= ret <= 1,
        mem_same(*final(_memory), *old(_memory)),
@*/
{
    debug_assert!(a.len() >= b.len() && c.len() == a.len() + b.len());
    debug_assert!(a.len() <= CHUNK_LEN);

    match sign {
        Positive => SignedWord::from(add_mul_chunk(c, a, b)),
        Negative => -SignedWord::from(sub_mul_chunk(c, a, b)),
    }
}
