//@ item: integer/src/sqr/mod.rs :: const MAX_LEN_SIMPLE
const MAX_LEN_SIMPLE: usize = 30;
