//@ item: integer/src/gcd/lehmer.rs :: memory_requirement_up_to
// The scratch of gcd_in_place: gneed(rhs_len / 2) Words (see annot/integer/memsize/gcd_in_place.rs): every Euclidean step
// divides by at most rhs_len words, and all products inside a division by n words have a smaller factor of at most n / 2
// words.  (Before the repair 1d55bba the body was `div::memory_requirement_exact(lhs_len, rhs_len)`, the scratch of the FIRST
// division only, which does not satisfy this contract: b = 2^8448 - 1, a = 2^63 b + 2^4224 - 1 made UBig::gcd panic.)
pub fn memory_requirement_up_to(lhs_len: usize, rhs_len: usize) -> Layout
/*@
    requires rhs_len <= usize::MAX / 4,
    ensures lay_ok(ret, gneed(rhs_len as int / 2)), lay_wordish(ret),
@*/
{
    // Required memory:
    // - temporary space for the divisions in the euclidean steps: every later divisor has
    //   at most rhs_len words, but its quotient can be longer than lhs_len - rhs_len words,
    //   so the smaller factor of the products in a division is only bounded by rhs_len / 2
    mul::memory_requirement_up_to(lhs_len, rhs_len / 2)
}
