//@ item: integer/src/gcd/lehmer.rs :: memory_requirement_up_to
// The scratch of gcd_in_place: gneed(rhs_len / 2) Words (see annot/integer/memsize/gcd_in_place.rs).
// Written for the code AFTER proposed_fixes/MEM1 (max with mul::memory_requirement_up_to(rhs_len, rhs_len / 2)); the
// original body `div::memory_requirement_exact(lhs_len, rhs_len)` does NOT satisfy this contract (genuine defect).
pub fn memory_requirement_up_to(lhs_len: usize, rhs_len: usize) -> Layout
/*@
    requires lhs_len >= rhs_len && rhs_len >= 2, rhs_len <= usize::MAX / 8,
    ensures lay_ok(ret, gneed(rhs_len as int / 2)), lay_wordish(ret),
@*/
{
    // Required memory:
    // - temporary space for the divisions in the euclidean steps. The first one divides lhs_len by rhs_len words, but
    //   every later one divides (at most) rhs_len words by a shorter divisor and can have a much LONGER quotient than
    //   the first: all of them only multiply with a smaller factor of at most rhs_len / 2 words.
    memory::max_layout(
        div::memory_requirement_exact(lhs_len, rhs_len),
        mul::memory_requirement_up_to(rhs_len, rhs_len / 2),
    )
}
