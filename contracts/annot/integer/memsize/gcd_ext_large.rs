//@ item: integer/src/gcd_ops.rs :: mod repr :: gcd_ext_large
// FUNCTIONAL + RESOURCE: the annotations of annot/integer/gcd_ops/gcd_ext_large.rs (unit int_gcd_ops) plus the scratch-memory
// accounting of the ONE allocation  clones (l + r Words) + max(gcd_mem, post_mem):  after the two clones the rest `rem` covers
// ext_need(l) (gcd_mem: the kernel) and l + r + mformula(r) (post_mem); the residue buffer of R = max(r + |b| + 1, l) Words --
// possibly ONE Word more than the l + r reserved in post_mem -- still fits, and what is left behind it covers the product
// rhs * b and the exact division by lhs (lemma_mn_ext_large_room, lib/mem_need_slack.rs: uses the one Word of slack between
// the closed form mformula(r) and the real need gneed(r)).
fn gcd_ext_large(mut lhs: Buffer, mut rhs: Buffer) -> (Repr, Repr, Repr)
/*@
    requires large_wf(lhs@), large_wf(rhs@),        // from the call sites: the words of two `Large` operands
        // resource bound only (room for the top quotient word of the cofactor); the former defect region -- the smaller
        // operand divides the larger one and is more than two words shorter, e.g. gcd_ext(2^320, 2^128) -- is INCLUDED:
        // the residue buffer is now at least as long as the divisor
        gcd_ext_large_pre(lhs@, rhs@),
        3 * (lhs@.len() + rhs@.len() + 1) + 4 <= SignedWord::MAX,       // implied by large_wf when Word = u64
    ensures repr_gcd_ext_post(val(lhs@), val(rhs@), ret.0.v(), ret.1.v(), ret.2.v()),
@*/
{
    /*@ let ghost l0 = val(lhs@); let ghost r0 = val(rhs@); @*/
    /*@ proof {
        lemma_gcdo_top_ge(lhs@); lemma_gcdo_top_ge(rhs@);
        vstd::arithmetic::div_mod::lemma_mod_self_0(l0);
        assert(1 * l0 + 0 * r0 == l0);
    } @*/
    // make sure lhs > rhs
    let swapped = match cmp::cmp_in_place(&lhs, &rhs) {
        Ordering::Greater => false,
        Ordering::Equal => return (Repr::from_buffer(lhs), Repr::one(), Repr::zero()),
        Ordering::Less => {
            core::mem::swap(&mut lhs, &mut rhs);
            true
        }
    };
    let (lhs_len, rhs_len) = (lhs.len(), rhs.len());
    /*@ let ghost l = val(lhs@); let ghost r = val(rhs@); let ghost ll = lhs_len as int; let ghost rl = rhs_len as int; @*/
    /*@ proof {
        lemma_valn_bound(lhs@, ll); lemma_valn_bound(rhs@, rl);
        if l % r == 0 { } else { }
        vstd::arithmetic::div_mod::lemma_small_mod(r as nat, l as nat);
    } @*/

    // allocate memory
    let clone_mem = memory::array_layout::<Word>(lhs_len + rhs_len);
    let gcd_mem = gcd::memory_requirement_ext_exact(lhs_len, rhs_len);
    let post_mem = memory::add_layout(
        // temporary space to store residue
        memory::array_layout::<Word>(lhs_len + rhs_len),
        memory::max_layout(
            // memory required for post processing: one multiplication + one division
            mul::memory_requirement_exact(lhs_len + rhs_len, rhs_len),
            div::memory_requirement_exact(lhs_len + rhs_len + 1, rhs_len),
        ),
    );
    let mut allocation = MemoryAllocation::new(memory::add_layout(
        clone_mem,
        memory::max_layout(gcd_mem, post_mem),
    ));
    /*@ proof {
        lemma_word_layout();
        lemma_mn_gneed_mono(0, (ll + 1) / 2);
        lemma_mn_formula_suffices(rl);
        lemma_mn_need_pos(rl);
        assert(post_mem.al() == wbytes());
        assert(post_mem.sz() >= wbytes() * (ll + rl + mformula(rl)));
        assert(allocation.al() == wbytes());
        assert(allocation.size() >= wbytes() * (ll + rl + ext_need(ll)));
        assert(allocation.size() >= wbytes() * (ll + rl + (ll + rl + mformula(rl))));
        lemma_mem_alloc(allocation.start(), allocation.size(), allocation.al(), ll + rl + ext_need(ll));
        lemma_mem_alloc(allocation.start(), allocation.size(), allocation.al(), ll + rl + (ll + rl + mformula(rl)));
    } @*/
    let mut memory = allocation.memory();
    /*@ let ghost cap0 = memory.capw(); let ghost rem = cap0 - ll - rl;
    proof {
        assert(rem >= ext_need(ll) && rem >= ll + rl + mformula(rl));
        lemma_mem_take(memory.start(), memory.end(), ll as nat);
    } @*/

    // copy oprands for post processing
    let (lhs_clone, mut memory) = memory.allocate_slice_copy(&lhs);
    /*@ proof { assert(memory.capw() == cap0 - ll); lemma_mem_take(memory.start(), memory.end(), rl as nat); } @*/
    let (rhs_clone, mut memory) = memory.allocate_slice_copy(&rhs);
    /*@ proof { assert(memory.capw() == rem); } @*/

    // actual computation
    let (g_len, b_len, b_sign) = gcd::gcd_ext_in_place(&mut lhs, &mut rhs, &mut memory);
    /*@ let ghost gv = val(rhs@.subrange(0, g_len as int)); let ghost bm = val(lhs@.subrange(0, b_len as int)); let ghost bl = b_len as int; @*/
    /*@ let ghost rhs1 = rhs@; let ghost lhs1 = lhs@; @*/

    // the result from the internal function is g = gcd(lhs, rhs), b s.t g = b*rhs mod lhs
    // post processing: a = (g - rhs * b) / lhs
    rhs.truncate(g_len);
    let g = rhs;
    lhs.truncate(b_len);
    let b = lhs;
    /*@ let ghost m = lemma_gcdo_residue(l, r, gv, b_sign, bm); @*/
    /*@ proof {
        assert(val(g@) == gv && val(b@) == bm);
        lemma_valn_bound(b@, bl); lemma_valn_bound(g@, g_len as int);
        lemma_gcdo_div_le(gv, r);
        lemma_gcdo_prod_room(r, bm, gv, rl, bl);
        assert(r * bm == bm * r) by (nonlinear_arith);
    } @*/

    // residue = g - rhs * b
    let brhs_len = rhs_clone.len() + b.len();
    /*@ let ghost rsz = imax(rl + bl + 1, ll); let ghost dn = div_need(rsz, ll);
    proof {
        assert(dn == 0 || gneed(imin(ll / 2, rsz - ll)) == dn);
        lemma_mn_ext_large_room(ll, rl, bl, rem, dn);
        lemma_mem_take(memory.start(), memory.end(), rsz as nat);
    } @*/
    let (residue, mut memory) = memory.allocate_slice_fill((brhs_len + 1).max(lhs_len), 0);
    /*@ let ghost rn = residue@.len() as int; @*/
    /*@ proof { assert(rn == rsz); assert(memory.capw() == rem - rsz); } @*/
    /*@ let ghost res0 = residue@; @*/
    mul::multiply(&mut residue[..brhs_len], rhs_clone, &b, &mut memory);
    /*@ let ghost res1 = residue@; @*/
    /*@ proof {
        assert(rn >= brhs_len + 1 && rn >= ll);
        assert forall|j: int| brhs_len as int <= j < rn implies res1[j] == 0 by { assert(res1[j] == res0[j]); }
        lemma_val_prefix(res1, brhs_len as int);
        assert(val(res1) == r * bm);
        lemma_pw_mono(rl + bl, rn - 1);
    } @*/
    match b_sign {
        Sign::Negative => {
            *residue.last_mut().unwrap() = add::add_in_place(residue, &g) as Word;
            /*@ proof {
                let n = rn - 1;
                let x = r * bm + gv;
                assert(val(residue@) == x) by {
                    // the state `ra` between the addition and the store of its carry into the top word
                    assert(exists|ra: Seq<Word>, k: int, w: Word| gcdo_mid_state(#[trigger] ra.update(k, w), ra, k, w, residue@, n, x, pw(n + 1)));
                    let (ra, k, w) = choose|ra: Seq<Word>, k: int, w: Word| gcdo_mid_state(#[trigger] ra.update(k, w), ra, k, w, residue@, n, x, pw(n + 1));
                    let c = val(ra) != x;
                    lemma_gcdo_carry_top(ra, c, x);
                    assert(residue@ =~= ra);
                }
            } @*/
        }
        Sign::Positive => {
            let overflow = add::sub_in_place(residue, &g);
            /*@ proof {
                lemma_valn_bound(residue@, rn);
                lemma_no_borrow(val(residue@), b2i(overflow), pw(rn), bm * r - gv);
            } @*/
            debug_assert!(!overflow);
        }
    };
    /*@ let ghost res2 = residue@; @*/
    /*@ proof { assert(val(res2) == m * l); } @*/

    // a = residue / lhs
    /*@ let ghost lc0 = lhs_clone@; @*/
    let (shift, fast_div_top) = div::normalize(lhs_clone);
    /*@ let ghost lc1 = lhs_clone@; @*/
    let overflow =
        div::div_rem_unshifted_in_place(residue, lhs_clone, shift, fast_div_top, &mut memory);
    /*@ let ghost res3 = residue@; @*/
    /*@ proof {
        lemma_valn_bound(res3.subrange(0, ll), ll);
        lemma_gcdo_divide(m, l, pow2(shift as int), val(res2), val(lc1), val(res3.subrange(ll, rn)), overflow as int,
            pw(rn - ll), val(res3.subrange(0, ll)));
        let t3 = res3.subrange(0, ll);
        lemma_gcdo_low_zero_val(t3);
        assert(t3[0] == res3[0]);
    } @*/
    let mut a = Buffer::from(&residue[lhs_len..]);
    debug_assert_eq!(residue[0], 0); // this division is an exact division
    /*@ proof { lemma_val_push(a@, overflow); } @*/
    if overflow > 0 {
        a.push(overflow);
    }
    /*@ proof {
        if overflow == 0 { assert((overflow as int) * pw(rn - ll) == 0) by (nonlinear_arith) requires overflow as int == 0; }
        assert(val(a@) == m);
    } @*/

    let g = Repr::from_buffer(g);
    let a = Repr::from_buffer(a).with_sign(-b_sign);
    let b = Repr::from_buffer(b).with_sign(b_sign);
    /*@ proof {
        if swapped { lemma_gcdo_bezout_swap(l, r, g.v(), a.v(), b.v()); }
    } @*/
    if swapped {
        (g, b, a)
    } else {
        (g, a, b)
    }
}
