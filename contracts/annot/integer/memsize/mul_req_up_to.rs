//@ item: integer/src/mul/mod.rs :: memory_requirement_up_to
// PROPERTY: the layout returned for a smaller factor of `smaller_len` words provides at least gneed(smaller_len) Words,
// i.e. enough for every allocation mul::add_signed_mul / multiply can make (lemma_mn_formula_suffices: UNBOUNDED proof that
// the closed forms dominate the real need, lib/mem_need.rs).
pub fn memory_requirement_up_to(_total_len: usize, smaller_len: usize) -> Layout
/*@
    requires smaller_len <= usize::MAX / 8,
    ensures lay_ok(ret, gneed(smaller_len as int)), lay_wordish(ret),
        ret.sz() == wbytes() * mformula(smaller_len as int),
@*/
{
    /*@ proof { lemma_mn_formula_suffices(smaller_len as int); lemma_mn_lay(mformula(smaller_len as int), gneed(smaller_len as int)); } @*/
    if smaller_len <= THRESHOLD_SIMPLE {
        memory::zero_layout()
    } else if smaller_len <= THRESHOLD_KARATSUBA {
        karatsuba::memory_requirement_up_to(smaller_len)
    } else {
        toom_3::memory_requirement_up_to(smaller_len)
    }
}
