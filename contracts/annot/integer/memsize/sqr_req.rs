//@ item: integer/src/sqr/mod.rs :: memory_requirement_exact
pub fn memory_requirement_exact(len: usize) -> Layout
/*@
    requires len <= usize::MAX / 8,
    ensures lay_ok(ret, sqr_need(len as int)), lay_wordish(ret),
@*/
{
    /*@ proof { lemma_mn_need_le_gneed(len as int); } @*/
    if len <= MAX_LEN_SIMPLE {
        memory::zero_layout()
    } else {
        mul::memory_requirement_up_to(2 * len, len)
    }
}
