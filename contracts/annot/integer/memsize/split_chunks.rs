//@ item: integer/src/mul/helpers.rs :: add_signed_mul_split_into_chunks
// RESOURCE contract: the chunk kernel is callable with the scratch chunk as it is (it hands the chunk back unchanged after
// every call), and the remainder product (any smaller length below chunk_len, at most |b|) finds gneed(..) Words.
// Preconditions from the call sites as in the functional copy (chunk_len >= 1, |a| >= chunk_len); 3 |c| + 4 <= SignedWord::MAX
// (slice invariant |c| * size_of::<Word>() <= isize::MAX on the 64-bit target) keeps the structural carry bound rbnd in range.
pub fn add_signed_mul_split_into_chunks<F>(
    mut c: &mut [Word],
    sign: Sign,
    mut a: &[Word],
    b: &[Word],
    chunk_len: usize,
    memory: &mut Memory,
    f_add_signed_mul_chunk: F,
) -> SignedWord
where
    F: Fn(&mut [Word], Sign, &[Word], &[Word], &mut Memory) -> SignedWord,
/*@
    requires a@.len() >= b@.len(), old(c)@.len() == a@.len() + b@.len(), old(c)@.len() <= usize::MAX,
        3 * old(c)@.len() + 4 <= SignedWord::MAX,
        b@.len() <= chunk_len, 1 <= chunk_len <= a@.len(),
        mchunk_fn_ok(f_add_signed_mul_chunk, chunk_len as int, b@.len() as int, old(memory).start(), old(memory).end()),
        mem_ok(*old(memory), gneed(imin(chunk_len as int - 1, b@.len() as int))),
    ensures final(c)@.len() == old(c)@.len(), -rbnd(old(c)@.len() as int) <= ret <= rbnd(old(c)@.len() as int),
        mem_same(*final(memory), *old(memory)),
    decreases b@.len(), a@.len() + b@.len(), 1int
@*/
{
    debug_assert!(a.len() >= b.len() && c.len() == a.len() + b.len());
    debug_assert!(b.len() <= chunk_len);

    let n = b.len();
    let mut carry_n = 0; // at c[n]
    /*@
    let ghost c_orig = c@;
    let ghost s0 = memory.start(); let ghost e0 = memory.end();
    let ghost mut done: Seq<Word> = Seq::empty();
    let ghost need_rem = gneed(imin(chunk_len as int - 1, n as int));
    @*/
    while a.len() >= chunk_len
    /*@
        invariant
            n == b@.len(), n <= chunk_len, 1 <= chunk_len, c@.len() == a@.len() + n, c@.len() <= usize::MAX,
            3 * c_orig.len() + 4 <= SignedWord::MAX,
            c_orig.len() == done.len() + c@.len(),
            done.len() >= chunk_len || a@.len() >= chunk_len,
            -3 <= carry_n <= 3,
            final(old(c))@ == done + final(c)@,
            memory.start() == s0, memory.end() == e0,
            mchunk_fn_ok(f_add_signed_mul_chunk, chunk_len as int, n as int, s0, e0),
        decreases a@.len()
    @*/
    {
        let (a_lo, a_hi) = a.split_at(chunk_len);
        // Propagate carry_n
        carry_n = add::add_signed_word_in_place(&mut c[n..chunk_len + n], carry_n);
        carry_n += f_add_signed_mul_chunk(&mut c[..chunk_len + n], sign, a_lo, b, memory);
        /*@ proof {
            done = done + c@.subrange(0, chunk_len as int);
        } @*/
        a = a_hi;
        c = &mut c[chunk_len..];
    }
    /*@ proof {
        assert(pw(0) == 1);
        assert(val(Seq::<Word>::empty()) == 0);
        assert forall|r: int| #[trigger] (r * pw(0)) == r by { assert(r * 1 == r); }
        lemma_mn_gneed_mono(imin(a@.len() as int, n as int), imin(chunk_len as int - 1, n as int));
    } @*/
    // Propagate carry_n
    let mut carry = add::add_signed_word_in_place(&mut c[n..], carry_n);
    if a.len() >= b.len() {
        carry += mul::add_signed_mul(c, sign, a, b, memory);
    } else if !a.is_empty() {
        carry += mul::add_signed_mul(c, sign, b, a, memory);
    }
    carry
}
