//@ item: integer/src/mul/mod.rs :: add_signed_mul_same_len
// RESOURCE contract of the equal-length dispatcher: need(n) Words (0 below 25 words, kneed(n) up to 192, tneed(n) above).
pub fn add_signed_mul_same_len(
    c: &mut [Word],
    sign: Sign,
    a: &[Word],
    b: &[Word],
    memory: &mut Memory,
) -> SignedWord
/*@
    requires a@.len() == b@.len(), old(c)@.len() == a@.len() + b@.len(), old(c)@.len() <= usize::MAX,
        mem_ok(*old(memory), need(a@.len() as int)),
    ensures final(c)@.len() == old(c)@.len(), -2 <= ret <= 2,
        mem_same(*final(memory), *old(memory)),
@*/
{
    let n = a.len();
    debug_assert!(b.len() == n && c.len() == 2 * n);
    /*@ proof { lemma_mn_need_hbound(n as int); lemma_mn_need_pos(n as int); } @*/

    if n <= THRESHOLD_SIMPLE {
        simple::add_signed_mul_same_len(c, sign, a, b, memory)
    } else if n <= THRESHOLD_KARATSUBA {
        karatsuba::add_signed_mul_same_len(c, sign, a, b, memory)
    } else {
        toom_3::add_signed_mul_same_len(c, sign, a, b, memory)
    }
}
