//@ item: integer/src/mul/simple.rs :: const MAX_SMALLER_LEN
const MAX_SMALLER_LEN: usize = CHUNK_LEN;
