//@ item: integer/src/mul/mod.rs :: memory_requirement_exact
pub fn memory_requirement_exact(total_len: usize, smaller_len: usize) -> Layout
/*@
    requires smaller_len <= usize::MAX / 8,
    ensures lay_ok(ret, gneed(smaller_len as int)), lay_wordish(ret),
        ret.sz() == wbytes() * mformula(smaller_len as int),
@*/
{
    memory_requirement_up_to(total_len, smaller_len)
}
