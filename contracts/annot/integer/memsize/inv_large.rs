//@ item: integer/src/modular/div.rs :: inv_large
// FUNCTIONAL + RESOURCE: the annotations of annot/integer/modular2/inv_large.rs (unit int_moddiv) plus: the allocation made from
// gcd::memory_requirement_ext_exact(|modulus|, raw_len) provides the ext_need(|modulus|) Words that gcd_ext_in_place asks for
// (true only since the repair 914fd28: this is the call site where that defect showed).
fn inv_large(ring: &ConstLargeDivisor, mut raw: ReducedLarge) -> Option<ReducedLarge>
/*@
    #[box_slice(raw.0)]
    requires ring_built(ring), red_ok(&raw, ring),
        3 * (ring.normalized_divisor@.len() + 1) + 4 <= SignedWord::MAX,     // implied by ring_built when Word = u64
    ensures
        // C13: inv(a) is Some(x) with a*x == 1 (mod m) ...
        ret matches Some(x) ==> red_ok(&x, ring) && (resid(&raw, ring) * resid(&x, ring)) % modulus(ring) == 1,
        ret is Some ==> coprime(resid(&raw, ring), modulus(ring)),
        // ... and None only when gcd(a, m) != 1
        ret is None ==> !coprime(resid(&raw, ring), modulus(ring)),
@*/
{
    // prepare modulus
    let mut modulus = Buffer::from(ring.normalized_divisor.deref());
    /*@
    let ghost n = ring.normalized_divisor@.len() as int;
    let ghost p = ring_p(ring);
    let ghost mv = ring_M(ring);
    let ghost m = mv / p;
    let ghost r0 = val(raw.0@);
    let ghost r = r0 / p;
    proof {
        lemma_pow2_pos(ring.shift as int);
        lemma_exact_div(mv, p);
        lemma_exact_div(r0, p);
        lemma_aligned_shr(mv, p, pow2((WORD_BITS - ring.shift) as int));
        lemma_aligned_shr(r0, p, pow2((WORD_BITS - ring.shift) as int));
        lemma_valn_bound(raw.0@, n);
        lemma_valn_bound(ring.normalized_divisor@, n);
        lemma_scaled_lt(r0, mv, p);
        lemma_pw_ge_B(n - 1);
    }
    @*/
    debug_assert_zero!(shr_in_place(&mut modulus, ring.shift));

    // prepare modulo value
    debug_assert_zero!(shr_in_place(&mut raw.0, ring.shift));
    let raw_len = locate_top_word_plus_one(&raw.0);
    /*@ proof {
        assert(val(modulus@) == m && val(raw.0@) == r);
        lemma_val_prefix(raw.0@, raw_len as int);
        lemma_top_nonzero(modulus@);
    } @*/

    // call extended gcd
    let (is_g_one, b_sign) = match raw_len {
        0 => /*@ { proof { lemma_not_coprime(m, r, m); } @*/ return None /*@ } @*/,
        1 => {
            /*@ proof { lemma_valn1(raw.0@); } @*/
            let (g, _, b_sign) = gcd::gcd_ext_word(&mut modulus, *raw.0.first().unwrap());
            /*@ proof { if g != 1 { lemma_not_coprime(g as int, r, m); } } @*/
            (g == 1, b_sign)
        }
        2 => {
            /*@ proof { lemma_valn2(raw.0@); } @*/
            let (g, _, b_sign) = gcd::gcd_ext_dword(&mut modulus, lowest_dword(&raw.0));
            /*@ proof { if g != 1 { lemma_not_coprime(g as int, r, m); } } @*/
            (g == 1, b_sign)
        }
        _ => {
            let mut allocation =
                MemoryAllocation::new(gcd::memory_requirement_ext_exact(modulus.len(), raw_len));
            /*@ proof {
                lemma_mn_gneed_mono(0, (modulus@.len() as int + 1) / 2);      // ext_need > 0
                lemma_mem_alloc(allocation.start(), allocation.size(), allocation.al(), ext_need(modulus@.len() as int));
            } @*/
            let (g_len, b_len, b_sign) = gcd::gcd_ext_in_place(
                &mut modulus,
                &mut raw.0[..raw_len],
                &mut allocation.memory(),
            );
            /*@ let ghost m1 = modulus@; let ghost bb = valn(m1, b_len as int); let ghost g = valn(raw.0@, g_len as int); @*/
            /*@ proof {
                lemma_valn_ext(raw.0@, raw.0@.subrange(0, raw_len as int), g_len as int);
                lemma_valn_top_ge(raw.0@, g_len as int);
                if g_len > 1 { lemma_pw_ge_B(g_len as int - 1); }
                lemma_valn1(raw.0@);
                if g != 1 { lemma_not_coprime(g, r, m); }
            } @*/
            modulus[b_len..].fill(0);
            /*@ proof {
                lemma_val_prefix(modulus@, b_len as int);
                lemma_valn_ext(modulus@, m1, b_len as int);
                assert(val(modulus@) == bb);
            } @*/

            // check if inverse exists
            (g_len == 1 && *raw.0.first().unwrap() == 1, b_sign)
        }
    };
    if !is_g_one {
        return None;
    }

    // return inverse
    /*@
    let ghost bb = val(modulus@);
    proof {
        lemma_bezout_inv(m, r, sgn(b_sign) * bb);
        lemma_sgn_mul(b_sign, bb);
        lemma_valn_bound(modulus@, n);
    }
    @*/
    shl_in_place(&mut modulus, ring.shift);
    /*@ proof {
        // the carry word of the shift is discarded by the code: name it, then show it is zero
        let v = val(modulus@);
        lemma_valn_bound(modulus@, n);
        assert(exists|c: int| 0 <= c && v + #[trigger] (c * pw(n)) == bb * p);
        let c = choose|c: int| 0 <= c && v + #[trigger] (c * pw(n)) == bb * p;
        lemma_pw_pos(n);
        lemma_shl_fits(v, c, pw(n), bb, p, m, mv);
        lemma_div_of_multiple(bb, p);
    } @*/
    let mut inv = ReducedLarge(modulus.into_boxed_slice());
    debug_assert!(inv.is_valid(ring));
    /*@ proof { assert(red_ok(&inv, ring) && resid(&inv, ring) == bb); } @*/
    if b_sign == Sign::Negative {
        negate_in_place(ring, &mut inv);
    }
    /*@ proof {
        assert(m > 1);
        assert((r * (sgn(b_sign) * bb)) % m == 1);
        assert((r * (if b_sign == Sign::Negative { -bb } else { bb })) % m == 1);
        assert(resid(&inv, ring) == (if b_sign == Sign::Negative { (-bb) % m } else { bb }));
        lemma_inv_elem(m, r, bb, b_sign == Sign::Negative, resid(&inv, ring));
        lemma_inv_coprime(r, resid(&inv, ring), m);
    } @*/
    Some(inv)
}
