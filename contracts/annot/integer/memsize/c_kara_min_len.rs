//@ item: integer/src/mul/karatsuba.rs :: const MIN_LEN
const MIN_LEN: usize = 3;
