//@ item: integer/src/gcd_ops.rs :: mod repr :: gcd_large
// FUNCTIONAL + RESOURCE contract of the top-level caller: annotations of annot/integer/gcd_ops/gcd_large.rs plus: the
// allocation made from gcd::memory_requirement_exact provides what gcd::gcd_in_place asks for.  (Holds only with the
// repair proposed_fixes/MEM1 of lehmer::memory_requirement_up_to.)
fn gcd_large(mut lhs: Buffer, mut rhs: Buffer) -> Repr
/*@
    requires large_wf(lhs@), large_wf(rhs@),        // from the call sites: the words of two `Large` operands
        3 * lhs@.len() + 4 <= SignedWord::MAX, 3 * rhs@.len() + 4 <= SignedWord::MAX,   // implied by large_wf when Word = u64
    ensures gcdo_is_gcd(ret.v(), val(lhs@), val(rhs@)),
@*/
{
    /*@ let ghost l0 = val(lhs@); let ghost r0 = val(rhs@); @*/
    /*@ proof { lemma_gcdo_top_ge(lhs@); lemma_gcdo_top_ge(rhs@); lemma_gcdo_gcd_self(l0); } @*/
    // make sure lhs > rhs
    match cmp::cmp_in_place(&lhs, &rhs) {
        Ordering::Greater => {}
        Ordering::Equal => return Repr::from_buffer(lhs),
        Ordering::Less => core::mem::swap(&mut lhs, &mut rhs),
    };

    let mut allocation =
        MemoryAllocation::new(gcd::memory_requirement_exact(lhs.len(), rhs.len()));
    /*@ let ghost lhs1 = lhs@; let ghost rhs1 = rhs@;
    proof { lemma_mem_alloc(allocation.start(), allocation.size(), allocation.al(), gneed(rhs1.len() as int / 2)); } @*/

    let (len, swapped) = gcd::gcd_in_place(&mut lhs, &mut rhs, &mut allocation.memory());
    /*@ proof {
        let gv = if swapped { val(rhs@.subrange(0, len as int)) } else { val(lhs@.subrange(0, len as int)) };
        lemma_gcdo_gcd_sym(gv, val(lhs1), val(rhs1));
    } @*/
    if swapped {
        rhs.truncate(len);
        Repr::from_buffer(rhs)
    } else {
        lhs.truncate(len);
        Repr::from_buffer(lhs)
    }
}
